//! Engine for DbLayers.tla (C20): replays query / commit histories through revm's database
//! layers stacked on a reference in-memory database `RefDb` that holds the model's data D.
//!
//! The adapter only translates: model op -> call on the real layer -> answer in the model's
//! vocabulary (a tuple of small integers).  What the right answer is comes from the specification.
//!
//! usage: dblayers edges <in> <out> layer=<name>
#[path = "../common.rs"]
mod common;
use common::*;

use revm::db::states::bundle_state::BundleRetention;
use revm::db::{CacheDB, EmptyDB, State as BlockState, StateBuilder};
use revm::primitives::db::components::{
    BlockHash as CBlockHash, BlockHashRef as CBlockHashRef, State as CState, StateRef as CStateRef,
};
use revm::primitives::db::{Database, DatabaseCommit, DatabaseComponents, DatabaseRef, WrapDatabaseRef};
use revm::primitives::{
    keccak256, Account, AccountInfo, AccountStatus, Address, Bytecode, Bytes, EvmStorageSlot, HashMap, B256,
    KECCAK_EMPTY, U256,
};
use serde_json::{json, Value};
use std::fmt::Debug;
use std::sync::Arc;

// ------------------------------------------------------------------ model <-> real encodings

/// Model address i (1..4) <-> a 20-byte address.
fn addr(i: i64) -> Address {
    let mut b = [0xA5u8; 20];
    b[0] = 0x10;
    b[19] = i as u8;
    Address::from(b)
}
/// Model slot: 1 -> slot 1, 2 -> the last slot of the 256-bit key space.
fn slot(k: i64) -> U256 {
    match k {
        1 => U256::from(1),
        2 => U256::MAX,
        _ => panic!("slot {k}"),
    }
}
/// Model number v <-> a 256-bit word that uses the high limbs too.
fn word(v: i64) -> U256 {
    if v == 0 {
        U256::ZERO
    } else {
        (U256::from(v as u64) << 200) | U256::from(v as u64)
    }
}
fn unword(x: U256) -> Value {
    let low = (x & U256::from(0xffffu64)).to::<u64>() as i64;
    if word(low) == x {
        json!(low)
    } else {
        json!(format!("word:{x:#x}"))
    }
}
/// Model nonce n <-> u64 (0 stays 0, n>0 sits just below u64::MAX, order preserved).
fn nonce(n: i64) -> u64 {
    if n == 0 {
        0
    } else {
        u64::MAX - 100 + n as u64
    }
}
fn unnonce(n: u64) -> Value {
    if n == 0 {
        json!(0)
    } else if n > u64::MAX - 100 {
        json!((n - (u64::MAX - 100)) as i64)
    } else {
        json!(format!("nonce:{n}"))
    }
}
fn code(c: i64) -> Bytecode {
    Bytecode::new_raw(Bytes::from(vec![0x60, c as u8, 0x50, 0x00]))
}
fn code_hash(c: i64) -> B256 {
    if c == 0 {
        KECCAK_EMPTY
    } else {
        code(c).hash_slow()
    }
}
fn uncode_hash(h: B256) -> Value {
    if h == KECCAK_EMPTY || h == B256::ZERO {
        return json!(0);
    }
    for c in 1..=5 {
        if code_hash(c) == h {
            return json!(c);
        }
    }
    json!(format!("hash:{h}"))
}
fn uncode(b: &Bytecode) -> Value {
    let raw = b.original_byte_slice();
    if raw.is_empty() {
        return json!(0);
    }
    for c in 1..=5 {
        if code(c).original_byte_slice() == raw {
            return json!(c);
        }
    }
    json!(format!("code:{}", Bytes::copy_from_slice(raw)))
}
/// Block hash token: the populated world's RefDb uses number+1000; EmptyDB documents
/// keccak256(decimal string of the number), rendered as number+2000.
fn block_token(n: u64, world_empty: bool) -> B256 {
    if world_empty {
        keccak256(n.to_string().as_bytes())
    } else {
        B256::from(word((n + 1000) as i64))
    }
}
const BLOCKS: [u64; 9] = [0, 1, 2, 255, 256, 257, 258, 600, 601];
fn unblock(h: B256) -> Value {
    for n in BLOCKS {
        if block_token(n, false) == h {
            return json!(n + 1000);
        }
        if block_token(n, true) == h {
            return json!(n + 2000);
        }
    }
    json!(format!("blockhash:{h}"))
}

// ------------------------------------------------------------------ the reference database

/// The underlying data D of DbLayers.tla (populated world), answered directly.
#[derive(Clone, Copy, Debug, Default)]
pub struct RefDb;

#[derive(Debug, Clone, PartialEq, Eq)]
pub struct RefErr(pub String);

impl RefDb {
    fn d_info(a: Address) -> Option<AccountInfo> {
        let mk = |b: i64, n: i64, c: i64| AccountInfo { balance: word(b), nonce: nonce(n), code_hash: code_hash(c), code: None };
        if a == addr(1) {
            Some(mk(3, 1, 1))
        } else if a == addr(2) {
            Some(mk(5, 1, 0))
        } else if a == addr(4) {
            Some(mk(1, 0, 0))
        } else {
            None
        }
    }
    fn d_storage(a: Address, k: U256) -> U256 {
        if a == addr(1) && k == slot(1) {
            word(7)
        } else if a == addr(4) && k == slot(2) {
            word(4)
        } else {
            U256::ZERO
        }
    }
    fn d_has_storage(a: Address) -> bool {
        a == addr(1) || a == addr(4)
    }
    fn d_code(h: B256) -> Result<Bytecode, RefErr> {
        for c in [1, 2] {
            if code_hash(c) == h {
                return Ok(code(c));
            }
        }
        if h == KECCAK_EMPTY {
            return Ok(Bytecode::default());
        }
        Err(RefErr(format!("unknown code hash {h}")))
    }
}

impl DatabaseRef for RefDb {
    type Error = RefErr;
    fn basic_ref(&self, a: Address) -> Result<Option<AccountInfo>, RefErr> {
        Ok(Self::d_info(a))
    }
    fn code_by_hash_ref(&self, h: B256) -> Result<Bytecode, RefErr> {
        Self::d_code(h)
    }
    fn has_storage_ref(&self, a: Address) -> Result<bool, RefErr> {
        Ok(Self::d_has_storage(a))
    }
    fn storage_ref(&self, a: Address, k: U256) -> Result<U256, RefErr> {
        Ok(Self::d_storage(a, k))
    }
    fn block_hash_ref(&self, n: u64) -> Result<B256, RefErr> {
        Ok(block_token(n, false))
    }
}
impl Database for RefDb {
    type Error = RefErr;
    fn basic(&mut self, a: Address) -> Result<Option<AccountInfo>, RefErr> {
        Ok(Self::d_info(a))
    }
    fn code_by_hash(&mut self, h: B256) -> Result<Bytecode, RefErr> {
        Self::d_code(h)
    }
    fn has_storage(&mut self, a: Address) -> Result<bool, RefErr> {
        Ok(Self::d_has_storage(a))
    }
    fn storage(&mut self, a: Address, k: U256) -> Result<U256, RefErr> {
        Ok(Self::d_storage(a, k))
    }
    fn block_hash(&mut self, n: u64) -> Result<B256, RefErr> {
        Ok(block_token(n, false))
    }
}
// The component traits of DatabaseComponents (they have no has-storage query).
impl CState for RefDb {
    type Error = RefErr;
    fn basic(&mut self, a: Address) -> Result<Option<AccountInfo>, RefErr> {
        Ok(Self::d_info(a))
    }
    fn code_by_hash(&mut self, h: B256) -> Result<Bytecode, RefErr> {
        Self::d_code(h)
    }
    fn storage(&mut self, a: Address, k: U256) -> Result<U256, RefErr> {
        Ok(Self::d_storage(a, k))
    }
}
impl CBlockHash for RefDb {
    type Error = RefErr;
    fn block_hash(&mut self, n: u64) -> Result<B256, RefErr> {
        Ok(block_token(n, false))
    }
}
/// Same data through the by-reference component traits.
#[derive(Clone, Copy, Debug, Default)]
pub struct RefDbR;
impl CStateRef for RefDbR {
    type Error = RefErr;
    fn basic(&self, a: Address) -> Result<Option<AccountInfo>, RefErr> {
        Ok(RefDb::d_info(a))
    }
    fn code_by_hash(&self, h: B256) -> Result<Bytecode, RefErr> {
        RefDb::d_code(h)
    }
    fn storage(&self, a: Address, k: U256) -> Result<U256, RefErr> {
        Ok(RefDb::d_storage(a, k))
    }
}
impl CBlockHashRef for RefDbR {
    type Error = RefErr;
    fn block_hash(&self, n: u64) -> Result<B256, RefErr> {
        Ok(block_token(n, false))
    }
}

// ------------------------------------------------------------------ layers

type R<T> = Result<T, String>;
fn es<T, E: Debug>(r: Result<T, E>) -> R<T> {
    r.map_err(|e| format!("{e:?}"))
}

/// What the replay needs from a layer.  Writers default to "unsupported" (the check never sends
/// such edges to a layer that lacks the interface).
trait Layer {
    fn basic(&mut self, a: Address) -> R<Option<AccountInfo>>;
    fn code_by_hash(&mut self, h: B256) -> R<Bytecode>;
    fn has_storage(&mut self, a: Address) -> R<bool>;
    fn storage(&mut self, a: Address, k: U256) -> R<U256>;
    fn block_hash(&mut self, n: u64) -> R<B256>;
    fn commit(&mut self, _ch: HashMap<Address, Account>) {
        panic!("layer does not implement DatabaseCommit")
    }
    fn insert_info(&mut self, _a: Address, _i: AccountInfo) {
        panic!("layer has no insert_account_info")
    }
    fn insert_storage(&mut self, _a: Address, _k: U256, _v: U256) {
        panic!("layer has no insert_account_storage")
    }
    fn replace_storage(&mut self, _a: Address, _s: HashMap<U256, U256>) {
        panic!("layer has no replace_account_storage")
    }
}

// generic, monomorphised entry points: the call goes through exactly the impl of `D`
fn q_basic<D: Database>(d: &mut D, a: Address) -> R<Option<AccountInfo>>
where
    D::Error: Debug,
{
    es(d.basic(a))
}
fn q_code<D: Database>(d: &mut D, h: B256) -> R<Bytecode>
where
    D::Error: Debug,
{
    es(d.code_by_hash(h))
}
fn q_has<D: Database>(d: &mut D, a: Address) -> R<bool>
where
    D::Error: Debug,
{
    es(d.has_storage(a))
}
fn q_sto<D: Database>(d: &mut D, a: Address, k: U256) -> R<U256>
where
    D::Error: Debug,
{
    es(d.storage(a, k))
}
fn q_bh<D: Database>(d: &mut D, n: u64) -> R<B256>
where
    D::Error: Debug,
{
    es(d.block_hash(n))
}
fn c_commit<D: DatabaseCommit>(d: &mut D, ch: HashMap<Address, Account>) {
    d.commit(ch)
}

macro_rules! db_queries {
    ($($f:tt)+) => {
        fn basic(&mut self, a: Address) -> R<Option<AccountInfo>> {
            q_basic(&mut self.$($f)+, a)
        }
        fn code_by_hash(&mut self, h: B256) -> R<Bytecode> {
            q_code(&mut self.$($f)+, h)
        }
        fn has_storage(&mut self, a: Address) -> R<bool> {
            q_has(&mut self.$($f)+, a)
        }
        fn storage(&mut self, a: Address, k: U256) -> R<U256> {
            q_sto(&mut self.$($f)+, a, k)
        }
        fn block_hash(&mut self, n: u64) -> R<B256> {
            q_bh(&mut self.$($f)+, n)
        }
    };
}

/// Any `Database`, queries only.
struct Db<T>(T);
impl<T: Database> Layer for Db<T>
where
    T::Error: Debug,
{
    db_queries!(0);
}

/// Any `DatabaseRef`, asked through the by-reference interface.
struct DbR<T>(T);
impl<T: DatabaseRef> Layer for DbR<T>
where
    T::Error: Debug,
{
    fn basic(&mut self, a: Address) -> R<Option<AccountInfo>> {
        es(self.0.basic_ref(a))
    }
    fn code_by_hash(&mut self, h: B256) -> R<Bytecode> {
        es(self.0.code_by_hash_ref(h))
    }
    fn has_storage(&mut self, a: Address) -> R<bool> {
        es(self.0.has_storage_ref(a))
    }
    fn storage(&mut self, a: Address, k: U256) -> R<U256> {
        es(self.0.storage_ref(a, k))
    }
    fn block_hash(&mut self, n: u64) -> R<B256> {
        es(self.0.block_hash_ref(n))
    }
}

/// `&mut T` as the database: every call goes through `impl Database for &mut T` (auto_impl).
struct MutRef<T>(T);
impl<T: Database> Layer for MutRef<T>
where
    T::Error: Debug,
{
    fn basic(&mut self, a: Address) -> R<Option<AccountInfo>> {
        let mut r: &mut T = &mut self.0;
        q_basic::<&mut T>(&mut r, a)
    }
    fn code_by_hash(&mut self, h: B256) -> R<Bytecode> {
        let mut r: &mut T = &mut self.0;
        q_code::<&mut T>(&mut r, h)
    }
    fn has_storage(&mut self, a: Address) -> R<bool> {
        let mut r: &mut T = &mut self.0;
        q_has::<&mut T>(&mut r, a)
    }
    fn storage(&mut self, a: Address, k: U256) -> R<U256> {
        let mut r: &mut T = &mut self.0;
        q_sto::<&mut T>(&mut r, a, k)
    }
    fn block_hash(&mut self, n: u64) -> R<B256> {
        let mut r: &mut T = &mut self.0;
        q_bh::<&mut T>(&mut r, n)
    }
}

/// CacheDB and what is wrapped around it; `W` says how the CacheDB is reached.
enum CacheVia {
    /// CacheDB used as `Database`
    Db,
    /// CacheDB used as `DatabaseRef`
    Ref,
    /// `&mut CacheDB` used as `Database` + `DatabaseCommit` (auto_impl)
    MutRef,
    /// `WrapDatabaseRef<CacheDB>` used as `Database` + `DatabaseCommit`
    Wrap,
    /// `Box<CacheDB>` used as `Database` + `DatabaseCommit` (auto_impl)
    Boxed,
}
struct Cache<E: DatabaseRef> {
    via: CacheVia,
    db: Option<CacheDB<E>>,
}
impl<E: DatabaseRef> Cache<E>
where
    E::Error: Debug,
{
    fn with<T>(&mut self, f: impl FnOnce(&mut dyn Layer) -> T) -> T {
        let db = self.db.take().unwrap();
        match self.via {
            CacheVia::Db => {
                let mut l = Db(db);
                let r = f(&mut l);
                self.db = Some(l.0);
                r
            }
            CacheVia::Ref => {
                let mut l = DbR(db);
                let r = f(&mut l);
                self.db = Some(l.0);
                r
            }
            CacheVia::MutRef => {
                let mut l = MutRef(db);
                let r = f(&mut l);
                self.db = Some(l.0);
                r
            }
            CacheVia::Wrap => {
                let mut l = Db(WrapDatabaseRef(db));
                let r = f(&mut l);
                self.db = Some(l.0 .0);
                r
            }
            CacheVia::Boxed => {
                let mut l = Db(Box::new(db));
                let r = f(&mut l);
                self.db = Some(*l.0);
                r
            }
        }
    }
}
impl<E: DatabaseRef> Layer for Cache<E>
where
    E::Error: Debug,
{
    fn basic(&mut self, a: Address) -> R<Option<AccountInfo>> {
        self.with(|l| l.basic(a))
    }
    fn code_by_hash(&mut self, h: B256) -> R<Bytecode> {
        self.with(|l| l.code_by_hash(h))
    }
    fn has_storage(&mut self, a: Address) -> R<bool> {
        self.with(|l| l.has_storage(a))
    }
    fn storage(&mut self, a: Address, k: U256) -> R<U256> {
        self.with(|l| l.storage(a, k))
    }
    fn block_hash(&mut self, n: u64) -> R<B256> {
        self.with(|l| l.block_hash(n))
    }
    fn commit(&mut self, ch: HashMap<Address, Account>) {
        let db = self.db.as_mut().unwrap();
        match self.via {
            CacheVia::Db | CacheVia::Ref => c_commit(db, ch),
            CacheVia::MutRef => {
                let mut r: &mut CacheDB<E> = db;
                c_commit::<&mut CacheDB<E>>(&mut r, ch)
            }
            CacheVia::Wrap => {
                let mut w = WrapDatabaseRef(self.db.take().unwrap());
                c_commit(&mut w, ch);
                self.db = Some(w.0);
            }
            CacheVia::Boxed => {
                let mut b = Box::new(self.db.take().unwrap());
                c_commit::<Box<CacheDB<E>>>(&mut b, ch);
                self.db = Some(*b);
            }
        }
    }
    fn insert_info(&mut self, a: Address, i: AccountInfo) {
        self.db.as_mut().unwrap().insert_account_info(a, i)
    }
    fn insert_storage(&mut self, a: Address, k: U256, v: U256) {
        es(self.db.as_mut().unwrap().insert_account_storage(a, k, v)).unwrap()
    }
    fn replace_storage(&mut self, a: Address, s: HashMap<U256, U256>) {
        es(self.db.as_mut().unwrap().replace_account_storage(a, s)).unwrap()
    }
}

/// State (the block-level cache) over any database; `merge`: built with_bundle_update and the
/// transitions are merged into the bundle after every commit.
struct Block<D: Database> {
    st: BlockState<D>,
    merge: bool,
}
impl<D: Database> Layer for Block<D>
where
    D::Error: Debug,
{
    db_queries!(st);
    fn commit(&mut self, ch: HashMap<Address, Account>) {
        c_commit(&mut self.st, ch);
        if self.merge {
            self.st.merge_transitions(BundleRetention::Reverts);
        }
    }
}

fn make_layer(name: &str) -> Box<dyn Layer> {
    match name {
        // ---- adapters
        "ref" => Box::new(Db(RefDb)),
        "ref_asref" => Box::new(DbR(RefDb)),
        "mutref" => Box::new(MutRef(RefDb)),
        "boxdyn" => {
            let b: Box<dyn Database<Error = RefErr>> = Box::new(RefDb);
            Box::new(Db(b))
        }
        "wrapref" => Box::new(Db(WrapDatabaseRef(RefDb))),
        "wrap_arc" => Box::new(Db(WrapDatabaseRef(Arc::new(RefDb)))),
        "wrap_borrow" => {
            static D: RefDb = RefDb;
            Box::new(Db(WrapDatabaseRef(&D)))
        }
        "components" => Box::new(Db(DatabaseComponents { state: RefDb, block_hash: RefDb })),
        "components_ref" => Box::new(DbR(DatabaseComponents { state: RefDbR, block_hash: RefDbR })),
        // ---- CacheDB
        "cachedb" => Box::new(Cache { via: CacheVia::Db, db: Some(CacheDB::new(RefDb)) }),
        "cachedb_ref" => Box::new(Cache { via: CacheVia::Ref, db: Some(CacheDB::new(RefDb)) }),
        "cachedb_mutref" => Box::new(Cache { via: CacheVia::MutRef, db: Some(CacheDB::new(RefDb)) }),
        "cachedb_wrap" => Box::new(Cache { via: CacheVia::Wrap, db: Some(CacheDB::new(RefDb)) }),
        "cachedb_boxed" => Box::new(Cache { via: CacheVia::Boxed, db: Some(CacheDB::new(RefDb)) }),
        "cachedb2" => Box::new(Cache { via: CacheVia::Db, db: Some(CacheDB::new(CacheDB::new(RefDb))) }),
        "cachedb2_ref" => Box::new(Cache { via: CacheVia::Ref, db: Some(CacheDB::new(CacheDB::new(RefDb))) }),
        // ---- State
        "state" => Box::new(Block { st: StateBuilder::new_with_database(RefDb).build(), merge: false }),
        "state_bundle" => {
            Box::new(Block { st: StateBuilder::new_with_database(RefDb).with_bundle_update().build(), merge: true })
        }
        "state_wrapref" => Box::new(Block { st: StateBuilder::new().with_database_ref(RefDb).build(), merge: false }),
        "state_boxed" => {
            let b: revm::db::DBBox<'static, RefErr> = Box::new(RefDb);
            Box::new(Block { st: StateBuilder::new().with_database_boxed(b).with_bundle_update().build(), merge: false })
        }
        "state_cachedb" => Box::new(Block {
            st: StateBuilder::new_with_database(CacheDB::new(RefDb)).with_bundle_update().build(),
            merge: true,
        }),
        // ---- the empty world: revm's EmptyDB is the data
        "emptydb" => Box::new(Db(EmptyDB::new())),
        "emptydb_ref" => Box::new(DbR(EmptyDB::new())),
        "inmemorydb" => Box::new(Cache { via: CacheVia::Db, db: Some(revm::InMemoryDB::default()) }),
        "inmemorydb_ref" => Box::new(Cache { via: CacheVia::Ref, db: Some(revm::InMemoryDB::default()) }),
        "state_empty" => Box::new(Block { st: BlockState::builder().with_bundle_update().build(), merge: true }),
        o => panic!("unknown layer {o}"),
    }
}

// ------------------------------------------------------------------ the engine

struct DbEngine {
    layer: String,
}

fn info_of(op: &Value, with_code: bool) -> AccountInfo {
    let c = geti(op, "code");
    AccountInfo {
        balance: word(geti(op, "bal")),
        nonce: nonce(geti(op, "nonce")),
        code_hash: code_hash(c),
        code: if with_code && c != 0 { Some(code(c)) } else { None },
    }
}
/// `w` is a sequence of <<slot, old, new>>.
fn evm_storage(op: &Value) -> HashMap<U256, EvmStorageSlot> {
    let mut m = HashMap::default();
    for t in op["w"].as_array().cloned().unwrap_or_default() {
        let t = t.as_array().unwrap();
        let (k, old, new) = (t[0].as_i64().unwrap(), t[1].as_i64().unwrap(), t[2].as_i64().unwrap());
        m.insert(slot(k), EvmStorageSlot::new_changed(word(old), word(new)));
    }
    m
}
fn ans_err(e: String) -> Value {
    json!({ "err": e })
}
fn is_blank(i: &AccountInfo) -> bool {
    i.balance.is_zero() && i.nonce == 0 && (i.code_hash == KECCAK_EMPTY || i.code_hash == B256::ZERO)
}

impl Engine for DbEngine {
    type S = Box<dyn Layer>;
    fn init(&self, _cfg: &Value) -> Self::S {
        make_layer(&self.layer)
    }
    /// A database layer has no state that could be read without asking it (and asking changes
    /// caches), so there is no pre-state projection: every edge is judged on its answer.
    fn project(&self, _s: &Self::S) -> Value {
        Value::Null
    }
    fn apply(&self, s: &mut Self::S, op: &Value) -> Value {
        let a = || addr(geti(op, "a"));
        let ans = match gets(op, "op") {
            "basic" => match s.basic(a()) {
                Err(e) => ans_err(e),
                Ok(None) => json!([0, 0, 0, 0]),
                // `dust`: the specification says absent and empty are the same answer here
                Ok(Some(i)) if getb(op, "dust") && is_blank(&i) => json!([0, 0, 0, 0]),
                Ok(Some(i)) => json!([1, unword(i.balance), unnonce(i.nonce), uncode_hash(i.code_hash)]),
            },
            "has_storage" => match s.has_storage(a()) {
                Err(e) => ans_err(e),
                Ok(b) => json!([b as i64]),
            },
            "storage" => match s.storage(a(), slot(geti(op, "k"))) {
                Err(e) => ans_err(e),
                Ok(v) => json!([unword(v)]),
            },
            // journaled_state::load_code: basic, then code_by_hash unless the info carries the bytes
            "acode" => match s.basic(a()) {
                Err(e) => ans_err(e),
                Ok(None) => json!([0]),
                Ok(Some(i)) => match i.code {
                    Some(b) => json!([uncode(&b)]),
                    None if i.code_hash == KECCAK_EMPTY => json!([0]),
                    None => match s.code_by_hash(i.code_hash) {
                        Err(e) => ans_err(e),
                        Ok(b) => json!([uncode(&b)]),
                    },
                },
            },
            "code_by_hash" => match s.code_by_hash(code_hash(geti(op, "h"))) {
                Err(e) => ans_err(e),
                Ok(b) => json!([uncode(&b)]),
            },
            "block_hash" => match s.block_hash(geti(op, "n") as u64) {
                Err(e) => ans_err(e),
                Ok(h) => json!([unblock(h)]),
            },
            // ---- DatabaseCommit::commit with an EvmState-shaped change set
            "touch" => {
                let acc = Account { info: info_of(op, true), storage: evm_storage(op), status: AccountStatus::Touched };
                s.commit(HashMap::from_iter([(a(), acc)]));
                json!([])
            }
            "create" => {
                let acc = Account {
                    info: info_of(op, true),
                    storage: evm_storage(op),
                    status: AccountStatus::Touched | AccountStatus::Created,
                };
                s.commit(HashMap::from_iter([(a(), acc)]));
                json!([])
            }
            "selfdestruct" => {
                let mut st = AccountStatus::Touched | AccountStatus::SelfDestructed;
                if getb(op, "cr") {
                    st |= AccountStatus::Created;
                }
                let acc = Account { info: AccountInfo::default(), storage: HashMap::default(), status: st };
                s.commit(HashMap::from_iter([(a(), acc)]));
                json!([])
            }
            "untouched" => {
                // present in the change set with other contents, but not marked touched
                let info = AccountInfo { balance: word(9), nonce: nonce(3), code_hash: code_hash(3), code: Some(code(3)) };
                let storage = HashMap::from_iter([(slot(1), EvmStorageSlot::new_changed(word(1), word(9)))]);
                let acc = Account { info, storage, status: AccountStatus::Loaded };
                s.commit(HashMap::from_iter([(a(), acc)]));
                json!([])
            }
            "commit2" => {
                let acc = Account { info: info_of(op, true), storage: HashMap::default(), status: AccountStatus::Touched };
                let dead = Account {
                    info: AccountInfo::default(),
                    storage: HashMap::default(),
                    status: AccountStatus::Touched | AccountStatus::SelfDestructed,
                };
                s.commit(HashMap::from_iter([(a(), acc), (addr(geti(op, "b")), dead)]));
                json!([])
            }
            // ---- CacheDB's direct writers
            "insert_info" => {
                s.insert_info(a(), info_of(op, true));
                json!([])
            }
            "insert_storage" => {
                s.insert_storage(a(), slot(geti(op, "k")), word(geti(op, "v")));
                json!([])
            }
            "replace_storage" => {
                let mut m = HashMap::default();
                for t in op["w"].as_array().cloned().unwrap_or_default() {
                    let t = t.as_array().unwrap();
                    m.insert(slot(t[0].as_i64().unwrap()), word(t[1].as_i64().unwrap()));
                }
                s.replace_storage(a(), m);
                json!([])
            }
            o => panic!("unknown op {o}"),
        };
        json!({ "ans": ans })
    }
    /// Group by operation, kind of wrong answer, address kind and the last write that address saw:
    /// "<op>:<kind>@a<address>:<last write op | ->" (code_by_hash: "@h<code>").
    fn signature(&self, op: &Value, diff: &[String], exp: &Value, got: &Value) -> String {
        self.signature_h(&[], op, diff, exp, got)
    }
    fn signature_h(&self, hist: &[Value], op: &Value, _diff: &[String], exp: &Value, got: &Value) -> String {
        let name = op.get("op").and_then(|v| v.as_str()).unwrap_or("?");
        let cls = |v: &Value| match v.as_i64() {
            Some(0) => "0".to_string(),
            Some(_) => "nz".to_string(),
            None => "other".to_string(),
        };
        let kind = if got.get("panic").is_some() {
            "panic".to_string()
        } else if got["ans"].get("err").is_some() {
            "error".to_string()
        } else {
            match (exp["ans"].as_array(), got["ans"].as_array()) {
                (Some(e), Some(g)) if e.len() == g.len() && e.len() == 4 => {
                    if e[0] != g[0] {
                        format!("exists:{}->{}", e[0], g[0])
                    } else {
                        let names = ["exists", "balance", "nonce", "code"];
                        (0..4).filter(|&i| e[i] != g[i]).map(|i| names[i]).collect::<Vec<_>>().join("+")
                    }
                }
                (Some(e), Some(g)) if e.len() == g.len() && e.len() == 1 => format!("{}->{}", cls(&e[0]), cls(&g[0])),
                _ => "shape".to_string(),
            }
        };
        let place = if let Some(a) = op.get("a").and_then(|v| v.as_i64()) {
            let last = hist
                .iter()
                .rev()
                .filter(|h| {
                    let o = h["op"].as_str().unwrap_or("");
                    let writes = !matches!(o, "basic" | "has_storage" | "storage" | "acode" | "code_by_hash" | "block_hash");
                    writes && (h["a"].as_i64() == Some(a) || h.get("b").and_then(|v| v.as_i64()) == Some(a))
                })
                .map(|h| h["op"].as_str().unwrap_or("?").to_string())
                .next()
                .unwrap_or("-".to_string());
            format!("@a{a}:{last}")
        } else if let Some(h) = op.get("h").and_then(|v| v.as_i64()) {
            format!("@h{h}")
        } else {
            String::new()
        };
        format!("{name}:{kind}{place}")
    }
}

fn main() {
    let a = Args::parse();
    let eng = DbEngine { layer: a.gets("layer", "ref") };
    match a.mode.as_str() {
        "edges" => run_edges(&eng, &a.input, a.output.as_deref()),
        m => a.bad_mode(m),
    }
}
