//! Recorder for Bundle.tla / BundleJudge.tla (C15..C19): executes TLC-generated histories on
//! revm's `State` / `BundleState` (and `CacheDB`) and RECORDS what the real code answers.  It
//! compares nothing: module BundleJudge decides whether each recorded answer means the right thing.
#[path = "../common.rs"]
mod common;
#[path = "../refdb.rs"]
mod refdb;
use common::*;
use refdb::RefDb;
use revm::db::states::bundle_state::BundleRetention;
use revm::db::states::{PlainStateReverts, StateChangeset};
use revm::db::{BundleState, CacheDB, OriginalValuesKnown, RevertToSlot, State};
use revm::primitives::{
    Account, AccountInfo, AccountStatus, Address, Bytecode, EvmStorageSlot, HashMap, B256, KECCAK_EMPTY, U256,
};
use revm::{Database, DatabaseCommit};
use serde_json::{json, Map, Value};
use std::collections::BTreeMap;
use std::panic::{catch_unwind, AssertUnwindSafe};

struct Cfg {
    addrs: Vec<u64>,
    slots: Vec<u64>,
    state_clear: bool,
    d0: Value,
    codes: BTreeMap<B256, i64>,
}

fn addr(a: u64) -> Address {
    let mut b = [0u8; 20];
    b[0] = 0xa0;
    b[12..].copy_from_slice(&a.to_be_bytes());
    Address::from(b)
}
fn unaddr(a: &Address) -> String {
    u64::from_be_bytes(a.0[12..].try_into().unwrap()).to_string()
}
fn balk() -> U256 {
    U256::from(1_000_000_000_000_000_000u64)
}
fn bal(v: i64) -> U256 {
    U256::from(v as u64) * balk()
}
fn unbal(r: U256) -> Value {
    if r % balk() == U256::ZERO && r / balk() < U256::from(1000u32) { json!((r / balk()).to::<u64>()) } else { json!(-1) }
}
fn valk() -> U256 {
    (U256::from(1u8) << 192) + U256::from(7u8)
}
fn val(v: i64) -> U256 {
    U256::from(v as u64) * valk()
}
fn unval(r: U256) -> Value {
    if r % valk() == U256::ZERO && r / valk() < U256::from(1000u32) { json!((r / valk()).to::<u64>()) } else { json!(-1) }
}
fn code_of(c: i64) -> Bytecode {
    if c == 0 { Bytecode::default() } else { Bytecode::new_raw(vec![0x60, c as u8, 0x00].into()) }
}

impl Cfg {
    fn code_id(&self, h: &B256) -> Value {
        if h.is_zero() {
            return json!(0);
        }
        match self.codes.get(h) { Some(c) => json!(c), None => json!(-1) }
    }
    fn info_json(&self, i: Option<&AccountInfo>) -> Value {
        match i {
            None => json!({"ex": false, "bal": 0, "nonce": 0, "code": 0}),
            Some(i) => json!({"ex": true, "bal": unbal(i.balance), "nonce": i.nonce, "code": self.code_id(&i.code_hash)}),
        }
    }
    fn info_of(&self, v: &Value) -> AccountInfo {
        let c = geti(v, "code");
        let code = code_of(c);
        AccountInfo { balance: bal(geti(v, "bal")), nonce: geti(v, "nonce") as u64,
                      code_hash: if c == 0 { KECCAK_EMPTY } else { code.hash_slow() }, code: Some(code) }
    }
    /// A reference database holding the plain state `p` ({"16": {"info":.., "stor": {"0": v}}}).
    fn db_of(&self, p: &Value) -> RefDb {
        let mut db = RefDb::default();
        for (a, acc) in p.as_object().unwrap() {
            let a: u64 = a.parse().unwrap();
            let i = &acc["info"];
            if getb(i, "ex") {
                let c = geti(i, "code");
                db.insert_account(addr(a), bal(geti(i, "bal")), geti(i, "nonce") as u64, if c == 0 { None } else { Some(code_of(c)) });
            }
            for (k, v) in acc["stor"].as_object().unwrap() {
                db.insert_storage(addr(a), U256::from(k.parse::<u64>().unwrap()), val(v.as_i64().unwrap()));
            }
        }
        db
    }
    fn new_state(&self, db: RefDb, prestate: Option<BundleState>) -> State<RefDb> {
        let mut b = State::builder().with_database(db).with_bundle_update();
        if !self.state_clear {
            b = b.without_state_clear();
        }
        if let Some(p) = prestate {
            b = b.with_bundle_prestate(p);
        }
        b.build()
    }

    // ---- mutating operations, as the EVM / a block executor would perform them
    fn apply<DB: Database<Error = std::convert::Infallible> + DatabaseCommit>(&self, db: &mut DB, op: &Value) {
        match gets(op, "op") {
            "commit" => {
                let mut m: HashMap<Address, Account> = HashMap::default();
                for e in op["effs"].as_array().unwrap() {
                    let a = addr(geti(e, "a") as u64);
                    let kind = gets(e, "kind");
                    // the EVM always loads an account before it reports it
                    let loaded = db.basic(a).unwrap();
                    let mut acc = Account::default();
                    acc.info = match kind {
                        "change" | "create" => self.info_of(&e["info"]),
                        "selfdestruct" => { let mut i = self.info_of(&e["info"]); i.balance = U256::ZERO; i }
                        "create_destroy" => AccountInfo { nonce: 1, ..Default::default() },
                        "touch_empty" => AccountInfo::default(),
                        _ => loaded.clone().unwrap_or_default(),
                    };
                    if acc.info.code.is_none() {
                        acc.info.code = Some(db.code_by_hash(acc.info.code_hash).unwrap());
                    }
                    acc.status = match kind {
                        "change" | "touch_empty" => AccountStatus::Touched,
                        "create" => AccountStatus::Touched | AccountStatus::Created,
                        "selfdestruct" => AccountStatus::Touched | AccountStatus::SelfDestructed,
                        "create_destroy" => AccountStatus::Touched | AccountStatus::Created | AccountStatus::SelfDestructed,
                        _ => AccountStatus::Loaded,
                    };
                    if loaded.is_none() && kind != "create" && kind != "create_destroy" {
                        acc.status |= AccountStatus::LoadedAsNotExisting;
                    }
                    for w in e["w"].as_array().unwrap() {
                        let k = U256::from(geti(w, "k") as u64);
                        if kind == "change" {
                            // SSTORE reads the slot first
                            let _ = db.storage(a, k).unwrap();
                        }
                        acc.storage.insert(k, EvmStorageSlot { original_value: val(geti(w, "o")), present_value: val(geti(w, "n")), is_cold: false });
                    }
                    m.insert(a, acc);
                }
                db.commit(m);
            }
            _ => {}
        }
    }

    fn apply_state(&self, s: &mut State<RefDb>, op: &Value) -> Value {
        match gets(op, "op") {
            "commit" => { self.apply(s, op); Value::Null }
            "increment" => {
                let amt = (geti(op, "amt") as u128) * 1_000_000_000_000_000_000u128;
                s.increment_balances(vec![(addr(geti(op, "a") as u64), amt)]).unwrap();
                Value::Null
            }
            "drain" => {
                let r = s.drain_balances(vec![addr(geti(op, "a") as u64)]).unwrap();
                json!({"drained": r.iter().map(|b| unbal(U256::from(*b))).collect::<Vec<_>>()})
            }
            "merge" => { s.merge_transitions(BundleRetention::Reverts); Value::Null }
            "read" => self.read(s),
            _ => Value::Null,
        }
    }

    // ---- observations
    fn read<DB: Database<Error = std::convert::Infallible>>(&self, db: &mut DB) -> Value {
        let mut acct = Map::new();
        let mut stor = Map::new();
        let mut code_ok = true; // code as the EVM obtains it: the info's code if present, else code_by_hash
        let mut cbh_ok = true; // code_by_hash asked directly
        for &a in &self.addrs {
            let i = db.basic(addr(a)).unwrap();
            if let Some(i) = &i {
                if i.code_hash != KECCAK_EMPTY && !i.code_hash.is_zero() {
                    let c = db.code_by_hash(i.code_hash).unwrap();
                    cbh_ok &= c.hash_slow() == i.code_hash;
                    match &i.code {
                        Some(c2) => code_ok &= c2.hash_slow() == i.code_hash,
                        None => code_ok &= c.hash_slow() == i.code_hash,
                    }
                }
            }
            acct.insert(a.to_string(), self.info_json(i.as_ref()));
            let mut m = Map::new();
            for &k in &self.slots {
                m.insert(k.to_string(), unval(db.storage(addr(a), U256::from(k)).unwrap()));
            }
            stor.insert(a.to_string(), Value::Object(m));
        }
        json!({"acct": acct, "stor": stor, "code_ok": code_ok, "cbh_ok": cbh_ok})
    }
    fn cs_json(&self, cs: &StateChangeset) -> Value {
        let mut accounts: Vec<Value> = cs.accounts.iter().map(|(a, i)| json!({"a": unaddr(a), "info": self.info_json(i.as_ref())})).collect();
        accounts.sort_by_key(|v| v["a"].as_str().unwrap().to_string());
        let mut storage: Vec<Value> = cs.storage.iter().map(|s| {
            let mut slots: Vec<Value> = s.storage.iter().map(|(k, v)| json!({"k": k.to_string(), "v": unval(*v)})).collect();
            slots.sort_by_key(|v| v["k"].as_str().unwrap().to_string());
            json!({"a": unaddr(&s.address), "wipe": s.wipe_storage, "slots": slots})
        }).collect();
        storage.sort_by_key(|v| v["a"].as_str().unwrap().to_string());
        let mut contracts: Vec<Value> = cs.contracts.iter().map(|(h, c)| json!({"id": self.code_id(h), "ok": c.hash_slow() == *h})).collect();
        contracts.sort_by_key(|v| v["id"].to_string());
        json!({"accounts": accounts, "storage": storage, "contracts": contracts})
    }
    fn rev_json(&self, r: &PlainStateReverts) -> Value {
        let mut groups = vec![];
        for (accs, stors) in r.accounts.iter().zip(r.storage.iter()) {
            let mut accounts: Vec<Value> = accs.iter().map(|(a, i)| json!({"a": unaddr(a), "info": self.info_json(i.as_ref())})).collect();
            accounts.sort_by_key(|v| v["a"].as_str().unwrap().to_string());
            let mut storage: Vec<Value> = stors.iter().map(|s| {
                let mut slots: Vec<Value> = s.storage_revert.iter().map(|(k, v)| match v {
                    RevertToSlot::Some(x) => json!({"k": k.to_string(), "v": unval(x.clone()), "d": false}),
                    RevertToSlot::Destroyed => json!({"k": k.to_string(), "v": 0, "d": true}),
                }).collect();
                slots.sort_by_key(|v| v["k"].as_str().unwrap().to_string());
                json!({"a": unaddr(&s.address), "wiped": s.wiped, "slots": slots})
            }).collect();
            storage.sort_by_key(|v| v["a"].as_str().unwrap().to_string());
            groups.push(json!({"accounts": accounts, "storage": storage}));
        }
        json!(groups)
    }
    fn bundle_json(&self, b: &BundleState) -> Value {
        json!({"cs_yes": self.cs_json(&b.to_plain_state(OriginalValuesKnown::Yes)),
               "cs_no": self.cs_json(&b.to_plain_state(OriginalValuesKnown::No)),
               "reverts": self.rev_json(&b.reverts.to_plain_state_reverts())})
    }

    fn replay(&self, s: &mut State<RefDb>, ops: &[Value]) {
        for op in ops {
            self.apply_state(s, op);
        }
    }
}

fn main() {
    let a = Args::parse();
    std::panic::set_hook(Box::new(|_| {}));
    let v: Value = serde_json::from_str(&std::fs::read_to_string(a.gets("cfg", "")).unwrap()).unwrap();
    let mut codes = BTreeMap::new();
    codes.insert(KECCAK_EMPTY, 0);
    for c in 1..4 {
        codes.insert(code_of(c).hash_slow(), c);
    }
    let cfg = Cfg {
        addrs: v["addr"].as_array().unwrap().iter().map(|x| x.as_u64().unwrap()).collect(),
        slots: v["slot"].as_array().unwrap().iter().map(|x| x.as_u64().unwrap()).collect(),
        state_clear: v["state_clear"].as_bool().unwrap(),
        d0: v["d0"].clone(),
        codes,
    };
    let layer = a.gets("layer", "state");
    use std::io::BufRead;
    let input = std::io::BufReader::new(std::fs::File::open(&a.input).unwrap());
    let mut out = Out::new(a.output.as_deref());
    let mut n_panic = 0u64;
    let mut n_edges = 0u64;
    let mut ops_seen: BTreeMap<String, u64> = BTreeMap::new();
    for (idx, line) in input.lines().enumerate() {
        let line = line.unwrap();
        if line.trim().is_empty() {
            continue;
        }
        let e: Value = serde_json::from_str(&line).unwrap();
        let e = &e;
        n_edges += 1;
        let hist = e["hist"].as_array().cloned().unwrap_or_default();
        let op = &e["op"];
        *ops_seen.entry(gets(op, "op").to_string()).or_default() += 1;
        let merges: Vec<usize> = hist.iter().enumerate().filter(|(_, h)| gets(h, "op") == "merge").map(|(i, _)| i).collect();
        let r = catch_unwind(AssertUnwindSafe(|| -> Value {
            if layer == "cachedb" {
                // the same history through CacheDB (C15, last sentence): only commits and reads
                let mut db = CacheDB::new(cfg.db_of(&cfg.d0));
                for h in hist.iter() {
                    match gets(h, "op") {
                        "commit" => cfg.apply(&mut db, h),
                        "read" => { cfg.read(&mut db); }
                        _ => {}
                    }
                }
                return match gets(op, "op") {
                    "read" => cfg.read(&mut db),
                    "commit" => { cfg.apply(&mut db, op); Value::Null }
                    _ => Value::Null,
                };
            }
            let mut s = cfg.new_state(cfg.db_of(&cfg.d0), None);
            cfg.replay(&mut s, &hist);
            match gets(op, "op") {
                "commit" | "increment" | "drain" | "merge" | "read" => cfg.apply_state(&mut s, op),
                "changeset" => {
                    let k = if getb(op, "known") { OriginalValuesKnown::Yes } else { OriginalValuesKnown::No };
                    cfg.cs_json(&s.bundle_state.to_plain_state(k))
                }
                "reverts" => json!({"groups": cfg.rev_json(&s.bundle_state.reverts.to_plain_state_reverts())}),
                "revert_n" => {
                    let mut b = s.bundle_state.clone();
                    b.revert(geti(op, "j") as usize);
                    cfg.bundle_json(&b)
                }
                "take_n" => {
                    let mut b = s.bundle_state.clone();
                    let full = cfg.rev_json(&b.reverts.to_plain_state_reverts());
                    let taken = b.take_n_reverts(geti(op, "n") as usize);
                    json!({"full": full, "taken": cfg.rev_json(&taken.to_plain_state_reverts()),
                           "left": cfg.rev_json(&b.reverts.to_plain_state_reverts())})
                }
                "split" | "prepend" | "preload" => {
                    let i = geti(op, "i") as usize;
                    let cut = merges[i - 1] + 1; // ops [0, cut) build groups 1..i
                    let mut s1 = cfg.new_state(cfg.db_of(&cfg.d0), None);
                    cfg.replay(&mut s1, &hist[..cut]);
                    let b1 = s1.take_bundle();
                    match gets(op, "op") {
                        "split" => {
                            let mut s2 = cfg.new_state(cfg.db_of(&op["mid"]), None);
                            cfg.replay(&mut s2, &hist[cut..]);
                            let b2 = s2.take_bundle();
                            let mut j = b1.clone();
                            j.extend(b2);
                            cfg.bundle_json(&j)
                        }
                        "prepend" => {
                            let mut s2 = cfg.new_state(cfg.db_of(&op["mid"]), None);
                            cfg.replay(&mut s2, &hist[cut..]);
                            let mut b2 = s2.take_bundle();
                            let newer = cfg.cs_json(&b2.to_plain_state(OriginalValuesKnown::No));
                            b2.prepend_state(b1);
                            json!({"newer": newer, "result": cfg.cs_json(&b2.to_plain_state(OriginalValuesKnown::No)),
                                   "result_yes": cfg.cs_json(&b2.to_plain_state(OriginalValuesKnown::Yes))})
                        }
                        _ => {
                            // preload: State over D0 with B1 preloaded  vs  State over the merged database
                            let mut p = cfg.new_state(cfg.db_of(&cfg.d0), Some(b1));
                            let mut q = cfg.new_state(cfg.db_of(&op["mid"]), None);
                            cfg.replay(&mut p, &hist[cut..]);
                            cfg.replay(&mut q, &hist[cut..]);
                            let cs1 = cfg.cs_json(&p.bundle_state.to_plain_state(OriginalValuesKnown::No));
                            let cs2 = cfg.cs_json(&q.bundle_state.to_plain_state(OriginalValuesKnown::No));
                            let r1 = cfg.read(&mut p);
                            let r2 = cfg.read(&mut q);
                            json!({"read1": r1, "read2": r2, "cs1": cs1, "cs2": cs2})
                        }
                    }
                }
                o => panic!("unknown op {o}"),
            }
        }));
        let obs = match r {
            Ok(Value::Null) => json!({"ok": true}),
            Ok(v) => v,
            Err(p) => {
                n_panic += 1;
                let msg = if let Some(s) = p.downcast_ref::<&str>() { s.to_string() } else if let Some(s) = p.downcast_ref::<String>() { s.clone() } else { "panic".into() };
                json!({"panic": msg})
            }
        };
        out.emit(&json!({"i": idx + 1, "op": op, "st": e["st"], "obs": obs, "nhist": hist.len()}));
    }
    out.flush();
    eprintln!("{}", json!({"kind":"summary","edges":n_edges,"panics":n_panic,"ops":ops_seen}));
}
