//! Engine for BlobFee.tla (C32): the EIP-4844 blob fee helpers of revm_primitives.
//!
//! Model operations (numbers are hex strings; arguments always fit a u64) and what is called:
//!   fake_exponential {factor, numerator, denominator}  `fake_exponential(f, n, d)`
//!   calc_blob_gasprice {excess, prague}                `calc_blob_gasprice(excess, prague)`
//!   calc_excess_blob_gas {excess, used, target}        `calc_excess_blob_gas(excess, used, target)`
//!   block_env {excess, prague}                         `BlockEnv::set_blob_excess_gas_and_price` then
//!                                                      `get_blob_excess_gas` / `get_blob_gasprice`
//!   from_parent {excess, used, target, prague}         `BlobExcessGasAndPrice::from_parent_and_target`
//! Projection: a returned number n is {fits: true, value: "0x.."}; a call that does not return a
//! number (it panics: the harness is built with overflow checks on) is {fits: false}.  The harness
//! never decides what is right.
//!
//! Mode `probe` is not a check: it prints, for each update fraction, the least excess for which
//! calc_blob_gasprice does not return (found by bisection on the real function).  The check only uses
//! it to report where a divergence starts; expectations always come from the specification.
#[path = "../common.rs"]
mod common;
use common::*;
use revm_primitives::{calc_blob_gasprice, calc_excess_blob_gas, fake_exponential, BlobExcessGasAndPrice, BlockEnv};
use serde_json::{json, Value};
use std::panic::{catch_unwind, AssertUnwindSafe};

fn u(op: &Value, k: &str) -> u64 {
    let s = gets(op, k);
    u64::from_str_radix(s.trim_start_matches("0x"), 16).unwrap_or_else(|e| panic!("argument {k}={s} is not a u64: {e}"))
}

fn num<T: std::fmt::LowerHex>(r: std::thread::Result<T>) -> Value {
    match r {
        Ok(v) => json!({"fits": true, "value": format!("{:#x}", v)}),
        Err(_) => json!({"fits": false}),
    }
}

pub struct BlobFeeEngine;

impl Engine for BlobFeeEngine {
    type S = ();
    fn init(&self, _cfg: &Value) -> Self::S {}
    fn project(&self, _s: &Self::S) -> Value {
        Value::Null
    }
    fn apply(&self, _s: &mut Self::S, op: &Value) -> Value {
        match gets(op, "op") {
            "fake_exponential" => {
                let (f, n, d) = (u(op, "factor"), u(op, "numerator"), u(op, "denominator"));
                num(catch_unwind(|| fake_exponential(f, n, d)))
            }
            "calc_blob_gasprice" => {
                let (e, p) = (u(op, "excess"), getb(op, "prague"));
                num(catch_unwind(|| calc_blob_gasprice(e, p)))
            }
            "calc_excess_blob_gas" => {
                let (e, us, t) = (u(op, "excess"), u(op, "used"), u(op, "target"));
                num(catch_unwind(|| calc_excess_blob_gas(e, us, t)))
            }
            "block_env" => {
                let (e, p) = (u(op, "excess"), getb(op, "prague"));
                let r = catch_unwind(|| {
                    let mut b = BlockEnv::default();
                    b.blob_excess_gas_and_price = None;
                    b.set_blob_excess_gas_and_price(e, p);
                    (b.get_blob_excess_gas().expect("excess set"), b.get_blob_gasprice().expect("price set"))
                });
                match r {
                    Ok((ex, pr)) => json!({"excess": format!("{:#x}", ex), "price": num(Ok(pr))}),
                    Err(_) => json!({"excess": format!("{:#x}", e), "price": {"fits": false}}),
                }
            }
            "from_parent" => {
                let (e, us, t, p) = (u(op, "excess"), u(op, "used"), u(op, "target"), getb(op, "prague"));
                // the excess alone first, so that a price that does not return still shows the excess
                let ex = catch_unwind(|| calc_excess_blob_gas(e, us, t));
                let r = catch_unwind(AssertUnwindSafe(|| BlobExcessGasAndPrice::from_parent_and_target(e, us, t, p)));
                match (r, ex) {
                    (Ok(x), _) => json!({"excess": format!("{:#x}", x.excess_blob_gas), "price": num(Ok(x.blob_gasprice))}),
                    (Err(_), Ok(ex)) => json!({"excess": format!("{:#x}", ex), "price": {"fits": false}}),
                    (Err(_), Err(_)) => json!({"excess": {"fits": false}, "price": {"fits": false}}),
                }
            }
            o => panic!("unknown op {o}"),
        }
    }
    /// Groups mismatches for reporting only: the operation, where the projections differ, and a coarse
    /// class of the arguments (bit length of the excess / numerator; whether excess + used exceeds
    /// a u64), so that a divergence in a new region of the arguments is not filed under a known one.
    fn signature(&self, op: &Value, diff: &[String], _exp: &Value, _got: &Value) -> String {
        let name = gets(op, "op");
        let mut d: Vec<String> = diff.iter().map(|p| generalize(p)).collect();
        d.sort();
        d.dedup();
        let bits = |k: &str| 64 - u(op, k).leading_zeros();
        let class = match name {
            "calc_excess_blob_gas" => {
                if u(op, "excess").checked_add(u(op, "used")).is_none() { "sum_ge_2e64".to_string() } else { "sum_lt_2e64".to_string() }
            }
            "fake_exponential" => format!("numerator_bits={}", bits("numerator")),
            _ => format!("excess_bits={}", bits("excess")),
        };
        format!("{}:{}@{}", name, d.join(","), class)
    }
}

/// Least x in (lo, hi] with !ok(x), given ok(lo) and !ok(hi) and ok monotone in between.
fn bisect(mut lo: u64, mut hi: u64, ok: impl Fn(u64) -> bool) -> u64 {
    while hi - lo > 1 {
        let mid = lo + (hi - lo) / 2;
        if ok(mid) {
            lo = mid
        } else {
            hi = mid
        }
    }
    hi
}

fn probe() {
    std::panic::set_hook(Box::new(|_| {}));
    let mut out = Out::new(None);
    for prague in [false, true] {
        let ok = |e: u64| catch_unwind(|| calc_blob_gasprice(e, prague)).is_ok();
        if ok(0) && !ok(u64::MAX) {
            let first = bisect(0, u64::MAX, ok);
            out.emit(&json!({"kind": "probe", "prague": prague, "first_not_returning": first,
                             "last_price": format!("{:#x}", calc_blob_gasprice(first - 1, prague))}));
        } else {
            out.emit(&json!({"kind": "probe", "prague": prague, "first_not_returning": Value::Null}));
        }
    }
    out.flush();
}

fn main() {
    let a = Args::parse();
    match a.mode.as_str() {
        "edges" => run_edges(&BlobFeeEngine, &a.input, a.output.as_deref()),
        "probe" => probe(),
        m => a.bad_mode(m),
    }
}
