//! Engine for Gas.tla (C13): drives revm_interpreter::Gas.
#[path = "../common.rs"]
mod common;
use common::*;
use revm_interpreter::Gas;
use serde_json::{json, Value};

pub struct GasEngine {
    /// 0 = identity embedding; otherwise the model value standing for u64::MAX / i64::MAX.
    pub big: i64,
}

impl GasEngine {
    fn u(&self, v: i64) -> u64 {
        if self.big == 0 || v < self.big / 2 { v as u64 } else { u64::MAX - (self.big - v) as u64 }
    }
    fn i(&self, v: i64) -> i64 {
        if self.big == 0 || v.abs() < self.big / 2 {
            v
        } else if v > 0 {
            i64::MAX - (self.big - v)
        } else {
            -i64::MAX + (self.big + v)
        }
    }
    fn mu(&self, r: u64) -> Value {
        if self.big == 0 {
            return json!(r);
        }
        let half = (self.big / 2) as u64;
        if r < half { json!(r) } else if u64::MAX - r < half { json!(self.big - (u64::MAX - r) as i64) } else { json!(format!("mid:{r}")) }
    }
    fn mi(&self, r: i64) -> Value {
        if self.big == 0 {
            return json!(r);
        }
        let half = self.big / 2;
        if r.abs() < half { json!(r) }
        else if r > 0 && i64::MAX - r < half { json!(self.big - (i64::MAX - r)) }
        else if r < 0 && r + i64::MAX < half { json!(-self.big + (r + i64::MAX)) }
        else { json!(format!("mid:{r}")) }
    }
    fn proj(&self, s: &(Gas, bool)) -> Value {
        let g = &s.0;
        json!({"limit": self.mu(g.limit()), "remaining": self.mu(g.remaining()),
               "refunded": self.mi(g.refunded()), "spent": self.mu(g.spent()), "ok": s.1})
    }
}

impl Engine for GasEngine {
    type S = (Gas, bool);
    fn init(&self, _cfg: &Value) -> Self::S { (Gas::new(0), true) }
    fn project(&self, s: &Self::S) -> Value { self.proj(s) }
    fn apply(&self, s: &mut Self::S, op: &Value) -> Value {
        let a = geti(op, "a");
        s.1 = true;
        match gets(op, "op") {
            "new" => s.0 = Gas::new(self.u(a)),
            "new_spent" => s.0 = Gas::new_spent(self.u(a)),
            "record_cost" => s.1 = s.0.record_cost(self.u(a)),
            "erase_cost" => s.0.erase_cost(self.u(a)),
            "spend_all" => s.0.spend_all(),
            "set_spent" => s.0.set_spent(self.u(a)),
            "record_refund" => s.0.record_refund(self.i(a)),
            "set_refund" => s.0.set_refund(self.i(a)),
            "set_final_refund" => s.0.set_final_refund(a == 1),
            o => panic!("unknown op {o}"),
        }
        self.proj(s)
    }
}

fn main() {
    let a = Args::parse();
    let eng = GasEngine { big: a.geti("big", 0) };
    match a.mode.as_str() {
        "edges" => run_edges(&eng, &a.input, a.output.as_deref()),
        "behaviours" => run_behaviours(&eng, &a.input, a.output.as_deref()),
        m => a.bad_mode(m),
    }
}
