//! Engine for JumpDest.tla (C04): jump-destination analysis and the JUMP / JUMPI step.
//!
//! Every edge is one case of the specification (a code and, for `execute`/`evm`, the description
//! of the probe program and the targets).  The adapter only *observes*:
//!   analyse : which offsets `JumpTable::is_valid` / `Contract::is_valid_jump` accept, for the
//!             eager path (`to_analysed` before use) and the lazy path (raw code handed to
//!             `Contract::new`), plus idempotence and the raw-slice round trip of the table;
//!   execute : the real interpreter runs `PUSH32 t JUMP ++ code` / `PUSH32 c PUSH32 t JUMPI ++ code`
//!             for every target; every instruction is wrapped (as the inspector does) so that
//!             the state right after the JUMP/JUMPI step is recorded;
//!   evm     : the same through a whole `Evm` transaction (call to an account holding raw code,
//!             to an account holding analysed code, and a create transaction running the program
//!             as init code), observed by an `Inspector`.
//! What is *expected* comes from the TLC output and is compared generically by `run_edges`.
#[path = "../common.rs"]
mod common;
use common::*;
use revm::{
    db::{CacheDB, EmptyDB},
    inspector_handle_register,
    primitives::{AccountInfo, Address, Bytecode, Bytes, TxKind, U256},
    Evm, EvmContext, Inspector,
};
use revm_interpreter::{
    analysis::to_analysed,
    opcode::{make_boxed_instruction_table, make_instruction_table, BoxedInstructionTable},
    primitives::{legacy::JumpTable, CancunSpec, FrontierSpec},
    Contract, DummyHost, InstructionResult, Interpreter, SharedMemory,
};
use serde_json::{json, Value};
use std::cell::RefCell;
use std::rc::Rc;

const OP_JUMP: u8 = 0x56;
const OP_JUMPI: u8 = 0x57;

/// What was seen around the first JUMP / JUMPI executed.
#[derive(Default, Clone, Debug)]
struct Probe {
    jump_pc: Option<usize>,
    pending: bool,
    /// (result, pc, stack height) right after the jump instruction
    after: Option<(InstructionResult, usize, usize)>,
    /// (pc, opcode) of the instruction executed next, if any
    next: Option<(usize, u8)>,
}

impl Probe {
    fn before(&mut self, pc: usize, opcode: u8) {
        if self.after.is_some() && self.next.is_none() {
            self.next = Some((pc, opcode));
        }
        if self.jump_pc.is_none() && (opcode == OP_JUMP || opcode == OP_JUMPI) {
            self.jump_pc = Some(pc);
            self.pending = true;
        }
    }
    fn after(&mut self, interp: &Interpreter) {
        if self.pending {
            self.pending = false;
            self.after = Some((interp.instruction_result, interp.program_counter(), interp.stack.len()));
        }
    }
}

/// Outcome classes of one run, in the specification's vocabulary.
enum Outcome {
    /// execution continues, pc = target, both/one operand popped, and the next instruction
    /// executed is the JUMPDEST at the target
    Jumped,
    /// the frame halted with InvalidJump at the jump instruction
    Invalid,
    /// execution continues at the instruction after the JUMPI
    Fell,
    Other(String),
}

fn classify(p: &Probe, target: &U256, cond_zero: bool, prog: &[u8]) -> Outcome {
    let (Some(jpc), Some((res, pc, sl))) = (p.jump_pc, p.after) else {
        return Outcome::Other(format!("no jump step observed: {p:?}"));
    };
    match res {
        InstructionResult::InvalidJump => Outcome::Invalid,
        InstructionResult::Continue => {
            if sl != 0 {
                return Outcome::Other(format!("stack height {sl} after the jump"));
            }
            if cond_zero {
                if pc == jpc + 1 {
                    Outcome::Fell
                } else {
                    Outcome::Other(format!("condition 0 but pc {pc} after JUMPI at {jpc}"))
                }
            } else if U256::from(pc) == *target {
                match p.next {
                    Some((npc, nop)) if npc == pc && nop == 0x5b && prog.get(pc) == Some(&0x5b) => Outcome::Jumped,
                    n => Outcome::Other(format!("continued at pc {pc} but next instruction is {n:?}")),
                }
            } else {
                Outcome::Other(format!("continued with pc {pc}"))
            }
        }
        r => Outcome::Other(format!("{r:?}")),
    }
}

fn tjson(t: &U256) -> Value {
    if *t < U256::from(1u64 << 31) {
        json!(t.as_limbs()[0])
    } else {
        json!(format!("0x{t:x}"))
    }
}

fn parse_u256(v: &Value) -> U256 {
    match v {
        Value::Number(n) => U256::from(n.as_u64().unwrap()),
        Value::String(s) => U256::from_str_radix(s.trim_start_matches("0x"), 16).unwrap(),
        _ => panic!("bad number {v}"),
    }
}

fn code_of(op: &Value) -> Vec<u8> {
    op["code"].as_array().unwrap().iter().map(|b| b.as_u64().unwrap() as u8).collect()
}

/// Targets of an op: 0..=upto, the listed big values, and base + o for every listed offset.
fn targets_of(op: &Value) -> Vec<U256> {
    let mut t: Vec<U256> = (0..=op["upto"].as_u64().unwrap()).map(U256::from).collect();
    let empty = vec![];
    for b in op["bigs"].as_array().unwrap_or(&empty) {
        t.push(parse_u256(b));
    }
    for b in op["alias_bases"].as_array().unwrap_or(&empty) {
        for o in op["alias_offsets"].as_array().unwrap_or(&empty) {
            t.push(parse_u256(b) + parse_u256(o));
        }
    }
    t
}

fn contract_of(bytecode: Bytecode) -> Contract {
    Contract::new(Bytes::new(), bytecode, None, Address::ZERO, None, Address::ZERO, U256::ZERO)
}

fn prog_jump(target: &U256, code: &[u8]) -> Vec<u8> {
    let mut p = vec![0x7f];
    p.extend_from_slice(&target.to_be_bytes::<32>());
    p.push(OP_JUMP);
    p.extend_from_slice(code);
    p
}

fn prog_jumpi(target: &U256, cond: &U256, code: &[u8]) -> Vec<u8> {
    let mut p = vec![0x7f];
    p.extend_from_slice(&cond.to_be_bytes::<32>());
    p.push(0x7f);
    p.extend_from_slice(&target.to_be_bytes::<32>());
    p.push(OP_JUMPI);
    p.extend_from_slice(code);
    p
}

fn prog_call(code: &[u8]) -> Vec<u8> {
    let mut p = vec![0x60, 0x00, 0x35, OP_JUMP];
    p.extend_from_slice(code);
    p
}

/// Accumulates the outcome classes of all targets of one variant.
#[derive(Default)]
struct Tally {
    jumped: Vec<Value>,
    invalid: u64,
    fell: u64,
    other: Vec<Value>,
}

impl Tally {
    fn add(&mut self, t: &U256, o: Outcome) {
        match o {
            Outcome::Jumped => self.jumped.push(tjson(t)),
            Outcome::Invalid => self.invalid += 1,
            Outcome::Fell => self.fell += 1,
            Outcome::Other(s) => {
                if self.other.len() < 4 {
                    self.other.push(json!(format!("t={}: {s}", tjson(t))))
                }
            }
        }
    }
    fn jumping(self) -> Value {
        json!({"jumped": self.jumped, "invalid": self.invalid, "fell": self.fell, "other": self.other})
    }
}

struct InspProbe(Probe);

impl<DB: revm::Database> Inspector<DB> for InspProbe {
    fn step(&mut self, interp: &mut Interpreter, _context: &mut EvmContext<DB>) {
        let pc = interp.program_counter();
        self.0.before(pc, interp.current_opcode());
    }
    fn step_end(&mut self, interp: &mut Interpreter, _context: &mut EvmContext<DB>) {
        self.0.after(interp);
    }
}

type Table<'a> = BoxedInstructionTable<'a, DummyHost>;

pub struct JumpDestEngine {
    probe: Rc<RefCell<Probe>>,
    latest: Table<'static>,
    frontier: Table<'static>,
}

fn wrap(table: &[revm_interpreter::opcode::Instruction<DummyHost>; 256], probe: &Rc<RefCell<Probe>>) -> Table<'static> {
    make_boxed_instruction_table(table, |instr| {
        let probe = probe.clone();
        Box::new(move |interp: &mut Interpreter, host: &mut DummyHost| {
            // `step` has already advanced the instruction pointer
            let pc = interp.program_counter() - 1;
            let opcode = interp.bytecode[pc];
            probe.borrow_mut().before(pc, opcode);
            instr(interp, host);
            probe.borrow_mut().after(interp);
        })
    })
}

impl JumpDestEngine {
    fn new() -> Self {
        let probe = Rc::new(RefCell::new(Probe::default()));
        let latest = wrap(&make_instruction_table::<DummyHost, CancunSpec>(), &probe);
        let frontier = wrap(&make_instruction_table::<DummyHost, FrontierSpec>(), &probe);
        JumpDestEngine { probe, latest, frontier }
    }

    /// Runs `prog` on the real interpreter; `eager`: analysed before the contract is made.
    fn run(&self, prog: Vec<u8>, eager: bool, latest: bool) -> Probe {
        let raw = Bytecode::new_raw(Bytes::from(prog));
        let contract = contract_of(if eager { to_analysed(raw) } else { raw });
        let mut interp = Interpreter::new(contract, 2_000, false);
        let mut host = DummyHost::default();
        *self.probe.borrow_mut() = Probe::default();
        let _ = interp.run(SharedMemory::new(), if latest { &self.latest } else { &self.frontier }, &mut host);
        self.probe.borrow().clone()
    }

    fn table_view(jt: &JumpTable, len: usize, contract: Option<&Contract>) -> (Vec<u64>, Vec<Value>) {
        // through the contract when there is one (Contract::is_valid_jump), else the table itself
        let ok = |i: usize| match contract {
            Some(c) => c.is_valid_jump(i),
            None => jt.is_valid(i),
        };
        let valid = (0..=len + 34).filter(|&i| ok(i)).map(|i| i as u64).collect();
        let mut far: Vec<usize> = (len + 35..len + 600).collect();
        far.extend([1 << 16, (1 << 16) + 7, 1 << 32, 1 << 63, usize::MAX - 1, usize::MAX]);
        let far = far.into_iter().filter(|&i| ok(i)).map(|i| json!(i.to_string())).collect();
        (valid, far)
    }

    fn view(bc: &Bytecode, contract: Option<&Contract>) -> Value {
        let Bytecode::LegacyAnalyzed(a) = bc else {
            return json!({"not_analysed": format!("{bc:?}")});
        };
        let (valid, far) = Self::table_view(a.jump_table(), a.original_len(), contract);
        json!({"len": a.original_len(), "code": a.original_byte_slice().to_vec(), "valid": valid, "far": far})
    }

    fn analyse(&self, op: &Value) -> Value {
        let code = code_of(op);
        let raw = || Bytecode::new_raw(Bytes::from(code.clone()));
        // eager: analysed once, then stored / used
        let eager = to_analysed(raw());
        let c_eager = contract_of(eager.clone());
        // lazy: the raw code reaches Contract::new
        let c_lazy = contract_of(raw());
        // analysing analysed code again returns it as it is
        let again = to_analysed(eager.clone());
        // the table survives its raw-slice representation
        let rt = match &eager {
            Bytecode::LegacyAnalyzed(a) => {
                let jt = JumpTable::from_slice(a.jump_table().as_slice());
                let (valid, far) = Self::table_view(&jt, a.original_len(), None);
                json!({"valid": valid, "far": far})
            }
            _ => json!({"not_analysed": true}),
        };
        json!({
            "eager": Self::view(&eager, None),
            "eager_contract": Self::view(&c_eager.bytecode, Some(&c_eager)),
            "lazy_contract": Self::view(&c_lazy.bytecode, Some(&c_lazy)),
            "reanalysed": Self::view(&again, None),
            "roundtrip": rt,
        })
    }

    fn execute(&self, op: &Value) -> Value {
        let code = code_of(op);
        let kind = gets(op, "kind");
        let targets = targets_of(op);
        let mut out = serde_json::Map::new();
        match kind {
            "jump" => {
                for (name, eager, latest) in [("eager_latest", true, true), ("lazy_frontier", false, false)] {
                    let mut tally = Tally::default();
                    for t in &targets {
                        let prog = prog_jump(t, &code);
                        let p = self.run(prog.clone(), eager, latest);
                        tally.add(t, classify(&p, t, false, &prog));
                    }
                    out.insert(name.into(), tally.jumping());
                }
            }
            "jumpi" => {
                let one = U256::from(1);
                let variants: [(&str, bool, bool, U256); 5] = [
                    ("c1_eager_frontier", true, false, one),
                    ("c1_lazy_latest", false, true, one),
                    ("c2p64_lazy_latest", false, true, one << 64),
                    ("c2p255_eager_latest", true, true, one << 255),
                    ("c0_lazy_latest", false, true, U256::ZERO),
                ];
                for (name, eager, latest, cond) in variants {
                    let mut tally = Tally::default();
                    for t in &targets {
                        let prog = prog_jumpi(t, &cond, &code);
                        let p = self.run(prog.clone(), eager, latest);
                        tally.add(t, classify(&p, t, cond.is_zero(), &prog));
                    }
                    out.insert(name.into(), tally.jumping());
                }
            }
            k => panic!("unknown kind {k}"),
        }
        Value::Object(out)
    }

    fn evm(&self, op: &Value) -> Value {
        let code = code_of(op);
        let targets = targets_of(op);
        let kind = gets(op, "kind");
        let a_raw = Address::with_last_byte(0xa1);
        let a_ana = Address::with_last_byte(0xa2);
        let caller = Address::with_last_byte(0xcc);
        let mut db = CacheDB::new(EmptyDB::default());
        let prog = prog_call(&code);
        let raw = Bytecode::new_raw(Bytes::from(prog.clone()));
        db.insert_account_info(a_raw, AccountInfo::new(U256::ZERO, 1, raw.hash_slow(), raw.clone()));
        db.insert_account_info(a_ana, AccountInfo::new(U256::ZERO, 1, raw.hash_slow(), to_analysed(raw)));
        let mut evm = Evm::builder()
            .with_db(db)
            .with_external_context(InspProbe(Probe::default()))
            .append_handler_register(inspector_handle_register)
            .build();
        let mut out = serde_json::Map::new();
        let variants: &[(&str, Option<Address>)] = match kind {
            "call" => &[("call_raw", Some(a_raw)), ("call_analysed", Some(a_ana))],
            "create" => &[("create", None)],
            k => panic!("unknown kind {k}"),
        };
        for (name, to) in variants {
            let mut tally = Tally::default();
            for t in &targets {
                let run_prog;
                {
                    let tx = evm.tx_mut();
                    tx.caller = caller;
                    tx.gas_limit = 120_000;
                    match to {
                        Some(a) => {
                            tx.transact_to = TxKind::Call(*a);
                            tx.data = Bytes::from(t.to_be_bytes::<32>().to_vec());
                            run_prog = prog.clone();
                        }
                        None => {
                            run_prog = prog_jump(t, &code);
                            tx.transact_to = TxKind::Create;
                            tx.data = Bytes::from(run_prog.clone());
                        }
                    }
                }
                evm.context.external.0 = Probe::default();
                match evm.transact() {
                    Ok(_) => {
                        let p = evm.context.external.0.clone();
                        tally.add(t, classify(&p, t, false, &run_prog));
                    }
                    Err(e) => tally.add(t, Outcome::Other(format!("transaction rejected: {e:?}"))),
                }
            }
            out.insert((*name).into(), tally.jumping());
        }
        Value::Object(out)
    }
}

impl Engine for JumpDestEngine {
    type S = ();
    fn init(&self, _cfg: &Value) -> Self::S {}
    fn project(&self, _s: &Self::S) -> Value {
        Value::Null
    }
    fn apply(&self, _s: &mut Self::S, op: &Value) -> Value {
        match gets(op, "op") {
            "analyse" => self.analyse(op),
            "execute" => self.execute(op),
            "evm" => self.evm(op),
            o => panic!("unknown op {o}"),
        }
    }
    fn signature(&self, op: &Value, diff: &[String], _exp: &Value, _got: &Value) -> String {
        let name = op.get("op").and_then(|v| v.as_str()).unwrap_or("?");
        let kind = op.get("kind").and_then(|v| v.as_str()).unwrap_or("");
        let mut d: Vec<String> = diff.iter().map(|p| generalize(p)).collect();
        d.sort();
        d.dedup();
        format!("{}{}{}:{}", name, if kind.is_empty() { "" } else { "." }, kind, d.join(","))
    }
}

fn main() {
    let a = Args::parse();
    let eng = JumpDestEngine::new();
    match a.mode.as_str() {
        "edges" => run_edges(&eng, &a.input, a.output.as_deref()),
        m => a.bad_mode(m),
    }
}
