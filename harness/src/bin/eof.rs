//! Engine for EofLayout.tla (C26, partial): drives revm's EOF container decoder / encoder
//! (`Eof::decode`, `Eof::decode_dangling`, `encode_slow`, `raw`, `Bytecode::new_raw_checked`), the
//! EOF validator (`validate_raw_eof`, `validate_eof`, `validate_eof_inner`) and -- for the containers
//! the validator accepts -- the real `Evm` under OSAKA (call to an account holding the container,
//! creation transaction carrying it).
//!
//! One operation, `decode`: {op, name, bytes, judge_decode, judge_dangling, judge_init, judge_runtime}.
//! The projection is what the code said about the byte string, in the vocabulary of the spec's
//! `Said`; fields whose `judge_*` flag is false (the specification leaves them open) are left out.
//! `breaches` lists direct observations of the property's sentences that need no expectation:
//! a decoded container that does not re-encode to the input, a validation verdict that changes
//! between calls, a panic (decode / validate / execution of an accepted container).
//!
//! Optional fields of the operation: `inputs` (list of call-data byte strings) and `gases` (list of gas
//! limits) replace the default palette used when an accepted container is executed.
//! An accepted container that halts with StackUnderflow / OpcodeNotFound / InvalidJump / NotActivated
//! is a breach too: EIP-3670 / EIP-5450 validation exists to make exactly these impossible.
//!
//! `eof edges <in.ndjson> <out.ndjson> [stats=<file>]`
#[path = "../common.rs"]
mod common;
use common::*;
use revm::db::{CacheDB, EmptyDB};
use revm::interpreter::analysis::{validate_eof, validate_eof_inner, validate_raw_eof, validate_raw_eof_inner, CodeType};
use revm::primitives::{
    AccountInfo, Address, Bytecode, Bytes, Eof, ExecutionResult, HaltReason, Output, SpecId, TxKind, KECCAK_EMPTY, U256,
};
use revm::Evm;
use serde_json::{json, Value};
use std::collections::BTreeMap;
use std::panic::{catch_unwind, AssertUnwindSafe};
use std::sync::{Arc, Mutex};

fn bytes_of(v: &Value) -> Vec<u8> {
    v.as_array().map(|a| a.iter().map(|x| x.as_u64().unwrap() as u8).collect()).unwrap_or_default()
}
fn arr(b: &[u8]) -> Value {
    Value::Array(b.iter().map(|x| json!(*x)).collect())
}

fn fields(e: Option<&Eof>) -> Value {
    match e {
        None => json!({"types": [], "codes": [], "subs": [], "data": [], "dsize": 0, "filled": true}),
        Some(e) => json!({
            "types": e.body.types_section.iter().map(|t| json!([t.inputs, t.outputs, t.max_stack_size])).collect::<Vec<_>>(),
            "codes": e.body.code_section.iter().map(|c| arr(c)).collect::<Vec<_>>(),
            "subs": e.body.container_section.iter().map(|c| arr(c)).collect::<Vec<_>>(),
            "data": arr(&e.body.data_section),
            "dsize": e.header.data_size,
            "filled": e.body.is_data_filled,
        }),
    }
}

fn addr(n: u64) -> Address {
    let mut b = [0u8; 20];
    b[12..].copy_from_slice(&n.to_be_bytes());
    Address::from(b)
}

#[derive(Default)]
struct Stats {
    counts: BTreeMap<String, u64>,
}

pub struct EofEngine {
    stats: Mutex<Stats>,
}

impl EofEngine {
    fn bump(&self, k: &str) {
        *self.stats.lock().unwrap().counts.entry(k.to_string()).or_default() += 1;
    }

    /// Execute an accepted container; returns the panic messages (empty = none).
    fn execute(&self, eof: &Eof, mode: &str, op: &Value, breaches: &mut Vec<String>) {
        let caller = addr(0xCA11);
        let target = addr(0xEE);
        let inputs: Vec<Vec<u8>> = match op.get("inputs").and_then(|v| v.as_array()) {
            Some(a) => a.iter().map(bytes_of).collect(),
            None => vec![vec![], vec![0u8; 32], (1u8..=40).collect()],
        };
        let gases: Vec<u64> = match op.get("gases").and_then(|v| v.as_array()) {
            Some(a) => a.iter().map(|x| x.as_u64().unwrap()).collect(),
            None => vec![21_000, 21_700, 60_000, 100_000, 2_000_000],
        };
        for input in inputs.iter() {
            for gas in gases.iter() {
                let r = catch_unwind(AssertUnwindSafe(|| {
                    let mut db = CacheDB::new(EmptyDB::default());
                    db.insert_account_info(caller, AccountInfo::new(U256::from(10u64).pow(U256::from(20u64)), 0, KECCAK_EMPTY, Bytecode::default()));
                    let data: Vec<u8>;
                    let to;
                    if mode == "runtime" {
                        let code = Bytecode::Eof(Arc::new(eof.clone()));
                        db.insert_account_info(target, AccountInfo::new(U256::from(5u64), 1, code.hash_slow(), code));
                        data = input.clone();
                        to = TxKind::Call(target);
                    } else {
                        data = [eof.raw().to_vec(), input.clone()].concat();
                        to = TxKind::Create;
                    }
                    let mut evm = Evm::builder()
                        .with_db(db)
                        .with_spec_id(SpecId::OSAKA)
                        .modify_tx_env(|tx| {
                            tx.caller = caller;
                            tx.transact_to = to;
                            tx.data = Bytes::from(data);
                            tx.gas_limit = *gas;
                            tx.gas_price = U256::from(1u64);
                            tx.value = U256::ZERO;
                        })
                        .build();
                    match evm.transact_commit() {
                        Ok(r) => match r {
                            ExecutionResult::Success { output, .. } => {
                                // a creation that succeeded: the deployed container is executed too
                                if let Output::Create(_, Some(created)) = output {
                                    evm.context.evm.env.tx.transact_to = TxKind::Call(created);
                                    evm.context.evm.env.tx.data = Bytes::from(input.clone());
                                    evm.context.evm.env.tx.nonce = None;
                                    match evm.transact_commit() {
                                        Ok(ExecutionResult::Success { .. }) => "success_then_call_success",
                                        Ok(ExecutionResult::Halt { reason, .. }) if is_impossible_halt(halt_kind(&reason)) => halt_kind(&reason),
                                        Ok(_) => "success_then_call_failed",
                                        Err(_) => "success_then_call_tx_error",
                                    }
                                } else {
                                    "success"
                                }
                            }
                            ExecutionResult::Revert { .. } => "revert",
                            ExecutionResult::Halt { reason, .. } => halt_kind(&reason),
                        },
                        Err(_) => "tx_error",
                    }
                }));
                match r {
                    Ok(kind) => {
                        self.bump(&format!("exec_{mode}_{kind}"));
                        if is_impossible_halt(kind) {
                            let m = format!("accepted {mode} container halts with {}", &kind[5..]);
                            if !breaches.contains(&m) {
                                breaches.push(m);
                            }
                        }
                    }
                    Err(p) => {
                        self.bump(&format!("exec_{mode}_panic"));
                        let m = format!("panic executing accepted {mode} container: {}", pmsg(p));
                        if !breaches.contains(&m) {
                            breaches.push(m);
                        }
                    }
                }
            }
        }
    }
}

/// Halts that validated EOF code can never produce are named in capitals (and reported as breaches).
fn halt_kind(reason: &HaltReason) -> &'static str {
    match reason {
        HaltReason::StackUnderflow => "halt_STACK_UNDERFLOW",
        HaltReason::OpcodeNotFound => "halt_OPCODE_NOT_FOUND",
        HaltReason::InvalidJump => "halt_INVALID_JUMP",
        HaltReason::NotActivated => "halt_NOT_ACTIVATED",
        HaltReason::OutOfGas(_) => "halt_oog",
        _ => "halt",
    }
}

fn is_impossible_halt(kind: &str) -> bool {
    kind.starts_with("halt_") && kind != "halt_oog"
}

fn pmsg(e: Box<dyn std::any::Any + Send>) -> String {
    if let Some(s) = e.downcast_ref::<&str>() {
        s.to_string()
    } else if let Some(s) = e.downcast_ref::<String>() {
        s.clone()
    } else {
        "panic".to_string()
    }
}

impl Engine for EofEngine {
    type S = ();
    fn init(&self, _cfg: &Value) -> Self::S {}
    fn project(&self, _s: &Self::S) -> Value {
        Value::Null
    }
    fn apply(&self, _s: &mut Self::S, op: &Value) -> Value {
        assert_eq!(gets(op, "op"), "decode");
        let raw = Bytes::from(bytes_of(&op["bytes"]));
        let mut breaches: Vec<String> = vec![];
        let mut out = serde_json::Map::new();

        // ---- (a) decode: verdict, fields, never panics
        let dec = match catch_unwind(AssertUnwindSafe(|| Eof::decode(raw.clone()))) {
            Ok(r) => r.ok(),
            Err(p) => {
                breaches.push(format!("panic in Eof::decode: {}", pmsg(p)));
                None
            }
        };
        self.bump(if dec.is_some() { "decoded" } else { "not_decoded" });
        if getb(op, "judge_decode") {
            out.insert("verdict".into(), json!(if dec.is_some() { "ok" } else { "error" }));
            out.insert("fields".into(), fields(dec.as_ref()));
            out.insert("size".into(), json!(dec.as_ref().map(|e| e.size()).unwrap_or(0)));
        }
        // ---- (b) round trip
        if let Some(e) = &dec {
            match catch_unwind(AssertUnwindSafe(|| e.encode_slow())) {
                Ok(b) => {
                    if b != raw {
                        breaches.push("encode_slow() of the decoded container differs from the input".into());
                    }
                }
                Err(p) => breaches.push(format!("panic in encode_slow: {}", pmsg(p))),
            }
            if e.raw() != &raw {
                breaches.push("raw() of the decoded container differs from the input".into());
            }
            // decoding what was re-encoded gives the same container
            if let Ok(Ok(e2)) = catch_unwind(AssertUnwindSafe(|| Eof::decode(e.encode_slow()))) {
                if &e2 != e {
                    breaches.push("decode(encode_slow(x)) differs from x".into());
                }
            } else {
                breaches.push("re-encoded container does not decode".into());
            }
        }
        // Bytecode::new_raw_checked is the same decoder behind the EF00 prefix
        if raw.len() >= 2 && raw[0] == 0xEF && raw[1] == 0x00 {
            match catch_unwind(AssertUnwindSafe(|| Bytecode::new_raw_checked(raw.clone()))) {
                Ok(r) => {
                    let same = match (&r, &dec) {
                        (Ok(Bytecode::Eof(a)), Some(b)) => a.as_ref() == b,
                        (Err(_), None) => true,
                        _ => false,
                    };
                    if !same {
                        breaches.push("Bytecode::new_raw_checked disagrees with Eof::decode".into());
                    }
                }
                Err(p) => breaches.push(format!("panic in Bytecode::new_raw_checked: {}", pmsg(p))),
            }
        }
        // ---- container followed by other bytes
        let dang = match catch_unwind(AssertUnwindSafe(|| Eof::decode_dangling(raw.clone()))) {
            Ok(r) => r.ok(),
            Err(p) => {
                breaches.push(format!("panic in Eof::decode_dangling: {}", pmsg(p)));
                None
            }
        };
        if getb(op, "judge_dangling") {
            out.insert(
                "dangling".into(),
                json!({"verdict": if dang.is_some() { "ok" } else { "error" },
                       "fields": fields(dang.as_ref().map(|d| &d.0)),
                       "rest": arr(dang.as_ref().map(|d| d.1.as_ref()).unwrap_or(&[]))}),
            );
        }
        if let Some((e, rest)) = &dang {
            let mut again = e.encode_slow().to_vec();
            again.extend_from_slice(rest);
            if again != raw.to_vec() {
                breaches.push("decode_dangling: container ++ rest differs from the input".into());
            }
        }

        // ---- (c) validation: same verdict every time, both readings
            for mode in ["init", "runtime"] {
            let ct = if mode == "init" { CodeType::ReturnContract } else { CodeType::ReturnOrStop };
            let mut seen: Vec<String> = vec![];
            for round in 0..3 {
                let r = catch_unwind(AssertUnwindSafe(|| {
                    // alternate the entry points: raw bytes / an already decoded container
                    if round % 2 == 0 {
                        if mode == "init" {
                            format!("{:?}", validate_raw_eof(raw.clone()).map(|_| ()).is_ok())
                        } else {
                            format!("{:?}", validate_raw_eof_inner(raw.clone(), Some(ct)).map(|_| ()).is_ok())
                        }
                    } else {
                        match Eof::decode(raw.clone()) {
                            Err(_) => "false".to_string(),
                            Ok(e) => {
                                if mode == "init" {
                                    format!("{:?}", validate_eof(&e).is_ok())
                                } else {
                                    format!("{:?}", validate_eof_inner(&e, Some(ct)).is_ok())
                                }
                            }
                        }
                    }
                }));
                match r {
                    Ok(s) => seen.push(s),
                    Err(p) => {
                        breaches.push(format!("panic in validation ({mode}): {}", pmsg(p)));
                        seen.push("panic".into());
                    }
                }
            }
            if seen.iter().any(|s| s != &seen[0]) {
                breaches.push(format!("validation verdict ({mode}) changes between calls: {:?}", seen));
            }
            let acc = seen[0] == "true";
            self.bump(&format!("validated_{mode}_{}", if acc { "accept" } else { "reject" }));
            if getb(op, if mode == "init" { "judge_init" } else { "judge_runtime" }) {
                out.insert(mode.into(), json!(if acc { "accept" } else { "reject" }));
            }
            // ---- part 2: accepted => executes without panicking
            if acc {
                if let Some(e) = &dec {
                    self.execute(e, mode, op, &mut breaches);
                }
            }
        }
        out.insert("breaches".into(), json!(breaches));
        Value::Object(out)
    }

    fn signature(&self, op: &Value, diff: &[String], _exp: &Value, got: &Value) -> String {
        let mut d: Vec<String> = diff.iter().map(|p| generalize(p)).collect();
        d.sort();
        d.dedup();
        let mut s = format!("decode[{}]:{}", op.get("name").and_then(|v| v.as_str()).unwrap_or("?"), d.join(","));
        if let Some(b) = got.get("breaches").and_then(|b| b.as_array()) {
            if let Some(first) = b.first().and_then(|x| x.as_str()) {
                let short: String = first.chars().take(60).collect();
                s.push_str(&format!(" {short}"));
            }
        }
        s
    }
}

fn main() {
    let a = Args::parse();
    let eng = EofEngine { stats: Mutex::new(Stats::default()) };
    match a.mode.as_str() {
        "edges" => run_edges(&eng, &a.input, a.output.as_deref()),
        m => a.bad_mode(m),
    }
    if let Some(p) = a.kv.get("stats") {
        let st = eng.stats.lock().unwrap();
        std::fs::write(p, serde_json::to_string(&st.counts).unwrap()).unwrap();
    }
}
