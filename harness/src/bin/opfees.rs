//! Engine for OpFees.tla (C33): drives revm's Optimism handler (`--features optimism`).
//!
//! One real `Evm` over a `CacheDB<EmptyDB>` per history; every model operation is one transaction
//! executed with `transact_commit`.  The L1 block parameters are written into the storage of the
//! L1Block predeploy (0x4200..0015), so `L1BlockInfo::try_fetch` is on the path.
//!
//! Modes
//!   edges   <edges.ndjson> <out>          generic edge replay (common.rs)
//!   measure <request.json> <facts.json>   runs every history over the alphabet up to the given
//!                                         depth and records the *execution facts* of its last
//!                                         transaction: gas_used, gas_refunded, and the value of
//!                                         `L1BlockInfo::calculate_tx_l1_cost(envelope)`.  These
//!                                         are inputs of the specification (it does not model the
//!                                         EVM's gas schedule nor FastLZ); nothing is judged here.
#[path = "../common.rs"]
mod common;
use common::*;
use revm::db::{CacheDB, EmptyDB};
use revm::optimism::{
    L1BlockInfo, BASE_FEE_RECIPIENT, L1_BLOCK_CONTRACT, L1_FEE_RECIPIENT, OPERATOR_FEE_RECIPIENT,
};
use revm::primitives::{
    address, AccountInfo, Address, Bytecode, Bytes, EVMError, ExecutionResult, HandlerCfg, SpecId,
    TxKind, B256, U256,
};
use revm::{DatabaseRef, Evm, Handler};
use serde_json::{json, Value};

type TheEvm = Evm<'static, (), CacheDB<EmptyDB>>;

const SENDER: Address = address!("1000000000000000000000000000000000000001");
const RCPT_EOA: Address = address!("2000000000000000000000000000000000000001");
const RCPT_REVERT: Address = address!("2000000000000000000000000000000000000002");
const RCPT_INVALID: Address = address!("2000000000000000000000000000000000000003");
const RCPT_CLEAR: Address = address!("2000000000000000000000000000000000000004");
const COINBASE: Address = address!("c014ba5e00000000000000000000000000000000");

/// OP fork by enum-variant name (common.rs::spec_by_name only knows the mainnet enum).
fn op_fork(name: &str) -> SpecId {
    match name {
        "BEDROCK" => SpecId::BEDROCK,
        "REGOLITH" => SpecId::REGOLITH,
        "CANYON" => SpecId::CANYON,
        "ECOTONE" => SpecId::ECOTONE,
        "FJORD" => SpecId::FJORD,
        "GRANITE" => SpecId::GRANITE,
        "HOLOCENE" => SpecId::HOLOCENE,
        "ISTHMUS" => SpecId::ISTHMUS,
        o => panic!("unknown OP fork {o}"),
    }
}

fn u(v: &Value, k: &str) -> u64 {
    v.get(k).and_then(|x| x.as_u64()).unwrap_or_else(|| panic!("field {k} missing/not uint in {v}"))
}

/// The model writes a fixed-point scalar as the fraction n/d; the chain stores n/d * 10^6.
fn scalar(n: u64, d: u64) -> u64 {
    assert!(d > 0 && 1_000_000 % d == 0, "denominator {d} must divide 10^6");
    n * (1_000_000 / d)
}

/// Envelope with `z` zero bytes and `nz` non-zero bytes: an EIP-2718 type byte 0x02 followed by
/// deterministic pseudo-random non-zero bytes (so FastLZ does not collapse it), then the zeros.
fn envelope(z: u64, nz: u64) -> Bytes {
    let mut v = Vec::new();
    let mut x: u32 = 0x9E37_79B9;
    for i in 0..nz {
        if i == 0 {
            v.push(0x02);
            continue;
        }
        x = x.wrapping_mul(1_664_525).wrapping_add(1_013_904_223);
        let b = (x >> 24) as u8;
        v.push(if b == 0 { 0xA5 } else { b });
    }
    v.extend(std::iter::repeat(0u8).take(z as usize));
    Bytes::from(v)
}

pub struct St {
    evm: TheEvm,
    spec: SpecId,
    cfg: Value,
    /// class of the last transaction's result, gas_used, gas_refunded, L1 cost function value
    last: (String, u64, u64, U256),
}

fn num(x: U256) -> Value {
    if x <= U256::from(u64::MAX) {
        json!(x.to::<u64>())
    } else {
        json!(format!("huge:{x}"))
    }
}

pub struct OpFees;

impl OpFees {
    fn build(cfg: &Value) -> St {
        let spec = op_fork(gets(cfg, "fork"));
        let mut db = CacheDB::new(EmptyDB::default());
        db.insert_account_info(
            SENDER,
            AccountInfo { balance: U256::from(u(cfg, "initbal")), nonce: 0, ..Default::default() },
        );
        let code = |hex: &[u8]| AccountInfo {
            nonce: 1,
            code: Some(Bytecode::new_raw(Bytes::copy_from_slice(hex))),
            ..Default::default()
        };
        // PUSH1 0 PUSH1 0 REVERT
        db.insert_account_info(RCPT_REVERT, code(&[0x60, 0x00, 0x60, 0x00, 0xfd]));
        // INVALID
        db.insert_account_info(RCPT_INVALID, code(&[0xfe]));
        // SSTORE(0,1); SSTORE(0,0); STOP  -- earns a storage-clearing refund in every call
        db.insert_account_info(
            RCPT_CLEAR,
            code(&[0x60, 0x01, 0x60, 0x00, 0x55, 0x60, 0x00, 0x60, 0x00, 0x55, 0x00]),
        );
        // L1Block predeploy: slots as laid out by the L1Block contract.
        let l1 = &cfg["l1"];
        let empty = getb(l1, "empty");
        let (sn, sd, bn) = (u(l1, "sn"), u(l1, "sd"), u(l1, "bn"));
        db.insert_account_info(L1_BLOCK_CONTRACT, AccountInfo { nonce: 1, ..Default::default() });
        let mut put = |slot: u64, val: U256| {
            db.insert_account_storage(L1_BLOCK_CONTRACT, U256::from(slot), val).unwrap();
        };
        put(1, U256::from(u(l1, "basefee")));
        put(5, U256::from(u(l1, "overhead")));
        put(6, U256::from(scalar(sn, sd)));
        if !empty {
            put(7, U256::from(u(l1, "blobfee")));
            // slot 3: [.. | baseFeeScalar u32 @16 | blobBaseFeeScalar u32 @20 | sequenceNumber u64 @24]
            let mut w = [0u8; 32];
            w[16..20].copy_from_slice(&(u32::try_from(scalar(sn, sd)).unwrap()).to_be_bytes());
            w[20..24].copy_from_slice(&(u32::try_from(scalar(bn, sd)).unwrap()).to_be_bytes());
            w[24..32].copy_from_slice(&7u64.to_be_bytes());
            put(3, U256::from_be_bytes(w));
        }
        // slot 8: [.. | operatorFeeScalar u32 @20 | operatorFeeConstant u64 @24]
        let of = &cfg["opfee"];
        let mut w = [0u8; 32];
        w[20..24].copy_from_slice(&(u32::try_from(scalar(u(of, "n"), u(of, "d"))).unwrap()).to_be_bytes());
        w[24..32].copy_from_slice(&u(of, "c").to_be_bytes());
        put(8, U256::from_be_bytes(w));

        // reward = false: the only public way to disable beneficiary rewards (property C22)
        let reward = cfg.get("reward").and_then(|v| v.as_bool()).unwrap_or(true);
        let mut evm: TheEvm = if reward {
            Evm::builder().with_db(db).with_handler_cfg(HandlerCfg::new_with_optimism(spec, true)).build()
        } else {
            Evm::builder().with_db(db).with_handler(Handler::optimism_with_spec(spec, false)).build()
        };
        {
            let b = &mut evm.context.evm.env.block;
            b.coinbase = COINBASE;
            b.basefee = U256::from(u(cfg, "basefee"));
            b.gas_limit = U256::from(30_000_000u64);
            b.number = U256::from(100u64);
            b.timestamp = U256::from(1_700_000_000u64);
            b.prevrandao = Some(B256::with_last_byte(1));
            b.difficulty = U256::ZERO;
            if spec.is_enabled_in(SpecId::CANCUN) {
                b.set_blob_excess_gas_and_price(0, spec.is_enabled_in(SpecId::PRAGUE));
            }
            evm.context.evm.env.cfg.chain_id = 10;
        }
        St { evm, spec, cfg: cfg.clone(), last: ("none".into(), 0, 0, U256::ZERO) }
    }

    fn bal(s: &St, a: Address) -> U256 {
        s.evm.db().basic_ref(a).unwrap().map(|i| i.balance).unwrap_or_default()
    }

    fn proj(s: &St) -> Value {
        let rcpt = Self::bal(s, RCPT_EOA)
            + Self::bal(s, RCPT_REVERT)
            + Self::bal(s, RCPT_INVALID)
            + Self::bal(s, RCPT_CLEAR);
        let nonce = s.evm.db().basic_ref(SENDER).unwrap().map(|i| i.nonce).unwrap_or_default();
        json!({
            "bal": {
                "s": num(Self::bal(s, SENDER)),
                "r": num(rcpt),
                "cb": num(Self::bal(s, COINBASE)),
                "bv": num(Self::bal(s, BASE_FEE_RECIPIENT)),
                "lv": num(Self::bal(s, L1_FEE_RECIPIENT)),
                "ov": num(Self::bal(s, OPERATOR_FEE_RECIPIENT)),
            },
            "nonce": nonce,
            "res": s.last.0,
            "used": s.last.1,
            "refunded": s.last.2,
            "l1": num(s.last.3),
        })
    }

    fn tx(s: &mut St, op: &Value) {
        let kind = gets(op, "kind");
        let deposit = kind != "regular";
        let target = match gets(op, "exec") {
            "transfer" => RCPT_EOA,
            "revert" => RCPT_REVERT,
            "invalid" => RCPT_INVALID,
            "clear" => RCPT_CLEAR,
            o => panic!("unknown exec {o}"),
        };
        let envs = s.cfg["envs"].as_array().expect("cfg.envs");
        let e = &envs[(u(op, "env") - 1) as usize];
        let env_bytes = envelope(u(e, "z"), u(e, "nz"));
        let nonce = s.evm.db().basic_ref(SENDER).unwrap().map(|i| i.nonce).unwrap_or_default();
        let prio = geti(op, "prio");
        {
            let tx = &mut s.evm.context.evm.env.tx;
            tx.clear();
            tx.caller = SENDER;
            tx.transact_to = TxKind::Call(target);
            tx.value = U256::from(u(op, "value"));
            tx.data = Bytes::new();
            tx.gas_limit = u(&s.cfg, "gaslimit");
            tx.gas_price = U256::from(u(op, "price"));
            tx.gas_priority_fee = if prio < 0 { None } else { Some(U256::from(prio as u64)) };
            tx.nonce = Some(nonce);
            tx.chain_id = Some(10);
            tx.optimism.enveloped_tx = Some(env_bytes.clone());
            if deposit {
                tx.optimism.source_hash = Some(B256::with_last_byte(0x42));
                let m = u(op, "mint");
                tx.optimism.mint = if m == 0 { None } else { Some(m as u128) };
                tx.optimism.is_system_transaction = Some(kind == "system");
            } else {
                tx.optimism.source_hash = None;
                tx.optimism.mint = None;
                tx.optimism.is_system_transaction = Some(false);
            }
        }
        // The value of the L1 cost function for this envelope, from a freshly fetched L1BlockInfo
        // (reported; the specification uses it as an input from Fjord on).
        let l1 = if deposit {
            U256::ZERO
        } else {
            let mut info = L1BlockInfo::try_fetch(s.evm.db_mut(), s.spec).unwrap();
            info.calculate_tx_l1_cost(&env_bytes, s.spec)
        };
        s.last = match s.evm.transact_commit() {
            Ok(r) => {
                let used = r.gas_used();
                match r {
                    ExecutionResult::Success { gas_refunded, .. } => ("success".into(), used, gas_refunded, l1),
                    ExecutionResult::Revert { .. } | ExecutionResult::Halt { .. } => ("failed".into(), used, 0, l1),
                }
            }
            Err(EVMError::Transaction(_)) => ("rejected".into(), 0, 0, l1),
            Err(e) => (format!("error:{e:?}"), 0, 0, l1),
        };
    }
}

impl Engine for OpFees {
    type S = St;
    fn init(&self, cfg: &Value) -> St { Self::build(cfg) }
    fn project(&self, s: &St) -> Value { Self::proj(s) }
    fn apply(&self, s: &mut St, op: &Value) -> Value {
        match gets(op, "op") {
            "tx" => Self::tx(s, op),
            o => panic!("unknown op {o}"),
        }
        Self::proj(s)
    }
    fn signature(&self, op: &Value, diff: &[String], _exp: &Value, _got: &Value) -> String {
        // group by transaction kind (and fork-independent): "tx.regular:/bal/s,/bal/ov"
        let mut d: Vec<String> = diff.iter().map(|p| generalize(p)).collect();
        d.sort();
        d.dedup();
        format!("tx.{}:{}", op.get("kind").and_then(|v| v.as_str()).unwrap_or("?"), d.join(","))
    }
}

/// measure: {"common": {...}, "configs": [cfg...], "alphabet": [op...], "depth": n}
/// -> tree {"f":[0,0,0], "k":[ per config: {"f":[0,0,0], "k":[ per op: {"f":[used,refunded,l1], "k":[...]} ]} ]}
fn measure(input: &str, output: Option<&str>) {
    std::panic::set_hook(Box::new(|_| {}));
    let req: Value = serde_json::from_str(&std::fs::read_to_string(input).unwrap()).unwrap();
    let alphabet = req["alphabet"].as_array().unwrap().clone();
    let depth = req["depth"].as_u64().unwrap();
    let eng = OpFees;
    let mut runs = 0u64;
    fn facts(v: &Value) -> Value {
        let l1 = if v["l1"].is_u64() { v["l1"].clone() } else { json!(-1) };
        json!([v["used"], v["refunded"], l1])
    }
    fn rec(eng: &OpFees, cfg: &Value, alphabet: &[Value], prefix: &mut Vec<Value>, depth: u64, runs: &mut u64) -> Vec<Value> {
        let mut kids = vec![];
        for op in alphabet {
            prefix.push(op.clone());
            let r = std::panic::catch_unwind(std::panic::AssertUnwindSafe(|| {
                let mut s = eng.init(cfg);
                let mut last = Value::Null;
                for h in prefix.iter() {
                    last = eng.apply(&mut s, h);
                }
                last
            }));
            *runs += 1;
            let f = match r {
                Ok(v) => facts(&v),
                Err(_) => json!([0, 0, -1]),
            };
            let k = if (prefix.len() as u64) < depth { rec(eng, cfg, alphabet, prefix, depth, runs) } else { vec![] };
            kids.push(json!({"f": f, "k": k}));
            prefix.pop();
        }
        kids
    }
    let mut roots = vec![];
    for c in req["configs"].as_array().unwrap() {
        let mut cfg = req["common"].clone();
        for (k, v) in c.as_object().unwrap() {
            cfg[k] = v.clone();
        }
        let mut prefix = vec![];
        let k = if depth > 0 { rec(&eng, &cfg, &alphabet, &mut prefix, depth, &mut runs) } else { vec![] };
        roots.push(json!({"f": [0, 0, 0], "k": k}));
    }
    let tree = json!({"f": [0, 0, 0], "k": roots});
    std::fs::write(output.expect("measure needs an output path"), serde_json::to_string(&tree).unwrap()).unwrap();
    println!("{}", json!({"kind": "summary", "histories": runs}));
}

fn main() {
    let a = Args::parse();
    match a.mode.as_str() {
        "edges" => run_edges(&OpFees, &a.input, a.output.as_deref()),
        "behaviours" => run_behaviours(&OpFees, &a.input, a.output.as_deref()),
        "measure" => measure(&a.input, a.output.as_deref()),
        m => a.bad_mode(m),
    }
}
