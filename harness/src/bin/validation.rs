//! Engine for Validation.tla (C02): transaction validity verdicts and "rejection has no effect".
//!
//! Operations (all expectations come from the specification; this file only builds the real
//! `Env` / database from the model's records, calls the real entry points and projects):
//!   validate         a stand-alone case: fresh database holding the sender, fresh Evm; the verdict
//!                    of `preverify_transaction()` and of `transact()` (each on its own Evm)
//!   open             create the long-lived Evm of a history (fork, block, initial world)
//!   transact_commit  submit a transaction with `transact_commit()`
//!   preverify        submit a transaction to `preverify_transaction()`
//!   credit           add wei to the sender directly in the database (outside the Evm)
//! Verdict: `EVMError::Transaction` / `EVMError::Header` = rejected, any execution result =
//! accepted; anything else (database error, custom error) is reported as a string.
#[path = "../common.rs"]
mod common;
use common::*;
use revm::{
    db::{CacheDB, EmptyDB},
    primitives::{
        address, AccessListItem, AccountInfo, Address, Authorization, BlobExcessGasAndPrice, BlockEnv, Bytecode,
        Bytes, CfgEnv, EVMError, RecoveredAuthority, RecoveredAuthorization, SpecId, TxEnv, TxKind, B256,
        KECCAK_EMPTY, U256,
    },
    Database, DatabaseRef, Evm,
};
use serde_json::{json, Value};

type Db = CacheDB<EmptyDB>;
type TheEvm = Evm<'static, (), Db>;

const SENDER: Address = address!("1000000000000000000000000000000000000001");
const RECIPIENT: Address = address!("2000000000000000000000000000000000000002");
const COINBASE: Address = address!("3000000000000000000000000000000000000003");
const LISTED: Address = address!("4000000000000000000000000000000000000004");
const DELEGATE: Address = address!("5000000000000000000000000000000000000005");

/// Model value of 2^256-1 and of 2^64-1 (see Validation.tla, "Numbers").
const HUGE: i64 = 536870912;
const NONCE_MAX: i64 = 1000000;

fn wei(v: i64) -> U256 {
    assert!((0..=HUGE).contains(&v), "amount {v} outside the model's range");
    if v < HUGE / 2 { U256::from(v as u64) } else { U256::MAX - U256::from((HUGE - v) as u64) }
}
fn unwei(r: U256) -> Value {
    let half = U256::from((HUGE / 2) as u64);
    if r < half {
        json!(r.to::<u64>())
    } else if U256::MAX - r < half {
        json!(HUGE - (U256::MAX - r).to::<u64>() as i64)
    } else {
        json!(format!("mid:{r}"))
    }
}
fn nonce(v: i64) -> u64 {
    assert!((0..=NONCE_MAX).contains(&v), "nonce {v} outside the model's range");
    if v < NONCE_MAX / 2 { v as u64 } else { u64::MAX - (NONCE_MAX - v) as u64 }
}
fn unnonce(r: u64) -> Value {
    let half = (NONCE_MAX / 2) as u64;
    if r < half { json!(r) } else if u64::MAX - r < half { json!(NONCE_MAX - (u64::MAX - r) as i64) } else { json!(format!("mid:{r}")) }
}
fn opt(v: i64) -> Option<i64> {
    if v == -1 { None } else { Some(v) }
}

fn build_tx(t: &Value) -> TxEnv {
    let zeros = geti(t, "zeros") as usize;
    let nonzeros = geti(t, "nonzeros") as usize;
    let mut data = vec![0u8; zeros];
    data.extend(std::iter::repeat(1u8).take(nonzeros));
    let al_addrs = geti(t, "al_addrs") as usize;
    let al_keys = geti(t, "al_keys") as usize;
    let access_list: Vec<AccessListItem> = (0..al_addrs)
        .map(|i| AccessListItem {
            address: LISTED,
            storage_keys: if i == 0 { (0..al_keys).map(|k| B256::with_last_byte(k as u8 + 1)).collect() } else { vec![] },
        })
        .collect();
    let blob_hashes: Vec<B256> = t["blobs"]
        .as_array()
        .expect("blobs")
        .iter()
        .enumerate()
        .map(|(i, v)| {
            let mut h = B256::with_last_byte(i as u8 + 1);
            h.0[0] = v.as_i64().unwrap() as u8;
            h
        })
        .collect();
    let authorization_list = opt(geti(t, "auth")).map(|n| {
        // authorizations whose signature does not recover: they count for intrinsic gas and are
        // skipped when the list is applied (EIP-7702), so the world is not touched by them
        (0..n)
            .map(|i| {
                RecoveredAuthorization::new_unchecked(
                    Authorization { chain_id: U256::from(1u64), address: DELEGATE, nonce: i as u64 },
                    RecoveredAuthority::Invalid,
                )
            })
            .collect::<Vec<_>>()
            .into()
    });
    TxEnv {
        caller: SENDER,
        gas_limit: geti(t, "gas") as u64,
        gas_price: wei(geti(t, "fee")),
        transact_to: match gets(t, "to") {
            "call" => TxKind::Call(RECIPIENT),
            "create" => TxKind::Create,
            o => panic!("unknown destination {o}"),
        },
        value: wei(geti(t, "value")),
        data: Bytes::from(data),
        nonce: Some(nonce(geti(t, "nonce"))),
        chain_id: opt(geti(t, "chain")).map(|c| c as u64),
        access_list,
        gas_priority_fee: opt(geti(t, "prio")).map(wei),
        blob_hashes,
        max_fee_per_blob_gas: opt(geti(t, "blobcap")).map(wei),
        authorization_list,
    }
}

fn build_block(b: &Value) -> BlockEnv {
    BlockEnv {
        number: U256::from(100u64),
        coinbase: COINBASE,
        timestamp: U256::from(1000u64),
        gas_limit: U256::from(geti(b, "gas_limit") as u64),
        basefee: U256::from(geti(b, "base_fee") as u64),
        difficulty: U256::ZERO,
        prevrandao: if getb(b, "prevrandao") { Some(B256::with_last_byte(1)) } else { None },
        blob_excess_gas_and_price: opt(geti(b, "blob_price"))
            .map(|p| BlobExcessGasAndPrice { excess_blob_gas: 0, blob_gasprice: p as u128 }),
    }
}

fn code_of(kind: &str) -> Bytecode {
    match kind {
        "none" => Bytecode::default(),
        "contract" => Bytecode::new_raw(Bytes::from(vec![0x60, 0x00, 0x00])), // PUSH1 0 STOP
        "delegation" => {
            let mut v = vec![0xef, 0x01, 0x00];
            v.extend_from_slice(DELEGATE.as_slice());
            Bytecode::new_raw(Bytes::from(v))
        }
        o => panic!("unknown code kind {o}"),
    }
}

fn account(balance: U256, n: u64, code: Bytecode) -> AccountInfo {
    let code_hash = if code.is_empty() { KECCAK_EMPTY } else { code.hash_slow() };
    AccountInfo { balance, nonce: n, code_hash, code: Some(code) }
}

fn build_evm(spec: SpecId, db: Db, block: &Value, cfg: &Value, tx: Option<TxEnv>) -> TheEvm {
    let chain_id = geti(cfg, "chain_id") as u64;
    let block = build_block(block);
    let mut b = Evm::builder()
        .with_db(db)
        .with_spec_id(spec)
        .modify_cfg_env(|c: &mut CfgEnv| c.chain_id = chain_id)
        .with_block_env(block);
    if let Some(tx) = tx {
        b = b.with_tx_env(tx);
    }
    b.build()
}

/// accept / reject / something else
fn verdict<T>(r: Result<T, EVMError<std::convert::Infallible>>) -> Value {
    match r {
        Ok(_) => json!(true),
        Err(EVMError::Transaction(_)) | Err(EVMError::Header(_)) => json!(false),
        Err(e) => json!(format!("error: {e:?}")),
    }
}

pub struct St {
    evm: Option<TheEvm>,
    fork: String,
    last: Value,
}

pub struct ValidationEngine;

impl ValidationEngine {
    fn validate(&self, op: &Value) -> Value {
        let spec = spec_by_name(gets(op, "fork"));
        let s = &op["sender"];
        let mk_db = || {
            let mut db = CacheDB::new(EmptyDB::default());
            db.insert_account_info(
                SENDER,
                account(wei(geti(s, "balance")), nonce(geti(s, "nonce")), code_of(gets(s, "code"))),
            );
            db
        };
        let mut e1 = build_evm(spec, mk_db(), &op["block"], &op["cfg"], Some(build_tx(&op["tx"])));
        let pre = verdict(e1.preverify_transaction());
        let mut e2 = build_evm(spec, mk_db(), &op["block"], &op["cfg"], Some(build_tx(&op["tx"])));
        let tr = verdict(e2.transact());
        json!({"preverify": pre, "transact": tr})
    }

    fn proj(&self, s: &St) -> Value {
        let Some(evm) = s.evm.as_ref() else { return Value::Null };
        let info = |evm: &TheEvm, a: Address| evm.db().basic_ref(a).unwrap().unwrap_or_default();
        let snd = info(evm, SENDER);
        let rcp = info(evm, RECIPIENT);
        let cb = info(evm, COINBASE);
        json!({"fork": s.fork, "nonce": unnonce(snd.nonce), "sbal": unwei(snd.balance), "rbal": unwei(rcp.balance),
               "cbal": unwei(cb.balance), "accept": s.last})
    }
}

impl Engine for ValidationEngine {
    type S = St;
    fn init(&self, _cfg: &Value) -> St {
        St { evm: None, fork: String::new(), last: json!(true) }
    }
    fn project(&self, s: &St) -> Value {
        self.proj(s)
    }
    fn apply(&self, s: &mut St, op: &Value) -> Value {
        match gets(op, "op") {
            "validate" => return self.validate(op),
            "open" => {
                let mut db = CacheDB::new(EmptyDB::default());
                db.insert_account_info(SENDER, account(wei(geti(op, "sbal")), nonce(geti(op, "nonce")), Bytecode::default()));
                db.insert_account_info(RECIPIENT, account(wei(geti(op, "rbal")), 0, Bytecode::default()));
                db.insert_account_info(COINBASE, account(wei(geti(op, "cbal")), 0, Bytecode::default()));
                s.fork = gets(op, "fork").to_string();
                s.evm = Some(build_evm(spec_by_name(&s.fork), db, &op["block"], &op["cfg"], None));
                s.last = json!(true);
            }
            "transact_commit" => {
                let evm = s.evm.as_mut().expect("open first");
                *evm.tx_mut() = build_tx(&op["tx"]);
                s.last = verdict(evm.transact_commit());
            }
            "preverify" => {
                let evm = s.evm.as_mut().expect("open first");
                *evm.tx_mut() = build_tx(&op["tx"]);
                s.last = verdict(evm.preverify_transaction());
            }
            "credit" => {
                let evm = s.evm.as_mut().expect("open first");
                let mut info = evm.db_mut().basic(SENDER).unwrap().unwrap_or_default();
                info.balance += U256::from(geti(op, "a") as u64);
                evm.db_mut().insert_account_info(SENDER, info);
                s.last = json!(true);
            }
            o => panic!("unknown op {o}"),
        }
        self.proj(s)
    }
    /// Stand-alone cases are grouped by the direction of the disagreement and the rules the
    /// specification says are broken (diagnostic field of the case), not by field values.
    fn signature(&self, op: &Value, diff: &[String], exp: &Value, _got: &Value) -> String {
        let name = gets(op, "op");
        let mut d: Vec<String> = diff.iter().map(|p| generalize(p)).collect();
        d.sort();
        d.dedup();
        if name == "validate" {
            let overflow = op.get("cost").and_then(|c| c.as_i64()).map_or(false, |c| c > HUGE);
            let rules: Vec<&str> = op["violated"]
                .as_array()
                .map(|a| a.iter().filter_map(|v| v.as_str()).map(|r| if r == "Funds" && overflow { "FundsOverflow" } else { r }).collect())
                .unwrap_or_default();
            let dir = if exp["transact"] == json!(true) { "rejected-valid" } else { "accepted-invalid" };
            let what = if rules.is_empty() { gets(op, "kind").to_string() } else { rules.join("+") };
            format!("validate:{}[{}]:{}", dir, what, d.join(","))
        } else {
            let cls = op.get("cls").and_then(|v| v.as_str()).unwrap_or("");
            format!("{}[{}]:{}", name, cls, d.join(","))
        }
    }
}

fn main() {
    let a = Args::parse();
    let eng = ValidationEngine;
    match a.mode.as_str() {
        "edges" => run_edges(&eng, &a.input, a.output.as_deref()),
        m => a.bad_mode(m),
    }
}
