//! Engine for Precompiles.tla (C23).  Every EDGE line of the specification is one independent call
//! (hist = []): `op` = {op: precompile name, addr, fork, input: descriptor, gas, direct, evm, rd,
//! bytes, lenient}.  Two adapters, both purely mechanical:
//!
//!  direct  the precompile object registered under `addr` in `Precompiles::new(PrecompileSpecId::<fork>)`
//!          is called with (input, gas); the PrecompileResult is projected to
//!          {status: ok|oog|fail|absent, gas_used, outlen, [out]}.
//!  evm     a real `Evm` (SpecId <fork>) runs a transaction to a contract that copies its calldata
//!          to memory and executes CALL(gas, addr, 0, input); the contract reports the success flag,
//!          GAS before/after the CALL and (from Byzantium) RETURNDATASIZE + the return data; an
//!          inspector reports how revm classified the sub-call (InstructionResult) and its output.
//!          The gas *consumed out of what was forwarded* is the measured GAS difference minus the
//!          same measurement with 0 gas forwarded (the fork's fixed cost of the CALL itself, which
//!          is another property's business); the projection is
//!          {success, consumed, outlen, reason, [rdsize], [out]}.
//!
//! Input descriptors are expanded by concatenation: {k:"lit", v:[bytes]}, {k:"rep", b, n},
//! {k:"ramp", n} (byte j = (7*j+1) mod 256).  `bytes` says whether output bytes are part of the
//! projection; `lenient` says that the specification does not distinguish out-of-gas from another
//! failure for this call (both become "fails" / "PrecompileFailure").  The harness decides nothing.
#[path = "../common.rs"]
mod common;
use common::*;
use revm::{
    db::{CacheDB, EmptyDB},
    inspector_handle_register,
    interpreter::{CallInputs, CallOutcome},
    primitives::{
        address, AccountInfo, Address, Bytecode, Bytes, Env, ExecutionResult, Output, TxKind, B256, U256,
    },
    Database, Evm, EvmContext, Inspector,
};
use revm_precompile::{u64_to_address, PrecompileErrors, PrecompileSpecId, Precompiles};
use serde_json::{json, Value};

const CALLER: Address = address!("1000000000000000000000000000000000000001");
const CONTRACT: Address = address!("c0de00000000000000000000000000000000c0de");

fn expand(desc: &Value) -> Vec<u8> {
    let mut out = vec![];
    for seg in desc.as_array().expect("descriptor is an array") {
        match gets(seg, "k") {
            "lit" => out.extend(seg["v"].as_array().unwrap().iter().map(|b| b.as_u64().unwrap() as u8)),
            "rep" => out.extend(std::iter::repeat(geti(seg, "b") as u8).take(geti(seg, "n") as usize)),
            "ramp" => out.extend((0..geti(seg, "n") as u64).map(|j| ((7 * j + 1) % 256) as u8)),
            k => panic!("unknown segment kind {k}"),
        }
    }
    out
}

fn hex(b: &[u8]) -> String {
    b.iter().map(|x| format!("{x:02x}")).collect()
}

fn pspec(name: &str) -> PrecompileSpecId {
    match name {
        "HOMESTEAD" => PrecompileSpecId::HOMESTEAD,
        "BYZANTIUM" => PrecompileSpecId::BYZANTIUM,
        "ISTANBUL" => PrecompileSpecId::ISTANBUL,
        "BERLIN" => PrecompileSpecId::BERLIN,
        "CANCUN" => PrecompileSpecId::CANCUN,
        "PRAGUE" => PrecompileSpecId::PRAGUE,
        "LATEST" => PrecompileSpecId::LATEST,
        o => panic!("{o} is not a PrecompileSpecId"),
    }
}

/// What the inspector saw of the CALL to the precompile address.
#[derive(Default, Debug)]
struct Watch {
    target: Address,
    reason: Option<String>,
    output: Vec<u8>,
}
impl<DB: Database> Inspector<DB> for Watch {
    fn call_end(&mut self, _c: &mut EvmContext<DB>, inputs: &CallInputs, outcome: CallOutcome) -> CallOutcome {
        if inputs.target_address == self.target && self.reason.is_none() {
            self.reason = Some(format!("{:?}", outcome.result.result));
            self.output = outcome.result.output.to_vec();
        }
        outcome
    }
}

/// CALLDATACOPY(0,0,size); g1=GAS; ok=CALL(gas, addr, 0, 0, size, 0, 0); g2=GAS;
/// mem[0]=ok; mem[32]=g1-g2; [mem[64]=RETURNDATASIZE; mem[96..]=return data]; RETURN
fn caller_code(addr: u64, gas: u64, rd: bool) -> Vec<u8> {
    let mut c: Vec<u8> = vec![0x36, 0x60, 0x00, 0x60, 0x00, 0x37];
    c.push(0x5a);
    c.extend([0x60, 0x00, 0x60, 0x00, 0x36, 0x60, 0x00, 0x60, 0x00]);
    c.push(0x61);
    c.extend((addr as u16).to_be_bytes());
    c.push(0x67);
    c.extend(gas.to_be_bytes());
    c.push(0xf1);
    c.push(0x5a);
    c.extend([0x90, 0x60, 0x00, 0x52]); // SWAP1 PUSH1 0 MSTORE        mem[0] = success
    c.extend([0x90, 0x03, 0x60, 0x20, 0x52]); // SWAP1 SUB PUSH1 32 MSTORE   mem[32] = g1 - g2
    if rd {
        c.extend([0x3d, 0x60, 0x40, 0x52]); // mem[64] = RETURNDATASIZE
        c.extend([0x3d, 0x60, 0x00, 0x60, 0x60, 0x3e]); // RETURNDATACOPY(96, 0, size)
        c.extend([0x3d, 0x60, 0x60, 0x01, 0x60, 0x00, 0xf3]); // RETURN(0, 96 + size)
    } else {
        c.extend([0x60, 0x40, 0x60, 0x00, 0xf3]);
    }
    c
}

struct Observed {
    success: u64,
    delta: u64,
    rdsize: Option<u64>,
    rdata: Vec<u8>,
    watch: Watch,
}

fn run_call(fork: &str, addr: u64, gas: u64, rd: bool, input: &[u8]) -> Result<Observed, String> {
    let code = Bytecode::new_raw(caller_code(addr, gas, rd).into());
    let mut db = CacheDB::new(EmptyDB::default());
    db.insert_account_info(CALLER, AccountInfo::new(U256::from(1u64) << 200, 0, B256::ZERO, Bytecode::default()));
    db.insert_account_info(CONTRACT, AccountInfo::new(U256::ZERO, 1, code.hash_slow(), code));
    let watch = Watch { target: u64_to_address(addr), ..Default::default() };
    let data = Bytes::copy_from_slice(input);
    let mut evm = Evm::builder()
        .with_db(db)
        .with_external_context(watch)
        .with_spec_id(spec_by_name(fork))
        .append_handler_register(inspector_handle_register)
        .modify_block_env(|b| {
            b.gas_limit = U256::from(1u64 << 50);
            b.basefee = U256::ZERO;
            b.number = U256::from(100u64);
            b.timestamp = U256::from(1000u64);
            b.prevrandao = Some(B256::with_last_byte(1));
            b.set_blob_excess_gas_and_price(0, false);
        })
        .modify_tx_env(|t| {
            t.caller = CALLER;
            t.transact_to = TxKind::Call(CONTRACT);
            t.data = data;
            t.gas_limit = 1u64 << 36;
            t.gas_price = U256::ZERO;
            t.gas_priority_fee = None;
            t.value = U256::ZERO;
            t.nonce = None;
        })
        .build();
    let out = evm.transact().map_err(|e| format!("error: {e:?}"))?;
    let bytes = match out.result {
        ExecutionResult::Success { output: Output::Call(b), .. } => b,
        ExecutionResult::Success { .. } => return Err("create?".into()),
        ExecutionResult::Revert { .. } => return Err("outer revert".into()),
        ExecutionResult::Halt { reason, .. } => return Err(format!("outer halt: {reason:?}")),
    };
    let word = |i: usize| -> u64 { U256::from_be_slice(&bytes[32 * i..32 * i + 32]).try_into().unwrap_or(u64::MAX) };
    let watch = std::mem::take(&mut evm.context.external);
    Ok(Observed {
        success: word(0),
        delta: word(1),
        rdsize: if rd { Some(word(2)) } else { None },
        rdata: if rd { bytes[96..].to_vec() } else { vec![] },
        watch,
    })
}

pub struct PcEngine {
    env: Env,
}

impl PcEngine {
    fn direct(&self, op: &Value, input: &Bytes) -> Value {
        let set = Precompiles::new(pspec(gets(op, "fork")));
        let gas = geti(op, "gas") as u64;
        let with_bytes = getb(op, "bytes");
        let lenient = getb(op, "lenient");
        let (status, gas_used, out): (String, u64, Vec<u8>) = match set.get(&u64_to_address(geti(op, "addr") as u64)) {
            None => ("absent".into(), 0, vec![]),
            Some(p) => match p.call_ref(input, gas, &self.env) {
                Ok(o) => ("ok".into(), o.gas_used, o.bytes.to_vec()),
                Err(PrecompileErrors::Error(e)) => {
                    let s = if lenient { "fails" } else if e.is_oog() { "oog" } else { "fail" };
                    (s.into(), 0, vec![])
                }
                Err(PrecompileErrors::Fatal { msg }) => (format!("fatal: {msg}"), 0, vec![]),
            },
        };
        let mut v = json!({"status": status, "gas_used": gas_used, "outlen": out.len()});
        if with_bytes {
            v["out"] = json!(hex(&out));
        }
        v
    }

    fn evm(&self, op: &Value, input: &[u8]) -> Value {
        let (fork, addr, gas) = (gets(op, "fork"), geti(op, "addr") as u64, geti(op, "gas") as u64);
        let (rd, with_bytes, lenient) = (getb(op, "rd"), getb(op, "bytes"), getb(op, "lenient"));
        let main = match run_call(fork, addr, gas, rd, input) {
            Ok(o) => o,
            Err(e) => return json!({"tx": e}),
        };
        let base = match run_call(fork, addr, 0, rd, input) {
            Ok(o) => o,
            Err(e) => return json!({"tx_calibration": e}),
        };
        let mut reason = main.watch.reason.clone().unwrap_or_else(|| "no call_end".into());
        if lenient && (reason == "PrecompileOOG" || reason == "PrecompileError") {
            reason = "PrecompileFailure".into();
        }
        let mut v = json!({
            "success": main.success,
            "consumed": main.delta as i64 - base.delta as i64,
            "outlen": main.watch.output.len(),
            "reason": reason,
        });
        if let Some(n) = main.rdsize {
            v["rdsize"] = json!(n);
        }
        if with_bytes {
            // from Byzantium on: what RETURNDATACOPY gives the caller; before: what revm hands back
            v["out"] = json!(hex(if rd { &main.rdata } else { &main.watch.output }));
        }
        v
    }
}

impl Engine for PcEngine {
    type S = ();
    fn init(&self, _cfg: &Value) -> Self::S {}
    fn project(&self, _s: &Self::S) -> Value {
        Value::Null
    }
    fn apply(&self, _s: &mut Self::S, op: &Value) -> Value {
        let input = expand(&op["input"]);
        let mut v = json!({});
        if getb(op, "direct") {
            v["direct"] = self.direct(op, &Bytes::copy_from_slice(&input));
        }
        if getb(op, "evm") {
            v["evm"] = self.evm(op, &input);
        }
        v
    }
    /// Expected output bytes come as a descriptor; expand them to the hex form of the projection.
    fn mask(&self, exp: &mut Value) {
        for side in ["direct", "evm"] {
            if let Some(o) = exp.get_mut(side).and_then(|s| s.get_mut("out")) {
                if o.is_array() {
                    *o = json!(hex(&expand(o)));
                }
            }
        }
    }
    fn signature(&self, op: &Value, diff: &[String], _exp: &Value, _got: &Value) -> String {
        let mut d: Vec<String> = diff.iter().map(|p| generalize(p)).collect();
        d.sort();
        d.dedup();
        format!("{}@{}:{}", gets(op, "op"), gets(op, "fork"), d.join(","))
    }
}

fn main() {
    let a = Args::parse();
    let eng = PcEngine { env: Env::default() };
    match a.mode.as_str() {
        "edges" => run_edges(&eng, &a.input, a.output.as_deref()),
        m => a.bad_mode(m),
    }
}
