//! Engine for Journal.tla (C06; journal-level parts of C07/C08/C34): drives revm::JournaledState.
#[path = "../common.rs"]
mod common;
#[path = "../refdb.rs"]
mod refdb;
use common::*;
use refdb::RefDb;
use revm::primitives::{Address, Bytecode, Log, SpecId, B256, KECCAK_EMPTY, U256};
use revm::{JournalCheckpoint, JournaledState};
use serde_json::{json, Map, Value};
use std::collections::{BTreeMap, HashSet};

struct Cfg {
    addrs: Vec<u8>,
    slots: Vec<u64>,
    bshift: usize,
    nbig: i64,
    spec: SpecId,
    prewarm: Vec<u8>,
    db: RefDb,
    codes: BTreeMap<B256, i64>,
}

pub struct JournalEngine {
    cfg: Cfg,
}

pub struct St {
    js: JournaledState,
    db: RefDb,
    cps: Vec<JournalCheckpoint>,
    dirty: String,
    ret: Value,
}

fn addr(a: i64) -> Address {
    Address::with_last_byte(a as u8)
}
/// Storage values: model v <-> v * (2^192 + 7), so every limb of the word matters.
fn valk() -> U256 {
    (U256::from(1u8) << 192) + U256::from(7u8)
}
fn val(v: i64) -> U256 {
    U256::from(v as u64) * valk()
}
fn unval(r: U256) -> Value {
    if r % valk() == U256::ZERO && r / valk() < U256::from(1000u32) {
        json!((r / valk()).to::<u64>())
    } else {
        json!(format!("odd:{r:#x}"))
    }
}
fn code_of(c: i64) -> Bytecode {
    if c == 0 { Bytecode::default() } else { Bytecode::new_raw(vec![0x60, c as u8, 0x00].into()) }
}

impl JournalEngine {
    fn new(cfgfile: &str) -> Self {
        let v: Value = serde_json::from_str(&std::fs::read_to_string(cfgfile).unwrap()).unwrap();
        let addrs: Vec<u8> = v["addr"].as_array().unwrap().iter().map(|x| x.as_u64().unwrap() as u8).collect();
        let slots: Vec<u64> = v["slot"].as_array().unwrap().iter().map(|x| x.as_u64().unwrap()).collect();
        let bshift = v["bshift"].as_u64().unwrap() as usize;
        let nbig = v["nbig"].as_i64().unwrap();
        let spec = spec_by_name(v["spec"].as_str().unwrap());
        let prewarm = v["prewarm"].as_array().unwrap().iter().map(|x| x.as_u64().unwrap() as u8).collect();
        let mut db = RefDb::default();
        let mut codes = BTreeMap::new();
        codes.insert(KECCAK_EMPTY, 0);
        for c in 1..6 {
            codes.insert(code_of(c).hash_slow(), c);
        }
        let mut e = JournalEngine { cfg: Cfg { addrs, slots, bshift, nbig, spec, prewarm, db: RefDb::default(), codes } };
        for (a, r) in v["db"].as_object().unwrap() {
            let a: i64 = a.parse().unwrap();
            if r["ex"].as_bool().unwrap() {
                let c = r["code"].as_i64().unwrap();
                db.insert_account(addr(a), e.bal(r["bal"].as_i64().unwrap()), e.nonce(r["nonce"].as_i64().unwrap()),
                                  if c == 0 { None } else { Some(code_of(c)) });
            }
            for (k, x) in r["stor"].as_object().unwrap() {
                db.insert_storage(addr(a), U256::from(k.parse::<u64>().unwrap()), val(x.as_i64().unwrap()));
            }
        }
        e.cfg.db = db;
        e
    }
    fn bal(&self, v: i64) -> U256 {
        U256::from(v as u64) << self.cfg.bshift
    }
    fn unbal(&self, r: U256) -> Value {
        let m = r >> self.cfg.bshift;
        if (m << self.cfg.bshift) == r && m < U256::from(100000u32) { json!(m.to::<u64>()) } else { json!(format!("odd:{r:#x}")) }
    }
    fn nonce(&self, v: i64) -> u64 {
        if v < self.cfg.nbig / 2 { v as u64 } else { u64::MAX - (self.cfg.nbig - v) as u64 }
    }
    fn unnonce(&self, r: u64) -> Value {
        let half = (self.cfg.nbig / 2) as u64;
        if r < half { json!(r) } else if u64::MAX - r < half { json!(self.cfg.nbig - (u64::MAX - r) as i64) } else { json!(format!("mid:{r}")) }
    }
    fn proj(&self, s: &St) -> Value {
        if !s.dirty.is_empty() {
            return json!({"dirty": s.dirty, "depth": s.js.depth});
        }
        let mut acct = Map::new();
        let mut slot = Map::new();
        let mut tst = Map::new();
        for &a in &self.cfg.addrs {
            let ad = addr(a as i64);
            let mut sl = Map::new();
            let mut ts = Map::new();
            let acc = s.js.state.get(&ad);
            acct.insert(a.to_string(), match acc {
                None => json!([]),
                Some(x) => {
                    let mut f = String::new();
                    if x.is_touched() { f.push('t') }
                    if x.is_created() { f.push('c') }
                    if x.is_selfdestructed() { f.push('d') }
                    if x.status.contains(revm::primitives::AccountStatus::Cold) { f.push('k') }
                    if x.state_clear_aware_is_empty(self.cfg.spec) { f.push('e') }
                    let code = match self.cfg.codes.get(&x.info.code_hash) { Some(c) => json!(c), None => json!("?") };
                    json!([self.unbal(x.info.balance), self.unnonce(x.info.nonce), code, f])
                }
            });
            for &k in &self.cfg.slots {
                let sv = acc.and_then(|x| x.storage.get(&U256::from(k)));
                sl.insert(k.to_string(), match sv {
                    None => json!([]),
                    Some(e) => json!([unval(e.present_value), unval(e.original_value), if e.is_cold { 1 } else { 0 }]),
                });
                let t = s.js.transient_storage.get(&(ad, U256::from(k))).copied().unwrap_or_default();
                ts.insert(k.to_string(), unval(t));
            }
            slot.insert(a.to_string(), Value::Object(sl));
            tst.insert(a.to_string(), Value::Object(ts));
        }
        // accounts / slots outside the model's universe must not appear
        let extra = s.js.state.keys().filter(|k| !self.cfg.addrs.iter().any(|a| addr(*a as i64) == **k)).count();
        let logs: Vec<Value> = s.js.logs.iter().map(|l| json!(l.address.0[19])).collect();
        let mut o = json!({"acct": acct, "slot": slot, "tstor": tst, "logs": logs, "depth": s.js.depth,
                           "dirty": "", "ret": s.ret});
        if extra > 0 {
            o["extra_accounts"] = json!(extra);
        }
        if s.js.depth != s.cps.len() {
            o["depth_vs_open_checkpoints"] = json!([s.js.depth, s.cps.len()]);
        }
        o
    }
}

fn cw(c: bool) -> &'static str {
    if c { "cold" } else { "warm" }
}

impl Engine for JournalEngine {
    type S = St;
    fn init(&self, _cfg: &Value) -> St {
        let warm: HashSet<Address> = self.cfg.prewarm.iter().map(|a| addr(*a as i64)).collect();
        St { js: JournaledState::new(self.cfg.spec, warm), db: self.cfg.db.clone(), cps: vec![], dirty: String::new(), ret: json!("") }
    }
    fn project(&self, s: &St) -> Value {
        self.proj(s)
    }
    fn apply(&self, s: &mut St, op: &Value) -> Value {
        let a = || addr(geti(op, "a"));
        s.ret = json!("");
        match gets(op, "op") {
            "load_account" => {
                let r = s.js.load_account(a(), &mut s.db).unwrap();
                s.ret = json!(cw(r.is_cold));
            }
            "load_code" => {
                let r = s.js.load_code(a(), &mut s.db).unwrap();
                let cold = r.is_cold;
                assert!(r.data.info.code.is_some(), "load_code left code unloaded");
                s.ret = json!(cw(cold));
            }
            "initial_account_load" => {
                let ks: Vec<U256> = op["ks"].as_object().unwrap().iter()
                    .filter(|(_, v)| v.as_i64() == Some(1)).map(|(k, _)| U256::from(k.parse::<u64>().unwrap())).collect();
                s.js.initial_account_load(a(), ks, &mut s.db).unwrap();
            }
            "touch" => s.js.touch(&a()),
            "inc_nonce" => {
                let r = s.js.inc_nonce(a());
                s.ret = json!(if r.is_some() { "some" } else { "none" });
            }
            "set_code" => s.js.set_code(a(), code_of(geti(op, "c"))),
            "transfer" => {
                let r = s.js.transfer(&addr(geti(op, "f")), &addr(geti(op, "t")), self.bal(geti(op, "v")), &mut s.db).unwrap();
                match r {
                    None => s.ret = json!("ok"),
                    Some(e) => s.dirty = format!("transfer:{e:?}"),
                }
            }
            "sload" => {
                let r = s.js.sload(a(), U256::from(geti(op, "k") as u64), &mut s.db).unwrap();
                s.ret = json!([unval(r.data), cw(r.is_cold)]);
            }
            "sstore" => {
                let r = s.js.sstore(a(), U256::from(geti(op, "k") as u64), val(geti(op, "v")), &mut s.db).unwrap();
                s.ret = json!([unval(r.data.original_value), unval(r.data.present_value), unval(r.data.new_value), cw(r.is_cold)]);
            }
            "tload" => {
                let r = s.js.tload(a(), U256::from(geti(op, "k") as u64));
                s.ret = unval(r);
            }
            "tstore" => s.js.tstore(a(), U256::from(geti(op, "k") as u64), val(geti(op, "v"))),
            "log" => s.js.log(Log { address: a(), data: Default::default() }),
            "selfdestruct" => {
                let r = s.js.selfdestruct(a(), addr(geti(op, "t")), &mut s.db).unwrap();
                s.ret = json!([r.data.had_value, r.data.target_exists, r.data.previously_destroyed, cw(r.is_cold)]);
            }
            "checkpoint" => {
                let c = s.js.checkpoint();
                s.cps.push(c);
            }
            "checkpoint_commit" => {
                s.js.checkpoint_commit();
                s.cps.pop();
            }
            "checkpoint_revert" => {
                let c = s.cps.pop().expect("model reverts only open checkpoints");
                s.js.checkpoint_revert(c);
                s.dirty.clear();
            }
            "create_account_checkpoint" => {
                let r = s.js.create_account_checkpoint(addr(geti(op, "c")), addr(geti(op, "t")), getb(op, "hs"),
                                                       self.bal(geti(op, "v")), self.cfg.spec);
                match r {
                    Ok(c) => {
                        s.cps.push(c);
                        s.ret = json!("ok");
                    }
                    Err(e) => s.ret = json!(format!("{e:?}")),
                }
            }
            "finalize" => {
                let _ = s.js.finalize();
                s.cps.clear();
            }
            o => panic!("unknown op {o}"),
        }
        self.proj(s)
    }
    /// For reverts, name what was being reverted (operation kinds since the matching checkpoint),
    /// so that a known finding about one kind of entry cannot hide a defect about another.
    fn signature_h(&self, hist: &[Value], op: &Value, diff: &[String], _exp: &Value, _got: &Value) -> String {
        let name = gets(op, "op");
        let mut d: Vec<String> = diff.iter().map(|p| generalize(p)).collect();
        d.sort();
        d.dedup();
        if name == "checkpoint_revert" {
            let mut kinds: Vec<&str> = hist.iter().map(|h| gets(h, "op"))
                .filter(|o| !matches!(*o, "checkpoint" | "checkpoint_commit" | "checkpoint_revert" | "load_account" | "load_code" | "tload"))
                .collect();
            kinds.sort();
            kinds.dedup();
            format!("{}[{}]:{}", name, kinds.join("+"), d.join(","))
        } else {
            format!("{}:{}", name, d.join(","))
        }
    }
}

fn main() {
    let a = Args::parse();
    let eng = JournalEngine::new(&a.gets("cfg", ""));
    match a.mode.as_str() {
        "edges" => run_edges(&eng, &a.input, a.output.as_deref()),
        "behaviours" => run_behaviours(&eng, &a.input, a.output.as_deref()),
        m => a.bad_mode(m),
    }
}
