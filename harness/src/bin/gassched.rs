//! Engine for GasSchedule.tla (C14): calls the real functions of `revm_interpreter::gas` with the
//! arguments of each CASE line of the specification's case table and prints what they return.
//!
//! Mode `cases`: each input line is {"f": function, "fork": index, "name": SpecId name | "ANY",
//! "args": {...}, "expect": number | "OOG" | {"sum": [[a,e],..]} | {..record..}}.
//! The adapter decides nothing: it builds the argument values, calls the function, projects the
//! result (Some(x) -> x, None -> "OOG") and compares it with `expect` structurally.
//!
//! Number encoding (both directions): a JSON integer is itself; {"sum":[[a,e],...]} is
//! a1*2^e1 + a2*2^e2 + ... (used for arguments/results near 2^64 and for 256-bit EXP exponents).
#[path = "../common.rs"]
mod common;
use common::*;
use revm_interpreter::gas;
use revm_interpreter::{num_words, AccountLoad, Eip7702CodeLoad, SStoreResult, SelfDestructResult, StateLoad};
use revm_primitives::{eip7702, AccessListItem, Address, SpecId, B256, U256};
use serde_json::{json, Map, Value};
use std::collections::BTreeMap;
use std::panic::{catch_unwind, AssertUnwindSafe};

/// SpecId by the name of the enum variant (explicit table; `SpecId::from(&str)` lacks the aliases).
fn spec_by_name(name: &str) -> SpecId {
    use SpecId::*;
    match name {
        "FRONTIER" => FRONTIER,
        "FRONTIER_THAWING" => FRONTIER_THAWING,
        "HOMESTEAD" => HOMESTEAD,
        "DAO_FORK" => DAO_FORK,
        "TANGERINE" => TANGERINE,
        "SPURIOUS_DRAGON" => SPURIOUS_DRAGON,
        "BYZANTIUM" => BYZANTIUM,
        "CONSTANTINOPLE" => CONSTANTINOPLE,
        "PETERSBURG" => PETERSBURG,
        "ISTANBUL" => ISTANBUL,
        "MUIR_GLACIER" => MUIR_GLACIER,
        "BERLIN" => BERLIN,
        "LONDON" => LONDON,
        "ARROW_GLACIER" => ARROW_GLACIER,
        "GRAY_GLACIER" => GRAY_GLACIER,
        "MERGE" => MERGE,
        "SHANGHAI" => SHANGHAI,
        "CANCUN" => CANCUN,
        "PRAGUE" => PRAGUE,
        "OSAKA" => OSAKA,
        "LATEST" => LATEST,
        o => fatal(&format!("unknown SpecId name {o}")),
    }
}

fn fatal(msg: &str) -> ! {
    eprintln!("gassched: {msg}");
    std::process::exit(3)
}

/// Model number -> U256 (sum of a_i * 2^e_i; the total must be in 0..2^256).
fn big(v: &Value) -> U256 {
    if let Some(n) = v.as_u64() {
        return U256::from(n);
    }
    let terms = v.get("sum").and_then(|s| s.as_array()).unwrap_or_else(|| fatal(&format!("bad number {v}")));
    let (mut pos, mut neg) = (U256::ZERO, U256::ZERO);
    let mut top = false; // a term 2^256 (only as 2^256 - small)
    for t in terms {
        let a = t[0].as_i64().unwrap_or_else(|| fatal(&format!("bad term {t}")));
        let e = t[1].as_u64().unwrap_or_else(|| fatal(&format!("bad term {t}"))) as usize;
        if a == 0 {
            continue;
        }
        if e == 256 && a == 1 {
            top = true;
            continue;
        }
        let m = U256::from(a.unsigned_abs()).checked_mul(U256::from(1u8) << e).unwrap_or_else(|| fatal("number too large"));
        if a > 0 {
            pos = pos.checked_add(m).unwrap_or_else(|| fatal("number too large"));
        } else {
            neg = neg.checked_add(m).unwrap_or_else(|| fatal("number too large"));
        }
    }
    if top {
        // 2^256 + pos - neg = (2^256 - 1) - (neg - pos - 1)
        if neg <= pos {
            fatal("number too large")
        }
        return U256::MAX - (neg - pos - U256::from(1u8));
    }
    pos.checked_sub(neg).unwrap_or_else(|| fatal(&format!("negative number {v}")))
}

fn num(args: &Value, k: &str) -> u64 {
    let v = args.get(k).unwrap_or_else(|| fatal(&format!("argument {k} missing in {args}")));
    u64::try_from(big(v)).unwrap_or_else(|_| fatal(&format!("argument {k} does not fit u64: {v}")))
}
fn flag(args: &Value, k: &str) -> bool {
    args.get(k).and_then(|v| v.as_bool()).unwrap_or_else(|| fatal(&format!("argument {k} missing/not bool in {args}")))
}
fn text<'a>(args: &'a Value, k: &str) -> &'a str {
    args.get(k).and_then(|v| v.as_str()).unwrap_or_else(|| fatal(&format!("argument {k} missing/not string in {args}")))
}

fn opt(r: Option<u64>) -> Value {
    match r {
        Some(x) => json!(x),
        None => json!("OOG"),
    }
}

fn sstore_vals(a: &Value) -> SStoreResult {
    SStoreResult {
        original_value: U256::from(num(a, "orig")),
        present_value: U256::from(num(a, "present")),
        new_value: U256::from(num(a, "new")),
    }
}

fn code_load(a: &Value) -> Eip7702CodeLoad<()> {
    Eip7702CodeLoad {
        state_load: StateLoad::new((), flag(a, "cold")),
        is_delegate_account_cold: match text(a, "delegate") {
            "none" => None,
            "cold" => Some(true),
            "warm" => Some(false),
            o => fatal(&format!("bad delegate {o}")),
        },
    }
}

/// Calldata with the given numbers of zero and non-zero bytes, interleaved, non-zero bytes of varying value.
fn calldata(zeros: u64, nonzeros: u64) -> Vec<u8> {
    const NZ: [u8; 5] = [0x01, 0xff, 0x80, 0x10, 0x7f];
    let (mut z, mut n) = (zeros, nonzeros);
    let mut out = Vec::with_capacity((zeros + nonzeros) as usize);
    while z + n > 0 {
        if n > 0 {
            out.push(NZ[(n % 5) as usize]);
            n -= 1;
        }
        if z > 0 {
            out.push(0);
            z -= 1;
        }
    }
    out
}

fn constant(name: &str) -> Value {
    use gas::*;
    match name {
        "ZERO" => json!(ZERO),
        "BASE" => json!(BASE),
        "VERYLOW" => json!(VERYLOW),
        "DATA_LOADN_GAS" => json!(DATA_LOADN_GAS),
        "CONDITION_JUMP_GAS" => json!(CONDITION_JUMP_GAS),
        "RETF_GAS" => json!(RETF_GAS),
        "DATA_LOAD_GAS" => json!(DATA_LOAD_GAS),
        "LOW" => json!(LOW),
        "MID" => json!(MID),
        "HIGH" => json!(HIGH),
        "JUMPDEST" => json!(JUMPDEST),
        "SELFDESTRUCT" => json!(SELFDESTRUCT),
        "CREATE" => json!(CREATE),
        "CALLVALUE" => json!(CALLVALUE),
        "NEWACCOUNT" => json!(NEWACCOUNT),
        "EXP" => json!(EXP),
        "MEMORY" => json!(MEMORY),
        "LOG" => json!(LOG),
        "LOGDATA" => json!(LOGDATA),
        "LOGTOPIC" => json!(LOGTOPIC),
        "KECCAK256" => json!(KECCAK256),
        "KECCAK256WORD" => json!(KECCAK256WORD),
        "COPY" => json!(COPY),
        "BLOCKHASH" => json!(BLOCKHASH),
        "CODEDEPOSIT" => json!(CODEDEPOSIT),
        "INSTANBUL_SLOAD_GAS" => json!(INSTANBUL_SLOAD_GAS),
        "SSTORE_SET" => json!(SSTORE_SET),
        "SSTORE_RESET" => json!(SSTORE_RESET),
        "REFUND_SSTORE_CLEARS" => json!(REFUND_SSTORE_CLEARS),
        "STANDARD_TOKEN_COST" => json!(STANDARD_TOKEN_COST),
        "NON_ZERO_BYTE_DATA_COST" => json!(NON_ZERO_BYTE_DATA_COST),
        "NON_ZERO_BYTE_MULTIPLIER" => json!(NON_ZERO_BYTE_MULTIPLIER),
        "NON_ZERO_BYTE_DATA_COST_ISTANBUL" => json!(NON_ZERO_BYTE_DATA_COST_ISTANBUL),
        "NON_ZERO_BYTE_MULTIPLIER_ISTANBUL" => json!(NON_ZERO_BYTE_MULTIPLIER_ISTANBUL),
        "TOTAL_COST_FLOOR_PER_TOKEN" => json!(TOTAL_COST_FLOOR_PER_TOKEN),
        "EOF_CREATE_GAS" => json!(EOF_CREATE_GAS),
        "ACCESS_LIST_ADDRESS" => json!(ACCESS_LIST_ADDRESS),
        "ACCESS_LIST_STORAGE_KEY" => json!(ACCESS_LIST_STORAGE_KEY),
        "COLD_SLOAD_COST" => json!(COLD_SLOAD_COST),
        "COLD_ACCOUNT_ACCESS_COST" => json!(COLD_ACCOUNT_ACCESS_COST),
        "WARM_STORAGE_READ_COST" => json!(WARM_STORAGE_READ_COST),
        "WARM_SSTORE_RESET" => json!(WARM_SSTORE_RESET),
        "INITCODE_WORD_COST" => json!(INITCODE_WORD_COST),
        "CALL_STIPEND" => json!(CALL_STIPEND),
        "MIN_CALLEE_GAS" => json!(MIN_CALLEE_GAS),
        "PER_EMPTY_ACCOUNT_COST" => json!(eip7702::PER_EMPTY_ACCOUNT_COST),
        "PER_AUTH_BASE_COST" => json!(eip7702::PER_AUTH_BASE_COST),
        o => fatal(&format!("unknown constant {o}")),
    }
}

/// Call the function named by the case on the real code; the result in the model's vocabulary.
fn call(f: &str, spec: Option<SpecId>, a: &Value) -> Value {
    let sp = || spec.unwrap_or_else(|| fatal(&format!("{f} needs a fork")));
    match f {
        "sstore_cost" => opt(gas::sstore_cost(sp(), &sstore_vals(a), num(a, "gasleft"), flag(a, "cold"))),
        "sstore_refund" => json!(gas::sstore_refund(sp(), &sstore_vals(a))),
        "sload_cost" => json!(gas::sload_cost(sp(), flag(a, "cold"))),
        "call_cost" => json!(gas::call_cost(
            sp(),
            flag(a, "value"),
            AccountLoad { load: code_load(a), is_empty: flag(a, "empty") }
        )),
        "selfdestruct_cost" => json!(gas::selfdestruct_cost(
            sp(),
            StateLoad::new(
                SelfDestructResult {
                    had_value: flag(a, "had_value"),
                    target_exists: flag(a, "target_exists"),
                    previously_destroyed: flag(a, "previously_destroyed"),
                },
                flag(a, "cold")
            )
        )),
        "warm_cold_cost" => json!(gas::warm_cold_cost(flag(a, "cold"))),
        "warm_cold_cost_with_delegation" => json!(gas::warm_cold_cost_with_delegation(code_load(a))),
        // memory_gas has no failure channel: it saturates at u64::MAX, a charge no meter can pay
        // (some gas is always spent before any memory is touched); that value is projected as failure.
        "memory_gas" => {
            let r = gas::memory_gas(num(a, "words"));
            if r == u64::MAX { json!("OOG") } else { json!(r) }
        }
        "memory_gas_for_len" => {
            let r = gas::memory_gas_for_len(num(a, "len") as usize);
            if r == u64::MAX { json!("OOG") } else { json!(r) }
        }
        "num_words" => json!(num_words(num(a, "len"))),
        "cost_per_word" => opt(gas::cost_per_word(num(a, "len"), num(a, "multiple"))),
        "verylowcopy_cost" => opt(gas::verylowcopy_cost(num(a, "len"))),
        "extcodecopy_cost" => opt(gas::extcodecopy_cost(sp(), num(a, "len"), flag(a, "cold"))),
        "keccak256_cost" => opt(gas::keccak256_cost(num(a, "len"))),
        "log_cost" => opt(gas::log_cost(num(a, "topics") as u8, num(a, "len"))),
        "create2_cost" => opt(gas::create2_cost(num(a, "len"))),
        "initcode_cost" => json!(gas::initcode_cost(num(a, "len"))),
        "exp_cost" => opt(gas::exp_cost(sp(), big(&a["power"]))),
        "calculate_initial_tx_gas" => {
            let input = calldata(num(a, "zeros"), num(a, "nonzeros"));
            let al: Vec<AccessListItem> = a["access"]
                .as_array()
                .unwrap_or_else(|| fatal("access must be an array"))
                .iter()
                .enumerate()
                .map(|(i, k)| AccessListItem {
                    address: Address::with_last_byte(i as u8 + 1),
                    storage_keys: (0..k.as_u64().unwrap()).map(|j| B256::with_last_byte(j as u8)).collect(),
                })
                .collect();
            let r = gas::calculate_initial_tx_gas(sp(), &input, flag(a, "create"), &al, num(a, "auths"));
            json!({"initial": r.initial_gas, "floor": r.floor_gas})
        }
        "get_tokens_in_calldata" => {
            json!(gas::get_tokens_in_calldata(&calldata(num(a, "zeros"), num(a, "nonzeros")), flag(a, "istanbul")))
        }
        "calc_tx_floor_cost" => json!(gas::calc_tx_floor_cost(num(a, "tokens"))),
        "const" => constant(text(a, "name")),
        o => fatal(&format!("unknown function {o}")),
    }
}

/// Expected value with {"sum":..} numbers replaced by plain integers (when they fit u64).
fn normal(v: &Value) -> Value {
    match v {
        Value::Object(m) if m.contains_key("sum") => match u64::try_from(big(v)) {
            Ok(x) => json!(x),
            Err(_) => v.clone(),
        },
        Value::Object(m) => Value::Object(m.iter().map(|(k, x)| (k.clone(), normal(x))).collect()),
        _ => v.clone(),
    }
}

/// Grouping of mismatches only (never used to judge): the shape of a 64-bit argument given as a sum.
fn arg_class(f: &str, args: &Value) -> String {
    if f == "exp_cost" {
        return String::new();
    }
    let Some(m) = args.as_object() else { return String::new() };
    for (k, v) in m {
        let Some(t) = v.get("sum").and_then(|s| s.as_array()) else { continue };
        let e = t[0][1].as_u64().unwrap_or(0);
        if t.len() == 1 {
            let c = if e < 32 { "e<32" } else if e <= 36 { "32<=e<=36" } else { "e>=37" };
            return format!(":{k}=2^e,{c}");
        }
        let minus = -t[1][0].as_i64().unwrap_or(0);
        if e == 64 {
            return format!(":{k}=2^64-k,{}", if minus < 32 { "k<32" } else { "k>=32" });
        }
        return format!(":{k}=2^{e}-k");
    }
    String::new()
}

fn run_cases(input: &str, output: Option<&str>) {
    std::panic::set_hook(Box::new(|_| {}));
    let cases = read_ndjson(input);
    let mut out = Out::new(output);
    let (mut n_ok, mut n_bad, mut n_panic) = (0u64, 0u64, 0u64);
    let mut per_sig: BTreeMap<String, u64> = BTreeMap::new();
    let mut ops: BTreeMap<String, u64> = BTreeMap::new();
    for (idx, c) in cases.iter().enumerate() {
        let f = gets(c, "f");
        let name = gets(c, "name");
        let spec = if name == "ANY" { None } else { Some(spec_by_name(name)) };
        *ops.entry(f.to_string()).or_default() += 1;
        let got = match catch_unwind(AssertUnwindSafe(|| call(f, spec, &c["args"]))) {
            Ok(g) => g,
            Err(_) => {
                n_panic += 1;
                json!({"panic": true})
            }
        };
        let exp = normal(&c["expect"]);
        let mut d = vec![];
        jdiff(&exp, &got, "", &mut d);
        if d.is_empty() {
            n_ok += 1;
            continue;
        }
        n_bad += 1;
        let sig = format!("{}:{}{}", f, name, arg_class(f, &c["args"]));
        let n = per_sig.entry(sig.clone()).or_default();
        *n += 1;
        if *n <= 2 {
            out.emit(&json!({"kind":"mismatch","sig":sig,"idx":idx,"case":c,"exp":exp,"got":got,"diff":d}));
        }
    }
    let sigs: Map<String, Value> = per_sig.into_iter().map(|(k, v)| (k, json!(v))).collect();
    let opsj: Map<String, Value> = ops.into_iter().map(|(k, v)| (k, json!(v))).collect();
    out.emit(&json!({"kind":"summary","cases":cases.len(),"ok":n_ok,"root":n_bad,"panics":n_panic,"sigs":sigs,"ops":opsj}));
    out.flush();
}

fn main() {
    let a = Args::parse();
    match a.mode.as_str() {
        "cases" => run_cases(&a.input, a.output.as_deref()),
        m => a.bad_mode(m),
    }
}
