//! Engine for InspectorProtocol.tla / InspectorTrace.tla (C29, C30; trace-level parts of C25, C28).
//!
//! DIRECTION B (trace validation).  This binary never decides what is right.  It
//!   gen    <programs.ndjson> n=.. seed=.. tier=quick|thorough   writes generated programs (one JSON object per line)
//!   run    <programs.ndjson> <trace.ndjson> [maxev=N]            executes every program on the real `revm::Evm`
//!                                                                with a recording inspector and writes the hook trace
//!   replay <program.ndjson> [-]                                  same as run for the given program(s), trace on stdout,
//!                                                                full (undigested) results on stderr
//! A program is a closed world: accounts (address, balance, nonce, code), one transaction, a hardfork, and
//! optionally an address whose calls the recording inspector answers itself (`sc_call`) / a flag to answer
//! nested creates itself (`sc_create`).
//!
//! Trace vocabulary (one JSON object per line; `e` is the event kind).  Addresses and 256-bit values are
//! mapped to small integers through per-program dictionaries (equal id <=> equal value; value id 0 <=> zero).
//!   Reset        p (program id) fork gl (tx gas limit) hooks (false: trace too long, hook events omitted) cls
//!   Call         k (scheme) from to code val gas inp (input digest) st (static) sc (answered by the inspector)
//!   CallEnd      the same inputs as Call + res (InstructionResult) grem (gas remaining in the outcome)
//!   Create       k from val gas init (init code digest) salt sc
//!   CreateEnd    the same inputs + res grem addr (0 = none)
//!   Init         ctx (executing address) st gas (gas limit) codelen padlen      [initialize_interp]
//!   Step         pc op sl (stack height) gas mem top (SELFDESTRUCT only: address on top of the stack, 0 if empty)
//!                bal (SELFDESTRUCT only: value id of the executing account's balance)
//!   StepEnd      pc res sl gas mem
//!   Log          addr nt
//!   SelfDestruct c t v
//!   End          res (Success|Revert|Halt|Err) used (gas used) dg (digest id of result+state)   [recording run]
//!   Digest       mode (none|noop|gas|eip3155) dg used
//!   Panic        mode msg
#[path = "../common.rs"]
mod common;
use common::*;
use rand::rngs::StdRng;
use rand::{Rng, SeedableRng};
use revm::db::{CacheDB, EmptyDB};
use revm::inspectors::{GasInspector, NoOpInspector, TracerEip3155};
use revm::interpreter::{
    CallInputs, CallOutcome, CallScheme, CallValue, CreateInputs, CreateOutcome, EOFCreateInputs, EOFCreateKind, Gas,
    InstructionResult, Interpreter, InterpreterResult,
};
use revm::primitives::{
    AccountInfo, Address, Bytecode, Bytes, CreateScheme, EVMError, ExecutionResult, Log, ResultAndState, TxKind, B256,
    U256,
};
use revm::{inspector_handle_register, Database, Evm, EvmContext, Inspector};
use serde_json::{json, Value};
use std::collections::HashMap;
use std::panic::{catch_unwind, AssertUnwindSafe};

type Db = CacheDB<EmptyDB>;

// ------------------------------------------------------------------------------------ programs

fn addr(n: u8) -> Address {
    Address::with_last_byte(n)
}
const EOA: u8 = 0xee; // the transaction sender
const A: u8 = 0xa0;
const B: u8 = 0xb0;
const C: u8 = 0xc0;
const ABSENT: u8 = 0xdd;
const P4: u8 = 0x04; // identity precompile

fn hex(b: &[u8]) -> String {
    b.iter().map(|x| format!("{x:02x}")).collect()
}
fn unhex(s: &str) -> Vec<u8> {
    let s = s.trim_start_matches("0x");
    (0..s.len() / 2).map(|i| u8::from_str_radix(&s[2 * i..2 * i + 2], 16).unwrap()).collect()
}
fn addr_of(s: &str) -> Address {
    let b = unhex(s);
    let mut a = [0u8; 20];
    a[20 - b.len()..].copy_from_slice(&b);
    Address::from(a)
}
fn u256_of(v: &Value) -> U256 {
    match v {
        Value::Number(n) => U256::from(n.as_u64().unwrap()),
        Value::String(s) => U256::from_str_radix(s.trim_start_matches("0x"), 16).unwrap(),
        _ => U256::ZERO,
    }
}

fn acct(a: u8, balance: u64, nonce: u64, code: &[u8]) -> Value {
    json!({"addr": hex(&[a]), "balance": balance, "nonce": nonce, "code": hex(code)})
}

/// Tiny assembler.
#[derive(Default, Clone)]
struct Asm {
    b: Vec<u8>,
}
#[derive(Clone, Copy)]
enum G {
    Fixed(u64),
    All,
}
mod op {
    pub const STOP: u8 = 0x00;
    pub const SUB: u8 = 0x03;
    pub const ADDRESS: u8 = 0x30;
    pub const CALLER: u8 = 0x33;
    pub const POP: u8 = 0x50;
    pub const MSTORE: u8 = 0x52;
    pub const SSTORE: u8 = 0x55;
    pub const JUMP: u8 = 0x56;
    pub const JUMPI: u8 = 0x57;
    pub const GAS: u8 = 0x5a;
    pub const JUMPDEST: u8 = 0x5b;
    pub const DUP1: u8 = 0x80;
    pub const LOG0: u8 = 0xa0;
    pub const CREATE: u8 = 0xf0;
    pub const CALL: u8 = 0xf1;
    pub const CALLCODE: u8 = 0xf2;
    pub const RETURN: u8 = 0xf3;
    pub const DELEGATECALL: u8 = 0xf4;
    pub const CREATE2: u8 = 0xf5;
    pub const STATICCALL: u8 = 0xfa;
    pub const REVERT: u8 = 0xfd;
    pub const INVALID: u8 = 0xfe;
    pub const SELFDESTRUCT: u8 = 0xff;
}
use op::*;

impl Asm {
    fn new() -> Self {
        Asm::default()
    }
    fn op(mut self, o: u8) -> Self {
        self.b.push(o);
        self
    }
    fn raw(mut self, bs: &[u8]) -> Self {
        self.b.extend_from_slice(bs);
        self
    }
    /// minimal PUSHn of an integer
    fn push(mut self, v: u64) -> Self {
        let bytes = v.to_be_bytes();
        let skip = bytes.iter().take_while(|x| **x == 0).count().min(7);
        let bs = &bytes[skip..];
        self.b.push(0x5f + bs.len() as u8);
        self.b.extend_from_slice(bs);
        self
    }
    fn push_bytes(mut self, bs: &[u8]) -> Self {
        assert!(!bs.is_empty() && bs.len() <= 32);
        self.b.push(0x5f + bs.len() as u8);
        self.b.extend_from_slice(bs);
        self
    }
    /// memory[0..data.len()] := data
    fn mem_put(mut self, data: &[u8]) -> Self {
        for (i, ch) in data.chunks(32).enumerate() {
            let mut w = [0u8; 32];
            w[..ch.len()].copy_from_slice(ch);
            self = self.push_bytes(&w).push(32 * i as u64).op(MSTORE);
        }
        self
    }
    fn gas_arg(self, g: G) -> Self {
        match g {
            G::Fixed(n) => self.push(n),
            G::All => self.op(GAS),
        }
    }
    /// CALL-family instruction; leaves the success flag on the stack.
    fn call(self, kind: u8, g: G, to: u8, value: u64, inlen: u64, outlen: u64) -> Self {
        let s = self.push(outlen).push(0).push(inlen).push(0);
        let s = if kind == CALL || kind == CALLCODE { s.push(value) } else { s };
        s.push(to as u64).gas_arg(g).op(kind)
    }
    /// CREATE / CREATE2 of `init`; leaves the address (or 0) on the stack.
    fn create(self, value: u64, init: &[u8], salt: Option<u64>) -> Self {
        let s = self.mem_put(init);
        match salt {
            None => s.push(init.len() as u64).push(0).push(value).op(CREATE),
            Some(x) => s.push(x).push(init.len() as u64).push(0).push(value).op(CREATE2),
        }
    }
    fn done(self) -> Vec<u8> {
        self.b
    }
}

/// init code that deploys `runtime`
fn deployer(runtime: &[u8]) -> Vec<u8> {
    Asm::new().mem_put(runtime).push(runtime.len() as u64).push(0).op(RETURN).done()
}
fn sd_to(t: u8) -> Vec<u8> {
    Asm::new().push(t as u64).op(SELFDESTRUCT).done()
}

struct Prog {
    cls: String,
    fork: String,
    gas_limit: u64,
    value: u64,
    data: Vec<u8>,
    to: Option<u8>,
    accounts: Vec<Value>,
    sc_call: Option<u8>,
    sc_create: bool,
    /// answer the creates whose init code is exactly this
    sc_init: Option<Vec<u8>>,
    /// answer the call / create announced while exactly this many frames are open
    sc_depth: Option<u64>,
}
impl Prog {
    fn new(cls: &str, fork: &str, accounts: Vec<Value>) -> Prog {
        Prog {
            cls: cls.into(),
            fork: fork.into(),
            gas_limit: 200_000,
            value: 0,
            data: vec![],
            to: Some(A),
            accounts,
            sc_call: None,
            sc_create: false,
            sc_init: None,
            sc_depth: None,
        }
    }
    fn val(mut self, v: u64) -> Self {
        self.value = v;
        self
    }
    fn gas(mut self, g: u64) -> Self {
        self.gas_limit = g;
        self
    }
    fn json(&self, id: u64) -> Value {
        let mut accounts = self.accounts.clone();
        if !accounts.iter().any(|a| a["addr"] == hex(&[EOA])) {
            accounts.push(acct(EOA, 1_000_000_000, 0, &[]));
        }
        json!({"id": id, "cls": self.cls, "fork": self.fork, "gas_limit": self.gas_limit, "value": self.value,
               "data": hex(&self.data), "to": self.to.map(|t| hex(&[t])), "accounts": accounts,
               "sc_call": self.sc_call.map(|t| hex(&[t])), "sc_create": self.sc_create,
               "sc_init": self.sc_init.as_ref().map(|b| hex(b)), "sc_depth": self.sc_depth})
    }
}

const SD_FORKS: [&str; 8] = ["HOMESTEAD", "BYZANTIUM", "ISTANBUL", "BERLIN", "LONDON", "SHANGHAI", "CANCUN", "PRAGUE"];
const MAIN_FORKS: [&str; 5] = ["BERLIN", "LONDON", "SHANGHAI", "CANCUN", "PRAGUE"];
const OLD_FORKS: [&str; 5] = ["FRONTIER", "HOMESTEAD", "TANGERINE", "BYZANTIUM", "ISTANBUL"];

/// The enumerated SELFDESTRUCT corners (C30), for one hardfork.
fn sd_scenarios(f: &str) -> Vec<Prog> {
    let mut v = vec![];
    let p = |name: &str, accts: Vec<Value>| Prog::new(&format!("sd:{name}"), f, accts);
    // to another account, with and without balance
    v.push(p("other_bal", vec![acct(A, 7, 1, &sd_to(B)), acct(B, 1, 1, &[STOP])]));
    v.push(p("other_nobal", vec![acct(A, 0, 1, &sd_to(B)), acct(B, 1, 1, &[STOP])]));
    // to self (from Cancun: nothing happens unless created in this transaction)
    v.push(p("self_bal", vec![acct(A, 7, 1, &[ADDRESS, SELFDESTRUCT])]));
    v.push(p("self_bal_txvalue", vec![acct(A, 7, 1, &[ADDRESS, SELFDESTRUCT])]).val(5));
    v.push(p("self_nobal", vec![acct(A, 0, 1, &[ADDRESS, SELFDESTRUCT])]));
    // to an absent account / a precompile / the caller
    v.push(p("absent_bal", vec![acct(A, 7, 1, &sd_to(ABSENT))]));
    v.push(p("absent_nobal", vec![acct(A, 0, 1, &sd_to(ABSENT))]));
    v.push(p("precompile_bal", vec![acct(A, 7, 1, &sd_to(P4))]));
    v.push(p("caller_bal", vec![acct(A, 7, 1, &[CALLER, SELFDESTRUCT])]).val(2));
    // dirty upper bits in the stack word: the beneficiary is the low 20 bytes
    let mut w = [0xffu8; 32];
    w[12..32].copy_from_slice(addr(B).as_slice());
    v.push(p("dirty_word", vec![acct(A, 7, 1, &Asm::new().push_bytes(&w).op(SELFDESTRUCT).done()), acct(B, 1, 1, &[STOP])]));
    // SELFDESTRUCT with an empty stack, frame entered with / without value (top level and nested)
    v.push(p("underflow_txvalue", vec![acct(A, 0, 1, &[SELFDESTRUCT])]).val(5));
    v.push(p("underflow_novalue", vec![acct(A, 3, 1, &[SELFDESTRUCT])]));
    v.push(p("underflow_nested_value", vec![
        acct(A, 9, 1, &Asm::new().call(CALL, G::Fixed(50_000), B, 3, 0, 0).op(POP).op(STOP).done()),
        acct(B, 0, 1, &[SELFDESTRUCT])]));
    // a failing SELFDESTRUCT in the parent after a child that self-destructed
    v.push(p("underflow_after_child_sd", vec![
        acct(A, 9, 1, &Asm::new().call(CALL, G::Fixed(60_000), B, 0, 0, 0).op(POP).op(SELFDESTRUCT).done()),
        acct(B, 4, 1, &sd_to(C)), acct(C, 1, 1, &[STOP])]));
    // inside a static call
    v.push(p("static", vec![
        acct(A, 9, 1, &Asm::new().call(STATICCALL, G::Fixed(60_000), B, 0, 0, 0).op(POP).op(STOP).done()),
        acct(B, 4, 1, &sd_to(C)), acct(C, 1, 1, &[STOP])]));
    // running out of gas inside SELFDESTRUCT (nested with a small allowance; top level with a tight tx limit)
    v.push(p("oog_nested", vec![
        acct(A, 9, 1, &Asm::new().call(CALL, G::Fixed(100), B, 0, 0, 0).op(POP).op(STOP).done()),
        acct(B, 4, 1, &sd_to(C)), acct(C, 1, 1, &[STOP])]));
    v.push(p("oog_nested_value", vec![
        acct(A, 9, 1, &Asm::new().call(CALL, G::Fixed(100), B, 2, 0, 0).op(POP).op(STOP).done()),
        acct(B, 4, 1, &sd_to(C)), acct(C, 1, 1, &[STOP])]));
    v.push(p("oog_top", vec![acct(A, 7, 1, &sd_to(B)), acct(B, 1, 1, &[STOP])]).gas(21_000 + 50));
    // created and destroyed in the same transaction: inside the init code, and deployed then called
    v.push(p("create_initcode_sd", vec![
        acct(A, 9, 1, &Asm::new().create(2, &sd_to(B), None).op(POP).op(STOP).done()), acct(B, 1, 1, &[STOP])]));
    for (name, rt) in [("created_self", vec![ADDRESS, SELFDESTRUCT]), ("created_other", sd_to(B))] {
        let code = Asm::new()
            .create(1, &deployer(&rt), None)
            .push(0).push(0).push(0).push(0).push(2).op(DUP1 + 5).op(GAS).op(CALL)
            .op(POP).op(POP).op(STOP).done();
        v.push(p(name, vec![acct(A, 9, 1, &code), acct(B, 1, 1, &[STOP])]));
    }
    // DELEGATECALL / CALLCODE: the destroyed contract is the context address, not the code's
    v.push(p("delegate", vec![
        acct(A, 9, 1, &Asm::new().call(DELEGATECALL, G::Fixed(60_000), B, 0, 0, 0).op(POP).op(STOP).done()),
        acct(B, 4, 1, &sd_to(C)), acct(C, 1, 1, &[STOP])]));
    v.push(p("callcode_value", vec![
        acct(A, 9, 1, &Asm::new().call(CALLCODE, G::Fixed(60_000), B, 3, 0, 0).op(POP).op(STOP).done()),
        acct(B, 4, 1, &sd_to(C)), acct(C, 1, 1, &[STOP])]));
    // twice in one transaction; and a completed SELFDESTRUCT whose caller reverts afterwards
    v.push(p("twice", vec![
        acct(A, 9, 1, &Asm::new().call(CALL, G::Fixed(60_000), B, 1, 0, 0).op(POP)
            .call(CALL, G::Fixed(60_000), B, 1, 0, 0).op(POP).op(STOP).done()),
        acct(B, 4, 1, &sd_to(C)), acct(C, 1, 1, &[STOP])]));
    v.push(p("then_parent_reverts", vec![
        acct(A, 9, 1, &Asm::new().call(CALL, G::Fixed(60_000), B, 3, 0, 0).op(POP).push(0).push(0).op(REVERT).done()),
        acct(B, 4, 1, &sd_to(C)), acct(C, 1, 1, &[STOP])]));
    // value-bearing call into a contract that self-destructs to its caller
    v.push(p("value_then_sd_caller", vec![
        acct(A, 9, 1, &Asm::new().call(CALL, G::Fixed(60_000), B, 3, 0, 0).op(POP).op(STOP).done()),
        acct(B, 4, 1, &[CALLER, SELFDESTRUCT])]));
    v
}

/// Early returns of call / create (frames that never exist) -- C29.
fn early_scenarios(f: &str) -> Vec<Prog> {
    let mut v = vec![];
    let p = |name: &str, accts: Vec<Value>| Prog::new(&format!("early:{name}"), f, accts);
    let calls = |k: u8, to: u8, val: u64| Asm::new().call(k, G::Fixed(30_000), to, val, 4, 32).op(POP).op(STOP).done();
    v.push(p("out_of_funds", vec![acct(A, 1, 1, &calls(CALL, B, 1000)), acct(B, 0, 1, &[STOP])]));
    v.push(p("precompile", vec![acct(A, 1, 1, &calls(CALL, P4, 0))]));
    v.push(p("precompile_value", vec![acct(A, 5, 1, &calls(CALL, P4, 1))]));
    v.push(p("precompile_oog", vec![acct(A, 5, 1, &Asm::new().call(CALL, G::Fixed(1), P4, 0, 32, 32).op(POP).op(STOP).done())]));
    v.push(p("absent", vec![acct(A, 5, 1, &calls(CALL, ABSENT, 1))]));
    v.push(p("absent_static", vec![acct(A, 5, 1, &calls(STATICCALL, ABSENT, 0))]));
    v.push(p("empty_code_delegate", vec![acct(A, 5, 1, &calls(DELEGATECALL, C, 0)), acct(C, 5, 0, &[])]));
    v.push(p("tx_to_empty_code", vec![acct(A, 5, 0, &[])]).val(1));
    v.push(p("tx_to_precompile", vec![]).val(0));
    let last = v.len() - 1;
    v[last].to = Some(P4);
    v[last].data = vec![1, 2, 3];
    // create: value above balance, nonce overflow, collision (same CREATE2 twice), init code reverting / invalid
    v.push(p("create_out_of_funds", vec![acct(A, 1, 1, &Asm::new().create(1000, &[STOP], None).op(POP).op(STOP).done())]));
    v.push(p("create_nonce_overflow", vec![acct(A, 1, u64::MAX, &Asm::new().create(0, &[STOP], None).op(POP).op(STOP).done())]));
    v.push(p("create2_collision", vec![acct(A, 5, 1, &Asm::new()
        .create(0, &deployer(&[STOP]), Some(7)).op(POP).create(0, &deployer(&[STOP]), Some(7)).op(POP).op(STOP).done())]));
    v.push(p("create_revert", vec![acct(A, 5, 1, &Asm::new()
        .create(1, &Asm::new().push(0).push(0).op(REVERT).done(), None).op(POP).op(STOP).done())]));
    v.push(p("create_invalid", vec![acct(A, 5, 1, &Asm::new().create(1, &[INVALID], None).op(POP).op(STOP).done())]));
    v.push(p("create_ef", vec![acct(A, 5, 1, &Asm::new().create(0, &deployer(&[0xef, 0x00]), None).op(POP).op(STOP).done())]));
    v.push(p("create_empty_init", vec![acct(A, 5, 1, &Asm::new().push(0).push(0).push(0).op(CREATE).op(POP).op(STOP).done())]));
    // a create transaction
    let mut t = p("create_tx", vec![]);
    t.to = None;
    t.data = deployer(&Asm::new().push(1).push(1).op(LOG0 + 1).op(STOP).done());
    v.push(t);
    let mut t = p("create_tx_sd", vec![acct(B, 1, 1, &[STOP])]).val(3);
    t.to = None;
    t.data = sd_to(B);
    v.push(t);
    // logs, also failing ones (static, underflow, out of gas)
    let logs = Asm::new().push(1).push(2).push(3).push(4).push(8).push(0).op(LOG0 + 4)
        .push(0).push(0).op(LOG0).push(5).push(1).push(0).op(LOG0 + 1).op(LOG0 + 2).done();
    v.push(p("logs", vec![acct(A, 5, 1, &logs)]));
    v.push(p("log_static", vec![acct(A, 5, 1, &calls(STATICCALL, B, 0)), acct(B, 0, 1, &Asm::new().push(0).push(0).op(LOG0).done())]));
    v.push(p("log_oog", vec![acct(A, 5, 1, &Asm::new().call(CALL, G::Fixed(300), B, 0, 0, 0).op(POP).op(STOP).done()),
                             acct(B, 0, 1, &Asm::new().push(0).push(0).op(LOG0).done())]));
    v.push(p("log_in_reverted_call", vec![acct(A, 5, 1, &calls(CALL, B, 0)),
        acct(B, 0, 1, &Asm::new().push(0).push(0).op(LOG0).push(0).push(0).op(REVERT).done())]));
    v
}

/// One hop of a nesting chain: the frame performs it, drops the result and stops.
#[derive(Clone, Copy, PartialEq)]
enum Hop {
    Create,
    Create2,
    Call(u8),
}

/// Code of a frame that performs hops[0]; the frame reached by hops[0] performs hops[1] and so on.  The last
/// hop is the one the inspector answers (its target never runs: init code INVALID / callee STOP).
fn chain_code(hops: &[Hop], accts: &mut Vec<Value>, tail: u8) -> Vec<u8> {
    let inner = if hops.len() > 1 { chain_code(&hops[1..], accts, tail) } else { vec![] };
    let a = match hops[0] {
        Hop::Create | Hop::Create2 => {
            let init = if hops.len() > 1 { inner } else { vec![INVALID] };
            Asm::new().create(0, &init, if hops[0] == Hop::Create2 { Some(5) } else { None })
        }
        Hop::Call(t) => {
            accts.push(acct(t, 1, 1, &if hops.len() > 1 { inner } else { vec![STOP] }));
            Asm::new().call(CALL, G::All, t, 0, 0, 0)
        }
    };
    let a = a.op(POP);
    match tail {
        0 => a.op(STOP).done(),
        1 => a.push(0).push(0).op(LOG0).op(STOP).done(),
        _ => a.push(0).push(0).op(RETURN).done(),
    }
}

/// Inspector-answered creates / calls NESTED inside create frames and call frames (C29): the answered start
/// is selected by its init code / callee (`by_depth` = false) or by the number of open frames.
fn nested_answered_scenarios(f: &str) -> Vec<Prog> {
    use Hop::*;
    let patterns: Vec<(&str, Vec<Hop>)> = vec![
        ("c", vec![Create]),
        ("cc", vec![Create, Create]),
        ("ccc", vec![Create, Create, Create]),
        ("c2c2", vec![Create2, Create2]),
        ("cc2c", vec![Create, Create2, Create]),
        ("cBc", vec![Create, Call(B), Create]),
        ("Bcc", vec![Call(B), Create, Create]),
        ("cBCc", vec![Create, Call(B), Call(C), Create]),
        ("cccc", vec![Create, Create, Create, Create]),
        ("B", vec![Call(B)]),
        ("BC", vec![Call(B), Call(C)]),
        ("cB", vec![Create, Call(B)]),
        ("ccB", vec![Create, Create, Call(B)]),
        ("BcC", vec![Call(B), Create, Call(C)]),
        ("cBcC", vec![Create, Call(B), Create2, Call(C)]),
    ];
    let mut v = vec![];
    for (i, (name, hops)) in patterns.iter().enumerate() {
        for create_tx in [true, false] {
            for by_depth in [false, true] {
                let mut accts = vec![];
                let code = chain_code(hops, &mut accts, (i % 3) as u8);
                let mut p = Prog::new(&format!("nest:{}{}:{}", if create_tx { "T" } else { "A" }, name,
                                               if by_depth { "depth" } else { "id" }), f, vec![]).gas(600_000);
                if create_tx {
                    p.to = None;
                    p.data = code;
                } else {
                    accts.push(acct(A, 5, 1, &code));
                }
                p.accounts = accts;
                if by_depth {
                    p.sc_depth = Some(hops.len() as u64);
                } else {
                    match hops[hops.len() - 1] {
                        Call(t) => p.sc_call = Some(t),
                        _ => p.sc_init = Some(vec![INVALID]),
                    }
                }
                v.push(p);
            }
        }
    }
    v
}

/// Recursion until the depth limit (HOMESTEAD: the whole requested gas is forwarded).
fn deep_program() -> Prog {
    let code = Asm::new().push(0).op(DUP1).op(DUP1).op(DUP1).op(DUP1).op(ADDRESS)
        .push(1000).op(GAS).op(SUB).op(CALL).op(STOP).done();
    Prog::new("deep", "HOMESTEAD", vec![acct(A, 0, 1, &code)]).gas(3_000_000)
}

fn pick<T: Copy>(r: &mut StdRng, xs: &[T]) -> T {
    xs[r.gen_range(0..xs.len())]
}

fn init_templates(r: &mut StdRng) -> Vec<u8> {
    match r.gen_range(0..11) {
        0 => vec![],
        9 => Asm::new().create(0, &[INVALID], None).op(POP).raw(&deployer(&[STOP])).done(),
        10 => Asm::new().create(0, &Asm::new().create(0, &[STOP], Some(1)).op(POP).op(STOP).done(), None).op(POP).op(STOP).done(),
        1 => deployer(&[ADDRESS, SELFDESTRUCT]),
        2 => deployer(&sd_to(pick(r, &[A, B, C, ABSENT]))),
        3 => sd_to(pick(r, &[A, B, ABSENT, P4])),
        4 => Asm::new().push(0).push(0).op(REVERT).done(),
        5 => vec![INVALID],
        6 => deployer(&[0xef, 0x00]),
        7 => deployer(&Asm::new().push(0).push(0).op(LOG0).op(STOP).done()),
        _ => Asm::new().push(1).push(0).op(SSTORE).call(CALL, G::Fixed(20_000), B, 0, 0, 0).op(POP)
            .raw(&deployer(&[STOP])).done(),
    }
}

/// Code of one contract of a template call graph: a short list of actions; the stack is empty between
/// actions (unless a result is deliberately kept).
fn graph_code(r: &mut StdRng, who: u8, callees: &[u8]) -> Vec<u8> {
    let mut a = Asm::new();
    let n = r.gen_range(1..=5);
    for _ in 0..n {
        let x = r.gen_range(0..100);
        if x < 38 {
            let kind = pick(r, &[CALL, CALL, CALL, CALLCODE, DELEGATECALL, STATICCALL]);
            let g = pick(r, &[G::Fixed(0), G::Fixed(100), G::Fixed(700), G::Fixed(2300), G::Fixed(30_000), G::All, G::All]);
            let to = pick(r, callees);
            let val = pick(r, &[0, 0, 0, 1, 3, 1_000_000]);
            a = a.call(kind, g, to, val, pick(r, &[0, 4, 32]), pick(r, &[0, 32]));
            if r.gen_range(0..8) > 0 {
                a = a.op(POP);
            }
        } else if x < 48 {
            let init = init_templates(r);
            let salt = if r.gen_bool(0.4) { Some(r.gen_range(0..2)) } else { None };
            a = a.create(pick(r, &[0, 0, 1, 1_000_000]), &init, salt).op(POP);
        } else if x < 54 {
            // deploy, then call the new contract (created in this transaction)
            let rt = if r.gen_bool(0.5) { vec![ADDRESS, SELFDESTRUCT] } else { sd_to(pick(r, &[A, B, C, ABSENT, P4])) };
            a = a.create(pick(r, &[0, 1]), &deployer(&rt), None)
                .push(0).push(0).push(0).push(0).push(pick(r, &[0, 1])).op(DUP1 + 5).op(GAS).op(CALL).op(POP).op(POP);
        } else if x < 66 {
            let nt = r.gen_range(0..=4u8);
            for t in 0..nt {
                a = a.push(t as u64 + 1);
            }
            a = a.push(pick(r, &[0, 3, 32])).push(0).op(LOG0 + nt);
        } else if x < 74 {
            a = a.push(r.gen_range(0..3)).push(r.gen_range(0..2)).op(SSTORE);
        } else if x < 86 {
            a = match r.gen_range(0..7) {
                0 => a.op(SELFDESTRUCT), // empty stack
                1 => a.op(ADDRESS).op(SELFDESTRUCT),
                2 => a.op(CALLER).op(SELFDESTRUCT),
                _ => a.push(pick(r, &[A, B, C, ABSENT, P4, who]) as u64).op(SELFDESTRUCT),
            };
        } else if x < 91 {
            a = a.push(pick(r, &[0, 2])).push(0).op(REVERT);
        } else if x < 95 {
            a = a.push(pick(r, &[0, 32])).push(0).op(RETURN);
        } else if x < 97 {
            a = a.op(STOP);
        } else {
            a = a.op(INVALID);
        }
    }
    a.done()
}

fn graph_program(r: &mut StdRng, fork: &str) -> Prog {
    let accts = vec![
        acct(A, pick(r, &[0, 5, 100]), 1, &graph_code(r, A, &[B, B, C, P4, ABSENT, A])),
        acct(B, pick(r, &[0, 5]), 1, &graph_code(r, B, &[C, C, P4, ABSENT, A])),
        acct(C, pick(r, &[0, 5]), if r.gen_range(0..10) == 0 { u64::MAX } else { 1 }, &graph_code(r, C, &[P4, ABSENT, B])),
    ];
    let mut p = Prog::new("graph", fork, accts).val(pick(r, &[0, 0, 4])).gas(pick(r, &[60_000, 150_000, 300_000]));
    p.data = vec![0xab; pick(r, &[0usize, 4, 36])];
    p
}

/// Biased stream of valid opcodes with small operands.
fn ops_code(r: &mut StdRng, len: usize) -> Vec<u8> {
    let mut b: Vec<u8> = vec![];
    let smalls: [u64; 12] = [0, 1, 2, 3, 0x20, 0x40, A as u64, B as u64, C as u64, P4 as u64, ABSENT as u64, 0xffff];
    while b.len() < len {
        let x = r.gen_range(0..100);
        if x < 34 {
            let v = pick(r, &smalls);
            b.extend(Asm::new().push(v).done());
        } else if x < 37 {
            let n = r.gen_range(1..=32usize);
            b.push(0x5f + n as u8);
            for _ in 0..n {
                b.push(r.gen());
            }
        } else if x < 47 {
            b.push(pick(r, &[0x01, 0x02, 0x03, 0x04, 0x06, 0x0a, 0x10, 0x14, 0x15, 0x16, 0x19, 0x1b, 0x20]));
        } else if x < 57 {
            b.push(pick(r, &[0x80, 0x81, 0x82, 0x90, 0x91, 0x50, 0x50, 0x5f]));
        } else if x < 65 {
            b.push(pick(r, &[0x51, 0x52, 0x53, 0x54, 0x55, 0x59, 0x5c, 0x5d, 0x5e, 0x37, 0x39, 0x3e]));
        } else if x < 72 {
            b.push(pick(r, &[0x30, 0x31, 0x32, 0x33, 0x34, 0x35, 0x36, 0x38, 0x3a, 0x3b, 0x3d, 0x3f, 0x40, 0x41, 0x42,
                             0x43, 0x44, 0x45, 0x46, 0x47, 0x48, 0x49, 0x4a, 0x58, 0x5a]));
        } else if x < 78 {
            // a jump to some JUMPDEST-looking place (often valid: we plant JUMPDESTs), never backwards-only
            let d = r.gen_range(0..(len as u64 + 4));
            b.extend(Asm::new().push(d).done());
            if r.gen_bool(0.5) {
                b.extend(Asm::new().push(pick(r, &[0, 1])).done());
                b.push(0x90); // SWAP1: condition below destination
                b.push(JUMPI);
            } else {
                b.push(JUMP);
            }
        } else if x < 84 {
            b.push(JUMPDEST);
        } else if x < 88 {
            b.push(LOG0 + r.gen_range(0..=4u8));
        } else if x < 93 {
            b.push(pick(r, &[CALL, CALLCODE, DELEGATECALL, STATICCALL, CREATE, CREATE2]));
        } else if x < 95 {
            b.push(SELFDESTRUCT);
        } else if x < 98 {
            b.push(pick(r, &[STOP, RETURN, REVERT, INVALID]));
        } else {
            b.push(pick(r, &[0x0c, 0x1e, 0x21, 0x4b, 0xa5, 0xb0, 0xd0, 0xe0, 0xec, 0xf6, 0xf8, 0xfb, 0xfc]));
        }
    }
    b
}

fn ops_program(r: &mut StdRng, fork: &str) -> Prog {
    let la = r.gen_range(4..48);
    let accts = vec![
        acct(A, pick(r, &[0, 9]), 1, &ops_code(r, la)),
        acct(B, pick(r, &[0, 9]), 1, &ops_code(r, 12)),
        acct(C, 1, 1, &ops_code(r, 6)),
    ];
    let mut p = Prog::new("ops", fork, accts).val(pick(r, &[0, 0, 2])).gas(pick(r, &[30_000, 60_000, 120_000]));
    p.data = (0..pick(r, &[0usize, 5, 40])).map(|_| r.gen()).collect();
    p
}

fn rand_program(r: &mut StdRng, fork: &str) -> Prog {
    let n = r.gen_range(1..64);
    let code: Vec<u8> = (0..n).map(|_| r.gen()).collect();
    let accts = vec![acct(A, pick(r, &[0, 9]), 1, &code), acct(B, 1, 1, &[STOP])];
    let mut p = Prog::new("rand", fork, accts).val(pick(r, &[0, 0, 2])).gas(pick(r, &[22_000, 40_000, 90_000]));
    p.data = (0..pick(r, &[0usize, 3, 33])).map(|_| r.gen()).collect();
    if r.gen_range(0..6) == 0 {
        // the same bytes as init code of a create transaction
        p.to = None;
        p.data = code;
        p.gas_limit = 120_000;
    }
    p
}

fn any_fork(r: &mut StdRng) -> &'static str {
    if r.gen_range(0..5) == 0 { pick(r, &OLD_FORKS) } else { pick(r, &MAIN_FORKS) }
}

fn generate(n: usize, seed: u64, tier: &str) -> Vec<Value> {
    let mut r = StdRng::seed_from_u64(seed ^ 0x1259_ec70);
    let mut ps: Vec<Prog> = vec![];
    // enumerated corners first (deterministic)
    let sd_forks: Vec<&str> = if tier == "quick" { SD_FORKS[3..].to_vec().into_iter().chain(["HOMESTEAD"]).collect() } else { SD_FORKS.to_vec() };
    for f in &sd_forks {
        ps.extend(sd_scenarios(f));
    }
    let early_forks: Vec<&str> = if tier == "quick" { vec!["BERLIN", "CANCUN", "PRAGUE", "BYZANTIUM"] } else { SD_FORKS.to_vec() };
    for f in &early_forks {
        ps.extend(early_scenarios(f));
    }
    // inspector answers calls / creates itself: enumerated corners with sc + random graphs with sc
    for f in ["LONDON", "CANCUN"] {
        for t in [B, P4, ABSENT, A] {
            for mut p in early_scenarios(f).into_iter().take(8).chain(sd_scenarios(f).into_iter().skip(12).take(6)) {
                p.cls = format!("sc:{}", p.cls);
                p.sc_call = Some(t);
                ps.push(p);
            }
        }
        for mut p in early_scenarios(f).into_iter().skip(9).take(8) {
            p.cls = format!("sccreate:{}", p.cls);
            p.sc_create = true;
            ps.push(p);
        }
    }
    for f in if tier == "quick" { vec!["LONDON", "PRAGUE"] } else { vec!["HOMESTEAD", "BERLIN", "LONDON", "SHANGHAI", "CANCUN", "PRAGUE"] } {
        ps.extend(nested_answered_scenarios(f));
    }
    let fixed = ps.len();
    let rest = n.saturating_sub(fixed);
    for i in 0..rest {
        let f = any_fork(&mut r);
        let p = match i % 10 {
            0..=3 => graph_program(&mut r, f),
            4 => {
                let mut p = graph_program(&mut r, f);
                p.cls = "sc:graph".into();
                p.sc_call = Some(pick(&mut r, &[B, C, P4, ABSENT]));
                p.sc_create = r.gen_bool(0.3);
                match r.gen_range(0..6) {
                    0 => p.sc_init = Some(vec![INVALID]),
                    1 => p.sc_depth = Some(r.gen_range(1..4)),
                    _ => {}
                }
                p
            }
            5..=7 => ops_program(&mut r, f),
            _ => rand_program(&mut r, f),
        };
        ps.push(p);
    }
    ps.iter().enumerate().map(|(i, p)| p.json(i as u64 + 1)).collect()
}

// ------------------------------------------------------------------------------------ recorder

fn fnv(b: &[u8]) -> i64 {
    let mut h: u32 = 0x811c9dc5;
    for x in b {
        h ^= *x as u32;
        h = h.wrapping_mul(0x01000193);
    }
    ((h >> 8) as i64) * 64 + (b.len().min(63) as i64) // 24 bits of hash, 6 bits of length
}

#[derive(Default)]
struct Dict {
    addrs: HashMap<Address, i64>,
    vals: HashMap<U256, i64>,
}
impl Dict {
    fn a(&mut self, x: Address) -> i64 {
        let n = self.addrs.len() as i64 + 1;
        *self.addrs.entry(x).or_insert(n)
    }
    fn v(&mut self, x: U256) -> i64 {
        if x.is_zero() {
            return 0;
        }
        let n = self.vals.len() as i64 + 1;
        *self.vals.entry(x).or_insert(n)
    }
}

#[derive(Default)]
struct Recorder {
    ev: Vec<Value>,
    d: Dict,
    sc_call: Option<Address>,
    sc_create: bool,
    sc_init: Option<Vec<u8>>,
    sc_depth: Option<usize>,
    open: usize,
}

impl Recorder {
    fn call_inputs(&mut self, i: &CallInputs) -> Value {
        let (val, apparent) = match i.value {
            CallValue::Transfer(v) => (v, false),
            CallValue::Apparent(v) => (v, true),
        };
        let k = match i.scheme {
            CallScheme::Call => "Call",
            CallScheme::CallCode => "CallCode",
            CallScheme::DelegateCall => "DelegateCall",
            CallScheme::StaticCall => "StaticCall",
            CallScheme::ExtCall => "ExtCall",
            CallScheme::ExtStaticCall => "ExtStaticCall",
            CallScheme::ExtDelegateCall => "ExtDelegateCall",
        };
        json!({"k": k, "from": self.d.a(i.caller), "to": self.d.a(i.target_address), "code": self.d.a(i.bytecode_address),
               "val": self.d.v(val), "apparent": apparent, "gas": i.gas_limit, "inp": fnv(&i.input), "st": i.is_static})
    }
    fn create_inputs(&mut self, i: &CreateInputs) -> Value {
        let (k, salt) = match i.scheme {
            CreateScheme::Create => ("Create", 0),
            CreateScheme::Create2 { salt } => ("Create2", self.d.v(salt + U256::from(1))),
        };
        json!({"k": k, "from": self.d.a(i.caller), "val": self.d.v(i.value), "gas": i.gas_limit, "init": fnv(&i.init_code), "salt": salt})
    }
    fn eof_inputs(&mut self, i: &EOFCreateInputs) -> Value {
        let (k, init) = match &i.kind {
            EOFCreateKind::Tx { initdata } => ("Tx", fnv(initdata)),
            EOFCreateKind::Opcode { input, .. } => ("Opcode", fnv(input)),
        };
        json!({"k": k, "from": self.d.a(i.caller), "val": self.d.v(i.value), "gas": i.gas_limit, "init": init})
    }
    fn push(&mut self, kind: &str, mut v: Value, extra: Value) {
        let o = v.as_object_mut().unwrap();
        o.insert("e".into(), json!(kind));
        for (k, x) in extra.as_object().unwrap() {
            o.insert(k.clone(), x.clone());
        }
        self.ev.push(v);
    }
}

fn res_name(r: InstructionResult) -> String {
    format!("{r:?}")
}

impl<DB: Database> Inspector<DB> for Recorder {
    fn initialize_interp(&mut self, interp: &mut Interpreter, _c: &mut EvmContext<DB>) {
        let ctx = self.d.a(interp.contract.target_address);
        self.ev.push(json!({"e": "Init", "ctx": ctx, "st": interp.is_static, "gas": interp.gas.limit(),
            "codelen": interp.contract.bytecode.original_byte_slice().len(), "padlen": interp.bytecode.len()}));
    }
    fn step(&mut self, interp: &mut Interpreter, c: &mut EvmContext<DB>) {
        let opc = interp.current_opcode();
        let (mut top, mut bal) = (0, 0);
        if opc == SELFDESTRUCT {
            if let Ok(w) = interp.stack.peek(0) {
                top = self.d.a(Address::from_word(B256::from(w)));
            }
            let me = interp.contract.target_address;
            bal = self.d.v(c.journaled_state.state.get(&me).map(|a| a.info.balance).unwrap_or_default());
        }
        self.ev.push(json!({"e": "Step", "pc": interp.program_counter(), "op": opc, "sl": interp.stack.len(),
            "gas": interp.gas.remaining(), "mem": interp.shared_memory.len(), "top": top, "bal": bal}));
    }
    fn step_end(&mut self, interp: &mut Interpreter, _c: &mut EvmContext<DB>) {
        self.ev.push(json!({"e": "StepEnd", "pc": interp.program_counter(), "res": res_name(interp.instruction_result),
            "sl": interp.stack.len(), "gas": interp.gas.remaining(), "mem": interp.shared_memory.len()}));
    }
    fn log(&mut self, _i: &mut Interpreter, _c: &mut EvmContext<DB>, log: &Log) {
        let a = self.d.a(log.address);
        self.ev.push(json!({"e": "Log", "addr": a, "nt": log.data.topics().len()}));
    }
    fn call(&mut self, _c: &mut EvmContext<DB>, inputs: &mut CallInputs) -> Option<CallOutcome> {
        let answered = self.open > 0
            && (self.sc_call.is_some_and(|t| t == inputs.bytecode_address) || self.sc_depth == Some(self.open));
        let v = self.call_inputs(inputs);
        self.push("Call", v, json!({"sc": answered}));
        self.open += 1;
        if answered {
            // the inspector answers the call itself: success, 3 bytes of output, a third of the gas consumed
            let mut gas = Gas::new(inputs.gas_limit);
            let _ = gas.record_cost(inputs.gas_limit / 3);
            return Some(CallOutcome::new(
                InterpreterResult { result: InstructionResult::Return, output: Bytes::from_static(&[1, 2, 3]), gas },
                inputs.return_memory_offset.clone(),
            ));
        }
        None
    }
    fn call_end(&mut self, _c: &mut EvmContext<DB>, inputs: &CallInputs, outcome: CallOutcome) -> CallOutcome {
        let v = self.call_inputs(inputs);
        self.push("CallEnd", v, json!({"res": res_name(outcome.result.result), "grem": outcome.result.gas.remaining()}));
        self.open = self.open.saturating_sub(1);
        outcome
    }
    fn create(&mut self, _c: &mut EvmContext<DB>, inputs: &mut CreateInputs) -> Option<CreateOutcome> {
        let answered = self.open > 0
            && (self.sc_create
                || self.sc_depth == Some(self.open)
                || self.sc_init.as_ref().is_some_and(|c| c[..] == inputs.init_code[..]));
        let v = self.create_inputs(inputs);
        self.push("Create", v, json!({"sc": answered}));
        self.open += 1;
        if answered {
            return Some(CreateOutcome::new(
                InterpreterResult { result: InstructionResult::Revert, output: Bytes::new(), gas: Gas::new(inputs.gas_limit) },
                None,
            ));
        }
        None
    }
    fn create_end(&mut self, _c: &mut EvmContext<DB>, inputs: &CreateInputs, outcome: CreateOutcome) -> CreateOutcome {
        let v = self.create_inputs(inputs);
        let a = outcome.address.map(|a| self.d.a(a)).unwrap_or(0);
        self.push("CreateEnd", v, json!({"res": res_name(outcome.result.result), "grem": outcome.result.gas.remaining(), "addr": a}));
        self.open = self.open.saturating_sub(1);
        outcome
    }
    // EOF creations (only reachable from OSAKA on; no generated program gets there, recorded for completeness)
    fn eofcreate(&mut self, _c: &mut EvmContext<DB>, inputs: &mut EOFCreateInputs) -> Option<CreateOutcome> {
        let v = self.eof_inputs(inputs);
        self.push("EofCreate", v, json!({"sc": false}));
        self.open += 1;
        None
    }
    fn eofcreate_end(&mut self, _c: &mut EvmContext<DB>, inputs: &EOFCreateInputs, outcome: CreateOutcome) -> CreateOutcome {
        let v = self.eof_inputs(inputs);
        let a = outcome.address.map(|a| self.d.a(a)).unwrap_or(0);
        self.push("EofCreateEnd", v, json!({"res": res_name(outcome.result.result), "grem": outcome.result.gas.remaining(), "addr": a}));
        self.open = self.open.saturating_sub(1);
        outcome
    }
    fn selfdestruct(&mut self, contract: Address, target: Address, value: U256) {
        let (c, t, v) = (self.d.a(contract), self.d.a(target), self.d.v(value));
        self.ev.push(json!({"e": "SelfDestruct", "c": c, "t": t, "v": v}));
    }
}

// ------------------------------------------------------------------------------------ execution

fn build_db(p: &Value) -> Db {
    let mut db = CacheDB::new(EmptyDB::default());
    for a in p["accounts"].as_array().unwrap() {
        let code = unhex(a["code"].as_str().unwrap());
        let bal = u256_of(&a["balance"]);
        let nonce = a["nonce"].as_u64().unwrap();
        let info = if code.is_empty() {
            AccountInfo { balance: bal, nonce, ..Default::default() }
        } else {
            // Bytecode::new_raw panics (documented) on malformed EF00 / EF01 prefixes; random bytes that start
            // with 0xEF are plain legacy code here (as on a pre-EIP-3541 chain), not EOF / EIP-7702 objects.
            let bc = if code[0] == 0xef { Bytecode::new_legacy(Bytes::from(code)) } else { Bytecode::new_raw(Bytes::from(code)) };
            AccountInfo::new(bal, nonce, bc.hash_slow(), bc)
        };
        db.insert_account_info(addr_of(a["addr"].as_str().unwrap()), info);
    }
    db
}

/// Result + state changes as text: everything the transaction's caller can observe.
fn digest(r: &Result<ResultAndState, EVMError<std::convert::Infallible>>) -> (String, String, u64) {
    match r {
        Err(e) => ("Err".into(), format!("Err:{e:?}"), 0),
        Ok(ResultAndState { result, state }) => {
            let (kind, used, head) = match result {
                ExecutionResult::Success { reason, gas_used, gas_refunded, logs, output } => {
                    let l: Vec<String> = logs.iter().map(|l| format!("{:?}/{:?}/{}", l.address, l.data.topics(), hex(&l.data.data))).collect();
                    ("Success", *gas_used, format!("Success:{reason:?} used={gas_used} refunded={gas_refunded} out={output:?} logs={l:?}"))
                }
                ExecutionResult::Revert { gas_used, output } => ("Revert", *gas_used, format!("Revert used={gas_used} out={}", hex(output))),
                ExecutionResult::Halt { reason, gas_used } => ("Halt", *gas_used, format!("Halt:{reason:?} used={gas_used}")),
            };
            let mut accts: Vec<String> = state
                .iter()
                .filter(|(_, a)| a.is_touched())
                .map(|(ad, a)| {
                    let mut st: Vec<String> = a.storage.iter().filter(|(_, s)| s.is_changed())
                        .map(|(k, s)| format!("{k:x}={:x}", s.present_value())).collect();
                    st.sort();
                    format!("{ad:?}: bal={:x} nonce={} code={:?} destroyed={} created={} storage={st:?}",
                            a.info.balance, a.info.nonce, a.info.code_hash, a.is_selfdestructed(), a.is_created())
                })
                .collect();
            accts.sort();
            (kind.into(), format!("{head} state={accts:?}"), used)
        }
    }
}

macro_rules! configure {
    ($b:expr, $p:expr) => {{
        let p: &Value = $p;
        let to = match p["to"].as_str() {
            Some(s) => TxKind::Call(addr_of(s)),
            None => TxKind::Create,
        };
        let (gl, val, data) = (p["gas_limit"].as_u64().unwrap(), u256_of(&p["value"]), unhex(p["data"].as_str().unwrap()));
        $b.with_spec_id(spec_by_name(p["fork"].as_str().unwrap())).modify_tx_env(move |tx| {
            tx.caller = addr(EOA);
            tx.transact_to = to;
            tx.gas_limit = gl;
            tx.value = val;
            tx.data = Bytes::from(data);
            tx.gas_price = U256::ZERO;
        })
    }};
}

fn run_inspected<I: Inspector<Db>>(p: &Value, insp: I) -> Result<ResultAndState, EVMError<std::convert::Infallible>> {
    let b = Evm::builder().with_db(build_db(p)).with_external_context(insp);
    let mut evm = configure!(b, p).append_handler_register(inspector_handle_register).build();
    evm.transact()
}
fn run_plain(p: &Value) -> Result<ResultAndState, EVMError<std::convert::Infallible>> {
    let b = Evm::builder().with_db(build_db(p));
    let mut evm = configure!(b, p).build();
    evm.transact()
}

fn panic_text(e: Box<dyn std::any::Any + Send>) -> String {
    if let Some(s) = e.downcast_ref::<&str>() {
        s.to_string()
    } else if let Some(s) = e.downcast_ref::<String>() {
        s.clone()
    } else {
        "panic".into()
    }
}

/// Execute one program in all modes; append its events to `out`.  `verbose`: full results on stderr.
fn run_program(p: &Value, maxev: usize, out: &mut Out, verbose: bool) -> (usize, bool) {
    let pid = p["id"].as_u64().unwrap_or(0);
    let sc_call = p["sc_call"].as_str().map(addr_of);
    let sc_create = p["sc_create"].as_bool().unwrap_or(false);
    let sc_init = p["sc_init"].as_str().map(unhex);
    let sc_depth = p["sc_depth"].as_u64().map(|d| d as usize);
    let observing = sc_call.is_none() && !sc_create && sc_init.is_none() && sc_depth.is_none();
    let mut rec = Recorder { sc_call, sc_create, sc_init, sc_depth, ..Default::default() };
    // fixed ids for the well-known addresses (readability of traces only)
    for a in [EOA, A, B, C, P4, ABSENT] {
        rec.d.a(addr(a));
    }
    let r = catch_unwind(AssertUnwindSafe(|| run_inspected(p, &mut rec)));
    let nev = rec.ev.len();
    let hooks = nev <= maxev || p["cls"] == "deep";
    out.emit(&json!({"e": "Reset", "p": pid, "fork": p["fork"], "gl": p["gas_limit"], "hooks": hooks, "cls": p["cls"],
                     "observing": observing}));
    if hooks {
        for e in &rec.ev {
            out.emit(e);
        }
    }
    let mut digests: Vec<String> = vec![];
    let mut id_of = |s: String, verbose: bool, mode: &str| -> i64 {
        if verbose {
            eprintln!("[{mode}] {s}");
        }
        match digests.iter().position(|x| *x == s) {
            Some(i) => i as i64 + 1,
            None => {
                digests.push(s);
                digests.len() as i64
            }
        }
    };
    match r {
        Ok(r) => {
            let (kind, text, used) = digest(&r);
            out.emit(&json!({"e": "End", "res": kind, "used": used, "dg": id_of(text, verbose, "recording")}));
        }
        Err(e) => out.emit(&json!({"e": "Panic", "mode": "recording", "msg": panic_text(e)})),
    }
    if observing {
        let modes: [(&str, Box<dyn Fn() -> Result<ResultAndState, EVMError<std::convert::Infallible>>>); 4] = [
            ("none", Box::new(|| run_plain(p))),
            ("noop", Box::new(|| run_inspected(p, NoOpInspector))),
            ("gas", Box::new(|| run_inspected(p, GasInspector::default()))),
            ("eip3155", Box::new(|| run_inspected(p, TracerEip3155::new(Box::new(std::io::sink()))))),
        ];
        for (mode, f) in modes.iter() {
            match catch_unwind(AssertUnwindSafe(f)) {
                Ok(r) => {
                    let (_, text, used) = digest(&r);
                    out.emit(&json!({"e": "Digest", "mode": mode, "dg": id_of(text, verbose, mode), "used": used}));
                }
                Err(e) => out.emit(&json!({"e": "Panic", "mode": mode, "msg": panic_text(e)})),
            }
        }
    }
    (nev, hooks)
}

fn main() {
    let a = Args::parse();
    std::panic::set_hook(Box::new(|_| {}));
    match a.mode.as_str() {
        "gen" => {
            let seed = a.geti("seed", 1) as u64;
            let n = a.geti("n", 300) as usize;
            let tier = a.gets("tier", "quick");
            let mut out = Out::new(Some(&a.input));
            let mut ps = generate(n, seed, &tier);
            if a.geti("deep", 0) == 1 {
                let id = ps.len() as u64 + 1;
                ps.push(deep_program().json(id));
            }
            for p in &ps {
                out.emit(p);
            }
            out.flush();
        }
        "run" | "replay" => {
            let ps = read_ndjson(&a.input);
            let mut out = Out::new(if a.mode == "replay" { None } else { a.output.as_deref() });
            let maxev = a.geti("maxev", 700) as usize;
            let (mut total, mut dropped) = (0usize, 0usize);
            for p in &ps {
                // replay files written by the check wrap the program: {"program": {...}}
                let p = p.get("program").unwrap_or(p);
                let (n, hooks) = run_program(p, maxev, &mut out, a.mode == "replay");
                total += n;
                if !hooks {
                    dropped += 1;
                }
            }
            out.flush();
            eprintln!("{}", json!({"kind": "summary", "programs": ps.len(), "hook_events": total, "hooks_omitted": dropped}));
        }
        m => a.bad_mode(m),
    }
}
