//! Conformance harness for Evm.tla: executes TLC-generated scenarios (accounts with byte code,
//! a sequence of transactions) on the real revm `Evm` and compares the result of every
//! transaction and the final world with what the specification computed.
//!
//! `evm behaviours <in.ndjson> <out.ndjson> [db=cachedb|state|state_nobundle] [insp=none|noop|gas|tracer|rec] [reuse=1|0]`
#[path = "../common.rs"]
mod common;
#[path = "../refdb.rs"]
mod refdb;
use common::*;
use refdb::RefDb;
use revm::db::{CacheDB, State};
use revm::inspector_handle_register;
use revm::inspectors::{GasInspector, NoOpInspector, TracerEip3155};
use revm::interpreter::{CallInputs, CallOutcome, CreateInputs, CreateOutcome, Interpreter};
use revm::primitives::{
    AccessListItem, Address, Bytecode, Bytes, ExecutionResult, Log, Output, SpecId, TxKind, B256, U256,
};
use revm::{Database, DatabaseCommit, Evm, EvmContext, Inspector};
use serde_json::{json, Map, Value};
use std::collections::BTreeMap;
use std::panic::{catch_unwind, AssertUnwindSafe};

const TOK: u64 = 1_000_000_000;
const FORKS: [&str; 19] = ["FRONTIER", "FRONTIER_THAWING", "HOMESTEAD", "DAO_FORK", "TANGERINE", "SPURIOUS_DRAGON",
    "BYZANTIUM", "CONSTANTINOPLE", "PETERSBURG", "ISTANBUL", "MUIR_GLACIER", "BERLIN", "LONDON", "ARROW_GLACIER",
    "GRAY_GLACIER", "MERGE", "SHANGHAI", "CANCUN", "PRAGUE"];

fn bytes_of(v: &Value) -> Vec<u8> {
    v.as_array().map(|a| a.iter().map(|x| x.as_u64().unwrap() as u8).collect()).unwrap_or_default()
}

/// model address (small integer or token) <-> real address
struct Names {
    tok: BTreeMap<u64, Address>,
    rev: BTreeMap<Address, u64>,
}
impl Names {
    fn base(a: u64) -> Address {
        let mut b = [0u8; 20];
        b[12..].copy_from_slice(&a.to_be_bytes());
        Address::from(b)
    }
    fn new(created: &Value) -> Names {
        let mut n = Names { tok: BTreeMap::new(), rev: BTreeMap::new() };
        for (i, k) in created.as_array().cloned().unwrap_or_default().iter().enumerate() {
            let k = k.as_array().unwrap();
            let creator = n.addr(k[1].as_u64().unwrap());
            let a = match k[0].as_str().unwrap() {
                "create" => creator.create(k[2].as_u64().unwrap()),
                _ => {
                    let salt = U256::from(k[2].as_u64().unwrap()).to_be_bytes::<32>();
                    creator.create2(salt, revm::primitives::keccak256(bytes_of(&k[3])))
                }
            };
            n.tok.insert(TOK + 1 + i as u64, a);
            n.rev.insert(a, TOK + 1 + i as u64);
        }
        n
    }
    fn addr(&self, a: u64) -> Address {
        if a >= TOK { *self.tok.get(&a).unwrap_or(&Address::repeat_byte(0xee)) } else { Self::base(a) }
    }
    /// a real 256-bit value in the model's vocabulary
    fn word(&self, v: U256) -> Value {
        if v < U256::from(TOK) {
            return json!(v.to::<u64>());
        }
        if v >> 160 == U256::ZERO {
            let a = Address::from_word(B256::from(v));
            if let Some(t) = self.rev.get(&a) {
                return json!(t);
            }
        }
        json!(format!("{v:#x}"))
    }
    fn name(&self, a: &Address) -> Value {
        self.word(U256::from_be_slice(a.as_slice()))
    }
}

/// Records the inspector callbacks the specification predicts: kind and journal depth.
#[derive(Default)]
struct Rec {
    ev: Vec<Value>,
}
impl<DB: Database> Inspector<DB> for Rec {
    fn call(&mut self, c: &mut EvmContext<DB>, _i: &mut CallInputs) -> Option<CallOutcome> {
        self.ev.push(json!(["call", c.journaled_state.depth()]));
        None
    }
    fn call_end(&mut self, c: &mut EvmContext<DB>, _i: &CallInputs, o: CallOutcome) -> CallOutcome {
        self.ev.push(json!(["call_end", c.journaled_state.depth()]));
        o
    }
    fn create(&mut self, c: &mut EvmContext<DB>, _i: &mut CreateInputs) -> Option<CreateOutcome> {
        self.ev.push(json!(["create", c.journaled_state.depth()]));
        None
    }
    fn create_end(&mut self, c: &mut EvmContext<DB>, _i: &CreateInputs, o: CreateOutcome) -> CreateOutcome {
        self.ev.push(json!(["create_end", c.journaled_state.depth()]));
        o
    }
    fn log(&mut self, _i: &mut Interpreter, c: &mut EvmContext<DB>, _l: &Log) {
        self.ev.push(json!(["log", c.journaled_state.depth()]));
    }
    fn selfdestruct(&mut self, _c: Address, _t: Address, _v: U256) {
        self.ev.push(json!(["selfdestruct", -1]));
    }
}

struct Opts {
    db: String,
    insp: String,
    reuse: bool,
    /// compare selfdestruct notifications too (they are property C30's business)
    sdev: bool,
    /// reuse only: build the Evm for THIS spec, execute (without committing) the first transaction
    /// under it, then `modify_spec_id` to the scenario's spec -- a spec change on a used instance (C31)
    respec: Option<SpecId>,
    /// reuse only: call `preverify_transaction()` before every `transact_commit()` (C31)
    preverify: bool,
}

fn setup_env<EXT, DB: Database>(evm: &mut Evm<'_, EXT, DB>, sc: &Value, names: &Names, fork_idx: usize) {
    let b = &mut evm.context.evm.env.block;
    b.number = U256::from(100u64);
    b.timestamp = U256::from(700_000_000u64);
    b.coinbase = names.addr(sc["coinbase"].as_u64().unwrap());
    b.gas_limit = U256::from(30_000_000u64);
    b.basefee = U256::from(sc["basefee"].as_u64().unwrap());
    b.difficulty = U256::ZERO;
    b.prevrandao = Some(B256::repeat_byte(0x11));
    if fork_idx >= 17 {
        b.set_blob_excess_gas_and_price(0, fork_idx >= 18);
    }
    evm.context.evm.env.cfg.chain_id = 1;
}

fn set_tx<EXT, DB: Database>(evm: &mut Evm<'_, EXT, DB>, tx: &Value, sc: &Value, names: &Names) {
    *(&mut evm.context.evm.env.tx) = Default::default();
    let from = tx["from"].as_u64().unwrap_or(sc["sender"].as_u64().unwrap());
    evm.context.evm.env.block.coinbase = names.addr(tx["cb"].as_u64().unwrap_or(sc["coinbase"].as_u64().unwrap()));
    let t = &mut evm.context.evm.env.tx;
    t.caller = names.addr(from);
    t.gas_limit = tx["gas"].as_u64().unwrap();
    t.gas_price = U256::from(tx["price"].as_u64().unwrap());
    t.value = U256::from(tx["value"].as_u64().unwrap());
    t.data = Bytes::from(bytes_of(&tx["data"]));
    let to = tx["to"].as_u64().unwrap();
    t.transact_to = if to == 0 { TxKind::Create } else { TxKind::Call(names.addr(to)) };
    t.nonce = None;
    t.chain_id = None;
    let prio = tx["prio"].as_i64().unwrap_or(-1);
    if prio >= 0 {
        t.gas_priority_fee = Some(U256::from(prio as u64));
    }
    let blobs = tx["blobs"].as_u64().unwrap_or(0);
    if blobs > 0 {
        let mut h = [0u8; 32];
        h[0] = 1;
        h[31] = 0x77;
        t.blob_hashes = (0..blobs).map(|_| B256::from(h)).collect();
        t.max_fee_per_blob_gas = Some(U256::from(2u64));
    }
    let auths = tx["auths"].as_array().cloned().unwrap_or_default();
    if !auths.is_empty() {
        use revm::primitives::{Authorization, AuthorizationList, RecoveredAuthority, RecoveredAuthorization};
        t.authorization_list = Some(AuthorizationList::Recovered(auths.iter().map(|a| {
            let to = a["to"].as_u64().unwrap();
            RecoveredAuthorization::new_unchecked(
                Authorization { chain_id: U256::from(1u64), address: if to == 0 { Address::ZERO } else { names.addr(to) }, nonce: a["nonce"].as_u64().unwrap() },
                RecoveredAuthority::Valid(names.addr(a["authority"].as_u64().unwrap())))
        }).collect()));
    }
    t.access_list = tx["al"].as_array().cloned().unwrap_or_default().iter().map(|e| AccessListItem {
        address: names.addr(e["addr"].as_u64().unwrap()),
        storage_keys: e["keys"].as_array().unwrap().iter().map(|k| B256::from(U256::from(k.as_u64().unwrap()))).collect(),
    }).collect();
}

fn invalid_json(with_events: bool) -> Value {
    let mut o = json!({"status": "invalid", "gas_used": 0, "refunded": 0, "out": [], "logs": [], "created": 0});
    if with_events {
        o["events"] = json!([]);
    }
    o
}

fn result_json(r: &ExecutionResult, names: &Names, events: Vec<Value>, with_events: bool) -> Value {
    let (status, out, logs, created) = match r {
        ExecutionResult::Success { output, logs, .. } => {
            let (o, c) = match output {
                Output::Call(b) => (b.to_vec(), json!(0)),
                Output::Create(b, a) => (if a.is_some() { vec![] } else { b.to_vec() }, a.map(|a| names.name(&a)).unwrap_or(json!(0))),
            };
            ("ok", o, logs.clone(), c)
        }
        ExecutionResult::Revert { output, .. } => ("revert", output.to_vec(), vec![], json!(0)),
        ExecutionResult::Halt { .. } => ("halt", vec![], vec![], json!(0)),
    };
    let logs: Vec<Value> = logs.iter().map(|l| json!({"addr": names.name(&l.address),
        "topics": l.data.topics().iter().map(|t| names.word(U256::from_be_bytes(t.0))).collect::<Vec<_>>(),
        "data": l.data.data.to_vec()})).collect();
    let refunded = match r { ExecutionResult::Success { gas_refunded, .. } => *gas_refunded, _ => 0 };
    let mut o = json!({"status": status, "gas_used": r.gas_used(), "refunded": refunded, "out": out, "logs": logs, "created": created});
    if with_events {
        o["events"] = json!(events);
    }
    o
}

fn world_json<DB: Database>(db: &mut DB, sc: &Value, names: &Names, agnostic: bool) -> Value
where
    DB::Error: std::fmt::Debug,
{
    let mut w = Map::new();
    for (a, _) in sc["world"].as_object().unwrap() {
        let ai: u64 = a.parse().unwrap();
        if ai >= TOK && !names.tok.contains_key(&ai) {
            // a token that was never allocated has no real address: nothing to read back
            w.insert(a.clone(), expected_world(sc, agnostic)[a].clone());
            continue;
        }
        let ad = names.addr(ai);
        let info = db.basic(ad).unwrap();
        let mut stor = Map::new();
        for k in 0..4u64 {
            stor.insert(k.to_string(), names.word(db.storage(ad, U256::from(k)).unwrap()));
        }
        let v = match info {
            None => json!({"ex": false, "bal": 0, "nonce": 0, "code": [], "stor": stor}),
            Some(i) => {
                let code = match &i.code {
                    Some(c) => c.original_bytes().to_vec(),
                    None => db.code_by_hash(i.code_hash).unwrap().original_bytes().to_vec(),
                };
                let empty = i.balance.is_zero() && i.nonce == 0 && code.is_empty();
                json!({"ex": !(agnostic && empty), "bal": names.word(i.balance), "nonce": i.nonce, "code": code, "stor": stor})
            }
        };
        w.insert(a.clone(), v);
    }
    Value::Object(w)
}

/// expected world, normalised the same way for fork-agnostic databases
fn expected_world(sc: &Value, agnostic: bool) -> Value {
    let mut w = sc["world"].clone();
    if agnostic {
        for (_, a) in w.as_object_mut().unwrap() {
            let empty = a["bal"] == json!(0) && a["nonce"] == json!(0) && a["code"].as_array().map(|c| c.is_empty()).unwrap_or(true);
            if empty {
                a["ex"] = json!(false);
            }
        }
    }
    w
}

fn run_on<DB: Database + DatabaseCommit>(mut db: DB, sc: &Value, names: &Names, spec: SpecId, fork_idx: usize, o: &Opts, agnostic: bool) -> Value
where
    DB::Error: std::fmt::Debug,
{
    let txs = sc["txs"].as_array().cloned().unwrap_or_default();
    let mut res = vec![];
    macro_rules! go {
        ($build:expr, $events:expr) => {{
            if o.reuse {
                let mut evm = $build(&mut db, o.respec.unwrap_or(spec));
                setup_env(&mut evm, sc, names, fork_idx);
                if o.respec.is_some() {
                    if let Some(tx) = txs.first() {
                        set_tx(&mut evm, tx, sc, names);
                        let _ = evm.transact();
                        let _: Vec<Value> = $events(&mut evm);
                    }
                    evm.modify_spec_id(spec);
                }
                for tx in &txs {
                    set_tx(&mut evm, tx, sc, names);
                    if o.preverify {
                        let _ = evm.preverify_transaction();
                        let _: Vec<Value> = $events(&mut evm);
                    }
                    let r = evm.transact_commit();
                    let ev: Vec<Value> = $events(&mut evm);
                    res.push(match r { Ok(r) => result_json(&r, names, ev, o.insp == "rec"), Err(_e) => invalid_json(o.insp == "rec") });
                }
            } else {
                for tx in &txs {
                    let mut evm = $build(&mut db, spec);
                    setup_env(&mut evm, sc, names, fork_idx);
                    set_tx(&mut evm, tx, sc, names);
                    let r = evm.transact_commit();
                    let ev: Vec<Value> = $events(&mut evm);
                    res.push(match r { Ok(r) => result_json(&r, names, ev, o.insp == "rec"), Err(_e) => invalid_json(o.insp == "rec") });
                }
            }
        }};
    }
    match o.insp.as_str() {
        "none" => go!(|db, sp: SpecId| Evm::builder().with_db(db).with_spec_id(sp).build(), |_e: &mut Evm<'_, (), &mut DB>| vec![]),
        "noop" => go!(|db, sp: SpecId| Evm::builder().with_db(db).with_external_context(NoOpInspector).with_spec_id(sp)
                        .append_handler_register(inspector_handle_register).build(),
                      |_e: &mut Evm<'_, NoOpInspector, &mut DB>| vec![]),
        "gas" => go!(|db, sp: SpecId| Evm::builder().with_db(db).with_external_context(GasInspector::default()).with_spec_id(sp)
                        .append_handler_register(inspector_handle_register).build(),
                     |_e: &mut Evm<'_, GasInspector, &mut DB>| vec![]),
        "tracer" => go!(|db, sp: SpecId| Evm::builder().with_db(db).with_external_context(TracerEip3155::new(Box::new(std::io::sink())))
                        .with_spec_id(sp).append_handler_register(inspector_handle_register).build(),
                        |_e: &mut Evm<'_, TracerEip3155, &mut DB>| vec![]),
        _ => go!(|db, sp: SpecId| Evm::builder().with_db(db).with_external_context(Rec::default()).with_spec_id(sp)
                        .append_handler_register(inspector_handle_register).build(),
                 |e: &mut Evm<'_, Rec, &mut DB>| std::mem::take(&mut e.context.external.ev)),
    }
    let world = world_json(&mut db, sc, names, agnostic);
    json!({"res": res, "world": world})
}

fn refdb_of(sc: &Value, names: &Names) -> RefDb {
    let mut db = RefDb::default();
    for (a, acc) in sc["world0"].as_object().unwrap() {
        let ai: u64 = a.parse().unwrap();
        if ai >= TOK && !names.tok.contains_key(&ai) {
            continue;
        }
        let ad = names.addr(ai);
        if acc["ex"].as_bool().unwrap() {
            let code = bytes_of(&acc["code"]);
            db.insert_account(ad, U256::from(acc["bal"].as_u64().unwrap()), acc["nonce"].as_u64().unwrap(),
                              if code.is_empty() { None } else { Some(Bytecode::new_raw(code.into())) });
        }
        for (k, v) in acc["stor"].as_object().unwrap() {
            db.insert_storage(ad, U256::from(k.parse::<u64>().unwrap()), U256::from(v.as_u64().unwrap()));
        }
    }
    db
}

fn main() {
    let a = Args::parse();
    std::panic::set_hook(Box::new(|_| {}));
    let o = Opts { db: a.gets("db", "state"), insp: a.gets("insp", "rec"), reuse: a.geti("reuse", 1) == 1, sdev: a.geti("sdev", 0) == 1,
                   respec: { let r = a.gets("respec", ""); if r.is_empty() { None } else { Some(spec_by_name(&r)) } },
                   preverify: a.geti("preverify", 0) == 1 };
    use std::io::BufRead;
    let input = std::io::BufReader::new(std::fs::File::open(&a.input).unwrap());
    let mut out = Out::new(a.output.as_deref());
    let (mut n, mut n_ok, mut n_bad, mut n_panic) = (0u64, 0u64, 0u64, 0u64);
    let mut per_sig: BTreeMap<String, u64> = BTreeMap::new();
    for line in input.lines() {
        let line = line.unwrap();
        if line.trim().is_empty() {
            continue;
        }
        let sc: Value = serde_json::from_str(&line).unwrap();
        n += 1;
        let fork_idx = sc["fork"].as_u64().unwrap() as usize;
        let spec = spec_by_name(FORKS[fork_idx]);
        let names = Names::new(&sc["created"]);
        let agnostic = o.db.starts_with("cachedb");
        let got = catch_unwind(AssertUnwindSafe(|| {
            let rdb = refdb_of(&sc, &names);
            match o.db.as_str() {
                "cachedb" => run_on(CacheDB::new(rdb), &sc, &names, spec, fork_idx, &o, true),
                "cachedb_ins" => {
                    // everything inserted into the cache itself, nothing in the wrapped database
                    let mut c = CacheDB::new(RefDb::default());
                    for (a, i) in rdb.accounts.iter() {
                        let mut i = i.clone();
                        if i.code.is_none() && i.code_hash != revm::primitives::KECCAK_EMPTY {
                            i.code = rdb.code.get(&i.code_hash).cloned();
                        }
                        c.insert_account_info(*a, i);
                    }
                    for ((a, k), v) in rdb.storage.iter() {
                        c.insert_account_storage(*a, *k, *v).unwrap();
                    }
                    run_on(c, &sc, &names, spec, fork_idx, &o, true)
                }
                "state_nobundle" => {
                    let mut b = State::builder().with_database(rdb);
                    if fork_idx < 5 { b = b.without_state_clear(); }
                    run_on(b.build(), &sc, &names, spec, fork_idx, &o, false)
                }
                _ => {
                    let mut b = State::builder().with_database(rdb).with_bundle_update();
                    if fork_idx < 5 { b = b.without_state_clear(); }
                    run_on(b.build(), &sc, &names, spec, fork_idx, &o, false)
                }
            }
        }));
        let got = match got {
            Ok(mut g) => {
                if !o.sdev {
                    if let Some(rs) = g["res"].as_array_mut() {
                        for r in rs {
                            if let Some(ev) = r.get_mut("events").and_then(|e| e.as_array_mut()) {
                                ev.retain(|e| e[0] != json!("selfdestruct"));
                            }
                        }
                    }
                }
                g
            }
            Err(p) => {
                n_panic += 1;
                let msg = if let Some(s) = p.downcast_ref::<&str>() { s.to_string() } else if let Some(s) = p.downcast_ref::<String>() { s.clone() } else { "panic".into() };
                json!({"panic": msg})
            }
        };
        // expectation in the same shape
        let mut exp_res = sc["res"].clone();
        // ExecutionResult reports the refund only for successful transactions
        for r in exp_res.as_array_mut().unwrap() {
            if r["status"] != json!("ok") {
                r["refunded"] = json!(0);
            }
        }
        if o.insp != "rec" {
            for r in exp_res.as_array_mut().unwrap() {
                r.as_object_mut().unwrap().remove("events");
            }
        } else {
            // the selfdestruct notification carries no depth in the inspector API
            for r in exp_res.as_array_mut().unwrap() {
                let ev = r["events"].as_array_mut().unwrap();
                if !o.sdev {
                    ev.retain(|e| e[0] != json!("selfdestruct"));
                }
                for e in ev {
                    if e[0] == json!("selfdestruct") {
                        e[1] = json!(-1);
                    }
                }
            }
        }
        let exp = json!({"res": exp_res, "world": expected_world(&sc, agnostic)});
        let mut d = vec![];
        jdiff(&exp, &got, "", &mut d);
        if d.is_empty() {
            n_ok += 1;
            continue;
        }
        n_bad += 1;
        let mut g: Vec<String> = d.iter().map(|p| {
            // keep field names, drop indices and addresses
            let parts: Vec<&str> = p.split('/').filter(|s| !s.is_empty()).collect();
            let mut s = String::new();
            for q in parts {
                let base = q.split('[').next().unwrap().split('#').next().unwrap();
                if base.chars().all(|c| c.is_ascii_digit()) { continue; }
                s.push('/');
                s.push_str(base);
            }
            s
        }).collect();
        g.sort();
        g.dedup();
        let sig = format!("{}:{}", FORKS[fork_idx], g.join(","));
        let c = per_sig.entry(sig.clone()).or_default();
        *c += 1;
        if *c <= 2 {
            out.emit(&json!({"kind": "mismatch", "sig": sig, "idx": n, "scenario": sc, "exp": exp, "got": got, "diff": d}));
        }
    }
    let sigs: Map<String, Value> = per_sig.into_iter().map(|(k, v)| (k, json!(v))).collect();
    out.emit(&json!({"kind": "summary", "behaviours": n, "ok": n_ok, "root": n_bad, "panics": n_panic, "sigs": sigs,
                     "db": o.db, "insp": o.insp, "reuse": o.reuse}));
    out.flush();
}
