//! Engine for HandlerCfg.tla (C22): drives the real EvmBuilder / Evm / Handler reconfiguration API
//! and projects a configuration by executing three fixed transactions on it.
//!
//! Built WITHOUT the optimism feature: the Optimism fee vaults of C22 are out of scope here.
#[path = "../common.rs"]
mod common;
use common::*;
use revm::{
    db::{CacheDB, EmptyDB},
    handler::register::{EvmHandler, HandleRegisterBox},
    inspector_handle_register,
    interpreter::{CallInputs, CallOutcome},
    primitives::{
        address, AccountInfo, Address, Bytecode, ExecutionResult, SpecId, TxKind, B256, U256,
    },
    Database, Evm, EvmContext, Handler, Inspector,
};
use serde_json::{json, Value};
use std::{cell::RefCell, rc::Rc};

type Db = CacheDB<EmptyDB>;
type TheEvm = Evm<'static, CountInsp, Db>;

const SENDER: Address = address!("1000000000000000000000000000000000000001");
const EOA: Address = address!("2000000000000000000000000000000000000002");
const LOGGER: Address = address!("3000000000000000000000000000000000000003");
const REVERTER: Address = address!("4000000000000000000000000000000000000004");
const COINBASE: Address = address!("c000000000000000000000000000000000000c0b");

/// External context: an inspector that counts the calls it is shown.
#[derive(Default, Debug)]
pub struct CountInsp {
    calls: u32,
}
impl<DB: Database> Inspector<DB> for CountInsp {
    fn call(&mut self, _c: &mut EvmContext<DB>, _i: &mut CallInputs) -> Option<CallOutcome> {
        self.calls += 1;
        None
    }
}

/// "noop": a plain register that changes nothing.
fn noop_register(_h: &mut EvmHandler<'_, CountInsp, Db>) {}

/// "cnt": a boxed register that wraps the end-of-transaction hook; when the hook runs it records
/// the register's identity (its 1-based position in the register list when it was appended) and
/// then runs the hook it wrapped.  The recorded sequence shows which registers are applied, how
/// often, and in which order.
type Trace = Rc<RefCell<Vec<u32>>>;
fn cnt_register(trace: Trace, id: u32) -> HandleRegisterBox<'static, CountInsp, Db> {
    Box::new(move |h| {
        let prev = std::mem::replace(&mut h.post_execution.end, Box::new(|_, out| out));
        let t = trace.clone();
        h.post_execution.end = Box::new(move |ctx, out| {
            t.borrow_mut().push(id);
            prev(ctx, out)
        });
    })
}

fn fork(name: &str) -> SpecId {
    match name {
        "ISTANBUL" => SpecId::ISTANBUL,
        "BERLIN" => SpecId::BERLIN,
        "LONDON" => SpecId::LONDON,
        "MERGE" => SpecId::MERGE,
        "SHANGHAI" => SpecId::SHANGHAI,
        "CANCUN" => SpecId::CANCUN,
        "PRAGUE" => SpecId::PRAGUE,
        o => panic!("unknown fork {o}"),
    }
}
fn fork_name(s: SpecId) -> String {
    let n: &'static str = s.into();
    n.to_uppercase()
}

fn create_handle_generic(evm: &mut TheEvm, name: &str) {
    use revm::primitives::{
        BerlinSpec, CancunSpec, IstanbulSpec, LondonSpec, MergeSpec, PragueSpec, ShanghaiSpec,
    };
    let h = match name {
        "ISTANBUL" => evm.handler.create_handle_generic::<IstanbulSpec>(),
        "BERLIN" => evm.handler.create_handle_generic::<BerlinSpec>(),
        "LONDON" => evm.handler.create_handle_generic::<LondonSpec>(),
        "MERGE" => evm.handler.create_handle_generic::<MergeSpec>(),
        "SHANGHAI" => evm.handler.create_handle_generic::<ShanghaiSpec>(),
        "CANCUN" => evm.handler.create_handle_generic::<CancunSpec>(),
        "PRAGUE" => evm.handler.create_handle_generic::<PragueSpec>(),
        o => panic!("unknown fork {o}"),
    };
    evm.handler = h;
}

pub struct St {
    evm: Option<TheEvm>,
    counter: Trace,
    last: Value,
}

pub struct HandlerCfgEngine {
    gas_price: u64,
    base_fee: u64,
    value: u64,
}

fn fresh_db() -> Db {
    let mut db = CacheDB::new(EmptyDB::default());
    let rich = U256::from(10u64).pow(U256::from(30u64));
    db.insert_account_info(SENDER, AccountInfo::new(rich, 0, B256::ZERO, Bytecode::default()));
    for (a, code) in [
        (LOGGER, &[0x60u8, 0x00, 0x60, 0x00, 0xa0, 0x00][..]), // PUSH1 0 PUSH1 0 LOG0 STOP
        (REVERTER, &[0x60u8, 0x00, 0x60, 0x00, 0xfd][..]),     // PUSH1 0 PUSH1 0 REVERT
    ] {
        let bc = Bytecode::new_raw(code.to_vec().into());
        db.insert_account_info(a, AccountInfo::new(U256::from(5u64), 1, bc.hash_slow(), bc));
    }
    // the beneficiary and the plain recipient exist with a small balance
    db.insert_account_info(COINBASE, AccountInfo::new(U256::from(7u64), 0, B256::ZERO, Bytecode::default()));
    db.insert_account_info(EOA, AccountInfo::new(U256::from(9u64), 0, B256::ZERO, Bytecode::default()));
    db
}

fn recipient(kind: &str) -> Address {
    match kind {
        "transfer" => EOA,
        "log" => LOGGER,
        "revert" => REVERTER,
        o => panic!("unknown tx kind {o}"),
    }
}

impl HandlerCfgEngine {
    fn build(&self, intent: bool, spec: SpecId) -> TheEvm {
        // The only public way to configure an EVM without beneficiary rewards: a handler created
        // with the flag, handed to the builder.
        let handler = Handler::mainnet_with_spec(spec, intent);
        let (gp, bf, val) = (self.gas_price, self.base_fee, self.value);
        Evm::builder()
            .with_db(fresh_db())
            .with_external_context(CountInsp::default())
            .with_handler(handler)
            .modify_block_env(|b| {
                b.coinbase = COINBASE;
                b.basefee = U256::from(bf);
                b.number = U256::from(100u64);
                b.timestamp = U256::from(1000u64);
                b.gas_limit = U256::from(30_000_000u64);
                b.prevrandao = Some(B256::with_last_byte(1));
                b.set_blob_excess_gas_and_price(0, false);
            })
            .modify_tx_env(|t| {
                t.caller = SENDER;
                t.gas_limit = 100_000;
                t.gas_price = U256::from(gp);
                t.gas_priority_fee = None;
                t.value = U256::from(val);
            })
            .build()
    }

    fn set_tx(evm: &mut TheEvm, kind: &str) {
        let nonce = evm.db_mut().basic(SENDER).unwrap().map(|a| a.nonce).unwrap_or(0);
        let tx = evm.tx_mut();
        tx.transact_to = TxKind::Call(recipient(kind));
        tx.nonce = Some(nonce);
    }

    /// Execute transaction `kind` on the configuration without committing; report its effects.
    fn probe(evm: &mut TheEvm, counter: &Trace, kind: &str) -> Value {
        Self::set_tx(evm, kind);
        let rcp = recipient(kind);
        let bal = |evm: &mut TheEvm, a: Address| -> U256 {
            evm.db_mut().basic(a).unwrap().map(|i| i.balance).unwrap_or_default()
        };
        let pre = [bal(evm, SENDER), bal(evm, rcp), bal(evm, COINBASE)];
        evm.context.external.calls = 0;
        counter.borrow_mut().clear();
        let out = match evm.transact() {
            Ok(o) => o,
            Err(e) => return json!({"st": format!("error: {e:?}")}),
        };
        let post = |a: Address, pre: U256| -> U256 { out.state.get(&a).map(|x| x.info.balance).unwrap_or(pre) };
        let d = |after: U256, before: U256| -> i64 {
            if after >= before { i64::try_from(after - before).unwrap_or(i64::MAX) } else { -i64::try_from(before - after).unwrap_or(i64::MAX) }
        };
        let (st, gas, refund, logs) = match &out.result {
            ExecutionResult::Success { gas_used, gas_refunded, logs, .. } => ("success".to_string(), *gas_used, *gas_refunded, logs.len()),
            ExecutionResult::Revert { gas_used, .. } => ("revert".to_string(), *gas_used, 0, 0),
            ExecutionResult::Halt { reason, gas_used } => (format!("halt: {reason:?}"), *gas_used, 0, 0),
        };
        let nonce_after = out.state.get(&SENDER).map(|x| x.info.nonce).unwrap_or(u64::MAX);
        json!({
            "st": st, "gas": gas, "refund": refund, "logs": logs,
            "snd": d(pre[0], post(SENDER, pre[0])),
            "rcp": d(post(rcp, pre[1]), pre[1]),
            "cb": d(post(COINBASE, pre[2]), pre[2]),
            "nonce": nonce_after,
            "insp": evm.context.external.calls > 0,
            "cnt": counter.borrow().clone(),
        })
    }

    fn proj(&self, s: &mut St) -> Value {
        let counter = s.counter.clone();
        let Some(evm) = s.evm.as_mut() else { return json!({"built": false}) };
        let nonce = evm.db_mut().basic(SENDER).unwrap().map(|a| a.nonce).unwrap_or(0);
        json!({
            "built": true,
            "spec": fork_name(evm.spec_id()),
            "nregs": evm.handler.registers.len(),
            "nonce": nonce,
            "probe": {
                "transfer": Self::probe(evm, &counter, "transfer"),
                "log": Self::probe(evm, &counter, "log"),
                "revert": Self::probe(evm, &counter, "revert"),
            }
        })
    }
}

impl Engine for HandlerCfgEngine {
    type S = St;
    fn init(&self, _cfg: &Value) -> St {
        St { evm: None, counter: Trace::default(), last: json!({"built": false}) }
    }
    fn project(&self, s: &St) -> Value {
        s.last.clone()
    }
    fn apply(&self, s: &mut St, op: &Value) -> Value {
        let name = gets(op, "op");
        if name == "build" {
            s.evm = Some(self.build(getb(op, "intent"), fork(gets(op, "spec"))));
        } else {
            let mut evm = s.evm.take().expect("operation before build");
            match name {
                "with_spec_id" => evm = evm.modify().with_spec_id(fork(gets(op, "spec"))).build(),
                "modify_spec_id" => evm.modify_spec_id(fork(gets(op, "spec"))),
                "create_handle_generic" => create_handle_generic(&mut evm, gets(op, "spec")),
                "append_register" => {
                    let builder = match gets(op, "via") {
                        "builder" => true,
                        "handler" => false,
                        o => panic!("unknown via {o}"),
                    };
                    let id = evm.handler.registers.len() as u32 + 1;
                    match (gets(op, "kind"), builder) {
                        ("noop", true) => evm = evm.modify().append_handler_register(noop_register).build(),
                        ("noop", false) => evm.handler.append_handler_register_plain(noop_register),
                        ("insp", true) => evm = evm.modify().append_handler_register(inspector_handle_register).build(),
                        ("insp", false) => evm.handler.append_handler_register_plain(inspector_handle_register),
                        ("cnt", true) => evm = evm.modify().append_handler_register_box(cnt_register(s.counter.clone(), id)).build(),
                        ("cnt", false) => evm.handler.append_handler_register_box(cnt_register(s.counter.clone(), id)),
                        (o, _) => panic!("unknown register kind {o}"),
                    }
                }
                "pop_register" => {
                    let _ = evm.handler.pop_handle_register();
                }
                "modify_build" => evm = evm.modify().build(),
                "transact" => {
                    Self::set_tx(&mut evm, gets(op, "kind"));
                    let _ = evm.transact_commit();
                }
                o => panic!("unknown op {o}"),
            }
            s.evm = Some(evm);
        }
        s.last = self.proj(s);
        s.last.clone()
    }
}

/// Observations outside the action set of the model (reported by the check as information only):
/// builder calls that replace the handler.
fn info(eng: &HandlerCfgEngine, out: &mut Out) {
    let cb = |evm: &mut TheEvm| -> Value {
        let c = Trace::default();
        HandlerCfgEngine::probe(evm, &c, "transfer")["cb"].clone()
    };
    let tx = |t: &mut revm::primitives::TxEnv, gp: u64, val: u64| {
        t.caller = SENDER;
        t.gas_limit = 100_000;
        t.gas_price = U256::from(gp);
        t.value = U256::from(val);
    };
    let (gp, bf, val) = (eng.gas_price, eng.base_fee, eng.value);
    // baseline: rewards off, nothing else done
    let mut e = eng.build(false, SpecId::LONDON);
    out.emit(&json!({"kind":"info","name":"baseline rewards-off LONDON","cb":cb(&mut e)}));
    // documented reset
    let mut e = eng.build(false, SpecId::LONDON).modify().reset_handler().build();
    out.emit(&json!({"kind":"info","name":"modify().reset_handler() [documented: resets to default mainnet]","cb":cb(&mut e)}));
    let mut e: TheEvm = eng.build(false, SpecId::LONDON).modify().reset_handler_with_db(fresh_db()).build();
    out.emit(&json!({"kind":"info","name":"modify().reset_handler_with_db(db) [documented: resets]","cb":cb(&mut e)}));
    // with_db / with_external_context after with_handler (SetGenericStage; not documented as resetting)
    let mut e: TheEvm = Evm::builder()
        .with_external_context(CountInsp::default())
        .with_handler(Handler::mainnet_with_spec(SpecId::LONDON, false))
        .with_db(fresh_db())
        .modify_block_env(|b| { b.coinbase = COINBASE; b.basefee = U256::from(bf); b.gas_limit = U256::from(30_000_000u64); })
        .modify_tx_env(|t| tx(t, gp, val))
        .build();
    out.emit(&json!({"kind":"info","name":"builder.with_handler(rewards-off).with_db(db) [doc: 'Sets the Database']","cb":cb(&mut e)}));
    let mut e: TheEvm = Evm::builder()
        .with_db(fresh_db())
        .with_handler(Handler::mainnet_with_spec(SpecId::LONDON, false))
        .with_external_context(CountInsp::default())
        .modify_block_env(|b| { b.coinbase = COINBASE; b.basefee = U256::from(bf); b.gas_limit = U256::from(30_000_000u64); })
        .modify_tx_env(|t| tx(t, gp, val))
        .build();
    out.emit(&json!({"kind":"info","name":"builder.with_handler(rewards-off).with_external_context(x) [doc: 'Sets the external context']","cb":cb(&mut e)}));
    out.flush();
}

fn main() {
    let a = Args::parse();
    let eng = HandlerCfgEngine {
        gas_price: a.geti("gas_price", 10) as u64,
        base_fee: a.geti("base_fee", 7) as u64,
        value: a.geti("value", 1000) as u64,
    };
    match a.mode.as_str() {
        "edges" => run_edges(&eng, &a.input, a.output.as_deref()),
        "behaviours" => run_behaviours(&eng, &a.input, a.output.as_deref()),
        "info" => info(&eng, &mut Out::new(a.output.as_deref())),
        m => a.bad_mode(m),
    }
}
