//! Engine for Memory.tla (C11): drives revm_interpreter::SharedMemory, the interpreter's
//! `resize_memory` helper and the `resize_memory!` macro on a real `Interpreter`.
//!
//! The adapter only applies operations and projects; all expectations come from Memory.tla.
//! Bytes, offsets and sizes are passed through unchanged, except that with `top=<T>` a model
//! number above T/2 stands for the real number equally far below usize::MAX.
#[path = "../common.rs"]
mod common;
use common::*;
use revm_interpreter::{num_words, Contract, Gas, InstructionResult, Interpreter, SharedMemory};
use revm_primitives::{B256, U256};
use serde_json::{json, Value};

pub struct MemEngine {
    /// 0 = identity; otherwise the model number standing for usize::MAX.
    top: i64,
}

fn bytes_of(v: &Value, k: &str) -> Vec<u8> {
    v.get(k)
        .and_then(|x| x.as_array())
        .unwrap_or_else(|| panic!("field {k} missing/not array in {v}"))
        .iter()
        .map(|b| b.as_u64().expect("byte") as u8)
        .collect()
}

fn jbytes(b: &[u8]) -> Value {
    Value::Array(b.iter().map(|x| json!(*x)).collect())
}

/// One memory as the model shows it: length and the non-zero bytes [offset, value].
fn mem_proj(m: &[u8]) -> Value {
    let nz: Vec<Value> = m.iter().enumerate().filter(|(_, b)| **b != 0).map(|(i, b)| json!([i, *b])).collect();
    json!({"len": m.len(), "nz": nz})
}

impl MemEngine {
    fn u(&self, v: i64) -> usize {
        if self.top == 0 || v <= self.top / 2 {
            v as usize
        } else if v <= self.top {
            usize::MAX - (self.top - v) as usize
        } else {
            panic!("model number {v} above Top")
        }
    }

    /// Number of open contexts.  The API has no accessor; the public serialised form has the
    /// checkpoints.
    fn depth(m: &SharedMemory) -> usize {
        let v = serde_json::to_value(m).expect("serialise SharedMemory");
        v.get("checkpoints").and_then(|c| c.as_array()).map(|c| c.len()).expect("checkpoints")
    }

    fn proj(&self, it: &Interpreter) -> Value {
        let m = &it.shared_memory;
        let depth = Self::depth(m);
        // what every open context would see: walk down a copy by freeing contexts
        let mut below = vec![mem_proj(m.context_memory())];
        let mut c = m.clone();
        for _ in 0..depth {
            c.free_context();
            below.push(mem_proj(c.context_memory()));
        }
        below.reverse();
        json!({"depth": depth, "len": m.len(), "empty": m.is_empty(),
               "cost": m.current_expansion_cost(), "mem": below, "gas": it.gas.remaining()})
    }
}

/// `resize_memory!` returns from the enclosing function on failure, like in an instruction.
fn touch(it: &mut Interpreter, offset: usize, len: usize) {
    revm_interpreter::resize_memory!(it, offset, len);
}

impl Engine for MemEngine {
    type S = Interpreter;

    fn init(&self, _cfg: &Value) -> Self::S {
        let mut it = Interpreter::new(Contract::default(), 0, false);
        it.shared_memory = SharedMemory::new();
        it
    }

    fn project(&self, s: &Self::S) -> Value {
        self.proj(s)
    }

    fn apply(&self, it: &mut Self::S, op: &Value) -> Value {
        let mut ok = true;
        let mut ret: Vec<u8> = vec![];
        let mut ret_num: Option<u64> = None;
        it.instruction_result = InstructionResult::Continue;
        let o = |k: &str| geti(op, k) as usize;
        match gets(op, "op") {
            "new_context" => it.shared_memory.new_context(),
            "free_context" => it.shared_memory.free_context(),
            "resize" => it.shared_memory.resize(o("n")),
            "gas" => it.gas = Gas::new(geti(op, "g") as u64),
            "expand" => {
                touch(it, self.u(geti(op, "off")), self.u(geti(op, "len")));
                ok = match it.instruction_result {
                    InstructionResult::Continue => true,
                    InstructionResult::MemoryOOG => false,
                    r => panic!("unexpected instruction result {r:?}"),
                };
            }
            "resize_memory" => ok = it.resize_memory(o("n")),
            "set_byte" => it.shared_memory.set_byte(o("o"), geti(op, "b") as u8),
            "set" => it.shared_memory.set(o("o"), &bytes_of(op, "d")),
            "slice_mut" => {
                let d = bytes_of(op, "d");
                it.shared_memory.slice_mut(o("o"), d.len()).copy_from_slice(&d)
            }
            "context_memory_mut" => {
                let d = bytes_of(op, "d");
                it.shared_memory.context_memory_mut()[o("o")..o("o") + d.len()].copy_from_slice(&d)
            }
            "set_word" => it.shared_memory.set_word(o("o"), &B256::from_slice(&bytes_of(op, "w"))),
            "set_u256" => it.shared_memory.set_u256(o("o"), U256::from_be_slice(&bytes_of(op, "w"))),
            "set_data" => it.shared_memory.set_data(o("mo"), o("dofs"), o("len"), &bytes_of(op, "d")),
            "copy" => it.shared_memory.copy(o("dst"), o("src"), o("len")),
            "get_byte" => ret = vec![it.shared_memory.get_byte(o("o"))],
            "slice" => ret = it.shared_memory.slice(o("o"), o("n")).to_vec(),
            "slice_range" => ret = it.shared_memory.slice_range(o("o")..o("o") + o("n")).to_vec(),
            "get_word" => ret = it.shared_memory.get_word(o("o")).to_vec(),
            "get_u256" => ret = it.shared_memory.get_u256(o("o")).to_be_bytes::<32>().to_vec(),
            "num_words" => ret_num = Some(num_words(geti(op, "x") as u64)),
            x => panic!("unknown op {x}"),
        }
        let mut p = self.proj(it);
        p["ok"] = json!(ok);
        p["ret"] = match ret_num {
            Some(n) => json!([n]),
            None => jbytes(&ret),
        };
        p
    }
}

fn main() {
    let a = Args::parse();
    let eng = MemEngine { top: a.geti("top", 0) };
    match a.mode.as_str() {
        "edges" => run_edges(&eng, &a.input, a.output.as_deref()),
        "behaviours" => run_behaviours(&eng, &a.input, a.output.as_deref()),
        m => a.bad_mode(m),
    }
}
