//! Engine for Opcodes.tla (C05): which opcodes / precompiles exist under which SpecId.
//!
//! Operations of the model and what they do on the real code:
//!   configure {fork}                 first: `Evm::builder().with_spec_id(fork)`; later: `Evm::modify_spec_id(fork)`.
//!                                    Projection: the addresses of `handler.pre_execution().load_precompiles()`.
//!                                    (That they are pre-warmed is observed semantically by call_addr's gas.)
//!   info {byte}                      `OPCODE_INFO_JUMPTABLE[byte]`.
//!   exec {byte, path, pushes, observe_gas}
//!                                    legacy code `pushes x PUSH1 0; byte; 33 x 00`
//!                                    path "evm":   a real transaction through the configured Evm;
//!                                    path "table": `Interpreter::run` with `make_instruction_table::<DummyHost, S>()`
//!                                                  where `S::SPEC_ID` is the configured SpecId.
//!                                    Projection: the class of the outcome (undefined / invalid / defined)
//!                                    and, if the model asks for it, whether all gas was consumed.
//!   call_addr {addr, funded, forwarded, observe_retsize}
//!                                    a probe contract CALLs `addr` with empty input; projection = success
//!                                    flag, RETURNDATASIZE (if asked), gas consumed by the CALL instruction.
//! The harness never decides what is right; all expectations come from the specification.
#[path = "../common.rs"]
mod common;
use common::*;
use revm::db::{CacheDB, EmptyDB};
use revm::primitives::{
    address, AccountInfo, Address, Bytecode, Bytes, Env, ExecutionResult, HaltReason, Output, Spec, SpecId, TxKind,
    U256,
};
use revm::Evm;
use revm_interpreter::opcode::make_instruction_table;
use revm_interpreter::{Contract, DummyHost, Interpreter, SharedMemory, SuccessOrHalt, OPCODE_INFO_JUMPTABLE};
use serde_json::{json, Value};

const CALLER: Address = address!("1000000000000000000000000000000000000001");
const PROBE: Address = address!("2000000000000000000000000000000000000002");
const GAS_LIMIT: u64 = 5_000_000;

/// A `Spec` for every SpecId, including those revm has no named type for (FRONTIER_THAWING,
/// DAO_FORK, CONSTANTINOPLE, MUIR_GLACIER, ARROW_GLACIER, GRAY_GLACIER).
struct S<const ID: u8>;
impl<const ID: u8> Spec for S<ID> {
    // ID is only ever instantiated (in `table_run`) with discriminants of `SpecId`.
    const SPEC_ID: SpecId = unsafe { core::mem::transmute::<u8, SpecId>(ID) };
}

const FORKS: [(&str, SpecId); 21] = [
    ("FRONTIER", SpecId::FRONTIER),
    ("FRONTIER_THAWING", SpecId::FRONTIER_THAWING),
    ("HOMESTEAD", SpecId::HOMESTEAD),
    ("DAO_FORK", SpecId::DAO_FORK),
    ("TANGERINE", SpecId::TANGERINE),
    ("SPURIOUS_DRAGON", SpecId::SPURIOUS_DRAGON),
    ("BYZANTIUM", SpecId::BYZANTIUM),
    ("CONSTANTINOPLE", SpecId::CONSTANTINOPLE),
    ("PETERSBURG", SpecId::PETERSBURG),
    ("ISTANBUL", SpecId::ISTANBUL),
    ("MUIR_GLACIER", SpecId::MUIR_GLACIER),
    ("BERLIN", SpecId::BERLIN),
    ("LONDON", SpecId::LONDON),
    ("ARROW_GLACIER", SpecId::ARROW_GLACIER),
    ("GRAY_GLACIER", SpecId::GRAY_GLACIER),
    ("MERGE", SpecId::MERGE),
    ("SHANGHAI", SpecId::SHANGHAI),
    ("CANCUN", SpecId::CANCUN),
    ("PRAGUE", SpecId::PRAGUE),
    ("OSAKA", SpecId::OSAKA),
    ("LATEST", SpecId::LATEST),
];

fn fork_of(name: &str) -> SpecId {
    FORKS.iter().find(|(n, _)| *n == name).unwrap_or_else(|| panic!("unknown fork {name}")).1
}
fn name_of(id: SpecId) -> &'static str {
    FORKS.iter().find(|(_, s)| *s == id).map(|(n, _)| *n).unwrap_or("?")
}

/// Outcome class in the model's vocabulary.
fn class_of_halt(r: &HaltReason) -> &'static str {
    match r {
        HaltReason::OpcodeNotFound | HaltReason::NotActivated => "undefined",
        HaltReason::InvalidFEOpcode => "invalid",
        _ => "defined",
    }
}

fn probe_code(pushes: i64, byte: u8) -> Bytes {
    let mut c = Vec::new();
    for _ in 0..pushes {
        c.extend_from_slice(&[0x60, 0x00]);
    }
    c.push(byte);
    c.extend_from_slice(&[0u8; 33]);
    Bytes::from(c)
}

fn table_run_with<SP: Spec>(code: Bytes) -> Value {
    let table = make_instruction_table::<DummyHost, SP>();
    let contract = Contract::new(Bytes::new(), Bytecode::new_raw(code), None, PROBE, None, CALLER, U256::ZERO);
    let mut interp = Interpreter::new(contract, GAS_LIMIT, false);
    let mut host = DummyHost::new(Env::default());
    let _ = interp.run(SharedMemory::new(), &table, &mut host);
    match SuccessOrHalt::from(interp.instruction_result) {
        SuccessOrHalt::Halt(r) => json!({"class": class_of_halt(&r), "detail": format!("{:?}", interp.instruction_result)}),
        _ => json!({"class": "defined", "detail": format!("{:?}", interp.instruction_result)}),
    }
}

fn table_run(spec: SpecId, code: Bytes) -> Value {
    macro_rules! go {
        ($($id:literal),*) => {
            match spec as u8 { $($id => table_run_with::<S<$id>>(code),)* x => panic!("no Spec for id {x}") }
        };
    }
    go!(0, 1, 2, 3, 4, 5, 6, 7, 8, 9, 10, 11, 12, 13, 14, 15, 16, 17, 18, 19, 255)
}

type TheEvm = Evm<'static, (), CacheDB<EmptyDB>>;

pub struct St {
    evm: Option<TheEvm>,
    last: Value,
}

pub struct OpcodesEngine;

fn addr_num(a: &Address) -> Value {
    let b = a.as_slice();
    if b[..12].iter().all(|x| *x == 0) {
        json!(u64::from_be_bytes(b[12..20].try_into().unwrap()))
    } else {
        json!(format!("{a:?}"))
    }
}

fn sorted(mut v: Vec<Address>) -> Vec<Value> {
    v.sort();
    v.iter().map(addr_num).collect()
}

impl OpcodesEngine {
    fn proj(&self, s: &St) -> Value {
        match &s.evm {
            None => json!({"fork": "none", "precompiles": [], "last": s.last}),
            Some(evm) => {
                let pre = evm.handler.pre_execution().load_precompiles();
                let callable: Vec<Address> = pre.addresses().cloned().collect();
                json!({"fork": name_of(evm.spec_id()), "precompiles": sorted(callable), "last": s.last})
            }
        }
    }

    fn fresh_db(code: Bytes) -> CacheDB<EmptyDB> {
        let mut db = CacheDB::new(EmptyDB::default());
        db.insert_account_info(CALLER, AccountInfo::from_balance(U256::from(10u64).pow(U256::from(24u64))));
        db.insert_account_info(PROBE, AccountInfo::new(U256::ZERO, 1, revm::primitives::keccak256(&code), Bytecode::new_raw(code)));
        db
    }

    fn transact(evm: &mut TheEvm, db: CacheDB<EmptyDB>) -> Result<ExecutionResult, String> {
        *evm.db_mut() = db;
        let tx = evm.tx_mut();
        tx.caller = CALLER;
        tx.transact_to = TxKind::Call(PROBE);
        tx.gas_limit = GAS_LIMIT;
        tx.gas_price = U256::ZERO;
        tx.value = U256::ZERO;
        tx.data = Bytes::new();
        match evm.transact() {
            Ok(r) => Ok(r.result),
            Err(e) => Err(format!("{e:?}")),
        }
    }

    fn exec(&self, s: &mut St, op: &Value) -> Value {
        let byte = geti(op, "byte") as u8;
        let code = probe_code(geti(op, "pushes"), byte);
        let evm = s.evm.as_mut().expect("exec before configure");
        let mut out = match gets(op, "path") {
            "table" => {
                let mut v = table_run(evm.spec_id(), code);
                v.as_object_mut().unwrap().remove("detail");
                v
            }
            "evm" => match Self::transact(evm, Self::fresh_db(code)) {
                Err(e) => json!({"class": format!("error: {e}")}),
                Ok(ExecutionResult::Halt { reason, gas_used }) => {
                    json!({"class": class_of_halt(&reason), "gas_all": gas_used == GAS_LIMIT})
                }
                Ok(ExecutionResult::Success { gas_used, .. }) | Ok(ExecutionResult::Revert { gas_used, .. }) => {
                    json!({"class": "defined", "gas_all": gas_used == GAS_LIMIT})
                }
            },
            p => panic!("unknown path {p}"),
        };
        let o = out.as_object_mut().unwrap();
        // the model says whether the gas of this case is part of the property
        if !getb(op, "observe_gas") {
            o.remove("gas_all");
        }
        o.insert("kind".into(), json!("exec"));
        out
    }

    fn call_addr(&self, s: &mut St, op: &Value) -> Value {
        let addr = geti(op, "addr") as u64;
        let fwd = geti(op, "forwarded") as u64;
        let with_rds = getb(op, "observe_retsize");
        assert!(addr <= 0xffff && fwd <= 0xff_ffff);
        // GAS; 5 x PUSH1 0; PUSH2 addr; PUSH3 fwd; CALL; GAS    -> stack [g0, success, g1]
        let mut c: Vec<u8> = vec![0x5a];
        for _ in 0..5 {
            c.extend_from_slice(&[0x60, 0x00]);
        }
        c.extend_from_slice(&[0x61, (addr >> 8) as u8, addr as u8]);
        c.extend_from_slice(&[0x62, (fwd >> 16) as u8, (fwd >> 8) as u8, fwd as u8]);
        c.extend_from_slice(&[0xf1, 0x5a]);
        // static cost of the instructions between the two GAS readings, CALL excluded
        let overhead: u64 = 5 * 3 + 3 + 3 + 2;
        c.extend_from_slice(&[0x60, 0x40, 0x52, 0x60, 0x20, 0x52, 0x60, 0x00, 0x52]); // g1->0x40 success->0x20 g0->0
        let mut len = 0x60u8;
        if with_rds {
            c.extend_from_slice(&[0x3d, 0x60, 0x60, 0x52]);
            len = 0x80;
        }
        c.extend_from_slice(&[0x60, len, 0x60, 0x00, 0xf3]);
        let mut db = Self::fresh_db(Bytes::from(c));
        if getb(op, "funded") {
            let mut a = [0u8; 20];
            a[12..].copy_from_slice(&addr.to_be_bytes());
            db.insert_account_info(Address::from(a), AccountInfo::from_balance(U256::from(1)));
        }
        let evm = s.evm.as_mut().expect("call_addr before configure");
        match Self::transact(evm, db) {
            Ok(ExecutionResult::Success { output: Output::Call(b), .. }) if b.len() == len as usize => {
                let w = |i: usize| U256::from_be_slice(&b[32 * i..32 * i + 32]);
                let (g0, ok, g1) = (w(0), w(1), w(2));
                let used = g0.saturating_sub(g1).saturating_sub(U256::from(overhead));
                let rds: Value = if with_rds { json!(w(3).saturating_to::<u64>()) } else { json!(-1) };
                json!({"kind": "call", "success": ok == U256::from(1), "retsize": rds, "gas": used.saturating_to::<u64>()})
            }
            other => json!({"kind": "call", "error": format!("{other:?}")}),
        }
    }
}

impl Engine for OpcodesEngine {
    type S = St;
    fn init(&self, _cfg: &Value) -> St {
        St { evm: None, last: json!({"kind": "none"}) }
    }
    fn project(&self, s: &St) -> Value {
        self.proj(s)
    }
    fn apply(&self, s: &mut St, op: &Value) -> Value {
        match gets(op, "op") {
            "configure" => {
                let f = fork_of(gets(op, "fork"));
                match s.evm.as_mut() {
                    None => {
                        s.evm = Some(Evm::builder().with_db(CacheDB::new(EmptyDB::default())).with_spec_id(f).build())
                    }
                    Some(evm) => evm.modify_spec_id(f),
                }
                s.last = json!({"kind": "configured"});
            }
            "run" => {
                // one plain transaction under the configured fork: a call of an account without code
                let evm = s.evm.as_mut().expect("run before configure");
                let r = Self::transact(evm, Self::fresh_db(Bytes::new()));
                assert!(matches!(r, Ok(ExecutionResult::Success { .. })), "plain call failed: {r:?}");
                s.last = json!({"kind": "configured"});
            }
            "info" => {
                let b = geti(op, "byte") as usize;
                s.last = match OPCODE_INFO_JUMPTABLE[b] {
                    Some(i) => json!({"kind": "info", "known": true, "ins": i.inputs(), "outs": i.outputs(),
                                      "imm": i.immediate_size(), "legacy_only": i.is_disabled_in_eof()}),
                    None => json!({"kind": "info", "known": false, "ins": 0, "outs": 0, "imm": 0, "legacy_only": false}),
                };
            }
            "exec" => s.last = self.exec(s, op),
            "call_addr" => s.last = self.call_addr(s, op),
            o => panic!("unknown op {o}"),
        }
        self.proj(s)
    }
    /// One key per (operation, subject, fork): a wrong gate of one opcode must not hide behind another.
    fn signature(&self, op: &Value, diff: &[String], _exp: &Value, _got: &Value) -> String {
        let mut d: Vec<String> = diff.iter().map(|p| generalize(p)).collect();
        d.sort();
        d.dedup();
        let name = gets(op, "op");
        let subject = match name {
            "exec" => format!("{}:{}@{}", gets(op, "path"), gets(op, "name"), gets(op, "fork")),
            "info" => gets(op, "name").to_string(),
            "call_addr" => format!("0x{:02x}{}@{}", geti(op, "addr"), if getb(op, "funded") { "+funded" } else { "" }, gets(op, "fork")),
            "configure" | "run" => gets(op, "fork").to_string(),
            _ => String::new(),
        };
        format!("{}:{}:{}", name, subject, d.join(","))
    }
}

fn main() {
    let a = Args::parse();
    let eng = OpcodesEngine;
    match a.mode.as_str() {
        "edges" => run_edges(&eng, &a.input, a.output.as_deref()),
        "behaviours" => run_behaviours(&eng, &a.input, a.output.as_deref()),
        m => a.bad_mode(m),
    }
}
