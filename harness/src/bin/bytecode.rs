//! Engine for BytecodeKinds.tla (C27, partial): kinds of stored code, original bytes, hash.
//!
//! Every edge is one constructor call of the specification on one byte string (`op.code`, or
//! `op.address` for `delegate`).  The adapter only *calls and observes*:
//!   new_raw_checked / new_raw / new_legacy : `Bytecode::new_raw_checked`, `Bytecode::new_raw`
//!       (a panic is the outcome "panic"), `Bytecode::new_legacy`;
//!   new_analyzed : the unsafe `Bytecode::new_analyzed(code ++ zeros(pad), len, empty table)` for
//!       every pad the op lists;
//!   decode7702   : `Eip7702Bytecode::new_raw`, wrapped in `Bytecode::Eip7702`;
//!   delegate     : `Eip7702Bytecode::new(address)`, `Bytecode::new_eip7702(address)`, and the
//!       designator it produced handed back to `Bytecode::new_raw_checked`;
//!   default      : `Bytecode::new()` / `Bytecode::default()`.
//! Every value built is observed raw, after `to_analysed`, and after a second `to_analysed`,
//! through all public accessors (`view`).  Executable byte strings (bytes / bytes_slice /
//! bytecode) are reported relative to the length of `op.code`: the first n bytes, whether
//! everything after them is zero, whether there is anything after them.
//!
//! Mode `edges`: generic comparison with the specification's expectation (`run_edges`); with
//! `rec=<path>` it also writes, for every edge, one hash record: the digest `keccak256(op.code)`
//! computed directly from the op's bytes, next to the distinct `hash_slow()` answers of all
//! values the op built; the records are judged by TLC (BytecodeKinds.tla, section "judge").
//! Mode `record`: only the records.  Nothing is decided here.
#[path = "../common.rs"]
mod common;
use common::*;
use revm::primitives::{keccak256, Address, Bytecode, Bytes, Eip7702Bytecode, B256};
use revm_interpreter::{
    analysis::to_analysed,
    primitives::{legacy::JumpTable, LegacyAnalyzedBytecode},
};
use serde_json::{json, Value};
use std::cell::{Cell, RefCell};
use std::panic::{catch_unwind, resume_unwind, AssertUnwindSafe};

fn bytes_of(v: &Value) -> Vec<u8> {
    v.as_array().unwrap_or_else(|| panic!("not a byte array: {v}")).iter().map(|b| b.as_u64().unwrap() as u8).collect()
}

/// An executable byte string relative to the original length n.
fn exec_view(b: &[u8], n: usize) -> Value {
    let k = n.min(b.len());
    json!({"head": b[..k].to_vec(), "tail_zero": b[k..].iter().all(|x| *x == 0), "padded": b.len() > n})
}

fn delegation_view(d: &Eip7702Bytecode) -> Value {
    json!({"address": d.address().to_vec(), "version": d.version, "raw": d.raw().to_vec()})
}

pub struct BytecodeEngine {
    /// hash_slow() of every value observed during the current op
    hashes: RefCell<Vec<B256>>,
    /// where the hash records go (`rec=<path>` in mode `edges`, the output in mode `record`)
    rec: RefCell<Option<Out>>,
    /// number of the next record (`base=<n>`: edges before this input file)
    next: Cell<usize>,
}

impl BytecodeEngine {
    /// All public accessors of one value; n = length of the op's code.
    fn view(&self, v: &Bytecode, n: usize) -> Value {
        self.hashes.borrow_mut().push(v.hash_slow());
        let variant = match v {
            Bytecode::LegacyRaw(_) => "LegacyRaw",
            Bytecode::LegacyAnalyzed(_) => "LegacyAnalyzed",
            Bytecode::Eof(_) => "Eof",
            Bytecode::Eip7702(_) => "Eip7702",
        };
        let analyzed = match v {
            Bytecode::LegacyAnalyzed(a) => vec![json!({
                "original_len": a.original_len(),
                "original_bytes": a.original_bytes().to_vec(),
                "original_byte_slice": a.original_byte_slice().to_vec(),
                "bytecode": exec_view(a.bytecode(), n),
            })],
            _ => vec![],
        };
        let delegation = match v {
            Bytecode::Eip7702(d) => vec![delegation_view(d)],
            _ => vec![],
        };
        json!({
            "variant": variant,
            "is_eof": v.is_eof(),
            "has_eof": v.eof().is_some(),
            "is_eip7702": v.is_eip7702(),
            "execution_ready": v.is_execution_ready(),
            "has_jump_table": v.legacy_jump_table().is_some(),
            "original_bytes": v.original_bytes().to_vec(),
            "original_byte_slice": v.original_byte_slice().to_vec(),
            "len": v.len(),
            "is_empty": v.is_empty(),
            "bytes": exec_view(&v.bytes(), n),
            "bytes_slice": exec_view(v.bytes_slice(), n),
            "bytecode": exec_view(v.bytecode(), n),
            "analyzed": analyzed,
            "delegation": delegation,
        })
    }

    /// A built value: raw, analysed, analysed twice.
    fn built(&self, v: Bytecode, n: usize) -> Value {
        let a = to_analysed(v.clone());
        let aa = to_analysed(a.clone());
        json!({"outcome": "built", "raw": self.view(&v, n), "analysed": self.view(&a, n), "reanalysed": self.view(&aa, n)})
    }

    fn run(&self, op: &Value) -> Value {
        let code = bytes_of(&op["code"]);
        let n = code.len();
        let bytes = Bytes::from(code.clone());
        match gets(op, "op") {
            "new_raw_checked" => match Bytecode::new_raw_checked(bytes) {
                Ok(v) => self.built(v, n),
                Err(_) => json!({"outcome": "error"}),
            },
            "new_raw" => match catch_unwind(AssertUnwindSafe(|| Bytecode::new_raw(bytes))) {
                Ok(v) => self.built(v, n),
                Err(_) => json!({"outcome": "panic"}),
            },
            "new_legacy" => self.built(Bytecode::new_legacy(bytes), n),
            "new_analyzed" => {
                let mut out = serde_json::Map::new();
                for p in op["pads"].as_array().unwrap() {
                    let pad = p.as_u64().unwrap() as usize;
                    let mut padded = code.clone();
                    padded.resize(n + pad, 0);
                    let table = JumpTable::from_slice(&vec![0u8; (n + pad + 7) / 8]);
                    // by hand, through both constructors of the analysed form
                    let v = unsafe { Bytecode::new_analyzed(Bytes::from(padded.clone()), n, table.clone()) };
                    let w = Bytecode::LegacyAnalyzed(LegacyAnalyzedBytecode::new(Bytes::from(padded), n, table));
                    out.insert(format!("pad{pad}"), json!({"new_analyzed": self.view(&v, n), "inner_new": self.view(&w, n)}));
                }
                Value::Object(out)
            }
            "decode7702" => match Eip7702Bytecode::new_raw(bytes) {
                Ok(d) => self.built(Bytecode::Eip7702(d), n),
                Err(_) => json!({"outcome": "error"}),
            },
            "delegate" => {
                let addr = Address::from_slice(&bytes_of(&op["address"]));
                let d = Eip7702Bytecode::new(addr);
                let v = Bytecode::new_eip7702(addr);
                let reparsed = match Bytecode::new_raw_checked(v.original_bytes()) {
                    Ok(r) => self.built(r, n),
                    Err(_) => json!({"outcome": "error"}),
                };
                json!({"direct": delegation_view(&d), "value": self.built(v, n), "reparsed": reparsed})
            }
            "default" => json!({"new": self.view(&Bytecode::new(), n), "default": self.view(&Bytecode::default(), n)}),
            o => panic!("unknown op {o}"),
        }
    }
}

impl Engine for BytecodeEngine {
    type S = ();
    fn init(&self, _cfg: &Value) -> Self::S {}
    fn project(&self, _s: &Self::S) -> Value {
        Value::Null
    }
    fn apply(&self, _s: &mut Self::S, op: &Value) -> Value {
        self.hashes.borrow_mut().clear();
        let r = catch_unwind(AssertUnwindSafe(|| self.run(op)));
        self.write_record(op, r.is_err());
        match r {
            Ok(v) => v,
            Err(p) => resume_unwind(p),
        }
    }
}

impl BytecodeEngine {
    /// One record per op for the judge: H(code) from the op's bytes (not from any value built) next
    /// to the distinct hash_slow() answers of the values the op built.
    fn write_record(&self, op: &Value, panicked: bool) {
        let mut rec = self.rec.borrow_mut();
        let Some(out) = rec.as_mut() else { return };
        self.next.set(self.next.get() + 1);
        let keccak = keccak256(bytes_of(&op["code"]));
        let seen = self.hashes.borrow();
        let mut distinct: Vec<String> = seen.iter().map(|h| format!("{h:#x}")).collect();
        distinct.sort();
        distinct.dedup();
        out.emit(&json!({"i": self.next.get(), "op": gets(op, "op"), "code": op["code"], "keccak": format!("{keccak:#x}"),
                         "built": seen.len(), "hashes": distinct, "panicked": panicked}));
    }
}

/// Mode `record`: only the records.
fn record(eng: &BytecodeEngine, input: &str) {
    std::panic::set_hook(Box::new(|_| {}));
    for e in read_ndjson(input).iter() {
        let _ = catch_unwind(AssertUnwindSafe(|| eng.apply(&mut (), &e["op"])));
    }
}

fn main() {
    let a = Args::parse();
    let eng = BytecodeEngine { hashes: RefCell::new(vec![]), rec: RefCell::new(None), next: Cell::new(a.geti("base", 0) as usize) };
    match a.mode.as_str() {
        "edges" => {
            if let Some(p) = a.kv.get("rec") {
                *eng.rec.borrow_mut() = Some(Out::new(Some(p)));
            }
            run_edges(&eng, &a.input, a.output.as_deref());
        }
        "record" => {
            *eng.rec.borrow_mut() = Some(Out::new(a.output.as_deref()));
            record(&eng, &a.input);
        }
        m => a.bad_mode(m),
    }
    if let Some(out) = eng.rec.borrow_mut().as_mut() {
        out.flush();
    };
}
