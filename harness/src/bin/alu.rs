//! Engine for Alu.tla (C03): one arithmetic / comparison / bitwise / shift instruction on the real
//! interpreter, under the instruction table of every fork the specification lists.
//!
//! One model operation:
//!   {op: "SDIV", code: 5, args: ["0x..", ..]}      args[0] is the word on top of the stack
//! What is done on the real code, per fork F:
//!   legacy bytecode  PUSH32 <sentinel> PUSH32 args[n-1] .. PUSH32 args[0] <code> STOP
//!   run by `Interpreter::run` with `make_instruction_table::<DummyHost, Spec F>()`, gas limit 10^6.
//! Projection (in the model's vocabulary):
//!   forks.F = {ok: true, gas: <Gas::spent() of the whole program>}   if the run ended with STOP
//!           = {ok: false}                                            otherwise (exceptional halt)
//!   stack   = the stack at the end (bottom first, hex words) if it is the same in all forks that
//!             ended with STOP, otherwise an object fork -> stack.
//! The harness never decides what is right; the expectation comes from the specification.
#[path = "../common.rs"]
mod common;
use common::*;
use revm_interpreter::opcode::{make_instruction_table, Instruction};
use revm_interpreter::{Contract, DummyHost, InstructionResult, Interpreter, SharedMemory};
use revm_primitives::{address, Address, Bytecode, Bytes, Env, Spec, SpecId, U256};
use serde_json::{json, Map, Value};

const CALLER: Address = address!("1000000000000000000000000000000000000001");
const TARGET: Address = address!("2000000000000000000000000000000000000002");
const GAS_LIMIT: u64 = 1_000_000;
/// The word under the operands (the specification's `Sentinel`): bytes 0xfe, 0xfd, .., 0xdf.
fn sentinel() -> U256 {
    let mut b = [0u8; 32];
    for (i, x) in b.iter_mut().enumerate() {
        *x = 0xfe - i as u8;
    }
    U256::from_be_bytes(b)
}

/// A `Spec` for every SpecId (revm has no named type for some of them).
struct S<const ID: u8>;
impl<const ID: u8> Spec for S<ID> {
    // ID is only ever instantiated (in `tables`) with discriminants of `SpecId`.
    const SPEC_ID: SpecId = unsafe { core::mem::transmute::<u8, SpecId>(ID) };
}

type Table = [Instruction<DummyHost>; 256];

fn tables() -> Vec<(&'static str, Table)> {
    macro_rules! t {
        ($($name:literal => $id:ident),*) => {
            vec![$(($name, {
                assert_eq!(spec_by_name($name), SpecId::$id);
                make_instruction_table::<DummyHost, S<{ SpecId::$id as u8 }>>()
            }),)*]
        };
    }
    t!("FRONTIER" => FRONTIER, "HOMESTEAD" => HOMESTEAD, "TANGERINE" => TANGERINE,
       "SPURIOUS_DRAGON" => SPURIOUS_DRAGON, "BYZANTIUM" => BYZANTIUM, "CONSTANTINOPLE" => CONSTANTINOPLE,
       "PETERSBURG" => PETERSBURG, "ISTANBUL" => ISTANBUL, "BERLIN" => BERLIN, "LONDON" => LONDON,
       "MERGE" => MERGE, "SHANGHAI" => SHANGHAI, "CANCUN" => CANCUN, "PRAGUE" => PRAGUE)
}

fn word(v: &Value) -> U256 {
    let s = v.as_str().unwrap_or_else(|| panic!("operand is not a hex string: {v}"));
    U256::from_str_radix(s.trim_start_matches("0x"), 16).unwrap_or_else(|e| panic!("bad word {s}: {e}"))
}

fn hex(w: &U256) -> Value {
    json!(format!("0x{:064x}", w))
}

pub struct AluEngine {
    tables: Vec<(&'static str, Table)>,
}

impl AluEngine {
    fn program(op: &Value) -> Bytes {
        let args = op["args"].as_array().expect("args");
        let code = geti(op, "code");
        assert!((0..256).contains(&code));
        let mut c = Vec::new();
        let mut push = |w: U256| {
            c.push(0x7f);
            c.extend_from_slice(&w.to_be_bytes::<32>());
        };
        push(sentinel());
        for a in args.iter().rev() {
            push(word(a));
        }
        c.push(code as u8);
        c.push(0x00);
        Bytes::from(c)
    }
}

impl Engine for AluEngine {
    type S = ();
    fn init(&self, _cfg: &Value) -> Self::S {}
    fn project(&self, _s: &Self::S) -> Value {
        Value::Null
    }
    fn apply(&self, _s: &mut Self::S, op: &Value) -> Value {
        let code = Self::program(op);
        let mut forks = Map::new();
        let mut stacks: Vec<(&str, Value)> = vec![];
        for (name, table) in &self.tables {
            let contract =
                Contract::new(Bytes::new(), Bytecode::new_raw(code.clone()), None, TARGET, None, CALLER, U256::ZERO);
            let mut interp = Interpreter::new(contract, GAS_LIMIT, false);
            let mut host = DummyHost::new(Env::default());
            let _ = interp.run(SharedMemory::new(), table, &mut host);
            if interp.instruction_result == InstructionResult::Stop {
                forks.insert(name.to_string(), json!({"ok": true, "gas": interp.gas.spent()}));
                stacks.push((name, Value::Array(interp.stack.data().iter().map(hex).collect())));
            } else {
                forks.insert(name.to_string(), json!({"ok": false}));
            }
        }
        let stack = match stacks.first() {
            None => Value::Null,
            Some((_, first)) if stacks.iter().all(|(_, s)| s == first) => first.clone(),
            _ => Value::Object(stacks.into_iter().map(|(n, s)| (n.to_string(), s)).collect()),
        };
        json!({"stack": stack, "forks": forks})
    }
}

fn main() {
    let a = Args::parse();
    let eng = AluEngine { tables: tables() };
    match a.mode.as_str() {
        "edges" => run_edges(&eng, &a.input, a.output.as_deref()),
        m => a.bad_mode(m),
    }
}
