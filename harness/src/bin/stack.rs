//! Engine for Stack.tla (C12): drives revm_interpreter::Stack through its public API.
//!
//! Vocabulary translation only.  A model word is a name (a number, see Stack.tla):
//!   v < 20000         Val(v):      the U256 with limbs (v, v+2^32, v+2*2^32, v+3*2^32), least
//!                                  significant first;
//!   20000 + 33 j + n  Chunk(j,n):  the big-endian number spelt by bytes 32j..32j+n-1 of the shared
//!                                  slice (32-n zero bytes in the high-order places).
//! A real word that is neither is projected as its hex string (which no expectation contains).
//! The projection is Stack.tla's `Summary`: height, emptiness, the top `window` words one by one (top
//! first), and the checksum sum(p * name(word at position p)) mod 65521 over the words below.
#[path = "../common.rs"]
mod common;
use common::*;
use revm_interpreter::{InstructionResult, Stack};
use revm_primitives::{B256, U256};
use serde_json::{json, Value};
use std::collections::HashMap;

const P: u64 = 65521;
const CHUNK_BASE: u64 = 20000;

/// Byte i of the shared slice: Stack.tla's SliceByte.
fn slice_byte(i: usize) -> u8 {
    let (j, r) = (i / 32, i % 32);
    (1 + (j + r * (7 + j / 251)) % 251) as u8
}

fn val(v: u64) -> U256 {
    U256::from_limbs([v, v + (1 << 32), v + (2 << 32), v + (3 << 32)])
}

fn chunk(s: usize, n: usize) -> U256 {
    let mut b = [0u8; 32];
    for k in 0..n {
        b[32 - n + k] = slice_byte(s + k);
    }
    U256::from_be_bytes(b)
}

pub struct StackEngine {
    window: usize,
    /// every chunk word that a push_slice of one of the configured lengths can produce
    chunks: HashMap<U256, (usize, usize)>,
}

pub struct St {
    st: Stack,
    res: String,
    out: Vec<U256>,
    /// `show` projects the rendering instead of data()
    shown: Option<Vec<U256>>,
}

impl StackEngine {
    fn new(window: usize, lens: &[usize]) -> Self {
        let mut chunks: HashMap<U256, (usize, usize)> = HashMap::new();
        for &len in lens {
            let mut s = 0;
            while s < len {
                let n = (len - s).min(32);
                let w = chunk(s, n);
                if let Some(old) = chunks.insert(w, (s, n)) {
                    if old != (s, n) {
                        eprintln!("stack engine: chunk words {old:?} and {:?} coincide; choose other slice lengths", (s, n));
                        std::process::exit(2);
                    }
                }
                s += 32;
            }
        }
        StackEngine { window, chunks }
    }

    /// The name of a real word, if it has one.
    fn decode(&self, w: &U256) -> Option<u64> {
        let v = w.as_limbs()[0];
        if v < CHUNK_BASE && *w == val(v) {
            return Some(v);
        }
        self.chunks.get(w).map(|&(s, n)| CHUNK_BASE + 33 * (s as u64 / 32) + n as u64)
    }

    fn pw(&self, w: &U256) -> Value {
        match self.decode(w) {
            Some(name) => json!(name),
            None => json!(format!("{w:#x}")),
        }
    }

    fn summary(&self, data: &[U256], len: usize, empty: bool) -> Value {
        let h = data.len();
        let k = self.window.min(h);
        let top: Vec<Value> = (0..k).map(|d| self.pw(&data[h - 1 - d])).collect();
        let mut acc = 0u64;
        let mut alien = vec![];
        for p in (1..=h - k).rev() {
            let code = match self.decode(&data[p - 1]) {
                Some(name) => name,
                None => {
                    if alien.len() < 4 {
                        alien.push(json!([p, format!("{:#x}", data[p - 1])]));
                    }
                    0
                }
            };
            acc = (acc + p as u64 * code) % P;
        }
        let mut v = json!({"h": len, "empty": empty, "top": top, "rest": acc});
        if !alien.is_empty() {
            v["alien"] = json!(alien);
        }
        v
    }

    fn proj(&self, s: &St, with_result: bool) -> Value {
        let mut v = match &s.shown {
            Some(words) => self.summary(words, words.len(), words.is_empty()),
            None => self.summary(s.st.data(), s.st.len(), s.st.is_empty()),
        };
        if with_result {
            v["res"] = json!(s.res);
            v["out"] = Value::Array(s.out.iter().map(|w| self.pw(w)).collect());
        }
        v
    }
}

fn class(r: Result<(), InstructionResult>) -> String {
    match r {
        Ok(()) => "ok".into(),
        Err(InstructionResult::StackUnderflow) => "underflow".into(),
        Err(InstructionResult::StackOverflow) => "overflow".into(),
        Err(e) => format!("{e:?}"),
    }
}

impl Engine for StackEngine {
    type S = St;

    /// A new stack whose spare capacity holds garbage (Stack::new leaves it uninitialised): written
    /// through the public API only.
    fn init(&self, _cfg: &Value) -> St {
        let mut st = Stack::new();
        for _ in 0..revm_interpreter::STACK_LIMIT {
            let _ = st.push(U256::MAX);
        }
        while !st.is_empty() && st.pop().is_ok() {}
        St { st, res: "ok".into(), out: vec![], shown: None }
    }

    fn project(&self, s: &St) -> Value {
        self.proj(s, false)
    }

    fn apply(&self, s: &mut St, op: &Value) -> Value {
        let a = geti(op, "a") as usize;
        let b = geti(op, "b") as usize;
        s.out.clear();
        s.shown = None;
        let st = &mut s.st;
        s.res = match gets(op, "op") {
            "prefill" => {
                let mut r = Ok(());
                for i in 1..=a {
                    r = st.push(val(i as u64));
                    if r.is_err() {
                        break;
                    }
                }
                class(r)
            }
            "load" => {
                let words: Vec<U256> = (1..=a).map(|i| val(i as u64)).collect();
                let text = serde_json::to_string(&words).unwrap();
                match serde_json::from_str::<Stack>(&text) {
                    Ok(new) => {
                        *st = new;
                        "ok".into()
                    }
                    Err(_) => "rejected".into(),
                }
            }
            "push" => class(st.push(val(a as u64))),
            "push_b256" => class(st.push_b256(B256::from(val(a as u64).to_be_bytes::<32>()))),
            "pop" => match st.pop() {
                Ok(w) => {
                    s.out.push(w);
                    "ok".into()
                }
                Err(e) => class(Err(e)),
            },
            "peek" => match st.peek(a) {
                Ok(w) => {
                    s.out.push(w);
                    "ok".into()
                }
                Err(e) => class(Err(e)),
            },
            "set" => class(st.set(a, val(b as u64))),
            "dup" => class(st.dup(a)),
            "swap" => class(st.swap(a)),
            "exchange" => class(st.exchange(a, b)),
            "push_slice" => {
                let bytes: Vec<u8> = (0..a).map(slice_byte).collect();
                class(st.push_slice(&bytes))
            }
            // SAFETY (both): Stack.tla enables these only when the model stack holds enough words; if
            // the real stack has already diverged and does not, calling them would be undefined
            // behaviour, so the call is not made and the projection says so.
            "popn_unsafe" if st.len() < a => "precondition does not hold on the real stack".into(),
            "popn_top_unsafe" if st.len() < a + 1 => "precondition does not hold on the real stack".into(),
            "popn_unsafe" => {
                unsafe {
                    match a {
                        1 => s.out.push(st.pop_unsafe()),
                        2 => {
                            let (x, y) = st.pop2_unsafe();
                            s.out.extend([x, y]);
                        }
                        3 => {
                            let (x, y, z) = st.pop3_unsafe();
                            s.out.extend([x, y, z]);
                        }
                        4 => {
                            let (x, y, z, u) = st.pop4_unsafe();
                            s.out.extend([x, y, z, u]);
                        }
                        5 => {
                            let (x, y, z, u, v) = st.pop5_unsafe();
                            s.out.extend([x, y, z, u, v]);
                        }
                        k => panic!("popn_unsafe {k}"),
                    }
                }
                "ok".into()
            }
            "popn_top_unsafe" => {
                let new = val(b as u64);
                unsafe {
                    match a {
                        0 => {
                            let t = st.top_unsafe();
                            s.out.push(*t);
                            *t = new;
                        }
                        1 => {
                            let (x, t) = st.pop_top_unsafe();
                            s.out.extend([x, *t]);
                            *t = new;
                        }
                        2 => {
                            let (x, y, t) = st.pop2_top_unsafe();
                            s.out.extend([x, y, *t]);
                            *t = new;
                        }
                        k => panic!("popn_top_unsafe {k}"),
                    }
                }
                "ok".into()
            }
            "show" => {
                // "[a, b, c]", decimal, bottom first
                let text = st.to_string();
                let inner = text.strip_prefix('[').and_then(|t| t.strip_suffix(']')).unwrap_or("?");
                let words: Vec<U256> = if inner.is_empty() {
                    vec![]
                } else {
                    inner.split(", ").map(|x| U256::from_str_radix(x, 10).unwrap_or(U256::MAX)).collect()
                };
                s.shown = Some(words);
                "ok".into()
            }
            o => panic!("unknown op {o}"),
        };
        let v = self.proj(s, true);
        s.shown = None;
        v
    }
}

fn main() {
    let a = Args::parse();
    let lens: Vec<usize> = a.gets("lens", "").split(',').filter(|x| !x.is_empty()).map(|x| x.parse().unwrap()).collect();
    let eng = StackEngine::new(a.geti("window", 20) as usize, &lens);
    match a.mode.as_str() {
        "edges" => run_edges(&eng, &a.input, a.output.as_deref()),
        "behaviours" => run_behaviours(&eng, &a.input, a.output.as_deref()),
        // not part of the check: two observations about Stack's serde impls (see the C12 report)
        "probe" => probe(),
        m => a.bad_mode(m),
    }
}

fn probe() {
    let mut st = Stack::new();
    for i in 1..=600 {
        st.push(val(i)).unwrap();
    }
    let text = serde_json::to_string(&st).unwrap();
    println!("Serialize gives {}...", &text[..40]);
    println!("Deserialize of that text: {:?}", serde_json::from_str::<Stack>(&text).map(|s| s.len()).map_err(|e| e.to_string()));
    let seq = serde_json::to_value(st.data()).unwrap();
    let back: Stack = serde_json::from_value(seq).unwrap();
    println!("Deserialize of the bare list from a size-hinting deserializer: len {} capacity {}", back.len(), back.data().capacity());
    let mut back = back;
    let r = std::panic::catch_unwind(std::panic::AssertUnwindSafe(|| back.push(val(7))));
    println!("push afterwards: {:?}", r.map_err(|_| "panic"));
}
