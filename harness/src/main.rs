//! `vh <engine> <mode> <input.ndjson> <output.ndjson|-> [key=value ...]`
mod common;
mod gas;

use std::collections::HashMap;

fn main() {
    let args: Vec<String> = std::env::args().collect();
    if args.len() < 4 {
        eprintln!("usage: vh <engine> <edges|behaviours|...> <input> [output] [k=v ...]");
        std::process::exit(2);
    }
    let engine = args[1].as_str();
    let mode = args[2].as_str();
    let input = args[3].as_str();
    let mut output: Option<&str> = None;
    let mut kv: HashMap<String, String> = HashMap::new();
    for a in &args[4..] {
        if let Some((k, v)) = a.split_once('=') {
            kv.insert(k.to_string(), v.to_string());
        } else {
            output = Some(a.as_str());
        }
    }
    let geti = |k: &str, d: i64| kv.get(k).map(|v| v.parse::<i64>().unwrap()).unwrap_or(d);
    match (engine, mode) {
        ("gas", "edges") => common::run_edges(&gas::GasEngine { big: geti("big", 0) }, input, output),
        ("gas", "behaviours") => common::run_behaviours(&gas::GasEngine { big: geti("big", 0) }, input, output),
        _ => {
            eprintln!("unknown engine/mode {engine}/{mode}");
            std::process::exit(2);
        }
    }
}
