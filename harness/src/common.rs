#![allow(dead_code)]
//! Shared replay machinery: read TLC-generated edges / behaviours, drive an engine (a thin adapter
//! around the real revm object), compare the projected state with the specification's expectation.
//!
//! The harness never decides what is right: expectations come from the TLA+ specification.  It
//! only (1) applies operations to the real code, (2) projects the real state into the model's
//! vocabulary, (3) reports where the two differ.  A panic in the code under test is data.

use serde_json::{json, Map, Value};
use std::collections::BTreeMap;
use std::fs::File;
use std::io::{BufRead, BufReader, BufWriter, Write};
use std::panic::{catch_unwind, AssertUnwindSafe};

pub fn read_ndjson(path: &str) -> Vec<Value> {
    let f = File::open(path).unwrap_or_else(|e| panic!("open {path}: {e}"));
    BufReader::new(f)
        .lines()
        .map(|l| l.unwrap())
        .filter(|l| !l.trim().is_empty())
        .map(|l| serde_json::from_str(&l).unwrap_or_else(|e| panic!("bad json line: {e}: {l}")))
        .collect()
}

/// Streams an ndjson file one record at a time (large edge dumps do not fit in memory as JSON trees).
pub fn stream_ndjson(path: &str) -> impl Iterator<Item = Value> {
    let f = File::open(path).unwrap_or_else(|e| panic!("open {path}: {e}"));
    BufReader::new(f)
        .lines()
        .map(|l| l.unwrap())
        .filter(|l| !l.trim().is_empty())
        .map(|l| serde_json::from_str(&l).unwrap_or_else(|e| panic!("bad json line: {e}: {l}")))
}

pub struct Out {
    w: BufWriter<Box<dyn Write>>,
}

impl Out {
    pub fn new(path: Option<&str>) -> Self {
        let b: Box<dyn Write> = match path {
            Some(p) if p != "-" => Box::new(File::create(p).unwrap()),
            _ => Box::new(std::io::stdout()),
        };
        Out { w: BufWriter::new(b) }
    }
    pub fn emit(&mut self, v: &Value) {
        serde_json::to_writer(&mut self.w, v).unwrap();
        self.w.write_all(b"\n").unwrap();
    }
    pub fn flush(&mut self) {
        self.w.flush().unwrap();
    }
}

/// Paths at which two JSON values differ (expected vs got).
pub fn jdiff(exp: &Value, got: &Value, path: &str, out: &mut Vec<String>) {
    if out.len() > 16 {
        return;
    }
    match (exp, got) {
        (Value::Object(a), Value::Object(b)) => {
            let mut keys: Vec<&String> = a.keys().chain(b.keys()).collect();
            keys.sort();
            keys.dedup();
            for k in keys {
                match (a.get(k), b.get(k)) {
                    (Some(x), Some(y)) => jdiff(x, y, &format!("{path}/{k}"), out),
                    _ => out.push(format!("{path}/{k}")),
                }
            }
        }
        (Value::Array(a), Value::Array(b)) => {
            if a.len() != b.len() {
                out.push(format!("{path}#len"));
            } else {
                for (i, (x, y)) in a.iter().zip(b.iter()).enumerate() {
                    jdiff(x, y, &format!("{path}[{i}]"), out);
                }
            }
        }
        (Value::Number(a), Value::Number(b)) => {
            if a.as_i64() != b.as_i64() || a.as_u64() != b.as_u64() {
                out.push(path.to_string());
            }
        }
        (a, b) => {
            if a != b {
                out.push(path.to_string());
            }
        }
    }
}

/// Strip array indices and map keys that look like addresses/slots so that signatures group
/// mismatches of the same kind ("/acct/3/bal" -> "/acct/*/bal").
pub fn generalize(path: &str) -> String {
    let mut out = String::new();
    for seg in path.split('/') {
        if seg.is_empty() {
            continue;
        }
        out.push('/');
        let base = seg.split('[').next().unwrap();
        if base.chars().all(|c| c.is_ascii_digit() || c == '-' || c == ',') && !base.is_empty() {
            out.push('*');
        } else {
            out.push_str(base);
        }
        if seg.contains("#len") && !base.contains("#len") {
            out.push_str("#len");
        }
    }
    out
}

pub trait Engine {
    type S;
    /// Fresh object under test (may depend on per-run configuration carried by the engine).
    fn init(&self, cfg: &Value) -> Self::S;
    /// Apply one model operation to the real object and return the projection of the real state
    /// (plus the operation's return value) in the model's vocabulary.
    fn apply(&self, s: &mut Self::S, op: &Value) -> Value;
    /// Projection without applying anything (used to check the pre-state).
    fn project(&self, s: &Self::S) -> Value;
    /// Fields of the expected projection that this engine does not observe are removed here.
    fn mask(&self, _exp: &mut Value) {}
    /// Signature of a mismatch (groups occurrences of the same defect).
    fn signature(&self, op: &Value, diff: &[String], _exp: &Value, _got: &Value) -> String {
        let name = op.get("op").and_then(|v| v.as_str()).unwrap_or("?");
        let mut d: Vec<String> = diff.iter().map(|p| generalize(p)).collect();
        d.sort();
        d.dedup();
        format!("{}:{}", name, d.join(","))
    }
    /// Same, with the history that led to the mismatch (default: ignore it).
    fn signature_h(&self, _hist: &[Value], op: &Value, diff: &[String], exp: &Value, got: &Value) -> String {
        self.signature(op, diff, exp, got)
    }
}

fn panic_msg(e: Box<dyn std::any::Any + Send>) -> String {
    if let Some(s) = e.downcast_ref::<&str>() {
        s.to_string()
    } else if let Some(s) = e.downcast_ref::<String>() {
        s.clone()
    } else {
        "panic".to_string()
    }
}

/// Edge replay (direction A, exhaustive mode).  Each input line is
/// {"hist":[op..], "pre":proj, "op":op, "post":proj, ("cfg":..)}.
/// For every edge: replay `hist` on a fresh object, check the projection equals `pre` (otherwise
/// the edge is *tainted* by an upstream divergence and is not judged), apply `op`, compare with
/// `post`.  A mismatch with a matching pre-state is a *root* mismatch.
pub fn run_edges<E: Engine>(eng: &E, input: &str, output: Option<&str>) {
    std::panic::set_hook(Box::new(|_| {}));
    let mut n_edges = 0u64;
    let mut out = Out::new(output);
    let (mut n_ok, mut n_root, mut n_taint, mut n_panic) = (0u64, 0u64, 0u64, 0u64);
    let mut per_sig: BTreeMap<String, u64> = BTreeMap::new();
    let mut ops_seen: BTreeMap<String, u64> = BTreeMap::new();
    let null = Value::Null;
    for (idx, e) in stream_ndjson(input).enumerate() {
        let e = &e;
        n_edges += 1;
        let cfg = e.get("cfg").unwrap_or(&null);
        let hist = e["hist"].as_array().cloned().unwrap_or_default();
        let op = &e["op"];
        *ops_seen.entry(op.get("op").and_then(|v| v.as_str()).unwrap_or("?").to_string()).or_default() += 1;
        // history replay: a panic here is an upstream divergence (the edge ending in the panicking
        // operation is judged on its own), so the edge is tainted, not a root mismatch.
        let r = catch_unwind(AssertUnwindSafe(|| {
            let mut s = eng.init(cfg);
            for h in &hist {
                eng.apply(&mut s, h);
            }
            let pre = eng.project(&s);
            (s, pre)
        }));
        let (mut s, pre_got) = match r {
            Ok(x) => x,
            Err(_) => {
                n_taint += 1;
                continue;
            }
        };
        let got = match catch_unwind(AssertUnwindSafe(|| eng.apply(&mut s, op))) {
            Ok(g) => g,
            Err(p) => {
                n_panic += 1;
                json!({"panic": panic_msg(p)})
            }
        };
        let mut exp_pre = e["pre"].clone();
        let mut exp = e["post"].clone();
        eng.mask(&mut exp_pre);
        eng.mask(&mut exp);
        let mut dpre = vec![];
        if !pre_got.is_null() {
            jdiff(&exp_pre, &pre_got, "", &mut dpre);
        }
        let mut d = vec![];
        jdiff(&exp, &got, "", &mut d);
        if d.is_empty() && dpre.is_empty() {
            n_ok += 1;
            continue;
        }
        if !dpre.is_empty() {
            n_taint += 1;
            continue;
        }
        n_root += 1;
        let sig = eng.signature_h(&hist, op, &d, &exp, &got);
        let c = per_sig.entry(sig.clone()).or_default();
        *c += 1;
        if *c <= 2 {
            out.emit(&json!({"kind":"mismatch","sig":sig,"idx":idx,"cfg":cfg,"hist":hist,"op":op,
                             "pre":e["pre"],"exp":exp,"got":got,"diff":d}));
        }
    }
    let sigs: Map<String, Value> = per_sig.into_iter().map(|(k, v)| (k, json!(v))).collect();
    let ops: Map<String, Value> = ops_seen.into_iter().map(|(k, v)| (k, json!(v))).collect();
    out.emit(&json!({"kind":"summary","edges":n_edges,"ok":n_ok,"root":n_root,"tainted":n_taint,
                     "panics":n_panic,"sigs":sigs,"ops":ops}));
    out.flush();
}

/// Behaviour replay (direction A, simulation mode).  Each input line is
/// {"ops":[op..], "expect":[proj after each op], ("cfg":..)}.  The first divergent step is reported.
pub fn run_behaviours<E: Engine>(eng: &E, input: &str, output: Option<&str>) {
    std::panic::set_hook(Box::new(|_| {}));
    let mut n_behs = 0u64;
    let mut out = Out::new(output);
    let (mut n_ok, mut n_bad, mut n_steps) = (0u64, 0u64, 0u64);
    let mut per_sig: BTreeMap<String, u64> = BTreeMap::new();
    let null = Value::Null;
    for (idx, b) in stream_ndjson(input).enumerate() {
        let b = &b;
        n_behs += 1;
        let cfg = b.get("cfg").unwrap_or(&null);
        let ops = b["ops"].as_array().cloned().unwrap_or_default();
        let exps = b["expect"].as_array().cloned().unwrap_or_default();
        let mut s = match catch_unwind(AssertUnwindSafe(|| eng.init(cfg))) {
            Ok(s) => s,
            Err(_) => continue,
        };
        let mut bad = false;
        for (i, op) in ops.iter().enumerate() {
            n_steps += 1;
            let got = match catch_unwind(AssertUnwindSafe(|| eng.apply(&mut s, op))) {
                Ok(g) => g,
                Err(p) => json!({"panic": panic_msg(p)}),
            };
            let mut exp = exps.get(i).cloned().unwrap_or(Value::Null);
            eng.mask(&mut exp);
            let mut d = vec![];
            jdiff(&exp, &got, "", &mut d);
            if !d.is_empty() {
                let sig = eng.signature_h(&ops[..i], op, &d, &exp, &got);
                let c = per_sig.entry(sig.clone()).or_default();
                *c += 1;
                if *c <= 2 {
                    out.emit(&json!({"kind":"mismatch","sig":sig,"idx":idx,"step":i,"cfg":cfg,
                                     "hist":ops[..i].to_vec(),"op":op,"exp":exp,"got":got,"diff":d}));
                }
                bad = true;
                break;
            }
        }
        if bad {
            n_bad += 1
        } else {
            n_ok += 1
        }
    }
    let sigs: Map<String, Value> = per_sig.into_iter().map(|(k, v)| (k, json!(v))).collect();
    out.emit(&json!({"kind":"summary","behaviours":n_behs,"ok":n_ok,"root":n_bad,"steps":n_steps,"sigs":sigs}));
    out.flush();
}

// ---------------------------------------------------------------- small helpers used by engines

pub fn geti(v: &Value, k: &str) -> i64 {
    v.get(k).and_then(|x| x.as_i64()).unwrap_or_else(|| panic!("field {k} missing/not int in {v}"))
}
pub fn gets<'a>(v: &'a Value, k: &str) -> &'a str {
    v.get(k).and_then(|x| x.as_str()).unwrap_or_else(|| panic!("field {k} missing/not str in {v}"))
}
pub fn getb(v: &Value, k: &str) -> bool {
    v.get(k).and_then(|x| x.as_bool()).unwrap_or_else(|| panic!("field {k} missing/not bool in {v}"))
}

/// Command line of every engine binary: `<bin> <mode> <input.ndjson> [output.ndjson|-] [key=value ...]`
pub struct Args {
    pub mode: String,
    pub input: String,
    pub output: Option<String>,
    pub kv: std::collections::HashMap<String, String>,
}

impl Args {
    pub fn parse() -> Args {
        let args: Vec<String> = std::env::args().collect();
        if args.len() < 3 {
            eprintln!("usage: {} <mode> <input> [output] [k=v ...]", args[0]);
            std::process::exit(2);
        }
        let mut a = Args { mode: args[1].clone(), input: args[2].clone(), output: None, kv: Default::default() };
        for x in &args[3..] {
            if let Some((k, v)) = x.split_once('=') {
                a.kv.insert(k.to_string(), v.to_string());
            } else {
                a.output = Some(x.clone());
            }
        }
        a
    }
    pub fn geti(&self, k: &str, d: i64) -> i64 {
        self.kv.get(k).map(|v| v.parse::<i64>().unwrap()).unwrap_or(d)
    }
    pub fn gets(&self, k: &str, d: &str) -> String {
        self.kv.get(k).cloned().unwrap_or(d.to_string())
    }
    pub fn bad_mode(&self, m: &str) -> ! {
        eprintln!("unknown mode {m}");
        std::process::exit(2)
    }
}

/// SpecId by its enum-variant name (e.g. "LONDON").  `SpecId::from(&str)` uses different names
/// ("London") and silently maps unknown names to LATEST, so it is not used.
pub fn spec_by_name(name: &str) -> revm_primitives::SpecId {
    use revm_primitives::SpecId::*;
    match name {
        "FRONTIER" => FRONTIER,
        "FRONTIER_THAWING" => FRONTIER_THAWING,
        "HOMESTEAD" => HOMESTEAD,
        "DAO_FORK" => DAO_FORK,
        "TANGERINE" => TANGERINE,
        "SPURIOUS_DRAGON" => SPURIOUS_DRAGON,
        "BYZANTIUM" => BYZANTIUM,
        "CONSTANTINOPLE" => CONSTANTINOPLE,
        "PETERSBURG" => PETERSBURG,
        "ISTANBUL" => ISTANBUL,
        "MUIR_GLACIER" => MUIR_GLACIER,
        "BERLIN" => BERLIN,
        "LONDON" => LONDON,
        "ARROW_GLACIER" => ARROW_GLACIER,
        "GRAY_GLACIER" => GRAY_GLACIER,
        "MERGE" => MERGE,
        "SHANGHAI" => SHANGHAI,
        "CANCUN" => CANCUN,
        "PRAGUE" => PRAGUE,
        "OSAKA" => OSAKA,
        "LATEST" => LATEST,
        o => panic!("unknown SpecId name {o}"),
    }
}
