//! A plain reference database used by several engines: a map of accounts, storage and code that
//! answers every query of the `Database` / `DatabaseRef` traits (including has_storage) from its
//! own data and nothing else.
#![allow(dead_code)]
use revm::primitives::{db::{Database, DatabaseRef}, AccountInfo, Address, Bytecode, B256, KECCAK_EMPTY, U256};
use std::collections::BTreeMap;
use std::convert::Infallible;

#[derive(Clone, Debug, Default)]
pub struct RefDb {
    pub accounts: BTreeMap<Address, AccountInfo>,
    pub storage: BTreeMap<(Address, U256), U256>,
    pub code: BTreeMap<B256, Bytecode>,
    /// number of queries answered (basic, storage, code, block hash, has_storage)
    pub reads: std::cell::Cell<u64>,
}

impl RefDb {
    /// Accounts with code are stored without the code blob (code: None), so that the code under
    /// test has to go through `code_by_hash`.
    pub fn insert_account(&mut self, a: Address, balance: U256, nonce: u64, code: Option<Bytecode>) {
        let info = match code {
            Some(c) if !c.is_empty() => {
                let h = c.hash_slow();
                self.code.insert(h, c);
                AccountInfo { balance, nonce, code_hash: h, code: None }
            }
            _ => AccountInfo { balance, nonce, code_hash: KECCAK_EMPTY, code: None },
        };
        self.accounts.insert(a, info);
    }
    pub fn insert_storage(&mut self, a: Address, k: U256, v: U256) {
        if v.is_zero() {
            self.storage.remove(&(a, k));
        } else {
            self.storage.insert((a, k), v);
        }
    }
    pub fn block_hash_of(number: u64) -> B256 {
        let mut b = [0u8; 32];
        b[0] = 0xbb;
        b[24..].copy_from_slice(&number.to_be_bytes());
        B256::from(b)
    }
}

impl DatabaseRef for RefDb {
    type Error = Infallible;
    fn basic_ref(&self, address: Address) -> Result<Option<AccountInfo>, Self::Error> {
        self.reads.set(self.reads.get() + 1);
        Ok(self.accounts.get(&address).cloned())
    }
    fn code_by_hash_ref(&self, code_hash: B256) -> Result<Bytecode, Self::Error> {
        self.reads.set(self.reads.get() + 1);
        Ok(self.code.get(&code_hash).cloned().unwrap_or_default())
    }
    fn has_storage_ref(&self, address: Address) -> Result<bool, Self::Error> {
        self.reads.set(self.reads.get() + 1);
        Ok(self.storage.range((address, U256::ZERO)..=(address, U256::MAX)).any(|(_, v)| !v.is_zero()))
    }
    fn storage_ref(&self, address: Address, index: U256) -> Result<U256, Self::Error> {
        self.reads.set(self.reads.get() + 1);
        Ok(self.storage.get(&(address, index)).copied().unwrap_or_default())
    }
    fn block_hash_ref(&self, number: u64) -> Result<B256, Self::Error> {
        self.reads.set(self.reads.get() + 1);
        Ok(Self::block_hash_of(number))
    }
}

impl Database for RefDb {
    type Error = Infallible;
    fn basic(&mut self, address: Address) -> Result<Option<AccountInfo>, Self::Error> {
        self.basic_ref(address)
    }
    fn code_by_hash(&mut self, code_hash: B256) -> Result<Bytecode, Self::Error> {
        self.code_by_hash_ref(code_hash)
    }
    fn has_storage(&mut self, address: Address) -> Result<bool, Self::Error> {
        self.has_storage_ref(address)
    }
    fn storage(&mut self, address: Address, index: U256) -> Result<U256, Self::Error> {
        self.storage_ref(address, index)
    }
    fn block_hash(&mut self, number: u64) -> Result<B256, Self::Error> {
        self.block_hash_ref(number)
    }
}
