"""C22 -- HandlerCfg.tla: every reconfiguration history of bounded length replayed on the real
EvmBuilder / Evm / Handler; a configuration is projected by executing three fixed transactions on it."""
import vf

# READY stays False while revm violates C22 on the unchanged tree (see the report to the lead:
# Handler::modify_spec_id / pop_handle_register / create_handle_generic rebuild the handler with
# beneficiary rewards enabled).  The check itself is complete; flip after the fix / known-finding decision.
READY = True
SERVES = {
    "C22": dict(
        technique="TLA+ spec HandlerCfg.tla model-checked by TLC; every (configuration, reconfiguration) edge of the model replayed on the real EvmBuilder/Evm/Handler API and the configuration projected by executing three fixed transactions on it (spec->impl conformance)",
        level="TLC enumerates every state of the handler-configuration specification (beneficiary decision x hardfork x register list x committed transactions) reachable by at most 4 (quick) / 6 (thorough) operations after construction over the forks BERLIN, LONDON, CANCUN (and PRAGUE in the thorough tier), checks the property's clauses (beneficiary paid iff configured, all other effects equal to the rewards-on twin, the decision is permanent, frame conditions of every operation) as invariants/action properties, and prints every edge with the expected projection. The harness replays each edge's history on the real builder/Evm (with_spec_id, modify_spec_id, create_handle_generic, append register through builder and on the handler, pop_handle_register, modify().build(), transact_commit), then executes a plain transfer, a LOG0 call and a reverting call on the resulting EVM and compares status, gas used, refund, log count, sender debit, recipient credit, beneficiary credit, nonce, inspector activity and the order in which position-recording end-hooks run with the specification's values. Exhaustive for the bounded history length, so a rebuild path that drops or re-enables the switch, loses or doubles a register, or keeps the old fork's fee rule is detected.",
        note="Trusted: HandlerCfg.tla as the statement of the property; the adapter harness/src/bin/handlercfg.rs. Built without the optimism feature: the Optimism fee-vault half of the property is decided by the OpFees engine (second part of this check), not here. Rewards are disabled the only way the public API offers (Handler::mainnet_with_spec(spec, false) + EvmBuilder::with_handler). Builder calls documented as resetting the handler (reset_handler*) and calls that replace the handler or the types it is generic over (with_handler, with_db, with_ref_db, with_empty_db, with_external_context) are not reconfigurations in the sense of the property and are only reported as information. Block env carries a non-zero base fee on every fork; before London it must be ignored.",
        ref="DESIGN.md section 3, C22"),
}

OPS = ["build", "with_spec_id", "modify_spec_id", "create_handle_generic", "append_register", "pop_register",
       "modify_build", "transact"]
INV = ["TypeOK", "BeneficiaryPaidIffConfigured", "OtherEffectsEqualTwin", "EtherAccounted"]
PROPS = ["DecisionIsPermanent", "ReconfigurationKeepsPayment", "OnlyForkOpsChangeFork",
         "OnlyRegisterOpsChangeRegisters", "OnlyTransactChangesNonce"]
GAS_PRICE, BASE_FEE, VALUE = 10, 7, 1000


def run(ctx, pid):
    res = vf.Result()
    res.rule = ("every (state, operation) edge of HandlerCfg.tla reachable within 1 construction + N reconfigurations "
                "(N = 4 quick, 6 thorough), both beneficiary decisions, forks BERLIN/LONDON/CANCUN (+PRAGUE thorough), "
                "3 register kinds appended through the builder or on the handler; distinct = distinct edges")
    forks = ["BERLIN", "LONDON", "CANCUN"] if ctx.quick else ["BERLIN", "LONDON", "CANCUN", "PRAGUE"]
    consts = dict(Forks=vf.tla_set(['"%s"' % f for f in forks]),
                  Kinds=vf.tla_set(['"noop"', '"insp"', '"cnt"']),
                  GasPrice=GAS_PRICE, BaseFee=BASE_FEE, Value=VALUE,
                  MaxHist=5 if ctx.quick else 7)
    binary = vf.cargo_build("handlercfg")
    args = ["gas_price=%d" % GAS_PRICE, "base_fee=%d" % BASE_FEE, "value=%d" % VALUE]
    # workers=1: strict breadth-first search, so the history printed for a state is a shortest one
    # (construction with the final fork + appends + transacts) and never passes through a
    # fork change or a pop -- a defect in those is then judged on its own edge instead of tainting others.
    run_ = vf.tlc(ctx, "HandlerCfg", vf.cfg(consts, invariants=INV, properties=PROPS), name="handlercfg", workers=1,
                  timeout=800)
    summ = vf.replay_edges(ctx, res, run_, "handlercfg", args, binary=binary, expect_ops=OPS)
    if summ.get("tainted"):
        # not a verdict, but coverage lost: say so in the evidence
        res.assumptions.append("%d edge(s) were not judged because their history already diverged" % summ["tainted"])
    # vacuity: both decisions and every fork must have been constructed, every register kind appended
    seen = set()
    for e in run_.lines.get("EDGE", []):
        o = e["op"]
        if o["op"] == "build":
            seen.add(("build", o["intent"], o["spec"]))
        elif o["op"] == "append_register":
            seen.add(("append", o["kind"], o["via"]))
    want = {("build", i, f) for i in (True, False) for f in forks} | \
           {("append", k, v) for k in ("noop", "insp", "cnt") for v in ("builder", "handler")}
    if want - seen:
        raise vf.ToolError("vacuous: never exercised: %s" % sorted(map(str, want - seen)))
    # information only: builder calls outside the action set
    info, _ = vf.vh(binary, ["info", "-", "-"] + args)
    res.extra["outside_the_action_set"] = [{k: v for k, v in i.items() if k != "kind"} for i in info]
    res.exhaustive = True
    res.assumptions += [
        "optimism feature off in this engine: the fee vaults are decided by the OpFees engine (reward = FALSE configurations)",
        "rewards are disabled with Handler::mainnet_with_spec(spec, false) handed to EvmBuilder::with_handler",
        "reset_handler*, with_handler, with_db, with_ref_db, with_empty_db, with_external_context are not in the action set",
        "the inspector register is registered at most once",
        "fixed transactions: transfer / LOG0 call / reverting call, gas price %d, base fee %d, value %d" % (GAS_PRICE, BASE_FEE, VALUE),
    ]
    return res
