"""C02 -- Validation.tla: (a) verdict of transaction validation on cases around a valid baseline of
every transaction type, all forks; (b) histories on one Evm showing that rejected transactions and
validation-only calls change nothing."""
import json
import os
import sys

sys.path.insert(0, os.path.join(os.path.dirname(os.path.dirname(os.path.abspath(__file__))), "lib"))
import vf  # noqa: E402

# the replay creates and drops two Evm instances per case; keep glibc from returning the heap top
# to the kernel each time (pure speed, no effect on results)
os.environ.setdefault("MALLOC_TRIM_THRESHOLD_", "1073741824")
os.environ.setdefault("MALLOC_TOP_PAD_", "67108864")

# Known finding (known_findings.json): cases|validate:accepted-invalid[FundsOverflow] (thorough tier only).
# The check can also be run directly:  python3 checks/validation.py [quick|thorough]
READY = True
SERVES = {
    "C02": dict(
        technique="TLA+ spec Validation.tla: the validity predicate Valid(tx, sender, block, cfg, fork) written from the EIPs, model-checked by TLC; TLC enumerates transactions around a baseline of each type and the verdicts are compared with Evm::preverify_transaction and Evm::transact (spec->impl conformance); a small state machine of one Evm's world under accepted/rejected transactions is dumped edge by edge and replayed with transact_commit / preverify_transaction",
        level="(a) For every mainnet fork FRONTIER..PRAGUE, every transaction type (legacy, 2930, 1559 from London on, 4844, 7702) as call and as create, TLC enumerates the baseline and all combinations of up to 2 (quick; 1 in the forks that change no rule) / 3 (thorough; 2 in the forks that change no rule; 4 for blob and set-code transactions in their forks, and the full product of the fee/value/balance dimensions) deviations over 16 dimensions (header fields, base fee, chain id, calldata incl. the initcode limit, access list, authorization list, blob count / version / fee cap, gas limit at intrinsic-1 / intrinsic / floor-1 / floor / block limit / +1, fee cap around the base fee and at 0 and 2^256-1, priority fee, value, sender code, nonce incl. 2^64-1, balance at maximal cost -1 / = / +1) with concrete values computed by the spec, checks on each that the conjunction equals the named rules, that each baseline is valid exactly where its type exists and that Valid implies the up-front charge cannot underflow; each case is submitted to a fresh Evm through preverify_transaction() and transact() and accept/reject must equal the verdict (only the verdict, not which error). (b) TLC explores every world reachable by histories of up to 3 (quick) / 5 (thorough) operations (20 classes of transaction submitted with transact_commit or preverify_transaction, external deposit) per fork, checks RejectionChangesNothing / PreverifyChangesNothing / conservation as properties of the spec, and every edge is replayed on one real Evm over one CacheDB comparing sender nonce and balance, recipient and beneficiary balance and the verdict after each step.",
        note="Trusted: Validation.tla as the statement of Ethereum's validity rules; the adapter harness/src/bin/validation.rs (builds Env/TxEnv from the case; amounts near the model's Huge map to amounts near 2^256-1, nonces near NonceMax to 2^64-1). TxEnv is untyped: the transaction type is implied by the optional fields present. Outside the judged domain: priority-fee (EIP-1559) fields before London with no other typed field (TxEnv has no envelope and revm does not police that field; EIP-1559 baselines are generated from London on). Not generated (rule ambiguous there): a matching chain id before Spurious Dragon, a sender with contract code before London (EIP-3607), a sender with a delegation designator before Prague. dev-feature switches (disable_balance_check, ...) are off. Not enumerated: the full product of classes (pairs/triples of deviations only), transactions in histories other than calls to a code-less account with empty calldata.",
        ref="DESIGN.md section 3, C02"),
}

FORKS = ["FRONTIER", "FRONTIER_THAWING", "HOMESTEAD", "DAO_FORK", "TANGERINE", "SPURIOUS_DRAGON", "BYZANTIUM",
         "CONSTANTINOPLE", "PETERSBURG", "ISTANBUL", "MUIR_GLACIER", "BERLIN", "LONDON", "ARROW_GLACIER",
         "GRAY_GLACIER", "MERGE", "SHANGHAI", "CANCUN", "PRAGUE"]
# forks at which some validity rule changes
RULE_FORKS = ["FRONTIER", "HOMESTEAD", "SPURIOUS_DRAGON", "ISTANBUL", "BERLIN", "LONDON", "MERGE", "SHANGHAI",
              "CANCUN", "PRAGUE"]
KINDS = ["legacy", "eip2930", "eip1559", "eip4844", "eip7702"]
RULES = ["Header", "AccessListFork", "BlobFork", "BlobFields", "AuthFork", "OneType", "ChainId",
         "BlockGas", "Intrinsic", "Floor", "FeeCap", "PrioFee", "Initcode", "BlobCount", "BlobVersion", "BlobFeeCap",
         "BlobCreate", "AuthEmpty", "AuthCreate", "SenderCode", "Nonce", "NonceMax", "Funds"]
CASE_INV = ["ValidIffNoRuleViolated", "BaselineVerdict", "ValidIsSafe", "EmbeddingSound"]
HIST_INV = ["Conservation", "NoDebt"]
HIST_PROPS = ["RejectionChangesNothing", "PreverifyChangesNothing", "AcceptedCommitIsATransaction"]
HIST_OPS = ["open", "transact_commit", "preverify", "credit"]


def sset(xs):
    return "{" + ", ".join('"%s"' % x for x in xs) + "}"


def case_stats(path):
    """Vacuity guard over the CASE dump: both verdicts for every type, every rule the only one broken."""
    n = valid = 0
    alone, kinds = {}, {}
    with open(path) as f:
        for line in f:
            op = json.loads(line)["op"]
            n += 1
            bad = op["violated"]
            k = kinds.setdefault(op["kind"], [0, 0])
            if bad:
                k[1] += 1
                if len(bad) == 1:
                    alone[bad[0]] = alone.get(bad[0], 0) + 1
            else:
                valid += 1
                k[0] += 1
    return n, valid, alone, kinds


DIMS = ["header", "basefee", "chain", "data", "al", "auth", "blobs", "blobver", "blobcap", "gas", "fee", "prio", "value",
        "code", "nonce", "balance"]
MONEY = ["basefee", "blobcap", "fee", "prio", "value", "balance"]


def cases(ctx, res, binary, name, forks, kinds, maxdev, dims=DIMS, tos=("call", "create"), workers=6, timeout=1500):
    consts = dict(Forks=sset(forks), Kinds=sset(kinds), Tos=sset(tos), MaxDev=maxdev, DevDims=sset(dims), MaxHist=0)
    run = vf.tlc(ctx, "Validation", vf.cfg(consts, init="InitCases", next="NextCases", view="ViewCases", invariants=CASE_INV),
                 name=name, workers=workers, stream={"CASE"}, timeout=timeout, coverage=False)
    # one key per kind of disagreement, whichever run finds it
    summ = vf.replay_edges(ctx, res, run, "validation", [], name=name, binary=binary, prefix="CASE", expect_ops=["validate"],
                           keyprefix="cases")
    n, valid, alone, kinds_seen = case_stats(run.files["CASE"])
    res.extra.setdefault("cases", {})[name] = dict(cases=n, valid=valid, invalid=n - valid, sole_violation=alone,
                                                   per_kind_valid_invalid=kinds_seen)
    return summ, alone, kinds_seen


def run(ctx, pid):
    res = vf.Result()
    res.rule = ("(a) baseline + every combination of <= MaxDev deviations (one non-default class in each of up to MaxDev "
                "of 16 dimensions) for each (fork, transaction type, call/create); distinct = distinct cases; "
                "(b) every (world, operation) edge of the history machine within the history bound, per fork")
    binary = vf.cargo_build("validation")
    alone_all, kinds_all = {}, {}

    def acc(alone, kinds_seen):
        for k, v in alone.items():
            alone_all[k] = alone_all.get(k, 0) + v
        for k, v in kinds_seen.items():
            a = kinds_all.setdefault(k, [0, 0])
            a[0] += v[0]
            a[1] += v[1]

    # ---- (a)
    if ctx.quick:
        # pairs where a rule changes, single deviations in the forks that inherit their predecessor's rules
        _, al, ks = cases(ctx, res, binary, "cases_pairs", RULE_FORKS, KINDS, 2)
        acc(al, ks)
        _, al, ks = cases(ctx, res, binary, "cases_singles", [f for f in FORKS if f not in RULE_FORKS], KINDS, 1)
        acc(al, ks)
    else:
        # triples where a rule changes, pairs in the forks that inherit their predecessor's rules
        _, al, ks = cases(ctx, res, binary, "cases_triples", RULE_FORKS, KINDS, 3)
        acc(al, ks)
        _, al, ks = cases(ctx, res, binary, "cases_pairs", [f for f in FORKS if f not in RULE_FORKS], KINDS, 2)
        acc(al, ks)
        # four simultaneous deviations for the two newest types in their own forks
        _, al, ks = cases(ctx, res, binary, "cases_quads_blob", ["CANCUN", "PRAGUE"], ["eip4844"], 4)
        acc(al, ks)
        _, al, ks = cases(ctx, res, binary, "cases_quads_auth", ["PRAGUE"], ["eip7702"], 4)
        acc(al, ks)
        # the full product of the dimensions that enter the maximal cost (fees, value, blob fee cap, balance)
        _, al, ks = cases(ctx, res, binary, "cases_money", ["ISTANBUL", "LONDON", "CANCUN", "PRAGUE"], KINDS, len(MONEY),
                          dims=MONEY, tos=("call",))
        acc(al, ks)
    missing = [r for r in RULES if r not in alone_all]
    if missing:
        raise vf.ToolError("vacuous: rules never the only broken rule of a case: %s" % missing)
    for k in KINDS:
        if k not in kinds_all or min(kinds_all[k]) == 0:
            raise vf.ToolError("vacuous: type %s lacks valid or invalid cases: %s" % (k, kinds_all.get(k)))

    # ---- (b)
    consts = dict(Forks=sset(FORKS), Kinds="{}", Tos="{}", MaxDev=0, DevDims="{}", MaxHist=4 if ctx.quick else 5)
    run_ = vf.tlc(ctx, "Validation", vf.cfg(consts, init="InitHist", next="NextHist", view="ViewHist",
                                           invariants=HIST_INV, properties=HIST_PROPS),
                  name="history", workers=6, stream={"EDGE"}, timeout=1500)
    vf.replay_edges(ctx, res, run_, "validation", [], name="history", binary=binary, expect_ops=HIST_OPS)
    res.exhaustive = True
    res.assumptions += [
        "the transaction record is untyped; its type is implied by the optional fields that are present",
        "outside the judged domain: gas_priority_fee set before London without blob/authorization fields (an EIP-1559 transaction in a pre-London fork); revm accepts it and prices it with min(gas_price, basefee + priority fee)",
        "not generated: chain id present before Spurious Dragon, sender with contract code before London, sender with a delegation designator before Prague",
        "(a) enumerates all combinations of up to 2 (quick) / 3-4 (thorough) deviations from each baseline, not the full product of classes",
        "(b) transactions are calls to an account without code with empty calldata (gas used = intrinsic gas)",
    ]
    return res


if __name__ == "__main__":   # run the check although it is not registered (READY = False)
    import sys
    _tier = sys.argv[1] if len(sys.argv) > 1 else "quick"
    _ctx = vf.Ctx("C02", _tier, int(os.environ.get("VERIF_SEED", "1") or 1))
    try:
        _res = vf.Result()
        _res.merge(run(_ctx, "C02"))
        sys.exit(vf.finish(_ctx, _res))
    except vf.ToolError as e:
        print("TOOL-ERROR property=C02 %s" % e, file=sys.stderr)
        sys.exit(2)
