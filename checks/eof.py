"""C26 (partial) -- EofLayout.tla: the EOF container grammar and EOF code validation (control flow included) for
containers without sub-containers, replayed on revm's Eof::decode / decode_dangling / encode_slow, validate_eof
and the real Evm under OSAKA."""
import json
import os

import vf

READY = True
SERVES = {
    "C26": dict(
        technique="TLA+ specification EofLayout.tla (EOF container grammar of EIP-3540/4750/7480/7620 as a left-to-right recogniser plus Encode; EOF code validation of EIP-3670/4200/4750/6206/5450/663/7480 stated for every container without sub-containers: instruction boundaries, relative-jump targets, the one-pass [min,max] stack-height analysis with forward merges and exact backward jumps, CALLF/JUMPF/RETF typing, DUPN/SWAPN/EXCHANGE/DATALOADN immediates, max_stack_height, reachability of instructions and sections) model-checked by TLC; every byte string it enumerates is replayed on revm (spec->impl conformance): Eof::decode / Eof::decode_dangling / encode_slow / raw / Bytecode::new_raw_checked, validate_raw_eof / validate_eof / validate_eof_inner, and -- for every enumerated container the validator accepts -- real transactions through revm::Evm under OSAKA (call to an account holding the container; creation transaction carrying it) with call data chosen so that conditional jumps go both ways",
        level="PARTIAL. Decided by the specification: (1) membership of each enumerated byte string in the container grammar (decode succeeds iff the grammar says so; decoded sections, declared data size and total size equal what the grammar reads; same for the 'container followed by other bytes' reading); TLC checks as lemmas on every case that the grammar is canonical, that well-formed containers are recovered from their encoding, that each listed corruption leaves the language, the prefix and trailing-byte rules; (2) the validator's verdict (accept / reject, for the initcode and the runtime reading) for EVERY enumerated container without sub-containers: first-section type, undefined / removed opcodes (the whole 256-entry table with operand counts), truncated immediates and RJUMPV tables, RJUMP / RJUMPI / RJUMPV targets (inside the section, an instruction start, never an immediate -- including every byte of an RJUMPV table and its max_index byte), EIP-5450 stack validation with control flow (per-instruction [min,max] bounds, forward merge, exact backward jumps, unreachable-by-forward-traversal code, underflow on min, call-stack limit on max, last instruction terminating or RJUMP), DUPN / SWAPN / EXCHANGE / DATALOADN requirements, CALLF/JUMPF/RETF typing, declared max_stack_height = computed (every declared value from 0 to the number of pushing bytes is enumerated: exactly one is accepted), non-returning flag, unreachable sections, truncated data, STOP/RETURN in initcode. TLC checks on every case: accepted => every jump target is an instruction start; accepted => every instruction is reachable going forward only and the last one does not fall off; accepted => computed maximum = declared; accepted => EVERY execution path of the section (each jump taken either way) stays on instruction starts, finds its operands and stays within the recorded bounds; the straight-line reading of the rules agrees with the general pass. Observed directly on every case (no expectation needed): a decoded container re-encodes to exactly the input; decoding, validation and execution never panic (catch_unwind; the build asserts the instruction pointer stays inside the code buffer on every step); validation gives the same verdict on repeated calls and through both entry points; an accepted container never halts with StackUnderflow / OpcodeNotFound / InvalidJump / NotActivated. NOT decided: containers WITH sub-containers (EOFCREATE / RETURNCONTRACT kinds, EIP-7620) -- there the verdict is taken from revm, and 'validation accepts => execution reaches no path that assumes a valid container' is EXERCISED on the planned factory/initcode/runtime nests revm accepts, not proved for all containers.",
        note="Trusted: EofLayout.tla as the statement of the grammar and of the validation rules; the adapter harness/src/bin/eof.rs (reports byte-equality of re-encoding, verdict stability, panics and impossible halts as a list of breaches, expected empty). The layout and the types entry are those of the EIP revision this revm implements: 2-byte container sizes, kind_data = 0x04, max_stack_HEIGHT (the final texts use 4-byte sizes, 0xFF and max_stack_increase), JUMPDEST kept as a no-op, RETURNCONTRACT = 0xEE; stated in the spec. Which rule is reported for a rejected container is not compared (accept / reject only). A string whose only defect is inputs > max_stack_height may be rejected by decoding (revm) or by validation (EIP-5450): either is accepted for decoding, rejection is required of validation. Universe of code with control flow: every byte string of <= 5 bytes (quick: 9-letter alphabet STOP CALLDATASIZE POP RJUMP RJUMPI RJUMPV 01 FF FD; thorough: 13 letters adding 02 FC CALLF DUPN, and <= 6 bytes over the 9 letters) as the single code section; ~19 base programs containing every immediate-carrying instruction, RJUMPV tables of 1-3 entries and loops (thorough: also every valid string of <= 4 bytes), each PROBED by a conditional jump (RJUMPI and RJUMPV, placed in front and before the last byte) aimed at every byte of the code, one before and one behind; every byte value 0..255 as an instruction behind enough / one too few operands; DUPN/SWAPN/EXCHANGE immediates x operand counts; DATALOADN offsets x data sizes; the two-section run decides CALLF/JUMPF/RETF typing. Jumps spanning more than a few bytes, tables of more than 3 entries, heights near 1024 and sections longer than ~35 bytes are not enumerated. Execution is judged for panics / impossible halts only (results are not predicted).",
        ref="DESIGN.md section 4 (C26); spec/EofLayout.tla header and PART 2"),
}

INV = ["RoundTrip", "Canonical", "UniverseWF", "NotWFRejected", "AbnormalNotWF", "CorruptionsLeaveLanguage", "PrefixRule",
       "TrailingRule", "DanglingSplits", "DanglingOfFilled", "PlainAccepted", "InitImpliesRuntime",
       "AcceptedHasMaxStack", "SectionLemmas"]
INV_FLOW = ["SectionLemmas", "OnlyOneHeight", "FlowDenotes"]


def T(i, o, m):
    return "[inputs |-> %d, outputs |-> %d, max_stack |-> %d]" % (i, o, m)


def seq(bs):
    return "<<%s>>" % ", ".join(str(b) for b in bs)


def tset(xs):
    return "{%s}" % ", ".join(xs)


NR = 128
# a sub-container "produced by the grammar at depth 1" (minimal container: one INVALID), and opaque bytes
MINIMAL = [0xEF, 0, 1, 1, 0, 4, 2, 0, 1, 0, 1, 4, 0, 0, 0, 0, 0x80, 0, 0, 0xFE]

# Planned nests for the code run (TLA+ text; Encode nests): runtime / initcode / factory
PLANNED = r"""LET
pRT      == Cont(<<T(0, 128, 0)>>, << <<0>> >>, <<>>, <<>>, 0)                         \* STOP
pRTdata  == Cont(<<T(0, 128, 1)>>, << <<209, 0, 0, 80, 0>> >>, <<>>, [i \in 1..30 |-> i], 32)   \* DATALOADN 0 POP STOP, 2 bytes short
pRTfull  == Cont(<<T(0, 128, 1)>>, << <<209, 0, 0, 80, 0>> >>, <<>>, [i \in 1..32 |-> i], 32)
pINIT(sub)     == Cont(<<T(0, 128, 2)>>, << <<95, 95, 238, 0>> >>, <<Encode(sub)>>, <<>>, 0)      \* PUSH0 PUSH0 RETURNCONTRACT 0
pINITaux(sub)  == Cont(<<T(0, 128, 2)>>, << <<96, 2, 95, 238, 0>> >>, <<Encode(sub)>>, <<>>, 0)   \* 2 bytes of aux data
pINITidx1(sub) == Cont(<<T(0, 128, 2)>>, << <<95, 95, 238, 1>> >>, <<Encode(sub)>>, <<>>, 0)      \* RETURNCONTRACT 1: no such sub-container
pINITraw(bytes) == Cont(<<T(0, 128, 2)>>, << <<95, 95, 238, 0>> >>, <<bytes>>, <<>>, 0)
pFACT(sub)     == Cont(<<T(0, 128, 4)>>, << <<95, 95, 95, 95, 236, 0, 80, 0>> >>, <<Encode(sub)>>, <<>>, 0)   \* EOFCREATE 0 POP STOP
pFACTidx1(sub) == Cont(<<T(0, 128, 4)>>, << <<95, 95, 95, 95, 236, 1, 80, 0>> >>, <<Encode(sub)>>, <<>>, 0)
pFACTraw(bytes) == Cont(<<T(0, 128, 4)>>, << <<95, 95, 95, 95, 236, 0, 80, 0>> >>, <<bytes>>, <<>>, 0)
pTrunc(k)      == [k EXCEPT !.dsize = Len(k.data) + 3]
pMany(n)     == Cont([i \in 1..n |-> T(0, 128, 0)], [i \in 1..n |-> <<254>>], <<>>, <<>>, 0)        \* n code sections
pManySubs(n) == Cont(<<T(0, 128, 0)>>, << <<254>> >>, [i \in 1..n |-> <<170>>], <<>>, 0)                \* n sub-containers
pRJ      == Cont(<<T(0, 128, 1)>>, << <<95, 225, 0, 1, 0, 0>> >>, <<>>, <<>>, 0)           \* PUSH0 RJUMPI +1 STOP STOP
pRJback  == Cont(<<T(0, 128, 0)>>, << <<224, 255, 253>> >>, <<>>, <<>>, 0)                 \* RJUMP -3 (loop)
pRJout   == Cont(<<T(0, 128, 0)>>, << <<224, 0, 5>> >>, <<>>, <<>>, 0)                     \* RJUMP out of the section
pRJV     == Cont(<<T(0, 128, 1)>>, << <<95, 226, 0, 0, 0, 0>> >>, <<>>, <<>>, 0)           \* PUSH0 RJUMPV [0] STOP
IN         <<pRT, pRTdata, pRTfull, pINIT(pRT), pINITaux(pRT), pINITaux(pRTdata), pINIT(pRTdata), pINITidx1(pRT),
              pINITraw(<<170>>), pINITraw(<<239, 0, 1>>), pINIT(pINIT(pRT)),
              pFACT(pINIT(pRT)), pFACT(pINITaux(pRTdata)), pFACT(pRT), pFACTidx1(pINIT(pRT)), pFACTraw(<<170>>),
              pFACT(pTrunc(pINIT(pRT))), pFACT(pINIT(pTrunc(pRT))), pFACT(pFACT(pINIT(pRT))),
              pTrunc(pRT), pTrunc(pINIT(pRT)), pRJ, pRJback, pRJout, pRJV,
              pMany(1024), pMany(1025), pManySubs(256), pManySubs(257)>>
"""


NOFLOW = dict(FlowAlpha="{}", FlowN="0", FlowGiven="{}", ProbeBases="{}", Pusher="54")

# ---- the flow run
P = 0x36   # CALLDATASIZE: the pushed condition depends on the call data, so executions take both branches


def cont(code, types=None, more_codes=(), data=(), dsize=None):
    """TLA+ text of a container whose first section is `code` (max_stack_height placeholder 0)."""
    ts = [T(0, NR, 0)] + list(types or [])
    cs = [seq(code)] + [seq(c) for c in more_codes]
    return "Cont(<<%s>>, <<%s>>, <<>>, %s, %d)" % (", ".join(ts), ", ".join(cs), seq(data),
                                                      len(data) if dsize is None else dsize)


# Programs that are valid as they stand; every byte of each gets a forward and a backward probe.
# Between them they contain every instruction that carries an immediate (except the two that need a
# sub-container), RJUMPV tables of 1, 2 and 3 entries, table / immediate bytes that are themselves
# dangerous opcodes (0xE3 CALLF, 0xE5 JUMPF, 0xE4 RETF, 0xE0 RJUMP), and loops.
BASES = [
    cont([0x00]),
    cont([P, 0x50, 0x00]),
    cont([0x60, 0xE3, 0x50, 0x00]),                              # PUSH1 e3
    cont([0x61, 0xE5, 0xE4, 0x50, 0x00]),                        # PUSH2 e5e4
    cont([0xE0, 0x00, 0x00, 0x00]),                              # RJUMP +0
    cont([P, 0xE1, 0x00, 0x01, 0x00, 0x00]),                     # RJUMPI +1
    cont([P, 0xE2, 0x00, 0x00, 0x00, 0x00]),                     # RJUMPV [0]
    cont([P, 0xE2, 0x01, 0x00, 0x00, 0x00, 0x01, 0x00, 0x00]),   # RJUMPV [0, 1]
    cont([P, 0xE2, 0x02, 0x00, 0x00, 0x00, 0x00, 0x00, 0x00, 0x00]),   # RJUMPV [0, 0, 0]
    cont([0x5B] * 23 + [P, 0xE2, 0x00, 0xFF, 0xE4, 0x00]),       # NOPs, RJUMPV [-28] (loop): last table byte = RETF
    cont([0xE0, 0xFF, 0xFD]),                                    # RJUMP -3 (loop)
    cont([0x5B, 0xE0, 0xFF, 0xFC]),                              # NOP RJUMP -4
    cont([P, 0xE1, 0xFF, 0xFC, 0x00]),                           # loop while the condition holds
    cont([P, 0xE6, 0x00, 0x50, 0x50, 0x00]),                     # DUPN 0
    cont([P, P, 0xE7, 0x00, 0x50, 0x50, 0x00]),                  # SWAPN 0
    cont([P, P, P, 0xE8, 0x00, 0x50, 0x50, 0x50, 0x00]),         # EXCHANGE 0x00
    cont([0xD1, 0x00, 0x00, 0x50, 0x00], data=[7] * 32),         # DATALOADN 0
    # bases in which some instructions have a RANGE of heights (lo < hi), so that a backward probe meets
    # targets whose bounds differ from its own in lo only / in hi only, and a forward probe is the SECOND
    # forward jump to an instruction that already has bounds
    cont([P, 0xE1, 0x00, 0x01, P, 0x5B, 0x00]),                  # heights [0,1] at the NOP and the STOP
    cont([P, 0xE2, 0x00, 0x00, 0x01, P, 0x5B, 0x00]),            # the same through an RJUMPV
    cont([P, P, 0xE1, 0x00, 0x00, 0x50, 0x00]),                  # RJUMPI +0, then POP needs the item
    cont([P, P, 0xE1, 0x00, 0x05, 0x50, P, 0xE1, 0x00, 0x00, P, P, 0x00]),   # two forward jumps to one target, the HIGHER first; the maximum (3) is reached behind it
    cont([0xE3, 0x00, 0x01, 0x00], types=[T(0, 0, 0)], more_codes=[[0xE4]]),              # CALLF 1
    cont([P, 0xE1, 0x00, 0x03, 0xE5, 0x00, 0x01, 0x00], types=[T(0, NR, 0)], more_codes=[[0x00]]),   # JUMPF 1
]
ALPHA_FLOW_Q = [0x00, P, 0x50, 0xE0, 0xE1, 0xE2, 0x01, 0xFF, 0xFD]
ALPHA_FLOW_T = [0x00, P, 0x50, 0xE0, 0xE1, 0xE2, 0x01, 0x02, 0xFF, 0xFD, 0xFC, 0xE3, 0xE6]


def flow_consts(quick, deep=False):
    """quick / thorough: strings over the run's alphabet up to 5 bytes + the explicit families + probes of BASES
    (thorough: a 13-letter alphabet, and every structurally valid string of <= 4 bytes as a further probe base);
    deep (thorough only): strings up to 6 bytes over the 9-letter alphabet, nothing else."""
    given = ["OpcodeCases",
             "ImmCases({0, 1, 2, 8, 16, 17, 18, 32, 33, 128, 255}, (0..5) \\cup {10, 11, 12})",
             "DataCases({0, 1, 2, 31, 32, 33, 255, 256, 65535}, {0, 1, 31, 32, 33, 34, 64})"]
    bases = tset(BASES)
    if not quick:
        bases += (" \\cup {Flow1(x) : x \\in {y \\in Strings(%s, 4) : Analyse(Flow1(y), 1).why \\in {\"ok\", \"max_stack\"}}}"
                  % vf.tla_set(ALPHA_FLOW_Q))
    d = dict(Run='"flow"', Codes1="{}", Codes2="{}", Types1="{}", Types2="{}", SubLists="{}", Datas="{}",
             Slack="{}", Planned="<<>>",
             FlowAlpha=vf.tla_set(ALPHA_FLOW_Q if quick else ALPHA_FLOW_T), FlowN="5",
             FlowGiven=" \\cup ".join(given), ProbeBases=bases, Pusher=str(P))
    if deep:
        d.update(FlowAlpha=vf.tla_set(ALPHA_FLOW_Q), FlowN="6", FlowGiven="{}", ProbeBases="{}")
    return d


def layout_consts(quick):
    if quick:
        return dict(Run='"layout"',
                    Codes1=tset([seq([0]), seq([254, 0])]),
                    Codes2=tset(["<<>>", seq([254]), seq([95, 80, 0])]),
                    Types1=tset([T(0, NR, 0), T(1, NR, 1), T(127, 5, 1023), T(2, 0, 1)]),
                    Types2=tset([T(0, NR, 0), T(1, 1, 2)]),
                    SubLists=tset(["<<>>", "<<%s>>" % seq([170]), "<<%s, %s>>" % (seq(MINIMAL), seq([1, 2]))]),
                    Datas=tset(["<<>>", seq([4]), seq([0, 239])]),
                    Slack="{0, 1}", Planned="<<>>", **NOFLOW)
    return dict(Run='"layout"',
                Codes1="Strings({0, 254}, 2) \\cup {<<95, 80, 0>>}",
                Codes2=tset(["<<>>", seq([254]), seq([0, 0]), seq([95, 80, 0])]),
                Types1=tset([T(0, NR, 0), T(0, 0, 1), T(1, NR, 1), T(127, 5, 1023), T(2, 0, 1)]),
                Types2=tset([T(0, NR, 0), T(1, 1, 2)]),
                SubLists=tset(["<<>>", "<<%s>>" % seq([170]), "<<%s>>" % seq(MINIMAL),
                               "<<%s, %s>>" % (seq(MINIMAL), seq([1, 2]))]),
                Datas=tset(["<<>>", seq([4]), seq([0, 239])]),
                Slack="{0, 1}", Planned="<<>>", **NOFLOW)


ALPHA1 = [0x00, 0xFE, 0x5F, 0x50, 0x60, 0x01, 0xE4, 0xE5, 0x0C, 0x56, 0xFD]
ALPHA2 = [0x00, 0xFE, 0x5F, 0x50, 0xE4, 0xE5, 0x01, 0xE3]
SEC0 = [[0xE3, 0, 1, 0], [0xE5, 0, 1], [0x5F, 0xE3, 0, 1, 0], [0x5F, 0xE5, 0, 1], [0x5F, 0xE3, 0, 1, 0x50, 0],
        [0], [0xE3, 0, 2, 0], [0xE3, 0, 0, 0], [0x5F, 0x5F, 0xE3, 0, 1, 0xFE], [0xE3, 0, 1, 0xE5, 0, 0]]


def code_consts(quick, two):
    base = dict(Run='"code"', SubLists="{<<>>}", Datas="{<<>>}", Slack="{0}", Planned="<<>>", **NOFLOW)
    if not two:
        base.update(Codes1="Strings(%s, %d)" % (vf.tla_set(ALPHA1), 3 if quick else 4),
                    Codes2="{<<>>}",
                    Types1=tset([T(0, NR, 0), T(0, NR, 1), T(0, NR, 2), T(0, 0, 0), T(1, NR, 1)]),
                    Types2=tset([T(0, NR, 0)]),
                    Planned=PLANNED)
    else:
        base.update(Codes1=tset(seq(c) for c in (SEC0[:6] if quick else SEC0)),
                    Codes2="Strings(%s, 3)" % vf.tla_set(ALPHA2[:7] if quick else ALPHA2),
                    Types1=tset([T(0, NR, 0), T(0, NR, 1)] + ([] if quick else [T(0, NR, 2)])),
                    Types2=tset([T(0, 0, 0), T(0, NR, 0), T(1, 0, 1), T(0, 1, 1), T(1, 1, 1)]
                                + ([] if quick else [T(1, NR, 1), T(1, 1, 2), T(0, 0, 1)])))
    return base


FLOW_INPUTS = [[], [1], [1, 2], list(range(1, 33))]      # CALLDATASIZE 0 / 1 / 2 / 32: RJUMPI both ways, RJUMPV cases 0 1 2 and "beyond the table"
FLOW_GASES = [21_000, 21_050, 60_000, 300_000]


def edge_of(case):
    if "flow" in case:
        fl = case["flow"]
        op = dict(op="decode", name=case["name"], bytes=case["bytes"], judge_decode=False, judge_dangling=False,
                  judge_init=fl["init"] != "unknown", judge_runtime=fl["runtime"] != "unknown",
                  inputs=FLOW_INPUTS, gases=FLOW_GASES)
        post = dict(breaches=[])
        if op["judge_init"]:
            post["init"] = fl["init"]
        if op["judge_runtime"]:
            post["runtime"] = fl["runtime"]
        return dict(hist=[], op=op, post=post)
    said = case["said"]
    op = dict(op="decode", name=case["name"], bytes=case["bytes"],
              judge_decode=said["verdict"] != "either",
              judge_dangling=said["dangling"]["verdict"] != "either",
              judge_init=said["init"] != "unknown",
              judge_runtime=said["runtime"] != "unknown")
    post = dict(breaches=[])
    if op["judge_decode"]:
        post.update(verdict=said["verdict"], fields=said["fields"], size=said["size"])
    if op["judge_dangling"]:
        post["dangling"] = said["dangling"]
    if op["judge_init"]:
        post["init"] = said["init"]
    if op["judge_runtime"]:
        post["runtime"] = said["runtime"]
    return dict(hist=[], op=op, post=post)


def replay(ctx, res, run, name, binary):
    """CASE lines (streamed to a file by vf.tlc) -> edges -> harness; returns (tallies, harness stats)."""
    src = run.files.get("CASE")
    if not src:
        raise vf.ToolError("vacuous: TLC printed no CASE line for %s" % name)
    dst = ctx.path("replay", name + ".edges.ndjson")
    tally = {}
    first = []
    with open(src) as f, open(dst, "w") as g:
        for line in f:
            case = json.loads(line)
            e = edge_of(case)
            if len(first) < 3:
                first.append(e)
            if "flow" in case:
                fl = case["flow"]
                for k in ("flow", "init:" + fl["init"], "runtime:" + fl["runtime"],
                          "why_init:" + fl["why_init"], "why_runtime:" + fl["why_runtime"]):
                    tally[k] = tally.get(k, 0) + 1
                g.write(json.dumps(e, separators=(",", ":")))
                g.write("\n")
                continue
            s = case["said"]
            for k in ("name:" + case["name"] + ":" + s["verdict"], "decode:" + s["verdict"],
                      "init:" + s["init"], "runtime:" + s["runtime"],
                      "plain_init:%s" % s["plain"]["init"], "plain_runtime:%s" % s["plain"]["runtime"],
                      "dangling:" + s["dangling"]["verdict"] + (":rest" if s["dangling"]["rest"] else "")):
                tally[k] = tally.get(k, 0) + 1
            if s["plain"]["init"] and s["init"] != "accept" or s["plain"]["runtime"] and s["runtime"] != "accept":
                raise vf.ToolError("spec inconsistent: plain container not accepted by Validity: %r" % case)
            g.write(json.dumps(e, separators=(",", ":")))
            g.write("\n")
    run.lines = {"EDGE": first}
    run.files = {"EDGE": dst}
    run.counts = {"EDGE": sum(v for k, v in tally.items() if k.startswith("decode:") or k == "flow")}
    stats = ctx.path("replay", name + ".stats.json")
    vf.replay_edges(ctx, res, run, "eof", ["stats=" + stats], name=name, binary=binary, expect_ops=["decode"])
    st = json.load(open(stats)) if os.path.exists(stats) else {}
    return tally, st


def run(ctx, pid):
    res = vf.Result()
    res.rule = ("layout run: every small abstract container (1-2 code sections, 0-2 sub-containers, 0-2 data bytes, "
                "declared data size = actual + 0..2) x {its encoding, ~45 single-field corruptions / re-orderings / "
                "ill-formed variants, every proper prefix}; code runs: every byte string of length <= N over an "
                "11-letter instruction alphabet as a single code section x 5 type entries, every string over an "
                "8-letter alphabet as second section x type entries behind a palette of first sections, plus planned "
                "factory/initcode/runtime nests; flow run: every byte string of length <= 5 (thorough: also <= 6) over a "
                "9/13-letter alphabet of jump opcodes, offset bytes and stack instructions as the only code section "
                "(prefixes already rejected for good are not extended), probes of ~19 base programs (a conditional jump "
                "aimed at every byte), every opcode byte behind enough / too few operands, DUPN/SWAPN/EXCHANGE/DATALOADN "
                "immediate families -- each x every declared max_stack_height from 0 to the number of pushing bytes; "
                "distinct = distinct (container, writing) pairs")
    binary = vf.cargo_build("eof")
    quick = ctx.quick
    tallies, stats = {}, {}
    plans = [("eof_layout", layout_consts(quick)),
             ("eof_code1", code_consts(quick, False)),
             ("eof_code2", code_consts(quick, True))]
    plans.append(("eof_flow", flow_consts(quick)))
    if not quick:
        plans.append(("eof_flow6", flow_consts(quick, deep=True)))
    for name, consts in plans:
        r = vf.tlc(ctx, "EofLayout", vf.cfg(consts, view=None, invariants=INV_FLOW if name.startswith("eof_flow") else INV), name=name, workers=6,
                   timeout=1500, xss="64m", xmx="6g", stream=("CASE",), coverage=False)   # -coverage makes TLC run out of memory on the 20-byte literals
        tallies[name], stats[name] = replay(ctx, res, r, name, binary)

    # ---- vacuity guards
    lay, c1, c2 = tallies["eof_layout"], tallies["eof_code1"], tallies["eof_code2"]
    need = []
    for k in ("decode:ok", "decode:error", "decode:either", "dangling:ok:rest", "dangling:error",
              "name:prefix:ok", "name:prefix:error", "name:trailing_byte:ok", "name:trailing_byte:error",
              "name:code_size+1:ok", "name:code_size+1:error", "name:subs_size_u32:error", "name:zero_codes:error"):
        if not lay.get(k):
            need.append("layout " + k)
    for nm, t in (("code1", c1), ("code2", c2)):
        for k in ("init:accept", "init:reject", "runtime:accept", "runtime:reject"):
            if not t.get(k):
                need.append(nm + " " + k)
    if not c1.get("plain_init:True") or not c1.get("plain_runtime:True") or not c1.get("init:unknown"):
        need.append("code1 plain/unknown containers")
    for nm in ("eof_code1", "eof_code2"):
        st = stats[nm]
        if not any(k.startswith("exec_runtime_") for k in st) or not any(k.startswith("exec_init_") for k in st):
            need.append(nm + " executions of accepted containers")
    if not any(k.startswith("exec_init_success") for k in stats["eof_code1"]):
        need.append("a creation transaction of an accepted initcode container that succeeds (planned nests)")
    fl, fst = tallies["eof_flow"], stats["eof_flow"]
    for k in ("runtime:accept", "init:accept", "why_init:init_halt",
              "why_runtime:opcode", "why_runtime:truncated", "why_runtime:target_outside", "why_runtime:target_immediate",
              "why_runtime:unreachable", "why_runtime:underflow", "why_runtime:backward", "why_runtime:falls_off",
              "why_runtime:max_stack", "why_runtime:dataloadn", "why_runtime:callf_nonreturning", "why_runtime:subcontainer"):
        if not fl.get(k):
            need.append("flow " + k)
    for k in ("exec_runtime_success", "exec_runtime_halt_oog", "exec_init_halt"):
        if not any(x.startswith(k) for x in fst):
            need.append("flow " + k)
    if need and not res.violations:
        # (with violations present the guards may fail as a consequence: report the violations instead)
        raise vf.ToolError("vacuous: missing %s" % need)
    res.exhaustive = True
    res.extra["cases"] = {n: {k: v for k, v in t.items() if not k.startswith("name:")} for n, t in tallies.items()}
    res.extra["flow_bases_probed"] = len(BASES)
    res.extra["writings"] = sorted({k.split(":")[1] for k in lay if k.startswith("name:")})
    res.extra["harness_counts"] = stats
    res.assumptions += [
        "PARTIAL: the validator's accept set is specified for containers without sub-containers; for containers with "
        "sub-containers revm's own verdict selects which containers are executed",
        "'validation accepts => execution is safe' is exercised on the enumerated and planned containers only (small), "
        "not proved; execution is judged for panics and impossible halts only, with 3-4 calldata values x 4-5 gas limits "
        "per accepted container",
        "a section with inputs > max_stack_height may be rejected by decoding or by validation",
        "layout = the EIP revision implemented by this revm (2-byte container sizes, kind_data 0x04)"]
    return res
