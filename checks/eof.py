"""C26 (partial) -- EofLayout.tla: the EOF container grammar and a decidable fragment of EOF validation,
replayed on revm's Eof::decode / decode_dangling / encode_slow, validate_eof and the real Evm under OSAKA."""
import json
import os

import vf

READY = True
SERVES = {
    "C26": dict(
        technique="TLA+ specification EofLayout.tla (EOF container grammar of EIP-3540/4750/7480/7620 as a left-to-right recogniser plus Encode, and EOF validation stated exactly for straight-line code without sub-containers) model-checked by TLC; every byte string it enumerates (encodings of small abstract containers, single-field corruptions, re-ordered / re-sized headers, every proper prefix) is replayed on revm (spec->impl conformance): Eof::decode / Eof::decode_dangling / encode_slow / raw / Bytecode::new_raw_checked, validate_raw_eof / validate_eof / validate_eof_inner, and -- for every enumerated container the validator accepts -- real transactions through revm::Evm under OSAKA (call to an account holding the container; creation transaction carrying it)",
        level="PARTIAL. Decided by the specification: (1) membership of each enumerated byte string in the container grammar (decode succeeds iff the grammar says so; the decoded types / code / sub-container / data sections, declared data size and total size equal what the grammar reads; same for the 'container followed by other bytes' reading used by creation transactions); TLC checks as lemmas on every case that the grammar is canonical (any string in the language re-encodes to itself), that well-formed containers are recovered from their encoding, that each listed corruption leaves the language, the prefix and trailing-byte rules; (2) the validator's verdict for containers of a fragment (no sub-containers; straight-line code over STOP ADD POP PUSH0 PUSH1 DUP1 ADDRESS CALLF RETF JUMPF RETURN REVERT INVALID plus unassigned/removed opcodes): first-section type, truncated immediates, undefined opcodes, terminating last instruction, unreachable instructions, stack underflow, CALLF/JUMPF/RETF typing, max_stack_height, non-returning flag, unreachable sections, truncated data, STOP/RETURN in initcode -- must-accept and must-reject, both for the initcode and the runtime reading. Observed directly on every case (no expectation needed): a decoded container re-encodes (encode_slow, raw) to exactly the input; decoding, validation and execution never panic (catch_unwind); validation gives the same verdict on repeated calls and through both entry points. NOT decided: the validator's accept set outside the fragment (RJUMP*, DATALOADN, EOFCREATE/RETURNCONTRACT, sub-container kinds) -- there the verdict is taken from revm, and 'validation accepts => execution reaches no path that assumes a valid container' is EXERCISED on the small enumerated/planned containers that revm accepts (including factory/initcode/runtime nests two levels deep), not proved for all containers.",
        note="Trusted: EofLayout.tla as the statement of the grammar and of the fragment's rules; the adapter harness/src/bin/eof.rs (reports byte-equality of re-encoding, verdict stability and panics as a list of breaches, expected empty). The layout is the one of the EIP revision this revm implements: 2-byte container sizes and kind_data = 0x04 (the final EIP-3540 text uses 4-byte container sizes and 0xFF), stated in the spec. A string whose only defect is inputs > max_stack_height may be rejected by decoding (revm) or by validation (EIP-5450): either is accepted for decoding, rejection is required of validation. Containers are small (<= 2 code sections of <= 4 bytes, <= 2 sub-containers, <= 2 data bytes) plus a handful of planned nests; out-of-bounds reads that do not panic are invisible; execution is panic-freedom only (results are not predicted).",
        ref="DESIGN.md section 4 (C26, 'possible later extensions'); spec/EofLayout.tla header"),
}

INV = ["RoundTrip", "Canonical", "UniverseWF", "NotWFRejected", "AbnormalNotWF", "CorruptionsLeaveLanguage", "PrefixRule",
       "TrailingRule", "DanglingSplits", "DanglingOfFilled", "PlainAccepted", "InitImpliesRuntime",
       "AcceptedHasMaxStack"]


def T(i, o, m):
    return "[inputs |-> %d, outputs |-> %d, max_stack |-> %d]" % (i, o, m)


def seq(bs):
    return "<<%s>>" % ", ".join(str(b) for b in bs)


def tset(xs):
    return "{%s}" % ", ".join(xs)


NR = 128
# a sub-container "produced by the grammar at depth 1" (minimal container: one INVALID), and opaque bytes
MINIMAL = [0xEF, 0, 1, 1, 0, 4, 2, 0, 1, 0, 1, 4, 0, 0, 0, 0, 0x80, 0, 0, 0xFE]

# Planned nests for the code run (TLA+ text; Encode nests): runtime / initcode / factory
PLANNED = r"""LET
pRT      == Cont(<<T(0, 128, 0)>>, << <<0>> >>, <<>>, <<>>, 0)                         \* STOP
pRTdata  == Cont(<<T(0, 128, 1)>>, << <<209, 0, 0, 80, 0>> >>, <<>>, [i \in 1..30 |-> i], 32)   \* DATALOADN 0 POP STOP, 2 bytes short
pRTfull  == Cont(<<T(0, 128, 1)>>, << <<209, 0, 0, 80, 0>> >>, <<>>, [i \in 1..32 |-> i], 32)
pINIT(sub)     == Cont(<<T(0, 128, 2)>>, << <<95, 95, 238, 0>> >>, <<Encode(sub)>>, <<>>, 0)      \* PUSH0 PUSH0 RETURNCONTRACT 0
pINITaux(sub)  == Cont(<<T(0, 128, 2)>>, << <<96, 2, 95, 238, 0>> >>, <<Encode(sub)>>, <<>>, 0)   \* 2 bytes of aux data
pINITidx1(sub) == Cont(<<T(0, 128, 2)>>, << <<95, 95, 238, 1>> >>, <<Encode(sub)>>, <<>>, 0)      \* RETURNCONTRACT 1: no such sub-container
pINITraw(bytes) == Cont(<<T(0, 128, 2)>>, << <<95, 95, 238, 0>> >>, <<bytes>>, <<>>, 0)
pFACT(sub)     == Cont(<<T(0, 128, 4)>>, << <<95, 95, 95, 95, 236, 0, 80, 0>> >>, <<Encode(sub)>>, <<>>, 0)   \* EOFCREATE 0 POP STOP
pFACTidx1(sub) == Cont(<<T(0, 128, 4)>>, << <<95, 95, 95, 95, 236, 1, 80, 0>> >>, <<Encode(sub)>>, <<>>, 0)
pFACTraw(bytes) == Cont(<<T(0, 128, 4)>>, << <<95, 95, 95, 95, 236, 0, 80, 0>> >>, <<bytes>>, <<>>, 0)
pTrunc(k)      == [k EXCEPT !.dsize = Len(k.data) + 3]
pMany(n)     == Cont([i \in 1..n |-> T(0, 128, 0)], [i \in 1..n |-> <<254>>], <<>>, <<>>, 0)        \* n code sections
pManySubs(n) == Cont(<<T(0, 128, 0)>>, << <<254>> >>, [i \in 1..n |-> <<170>>], <<>>, 0)                \* n sub-containers
pRJ      == Cont(<<T(0, 128, 1)>>, << <<95, 225, 0, 1, 0, 0>> >>, <<>>, <<>>, 0)           \* PUSH0 RJUMPI +1 STOP STOP
pRJback  == Cont(<<T(0, 128, 0)>>, << <<224, 255, 253>> >>, <<>>, <<>>, 0)                 \* RJUMP -3 (loop)
pRJout   == Cont(<<T(0, 128, 0)>>, << <<224, 0, 5>> >>, <<>>, <<>>, 0)                     \* RJUMP out of the section
pRJV     == Cont(<<T(0, 128, 1)>>, << <<95, 226, 0, 0, 0, 0>> >>, <<>>, <<>>, 0)           \* PUSH0 RJUMPV [0] STOP
IN         <<pRT, pRTdata, pRTfull, pINIT(pRT), pINITaux(pRT), pINITaux(pRTdata), pINIT(pRTdata), pINITidx1(pRT),
              pINITraw(<<170>>), pINITraw(<<239, 0, 1>>), pINIT(pINIT(pRT)),
              pFACT(pINIT(pRT)), pFACT(pINITaux(pRTdata)), pFACT(pRT), pFACTidx1(pINIT(pRT)), pFACTraw(<<170>>),
              pFACT(pTrunc(pINIT(pRT))), pFACT(pINIT(pTrunc(pRT))), pFACT(pFACT(pINIT(pRT))),
              pTrunc(pRT), pTrunc(pINIT(pRT)), pRJ, pRJback, pRJout, pRJV,
              pMany(1024), pMany(1025), pManySubs(256), pManySubs(257)>>
"""


def layout_consts(quick):
    if quick:
        return dict(Run='"layout"',
                    Codes1=tset([seq([0]), seq([254, 0])]),
                    Codes2=tset(["<<>>", seq([254]), seq([95, 80, 0])]),
                    Types1=tset([T(0, NR, 0), T(1, NR, 1), T(127, 5, 1023), T(2, 0, 1)]),
                    Types2=tset([T(0, NR, 0), T(1, 1, 2)]),
                    SubLists=tset(["<<>>", "<<%s>>" % seq([170]), "<<%s, %s>>" % (seq(MINIMAL), seq([1, 2]))]),
                    Datas=tset(["<<>>", seq([4]), seq([0, 239])]),
                    Slack="{0, 1}", Planned="<<>>")
    return dict(Run='"layout"',
                Codes1="Strings({0, 254}, 2) \\cup {<<95, 80, 0>>}",
                Codes2=tset(["<<>>", seq([254]), seq([0, 0]), seq([95, 80, 0])]),
                Types1=tset([T(0, NR, 0), T(0, 0, 1), T(1, NR, 1), T(127, 5, 1023), T(2, 0, 1)]),
                Types2=tset([T(0, NR, 0), T(1, 1, 2)]),
                SubLists=tset(["<<>>", "<<%s>>" % seq([170]), "<<%s>>" % seq(MINIMAL),
                               "<<%s, %s>>" % (seq(MINIMAL), seq([1, 2]))]),
                Datas=tset(["<<>>", seq([4]), seq([0, 239])]),
                Slack="{0, 1}", Planned="<<>>")


ALPHA1 = [0x00, 0xFE, 0x5F, 0x50, 0x60, 0x01, 0xE4, 0xE5, 0x0C, 0x56, 0xFD]
ALPHA2 = [0x00, 0xFE, 0x5F, 0x50, 0xE4, 0xE5, 0x01, 0xE3]
SEC0 = [[0xE3, 0, 1, 0], [0xE5, 0, 1], [0x5F, 0xE3, 0, 1, 0], [0x5F, 0xE5, 0, 1], [0x5F, 0xE3, 0, 1, 0x50, 0],
        [0], [0xE3, 0, 2, 0], [0xE3, 0, 0, 0], [0x5F, 0x5F, 0xE3, 0, 1, 0xFE], [0xE3, 0, 1, 0xE5, 0, 0]]


def code_consts(quick, two):
    base = dict(Run='"code"', SubLists="{<<>>}", Datas="{<<>>}", Slack="{0}", Planned="<<>>")
    if not two:
        base.update(Codes1="Strings(%s, %d)" % (vf.tla_set(ALPHA1), 3 if quick else 4),
                    Codes2="{<<>>}",
                    Types1=tset([T(0, NR, 0), T(0, NR, 1), T(0, NR, 2), T(0, 0, 0), T(1, NR, 1)]),
                    Types2=tset([T(0, NR, 0)]),
                    Planned=PLANNED)
    else:
        base.update(Codes1=tset(seq(c) for c in (SEC0[:6] if quick else SEC0)),
                    Codes2="Strings(%s, 3)" % vf.tla_set(ALPHA2[:7] if quick else ALPHA2),
                    Types1=tset([T(0, NR, 0), T(0, NR, 1)] + ([] if quick else [T(0, NR, 2)])),
                    Types2=tset([T(0, 0, 0), T(0, NR, 0), T(1, 0, 1), T(0, 1, 1), T(1, 1, 1)]
                                + ([] if quick else [T(1, NR, 1), T(1, 1, 2), T(0, 0, 1)])))
    return base


def edge_of(case):
    said = case["said"]
    op = dict(op="decode", name=case["name"], bytes=case["bytes"],
              judge_decode=said["verdict"] != "either",
              judge_dangling=said["dangling"]["verdict"] != "either",
              judge_init=said["init"] != "unknown",
              judge_runtime=said["runtime"] != "unknown")
    post = dict(breaches=[])
    if op["judge_decode"]:
        post.update(verdict=said["verdict"], fields=said["fields"], size=said["size"])
    if op["judge_dangling"]:
        post["dangling"] = said["dangling"]
    if op["judge_init"]:
        post["init"] = said["init"]
    if op["judge_runtime"]:
        post["runtime"] = said["runtime"]
    return dict(hist=[], op=op, post=post)


def replay(ctx, res, run, name, binary):
    """CASE lines (streamed to a file by vf.tlc) -> edges -> harness; returns (tallies, harness stats)."""
    src = run.files.get("CASE")
    if not src:
        raise vf.ToolError("vacuous: TLC printed no CASE line for %s" % name)
    dst = ctx.path("replay", name + ".edges.ndjson")
    tally = {}
    first = []
    with open(src) as f, open(dst, "w") as g:
        for line in f:
            case = json.loads(line)
            e = edge_of(case)
            if len(first) < 3:
                first.append(e)
            s = case["said"]
            for k in ("name:" + case["name"] + ":" + s["verdict"], "decode:" + s["verdict"],
                      "init:" + s["init"], "runtime:" + s["runtime"],
                      "plain_init:%s" % s["plain"]["init"], "plain_runtime:%s" % s["plain"]["runtime"],
                      "dangling:" + s["dangling"]["verdict"] + (":rest" if s["dangling"]["rest"] else "")):
                tally[k] = tally.get(k, 0) + 1
            if s["plain"]["init"] and s["init"] != "accept" or s["plain"]["runtime"] and s["runtime"] != "accept":
                raise vf.ToolError("spec inconsistent: plain container not accepted by Validity: %r" % case)
            g.write(json.dumps(e, separators=(",", ":")))
            g.write("\n")
    run.lines = {"EDGE": first}
    run.files = {"EDGE": dst}
    run.counts = {"EDGE": sum(v for k, v in tally.items() if k.startswith("decode:"))}
    stats = ctx.path("replay", name + ".stats.json")
    vf.replay_edges(ctx, res, run, "eof", ["stats=" + stats], name=name, binary=binary, expect_ops=["decode"])
    st = json.load(open(stats)) if os.path.exists(stats) else {}
    return tally, st


def run(ctx, pid):
    res = vf.Result()
    res.rule = ("layout run: every small abstract container (1-2 code sections, 0-2 sub-containers, 0-2 data bytes, "
                "declared data size = actual + 0..2) x {its encoding, ~45 single-field corruptions / re-orderings / "
                "ill-formed variants, every proper prefix}; code runs: every byte string of length <= N over an "
                "11-letter instruction alphabet as a single code section x 5 type entries, every string over an "
                "8-letter alphabet as second section x type entries behind a palette of first sections, plus planned "
                "factory/initcode/runtime nests; distinct = distinct (container, writing) pairs")
    binary = vf.cargo_build("eof")
    quick = ctx.quick
    tallies, stats = {}, {}
    plans = [("eof_layout", layout_consts(quick)),
             ("eof_code1", code_consts(quick, False)),
             ("eof_code2", code_consts(quick, True))]
    for name, consts in plans:
        r = vf.tlc(ctx, "EofLayout", vf.cfg(consts, view=None, invariants=INV), name=name, workers=6,
                   timeout=1500, xss="64m", xmx="6g", stream=("CASE",), coverage=False)   # -coverage makes TLC run out of memory on the 20-byte literals
        tallies[name], stats[name] = replay(ctx, res, r, name, binary)

    # ---- vacuity guards
    lay, c1, c2 = tallies["eof_layout"], tallies["eof_code1"], tallies["eof_code2"]
    need = []
    for k in ("decode:ok", "decode:error", "decode:either", "dangling:ok:rest", "dangling:error",
              "name:prefix:ok", "name:prefix:error", "name:trailing_byte:ok", "name:trailing_byte:error",
              "name:code_size+1:ok", "name:code_size+1:error", "name:subs_size_u32:error", "name:zero_codes:error"):
        if not lay.get(k):
            need.append("layout " + k)
    for nm, t in (("code1", c1), ("code2", c2)):
        for k in ("init:accept", "init:reject", "runtime:accept", "runtime:reject"):
            if not t.get(k):
                need.append(nm + " " + k)
    if not c1.get("plain_init:True") or not c1.get("plain_runtime:True") or not c1.get("init:unknown"):
        need.append("code1 plain/unknown containers")
    for nm in ("eof_code1", "eof_code2"):
        st = stats[nm]
        if not any(k.startswith("exec_runtime_") for k in st) or not any(k.startswith("exec_init_") for k in st):
            need.append(nm + " executions of accepted containers")
    if not any(k.startswith("exec_init_success") for k in stats["eof_code1"]):
        need.append("a creation transaction of an accepted initcode container that succeeds (planned nests)")
    if need and not res.violations:
        # (with violations present the guards may fail as a consequence: report the violations instead)
        raise vf.ToolError("vacuous: missing %s" % need)
    res.exhaustive = True
    res.extra["cases"] = {n: {k: v for k, v in t.items() if not k.startswith("name:")} for n, t in tallies.items()}
    res.extra["writings"] = sorted({k.split(":")[1] for k in lay if k.startswith("name:")})
    res.extra["harness_counts"] = stats
    res.assumptions += [
        "PARTIAL: the validator's accept set is specified only for straight-line code without sub-containers; outside "
        "that fragment revm's own verdict selects which containers are executed",
        "'validation accepts => execution is safe' is exercised on the enumerated and planned containers only (small), "
        "not proved; execution is judged for panics only, with 3 calldata values x 5 gas limits per accepted container",
        "a section with inputs > max_stack_height may be rejected by decoding or by validation",
        "layout = the EIP revision implemented by this revm (2-byte container sizes, kind_data 0x04)"]
    return res
