"""C14 -- GasSchedule.tla: the case table of the gas schedule replayed on revm_interpreter::gas::*,
plus the SSTORE sequence machine (net-metering invariants) and the schedule-wide ASSUMEs."""
import json
import time

import vf

READY = True
SERVES = {
    "C14": dict(
        technique="TLA+ spec GasSchedule.tla (every price as an operator of (hardfork, arguments), written from the Yellow Paper and the EIPs) evaluated by TLC into a case table; every case executed on the real functions of revm_interpreter::gas and the returned value compared (spec->impl conformance); TLC also checks invariants of the table, the net-metering invariants of SSTORE sequences and schedule-wide ASSUMEs",
        level="TLC enumerates the full cross product of the argument classes of the property (SSTORE cost and refund for every original/present/new relation x cold/warm x gas-left around the 2300 sentry; SLOAD; CALL for value x dead x cold x delegation; SELFDESTRUCT for had-value x target-exists x cold x previously-destroyed; memory sizes 0..64 words and the words around the quadratic ticks; copy/keccak/log/create2/initcode/per-word prices for boundary lengths; EXP for exponents of every byte length 0..32; intrinsic and floor gas for calldata byte mixes x access lists x authorization lists x create/call; all named constants) x all 21 SpecIds including the alias forks, and for each case prints the value prescribed by the EIPs; the harness calls the real function with exactly these arguments and the results are compared for equality. Any change of a price, a fork gate, an operand or a constant that alters the result for one enumerated argument class is detected. Arguments are < 2^31 except the closed-form cases at lengths 2^64-k, 2^61-k and memory sizes 2^e.",
        note="Trusted: GasSchedule.tla as the statement of the EIP formulas; the adapter harness/src/bin/gassched.rs (argument construction, Some/None projection; memory_gas saturating at u64::MAX is read as failure). The clause 'reports failure exactly when the true value does not fit in 64 bits' is covered only at the closed-form points near 2^64 (TLC integers are 32-bit); general lengths between 2^31 and 2^64 are not explored. CONSTANTINOPLE is priced like PETERSBURG (EIP-1283 never ran on mainnet). Delegation cases only from Prague, access lists only from Berlin, authorization lists only from Prague and only for calls (earlier forks reject such transactions before pricing). BALANCE/EXTCODESIZE/EXTCODEHASH prices are inlined in the instructions and are bound by the opcode engine, not here.",
        ref="DESIGN.md section 3, C14"),
}

FUNCS = ["sstore_cost", "sstore_refund", "sload_cost", "call_cost", "selfdestruct_cost", "warm_cold_cost",
         "warm_cold_cost_with_delegation", "memory_gas", "memory_gas_for_len", "num_words", "cost_per_word",
         "verylowcopy_cost", "extcodecopy_cost", "keccak256_cost", "log_cost", "create2_cost", "initcode_cost",
         "exp_cost", "calculate_initial_tx_gas", "get_tokens_in_calldata", "calc_tx_floor_cost", "const"]
# functions of the fork: every one of the 21 SpecIds must occur
PER_FORK = ["sstore_cost", "sstore_refund", "sload_cost", "call_cost", "selfdestruct_cost", "extcodecopy_cost",
            "exp_cost", "calculate_initial_tx_gas"]
NFORKS = 21


def consts(quick):
    s = vf.tla_set
    if quick:
        return dict(
            Vals=s([0, 1, 2]), GasLefts=s([2299, 2300, 2301, 100000]),
            Lens=s([0, 1, 31, 32, 33, 63, 64, 65, 1024, 1025, 1 << 20, (1 << 20) + 1, 1 << 24]),
            Words="(0..64) \\cup " + s([724, 725, 1023, 1024, 1025, 32768, 46340, 46341, 65536, 1000000, 1040000]),
            Exps="(0..2) \\cup " + s([255, 256, 257, 65535, 65536, 16777215, 16777216, 2147483647]),
            ExpBits=s([0, 1, 7, 8, 9, 15, 16, 63, 64, 65, 127, 128, 247, 248, 249, 255, 256]),
            ZeroBytes=s([0, 1, 5]), NonZeroBytes=s([0, 1, 7]), KeyCounts="0..3", MaxAddrs=2, MaxAuths=2,
            Multiples=s([1, 2, 3, 6]),
            HiKs=s([1, 2, 31, 32, 33, 46, 47, 63, 64, 65, 234, 235]),
            HiExps=s([5, 16, 31, 32, 36, 37, 40, 63]),
            MaxSeq=4)
    return dict(
        Vals=s([0, 1, 2, 3]), GasLefts=s([0, 1, 2299, 2300, 2301, 2302, 5000, 100000, 2147483647]),
        Lens="(0..2100) \\cup " + s([1 << 15, (1 << 15) + 1, 1 << 20, (1 << 20) - 1, (1 << 20) + 1, 1 << 24, (1 << 24) + 33]),
        Words="(0..6000) \\cup " + s([32768, 46340, 46341, 65535, 65536, 65537, 1000000, 1040000, 1040001]),
        Exps="(0..1100) \\cup (65000..66000) \\cup " + s([16777215, 16777216, 2147483647]),
        ExpBits="0..256",
        ZeroBytes="0..6", NonZeroBytes="0..8", KeyCounts="0..3", MaxAddrs=3, MaxAuths=3,
        Multiples=s([0, 1, 2, 3, 6, 8, 200]),
        HiKs="(1..130) \\cup " + s([234, 235, 1000, 65536]),
        HiExps="5..63",
        MaxSeq=6)


def run(ctx, pid):
    res = vf.Result()
    res.rule = ("one case per (function, SpecId, argument tuple) of the case table of GasSchedule.tla (full cross "
                "product of the argument classes, all 21 SpecIds); distinct = distinct CASE lines; plus every state "
                "of the SSTORE sequence machine")
    c = consts(ctx.quick)
    binary = vf.cargo_build("gassched")

    # 1. the case table (every initial state is one case; TableInv on each; ASSUMEs at startup)
    tab = vf.tlc(ctx, "GasSchedule", vf.cfg(c, invariants=["TableInv"]), name="gassched_table", workers=4,
                 timeout=1500, coverage=False)
    cases = tab.lines.get("CASE", [])
    if not cases:
        raise vf.ToolError("vacuous: GasSchedule.tla printed no CASE line")
    if tab.distinct != len({json.dumps(k, sort_keys=True) for k in cases}):
        raise vf.ToolError("case table: %d CASE lines but %d distinct states" % (len(cases), tab.distinct))
    seen = {}
    for k in cases:
        seen.setdefault(k["f"], set()).add(k["name"])
    missing = [f for f in FUNCS if f not in seen]
    if missing:
        raise vf.ToolError("vacuous: functions without a case: %s" % missing)
    short = [f for f in PER_FORK if len(seen[f]) != NFORKS]
    if short:
        raise vf.ToolError("vacuous: functions not asked for every SpecId: %s" % short)

    inp = vf.write_ndjson(ctx.path("replay", "gassched.in.ndjson"), cases)
    outp = ctx.path("replay", "gassched.out.ndjson")
    t0 = time.time()
    vf.vh(binary, ["cases", inp, outp])
    lines = [json.loads(l) for l in open(outp) if l.strip()]
    summ = [l for l in lines if l.get("kind") == "summary"]
    if not summ:
        raise vf.ToolError("harness produced no summary")
    summ = summ[-1]
    if summ["cases"] != len(cases) or summ["ok"] + summ["root"] != len(cases):
        raise vf.ToolError("harness judged %s of %d cases" % (summ, len(cases)))
    res.traces += summ["cases"]
    res.evaluations += summ["cases"]
    res.add_tlc(tab)
    res.engines.append({"engine": "gassched_table", "tlc_distinct": tab.distinct, "replayed": summ["cases"],
                        "ok": summ["ok"], "root_mismatches": summ["root"], "panics": summ.get("panics"),
                        "ops": summ["ops"], "tlc_wall_s": round(tab.wall, 1),
                        "replay_wall_s": round(time.time() - t0, 1)})
    for m in lines:
        if m.get("kind") != "mismatch":
            continue
        k = m["case"]
        what = "%s(%s, %s): the schedule prescribes %s, the implementation returned %s (%d case(s) with this signature)" % (
            k["f"], k["name"], json.dumps(k["args"]), json.dumps(k["expect"]), json.dumps(m["got"]),
            summ["sigs"].get(m["sig"], 1))
        res.violation("gassched|" + m["sig"], what,
                      {"engine": "gassched", "mode": "cases", "vh_args": [], "features": "", "edge": k,
                       "observed": m["got"], "diff": m["diff"]})
    for it in cases[:: max(1, len(cases) // 3)][:3]:
        res.sample({"engine": "gassched", "case": it})

    # 2. SSTORE sequences: net-metering invariants of the specification itself
    seq = vf.tlc(ctx, "GasSchedule", vf.cfg(c, init="SeqInit", next="SeqNext", view="SeqView", invariants=["SeqInv"]),
                 name="gassched_seq", workers=4, timeout=1500, coverage=False)
    if seq.distinct < 21 * 3 * 2 * 4:
        raise vf.ToolError("SSTORE sequence machine explored only %d states" % seq.distinct)
    res.add_tlc(seq)
    res.engines.append({"engine": "gassched_seq", "tlc_distinct": seq.distinct, "tlc_generated": seq.generated,
                        "tlc_wall_s": round(seq.wall, 1)})
    res.extra["cases_per_function"] = summ["ops"]
    res.exhaustive = True
    res.assumptions += [
        "arguments and results below 2^31, plus closed-form points at lengths 2^64-k, 2^61-k and memory sizes 2^e",
        "memory_gas == u64::MAX is read as 'failure' (the function has no other failure channel)",
        "CONSTANTINOPLE priced as PETERSBURG (EIP-1283 excluded)",
        "delegation only from Prague; access lists only from Berlin; authorization lists only from Prague and only for calls",
    ]
    return res
