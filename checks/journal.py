"""C06 (and journal-level C07/C08/C34) -- Journal.tla: snapshot semantics of checkpoints, exhaustive
edge dump replayed on revm::JournaledState."""
import json
import vf

READY = True
SERVES = {
    "C06": dict(
        technique="TLA+ spec Journal.tla (checkpoint = snapshot, revert = restore) model-checked by TLC; every (state, operation) edge replayed on revm::JournaledState with the full projected journaled state compared after each operation",
        level="TLC enumerates every state of the journal specification reachable within the history bound for several small universes (3 addresses incl. the RIPEMD precompile and an address absent from the database, 2 slots, balances scaled so that the model's cap is 2^256, nonces adjacent to u64::MAX) and three rule sets (pre-Spurious-Dragon, London, Cancun), checks RevertRestores / CommitKeeps / conservation / sticky-warm as properties of the specification, and prints every edge; the harness replays each edge on the real JournaledState and compares balances, nonces, code, flags (touched/created/destroyed/cold/dead), per-slot present/original/cold, transient storage, logs, depth and each operation's return value.",
        note="Trusted: Journal.tla; the projection in harness/src/bin/journal.rs; the value embeddings (balance v -> v<<254 or v, storage v -> v*(2^192+7), nonce near NBig -> near u64::MAX). Documented preconditions of the API are enabling conditions (account loaded before inc_nonce/set_code/sload/sstore/selfdestruct/create; caller balance checked before create). After a failed transfer the intermediate state is not judged; the state after the enclosing revert is. Self-destruct credits that would exceed 2^256 are outside the domain.",
        ref="DESIGN.md section 3 C06, appendix D"),
}

ALL_OPS = ["load_account", "load_code", "initial_account_load", "touch", "inc_nonce", "set_code", "transfer",
           "sload", "sstore", "tload", "tstore", "log", "selfdestruct", "checkpoint", "checkpoint_commit",
           "checkpoint_revert", "create_account_checkpoint", "finalize"]
CP = ["checkpoint", "checkpoint_commit", "checkpoint_revert"]
THEMES = {
    # name: (operations, Values, Val, Addr, Slot)
    "balance": (CP + ["load_account", "transfer", "selfdestruct", "create_account_checkpoint", "inc_nonce", "touch"], [0, 1, 2], [0], [3, 16, 17], [0, 1]),
    "storage": (CP + ["load_account", "initial_account_load", "sload", "sstore", "create_account_checkpoint", "tstore", "tload"], [0], [0, 1], [3, 16, 17], [0, 1]),
    "misc": (CP + ["load_code", "set_code", "log", "tstore", "touch", "finalize", "inc_nonce", "selfdestruct"], [0], [0, 1], [3, 16, 17], [0, 1]),
    "nested": (CP + ["load_account", "transfer", "sstore", "tstore", "log", "inc_nonce"], [1], [0, 1], [16, 17], [0]),
    "nested2": (CP + ["load_account", "sstore", "tstore", "inc_nonce"], [1], [0, 1], [16], [0]),
    "sd2": (CP + ["load_account", "selfdestruct", "transfer"], [1], [0], [16, 17], [0]),
    "all": (ALL_OPS, [0, 1, 2], [0, 1, 2], [3, 16, 17], [0, 1]),
}
DBS = {
    "A": {3: dict(ex=True, bal=1, nonce=0, code=0, stor={0: 0, 1: 0}),
          16: dict(ex=True, bal=3, nonce=1, code=1, stor={0: 1, 1: 0}),
          17: dict(ex=False, bal=0, nonce=0, code=0, stor={0: 0, 1: 0})},
    "B": {3: dict(ex=False, bal=0, nonce=0, code=0, stor={0: 0, 1: 0}),
          16: dict(ex=True, bal=2, nonce=99, code=0, stor={0: 0, 1: 2}),
          17: dict(ex=True, bal=1, nonce=0, code=0, stor={0: 0, 1: 0})},
}
RULES = {"HOMESTEAD": (False, False), "LONDON": (True, False), "CANCUN": (True, True)}


def tla_db(db):
    def acc(r):
        stor = " @@ ".join("(%d :> %d)" % (k, v) for k, v in r["stor"].items())
        return "[ex |-> %s, bal |-> %d, nonce |-> %d, code |-> %d, stor |-> (%s)]" % (
            "TRUE" if r["ex"] else "FALSE", r["bal"], r["nonce"], r["code"], stor)
    return " @@ ".join("(%d :> %s)" % (a, acc(r)) for a, r in db.items())


def one(ctx, res, binary, name, dbname, rule, theme, maxhist, bshift, workers=8, sim=0, maxdepth=2, simtheme="all"):
    db = DBS[dbname]
    sd, cancun = RULES[rule]
    ops, values, vals, addrs, slots = THEMES[simtheme if sim else theme]
    db = {a: dict(r, stor={k: v for k, v in r["stor"].items() if k in slots}) for a, r in db.items() if a in addrs}
    consts = dict(Addr=vf.tla_set(addrs), Slot=vf.tla_set(slots), Val=vf.tla_set(vals),
                  # balances are embedded as v << bshift: with 254, Cap = 4 is 2^256 (overflow); without a shift nothing overflows
                  Cap=4 if bshift == 254 else 1000, NBig=100, Db=tla_db(db),
                  PreWarm=vf.tla_set([a for a in addrs if a == 3]), SD="TRUE" if sd else "FALSE", CANCUN="TRUE" if cancun else "FALSE",
                  Codes="{2}", Values=vf.tla_set(values), MaxDepth=maxdepth, MaxHist=maxhist, OverwriteCode="FALSE",
                  Sim="TRUE" if sim else "FALSE",
                  Ops="{" + ", ".join('"%s"' % o for o in ops) + "}")
    cfgp = ctx.path("journal", name + ".json")
    json.dump(dict(addr=addrs, slot=slots, bshift=bshift, nbig=100, spec=rule, prewarm=[a for a in addrs if a == 3],
                   db={str(a): dict(r, stor={str(k): v for k, v in r["stor"].items()}) for a, r in db.items()}),
              open(cfgp, "w"))
    if sim:
        run = vf.tlc(ctx, "Journal", vf.cfg(consts, invariants=["TypeOK", "NoEtherCreated", "StickyNeverCold", "PrintReplay"]),
                     name=name, workers=workers, timeout=600, simulate=sim, depth=maxhist + 1, stream=("REPLAY",),
                     max_lines=sim)
        return vf.replay_edges(ctx, res, run, "journal", ["cfg=" + cfgp], name=name, binary=binary,
                               mode="behaviours", prefix="REPLAY", keyprefix="journal")
    run = vf.tlc(ctx, "Journal", vf.cfg(consts, invariants=["TypeOK", "NoEtherCreated", "StickyNeverCold"],
                                         properties=["RevertRestores", "CommitKeeps", "EtherOnlyBurntBySelfdestruct"]),
                 name=name, workers=workers, timeout=2400, stream=("EDGE",), xmx="12g")
    return vf.replay_edges(ctx, res, run, "journal", ["cfg=" + cfgp], name=name, binary=binary,
                           expect_ops=ops, keyprefix="journal")


def run(ctx, pid):
    res = vf.Result()
    res.rule = ("every (state, operation) edge of Journal.tla within MaxHist operations, per (database, rule set, "
                "operation theme, balance embedding) configuration, plus random behaviours of the full operation "
                "set (TLC simulation); distinct = distinct edges / behaviours")
    binary = vf.cargo_build("journal")
    rules = list(RULES)
    if ctx.quick:
        r0 = rules[ctx.seed % 3]
        plan = [("A", "LONDON", "balance", 4, 254), ("A", "CANCUN", "storage", 3, 254),
                ("B", "HOMESTEAD", "balance", 3, 0), ("B", r0, "misc", 4, 254), ("A", r0, "nested", 5, 254),
                ("A", r0, "nested2", 8, 254), ("A", ["LONDON", "CANCUN", "HOMESTEAD"][ctx.seed % 3], "sd2", 6, 0)]
        sims = [("A", "CANCUN", 1500, 14, "all"), ("B", "HOMESTEAD", 1500, 14, "all"), ("A", r0, 2500, 12, "nested2")]
    else:
        plan = [(d, r, t, 4, b) for d in "AB" for r in RULES for t in ("balance", "storage", "misc") for b in (254,)]
        plan += [("A", "LONDON", "balance", 5, 0), ("B", "CANCUN", "nested", 6, 254), ("A", "HOMESTEAD", "nested", 6, 254),
                 ("A", "CANCUN", "nested2", 9, 254), ("B", "LONDON", "nested2", 9, 254)]
        plan += [("A", r, "sd2", 7, 0) for r in RULES]
        sims = [(d, r, 15000, 16, "all") for d in "AB" for r in RULES] + [("A", r, 20000, 14, "nested2") for r in RULES]
    for d, r, t, h, b in plan:
        one(ctx, res, binary, "j_%s_%s_%s_%d_%d" % (d, r, t, h, b), d, r, t, h, b, maxdepth=3 if t == "nested2" else 2)
    # random behaviours judge whole histories step by step: they distinguish histories that reach the
    # same abstract state through different journal shapes (e.g. a write inside a committed inner checkpoint)
    for d, r, n, depth, th in sims:
        one(ctx, res, binary, "jsim_%s_%s_%s" % (d, r, th), d, r, "all", depth, 254, sim=n, maxdepth=4, simtheme=th)
    res.exhaustive = True
    res.assumptions += ["documented API preconditions are enabling conditions of the model",
                        "after a failed transfer only the state after the enclosing revert is judged",
                        "self-destruct credits exceeding 2^256 and a second creation of the same address are outside the domain",
                        "set_code over existing code inside a checkpoint is outside the main domain"]
    return res
