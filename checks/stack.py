"""C12 -- Stack.tla: (a) the LIFO laws on the specification alone with Limit = 4, (b) with the real
limit 1024 every (state, operation) edge within MaxHist operations of a pre-filled stack replayed on
revm_interpreter::Stack."""
import vf

READY = True
SERVES = {
    "C12": dict(
        technique="TLA+ spec Stack.tla model-checked by TLC; every (state, operation) edge of the model with Limit = 1024 replayed on revm_interpreter::Stack and the projected stack and result compared (spec->impl conformance)",
        level="TLC checks the property's clauses on the specification itself: the height bound, that an error leaves the stack unchanged, which result is reported as a function of the words an operation needs and the growth it causes, the algebraic LIFO laws relating push/pop/peek/set/dup/swap/exchange/multi-pop/push_slice, and (as an ASSUME evaluated for every slice length used) byte by byte that push_slice's words are the 32-byte big-endian chunks of the slice with a short last chunk zero-extended on the high-order side (the yellow paper's PUSHn). This is done exhaustively for Limit = 4 with histories up to 4 (thorough 5) operations and again on the Limit = 1024 model. For Limit = 1024 TLC enumerates every stack reachable by a pre-fill (or a deserialisation) to a height in {0,1,15,16,17,1022,1023,1024} (thorough: 15 heights) followed by up to two further operations (thorough additionally three in a reduced alphabet) out of push, push_b256, pop, peek, set, dup(n) and swap(n) for n in 1..17, 255..257, 1024, 1025, exchange(n,m), push_slice(len) for len in {0,1,31,32,33,64,65,32*1023,32*1024,32*1024+1,..}, the unchecked pop/top variants (only where their precondition holds), Display and deserialisation, and prints every edge with the expected result, returned words, height, top 20 words and a position-weighted checksum of the words below; the harness performs the same calls on the real Stack (whose spare capacity was dirtied first) and compares. Any change to stack.rs that alters a result class, a returned word or a word of data() on such a history is detected; embedded words have four different limbs and slice chunks are pairwise different, so a wrong limb, a wrong chunk, a wrong padding side or a missing zero-fill shows.",
        note="Trusted: Stack.tla as the statement of the property; the adapter harness/src/bin/stack.rs (embedding of model words as U256, the shared slice byte function). 'Last word right-padded with zeros' is read as the lead decided: the short last word is the big-endian number of the remaining bytes (zeros in the high-order bytes). The unchecked *_unsafe functions are exercised only under their documented precondition, dup/swap only with n >= 1 and exchange with m >= 1 (the documented panics are outside the contract), and dup(n > 1024) on a full stack (both errors apply) is not judged. Histories are short (pre-fill plus at most 3 operations); words below the top 20 are compared through a checksum mod 65521 (exact for one wrong word or one transposition). Not covered: data_mut/into_data, Serialize, Deserialize from size-hinting formats.",
        ref="DESIGN.md section 3, C12"),
}

OPS = ["prefill", "load", "push", "push_b256", "pop", "peek", "set", "dup", "swap", "exchange", "push_slice",
       "popn_unsafe", "popn_top_unsafe", "show"]
INV = ["Bounded", "Laws"]
BIGINV = ["Bounded", "LawsOnExpanded"]
PROPS = ["ErrorLeavesStackUnchanged", "HeightArithmetic"]
WINDOW = 20
L = 1024


def consts(**kw):
    c = dict(Limit=L, Window=WINDOW, PushVals=vf.tla_set([2001, 2002]))
    c.update({k: (vf.tla_set(v) if isinstance(v, (list, tuple)) else v) for k, v in kw.items()})
    return c


def run(ctx, pid):
    res = vf.Result()
    res.rule = ("every (state, operation) edge of Stack.tla: Limit = 4 on the specification alone; Limit = 1024 from a "
                "pre-filled height within MaxHist operations, replayed on revm_interpreter::Stack; distinct = distinct edges")
    binary = vf.cargo_build("stack")

    # (a) the laws, small limit, deeper histories, specification only (the real limit is 1024).
    small = dict(Limit=4, Window=3, PushVals=vf.tla_set([2001, 2002]), Heights=vf.tla_set([0, 1, 3, 4]),
                 Ns=vf.tla_set([1, 2, 3, 4, 5]), Is=vf.tla_set([0, 1, 3, 4]), ExN=vf.tla_set([0, 1, 2]),
                 ExM=vf.tla_set([1, 2, 3]), SliceLens=vf.tla_set([0, 1, 31, 32, 33, 64, 65, 96, 127, 128, 129]),
                 MaxHist=4 if ctx.quick else 5)
    r = vf.tlc(ctx, "Stack", vf.cfg(small, next="Steps", constraint="HistBound", invariants=BIGINV, properties=PROPS), name="stack_laws", workers=6,
               xss="1g", keep=())
    res.states += r.distinct
    res.transitions += r.generated
    res.extra["laws_limit4"] = {"distinct": r.distinct, "generated": r.generated, "wall_s": round(r.wall, 1)}
    if r.distinct < 100:
        raise vf.ToolError("vacuous: the Limit=4 model has only %d states" % r.distinct)

    # (b) conformance at the real limit.
    lens = [0, 1, 31, 32, 33, 64, 65, 32 * 1023, 32 * 1024, 32 * 1024 + 1]
    heights = [0, 1, 15, 16, 17, 1022, 1023, 1024]
    runs = []
    if ctx.quick:
        runs.append(("stack_1024", consts(
            Heights=heights, Ns=list(range(1, 18)) + [255, 256, 257, 1024, 1025],
            Is=[0, 1, 15, 16, 17, 1022, 1023, 1024], ExN=[0, 1, 2, 8, 15, 16], ExM=[1, 2, 15, 16],
            SliceLens=lens, MaxHist=3), BIGINV))
    else:
        runs.append(("stack_1024", consts(
            Heights=[0, 1, 2, 15, 16, 17, 18, 33, 34, 257, 258, 1008, 1022, 1023, 1024],
            Ns=list(range(1, 19)) + [32, 33, 255, 256, 257, 1023, 1024, 1025],
            Is=[0, 1, 2, 15, 16, 17, 31, 32, 33, 255, 256, 1021, 1022, 1023, 1024, 1025],
            ExN=[0, 1, 2, 3, 7, 8, 14, 15, 16], ExM="1..16",
            SliceLens=lens + [2, 8, 9, 63, 95, 96, 97, 32 * 1022 + 5], MaxHist=3), BIGINV))
        runs.append(("stack_1024_deep", consts(
            Heights=[0, 1, 16, 17, 1022, 1023, 1024], Ns=[1, 2, 16, 17, 256], Is=[0, 1, 16, 1023],
            ExN=[0, 1, 16], ExM=[1, 16], SliceLens=[0, 1, 32, 33, 65, 32 * 1023, 32 * 1024 + 1], MaxHist=4),
            ["Bounded"]))
    for name, c, inv in runs:
        run_ = vf.tlc(ctx, "Stack", vf.cfg(c, next="Steps", constraint="HistBound", invariants=inv, properties=PROPS), name=name, workers=6, xss="1g",
                      timeout=1500)
        slens = c["SliceLens"].strip("{}").replace(" ", "")
        summ = vf.replay_edges(ctx, res, run_, "stack", ["window=%d" % WINDOW, "lens=" + slens], name=name,
                               binary=binary, expect_ops=OPS)
        # every history is itself a sequence of edges of the dump, so an edge can only be tainted below a
        # root mismatch; tainted edges without one mean the replay itself broke (nothing was judged).
        if summ.get("tainted") and not summ.get("root"):
            raise vf.ToolError("%s: %d tainted edges but no root mismatch (history replay panics?)" % (name, summ["tainted"]))
        run_.lines.clear()
    res.exhaustive = True
    res.assumptions += ["histories are a pre-fill (or deserialisation) to a chosen height followed by at most MaxHist-1 operations",
                        "unchecked *_unsafe functions only under their documented precondition; dup/swap n >= 1, exchange m >= 1",
                        "words below the top 20 are compared through a position-weighted checksum mod 65521"]
    return res
