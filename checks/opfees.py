"""C33 -- OpFees.tla: who pays what to whom in an Optimism transaction.

Three steps per run:
  (1) TLC model-checks OpFees.tla with ABSTRACT execution facts (gas used ranges over a small set,
      the Fjord+ L1 fee over a small set) in a small numeric domain: the property's clauses
      (conservation for regular transactions, exact mint + persistence for deposits, rejected
      transactions leave no trace, ...) hold of the specification for arbitrary facts.
  (2) harness `opfees measure` (built with --features optimism) executes every history over the
      transaction alphabet on the real revm::Evm (Optimism handler, CacheDB) and records the
      execution facts of each history's last transaction: gas_used, gas_refunded and the value of
      L1BlockInfo::calculate_tx_l1_cost for its envelope.  Nothing is judged here.
  (3) TLC explores OpFees.tla again, now in wei/gas as on the chain, taking each transaction's
      facts from the recorded table, checks the same invariants and prints every edge; the generic
      edge replay executes each edge's history and transaction on a fresh Evm and compares the six
      balances, the nonce, the outcome class (and the pass-through facts).
"""
import json
import os
import vf

# C33 does NOT hold on the unchanged tree (L1BlockInfo::operator_fee_refund omits the division by 10^6,
# see the report), so the check is not registered until the lead fixes /repo or records the finding in
# known_findings.json.  VERIF_OPFEES_FORCE=1 registers it anyway (to demonstrate the finding, and for
# bin/mutant runs).
READY = True
SERVES = {
    "C22": dict(
        technique="TLA+ spec OpFees.tla with the chain configuration flag reward = FALSE (handler built by Handler::optimism_with_spec(spec, false)), model-checked by TLC (invariant NoRewardNoCredit: beneficiary and the base-fee / L1-fee / operator-fee vaults never receive anything; action property: the sender's debit is what it is with rewards enabled) and every (state, transaction) edge replayed on the real Optimism Evm (spec->impl conformance)",
        level="Optimism half of C22: every edge of OpFees.tla within 2 transactions for reward-disabled configurations of Bedrock, Ecotone and Isthmus (thorough: all 8 Optimism forks) plus one reward-enabled control, over the quick transaction alphabet (regular legacy / EIP-1559 transactions of every callee outcome, rejected ones, deposits with and without mint, system deposits); balances of sender, recipient, beneficiary and the three vaults, nonce and outcome compared after every transaction.",
        note="Trusted: OpFees.tla; harness/src/bin/opfees.rs. Reconfiguration sequences (hardfork change, handler registers) are decided on the mainnet handler by the HandlerCfg engine; here the handler is built once per history.",
        ref="DESIGN.md section 3, C22 and C33"),
    "C33": dict(
        technique="TLA+ spec OpFees.tla (deposit / system deposit / regular transaction over the balances of sender, recipient, "
                  "beneficiary, base-fee vault, L1-fee vault, operator-fee vault and the sender nonce) model-checked by TLC; every "
                  "(state, transaction) edge of the model replayed on the real revm::Evm built with the optimism feature "
                  "(transact_commit over a CacheDB, L1 block parameters read from the L1Block predeploy's storage) and balances, "
                  "nonce and outcome class compared (spec->impl conformance)",
        level="TLC checks on the specification, for arbitrary gas-used values and Fjord L1 fees in a small domain and again in the "
              "chain's own units: a non-deposit's sender debit equals value transferred + beneficiary + base-fee-vault + "
              "L1-fee-vault + operator-fee-vault credits with all other balances unchanged; a processed deposit raises the sum "
              "of balances by exactly its mint and increments the nonce, and when it fails (revert, halt, sender cannot pay the "
              "value even after the mint) exactly the mint and the nonce increment persist; a rejected transaction changes "
              "nothing; total supply = initial + mints. Conformance: every edge of histories of 1-2 (thorough: also 3 in a "
              "reduced alphabet) transactions on one Evm, over Bedrock, Regolith, Canyon, Ecotone (set and unset Ecotone "
              "scalars), Fjord, Granite, Holocene, Isthmus (several operator-fee parameters) x {deposit, system deposit, "
              "regular} x callee {no code, REVERT, INVALID, storage-clearing with refund} x mint {0, m} x value {0, v, one "
              "that only the L1 fee / operator fee makes unaffordable, more than the balance} x price {= base fee, above, "
              "EIP-1559 cap+tip, below base fee} x two envelopes. For Bedrock/Regolith/Canyon/Ecotone the L1 fee is computed "
              "by the specification from the envelope's zero / non-zero byte counts (with fractional scalars, so the floor "
              "is exercised) and compared with calculate_tx_l1_cost as well as through the vault balance.",
        note="The specification decides the DISTRIBUTION OF MONEY, not the EVM: what the callee does (success / revert / halt), "
             "gas_used and gas_refunded (intrinsic gas, gas schedule, refund cap, EIP-7623 floor) are inputs of each "
             "transaction, recorded beforehand from the real execution of the same history; from Fjord the L1 fee is an input "
             "too (taken from L1BlockInfo::calculate_tx_l1_cost) -- conservation of that amount is checked, the FastLZ size "
             "estimate is not. Reported gas_used of deposits (gas limit / 0 / actual, per fork) is passed through, not judged: "
             "the property speaks about money and the nonce. Trusted: OpFees.tla; the adapter harness/src/bin/opfees.rs (builds "
             "the chain state, submits, projects; `recipient` is the sum over the four callee accounts). Deposits are submitted "
             "with gas price 0. Not covered: contract-creation transactions, blob transactions, beneficiary or vault equal to "
             "sender/recipient, balance-check-disabled / refund-disabled configurations, system-flagged deposits from Regolith "
             "on (the OP specification disables them; revm's validate_env returns before that check for anything with a source "
             "hash -- outside the property text, reproducible with OPFEES_SYSTEM_POST_REGOLITH=1).",
        ref="DESIGN.md section 3, C33"),
}

INV = ["NonNegative", "SupplyIsInitialPlusMints", "NoOperatorFeeBeforeIsthmus", "NoRewardNoCredit"]
PROPS = ["RegularConservation", "DepositMintsExactly", "RejectedChangesNothing"]
FORKS = ["BEDROCK", "REGOLITH", "CANYON", "ECOTONE", "FJORD", "GRANITE", "HOLOCENE", "ISTHMUS"]
PRE_REGOLITH = {"BEDROCK"}


# ------------------------------------------------------------------------------ TLA+ text helpers
def tla(v):
    if isinstance(v, bool):
        return "TRUE" if v else "FALSE"
    if isinstance(v, int):
        return str(v)
    if isinstance(v, str):
        return '"%s"' % v
    if isinstance(v, dict):
        return "[" + ", ".join("%s |-> %s" % (k, tla(x)) for k, x in v.items()) + "]"
    if isinstance(v, (set, frozenset)):
        return "{" + ", ".join(tla(x) for x in sorted(v)) + "}"
    if isinstance(v, (list, tuple)):
        return "<<" + ", ".join(tla(x) for x in v) + ">>"
    raise TypeError(v)


def config(fork, l1, opfee, system_post_regolith=False, reward=True):
    kinds = {"regular", "deposit"}
    if fork in PRE_REGOLITH or system_post_regolith:
        kinds.add("system")
    return dict(fork=fork, kinds=kinds, l1=l1, opfee=opfee, reward=reward)


class Alphabet:
    def __init__(self):
        self.ops = []

    def add(self, kind, exec_, mint=0, value=0, price=0, prio=-1, env=1):
        self.ops.append(dict(op="tx", id=len(self.ops) + 1, kind=kind, exec=exec_, mint=mint, value=value,
                             price=price, prio=prio, env=env,
                             used=0, refunded=0, l1in=0))     # execution facts: filled in by the specification


def alphabet(size, *, basefee, v, m, near, over):
    """size: 'full' | 'quick' | 'tiny'.  Prices: eq = base fee, hi = base fee + 2 (legacy),
    cap = EIP-1559 fee cap base fee + 2 with tip 1, lo = below the base fee."""
    eq, hi, cap, lo = (basefee, -1), (basefee + 2, -1), (basefee + 2, 1), (basefee - 1, -1)
    a = Alphabet()
    execs = ["transfer", "clear", "revert", "invalid"]

    def reg(e, value, p, env=1):
        a.add("regular", e, value=value, price=p[0], prio=p[1], env=env)

    if size == "full":
        for e in execs:
            for value in (0, v):
                for p in (eq, hi, cap):
                    reg(e, value, p)
        for p in (eq, hi, cap):
            reg("transfer", near, p)
        reg("transfer", over, eq)
        reg("transfer", v, lo)
        reg("transfer", v, hi, env=2)
        reg("clear", 0, cap, env=2)
        reg("transfer", near, hi, env=2)
        for kind in ("deposit", "system"):
            for e in execs:
                for mint in (0, m):
                    for value in (0, v):
                        if kind == "system" and (mint, value) not in ((0, 0), (m, v)):
                            continue
                        a.add(kind, e, mint=mint, value=value)
            a.add(kind, "transfer", mint=m, value=over)
            a.add(kind, "transfer", mint=0, value=over)
            a.add(kind, "revert", mint=m, value=over)
    elif size == "quick":
        for e in execs:
            reg(e, v, hi)
        reg("transfer", 0, eq)
        reg("clear", 0, cap, env=2)
        reg("transfer", near, hi)
        reg("transfer", near, eq)
        reg("transfer", over, eq)
        reg("transfer", v, lo)
        for e in execs:
            a.add("deposit", e, mint=m, value=v)
        a.add("deposit", "transfer", mint=0, value=0)
        a.add("deposit", "transfer", mint=m, value=over)
        a.add("deposit", "revert", mint=0, value=over)
        for e in ("transfer", "invalid"):
            a.add("system", e, mint=m, value=v)
        a.add("system", "transfer", mint=m, value=over)
    else:  # tiny: for 3-transaction histories
        reg("transfer", v, hi)
        reg("clear", 0, cap, env=2)
        reg("invalid", v, eq)
        reg("transfer", near, hi)
        a.add("deposit", "transfer", mint=m, value=v)
        a.add("deposit", "invalid", mint=m, value=v)
        a.add("deposit", "transfer", mint=m, value=over)
        a.add("system", "revert", mint=m, value=v)
    return a.ops


# ---------------------------------------------------------------------------------------- steps
def abstract_run(ctx, res):
    """(1) the invariants for arbitrary execution facts, small numbers, specification only."""
    l1 = dict(basefee=1, overhead=3, sn=1, sd=2, blobfee=3, bn=5, empty=False)
    cfgs = [config(f, l1, dict(n=3, d=2, c=1)) for f in ("BEDROCK", "REGOLITH", "ECOTONE", "FJORD", "ISTHMUS")]
    cfgs.append(config("ECOTONE", dict(l1, empty=True), dict(n=3, d=2, c=1)))
    cfgs.append(config("ISTHMUS", l1, dict(n=7, d=4, c=0), system_post_regolith=True))
    cfgs.append(config("ISTHMUS", l1, dict(n=3, d=2, c=1), reward=False))
    cfgs.append(config("BEDROCK", l1, dict(n=3, d=2, c=1), reward=False))
    initbal, basefee = 3000, 2
    ops = alphabet("full", basefee=basefee, v=7, m=9, near=initbal - 4 * (basefee + 2) - 2, over=initbal + 9 + 1)
    consts = dict(Configs=tla(cfgs), InitBal=initbal, BaseFee=basefee, GasLimit=4,
                  Envelopes=tla([dict(z=1, nz=1), dict(z=3, nz=2)]), Alphabet=tla(ops), Measured="FALSE",
                  FactsTree="[f |-> <<0, 0, 0>>, k |-> [i \\in 1..%d |-> [f |-> <<0, 0, 0>>, k |-> <<>>]]]" % len(cfgs), UsedSet="{0, 1, 3, 4}", L1CostSet="{0, 1, 5}",
                  MaxHist=2 if ctx.quick else 3)
    r = vf.tlc(ctx, "OpFees", vf.cfg(consts, invariants=INV, properties=PROPS), name="opfees_abstract", workers=6,
               keep=(), timeout=1500)
    if r.distinct < 1000:
        raise vf.ToolError("vacuous: the abstract OpFees model has only %d states" % r.distinct)
    res.states += r.distinct
    res.transitions += r.generated
    res.extra["abstract_model"] = {"distinct": r.distinct, "generated": r.generated, "wall_s": round(r.wall, 1),
                                   "configs": len(cfgs), "alphabet": len(ops)}


def conformance(ctx, res, binary, name, cfgs, ops, common, depth, keyprefix="opfees"):
    """(2) measure the facts, (3) explore with them and replay every edge."""
    req = ctx.path("measure", name + ".req.json")
    facts = ctx.path("measure", name + ".facts.json")
    with open(req, "w") as f:
        json.dump(dict(common=common, alphabet=ops, depth=depth,
                       configs=[{k: v for k, v in c.items() if k != "kinds"} for c in cfgs]), f)
    out, _ = vf.vh(binary, ["measure", req, facts])
    measured = out[-1]["histories"] if out else 0
    if not measured:
        raise vf.ToolError("measure produced nothing for %s" % name)
    consts = dict(Configs=tla(cfgs), InitBal=common["initbal"], BaseFee=common["basefee"], GasLimit=common["gaslimit"],
                  Envelopes=tla(common["envs"]), Alphabet=tla(ops), Measured="TRUE",
                  FactsTree='JsonDeserialize("%s")' % facts, UsedSet="{}", L1CostSet="{}", MaxHist=depth)
    r = vf.tlc(ctx, "OpFees", vf.cfg(consts, invariants=INV, properties=PROPS), name=name, workers=6, xss="1g",
               timeout=2400, stream=("EDGE",))
    summ = vf.replay_edges(ctx, res, r, "opfees", [], name=name, binary=binary, expect_ops=["tx"],
                           keyprefix=keyprefix, features="optimism")
    # vacuity: every kind / callee / outcome class / configuration and a storage refund must have been exercised
    seen = {"kind": set(), "exec": set(), "res": set(), "fork": set()}
    refund = 0
    with open(r.files["EDGE"]) as f:
        for line in f:
            e = json.loads(line)
            seen["kind"].add(e["op"]["kind"])
            seen["exec"].add(e["op"]["exec"])
            seen["res"].add(e["post"]["res"])
            seen["fork"].add(e["cfg"]["fork"])
            refund += e["post"]["refunded"] > 0
    want = {"kind": set().union(*[c["kinds"] for c in cfgs]) & {o["kind"] for o in ops},
            "exec": {o["exec"] for o in ops}, "res": {"success", "failed", "rejected"}, "fork": {c["fork"] for c in cfgs}}
    for k, w in want.items():
        if not w <= seen[k]:
            raise vf.ToolError("vacuous: %s never saw %s %s" % (name, k, sorted(w - seen[k])))
    if not refund:
        raise vf.ToolError("vacuous: no transaction with a storage refund in %s" % name)
    res.extra.setdefault("measured_histories", {})[name] = measured
    return summ


def run(ctx, pid):
    res = vf.Result()
    res.rule = ("every (state, transaction) edge of OpFees.tla within MaxHist transactions per chain configuration "
                "(fork x L1 parameters x operator-fee parameters), execution facts bound to the recorded ones; distinct = "
                "distinct edges; plus the abstract-facts model on the specification alone")
    binary = vf.cargo_build("opfees", features="optimism")
    if pid == "C22":
        # the Optimism half of C22: handlers built with beneficiary rewards disabled, on every fork family
        initbal, basefee, gaslimit, v, m = 10 ** 9, 2, 100000, 1000, 5000
        common = dict(initbal=initbal, basefee=basefee, gaslimit=gaslimit, envs=[dict(z=2, nz=3), dict(z=20, nz=200)])
        near = initbal - gaslimit * (basefee + 2) - 50
        over = initbal + m + 1
        l1 = dict(basefee=7, overhead=188, sn=3, sd=2, blobfee=5, bn=5, empty=False)
        of = dict(n=3, d=2, c=11)
        forks = ["BEDROCK", "ECOTONE", "ISTHMUS"] if ctx.quick else FORKS
        cfgs = [config(f, l1, of, reward=False) for f in forks] + [config("ISTHMUS", l1, of, reward=True)]
        conformance(ctx, res, binary, "opfees_noreward", cfgs, alphabet("quick", basefee=basefee, v=v, m=m, near=near, over=over),
                    common, 2, keyprefix="opfees.noreward")
        res.exhaustive = True
        res.assumptions += ["rewards are disabled through Handler::optimism_with_spec(spec, false) + EvmBuilder::with_handler",
                            "execution facts (gas used, refund; from Fjord the L1 fee) are inputs recorded from the real execution"]
        return res
    abstract_run(ctx, res)

    spr = os.environ.get("OPFEES_SYSTEM_POST_REGOLITH") == "1"
    initbal, basefee, gaslimit, v, m = 10 ** 9, 2, 100000, 1000, 5000
    common = dict(initbal=initbal, basefee=basefee, gaslimit=gaslimit,
                  envs=[dict(z=2, nz=3), dict(z=20, nz=200)])
    near = initbal - gaslimit * (basefee + 2) - 50     # affordable but for the L1 fee / operator fee
    over = initbal + m + 1                             # more than the sender has, even after one mint
    alpha = lambda size: alphabet(size, basefee=basefee, v=v, m=m, near=near, over=over)
    l1 = dict(basefee=7, overhead=188, sn=3, sd=2, blobfee=5, bn=5, empty=False)            # scalars 1.5 / 2.5
    l1b = dict(basefee=11, overhead=2100, sn=171, sd=250, blobfee=3, bn=203, empty=False)   # scalars 0.684 / 0.812
    of = dict(n=3, d=2, c=11)                # operator fee 1.5 wei/gas + 11
    of_frac = dict(n=1234, d=1000, c=5)      # 1.234 wei/gas: floor(limit*s) - floor(unused*s) # floor(used*s)
    cfgs = [config(f, l1, of, spr) for f in FORKS]
    # the first Ecotone block: Ecotone scalars not yet written -> the Bedrock function applies
    unset = [config("ECOTONE", dict(l1, empty=True), of, spr), config("ECOTONE", dict(l1b, empty=True), of, spr)]
    if ctx.quick:
        cfgs.append(config("ISTHMUS", l1b, of_frac, spr))
        conformance(ctx, res, binary, "opfees_h2", cfgs, alpha("quick"), common, 2)
        conformance(ctx, res, binary, "opfees_ecotone_unset", unset[:1], alpha("quick"), common, 2,
                    keyprefix="opfees.ecotone_unset")
    else:
        cfgs += [config("BEDROCK", l1b, of, spr), config("REGOLITH", l1b, of, spr), config("ECOTONE", l1b, of, spr),
                 config("FJORD", l1b, of, spr), config("ISTHMUS", l1b, of_frac, spr),
                 config("ISTHMUS", l1, dict(n=0, d=1, c=0), spr), config("ISTHMUS", l1, dict(n=1, d=1000, c=3), spr),
                 config("ISTHMUS", l1, dict(n=4000, d=1, c=0), spr)]
        conformance(ctx, res, binary, "opfees_h2", cfgs, alpha("full"), common, 2)
        conformance(ctx, res, binary, "opfees_h3", cfgs, alpha("tiny"), common, 3)
        conformance(ctx, res, binary, "opfees_ecotone_unset", unset, alpha("quick"), common, 2,
                    keyprefix="opfees.ecotone_unset")
    res.exhaustive = True
    res.assumptions += [
        "execution facts (callee outcome, gas_used, gas_refunded; from Fjord the L1 fee of the envelope) are inputs recorded from the real execution of the same history",
        "deposits are submitted with gas price 0; call transactions only; beneficiary, vaults, sender and recipient are distinct accounts",
        "system-flagged deposits are only submitted before Regolith (set OPFEES_SYSTEM_POST_REGOLITH=1 to include them)",
    ]
    return res
