"""C15..C19 -- Bundle.tla generates histories, harness/src/bin/bundle.rs records what revm's State /
BundleState / CacheDB answer, BundleJudge.tla judges each recorded answer by its meaning."""
import json
import os
import vf

READY = True
_NOTE = ("Trusted: Bundle.tla (plain-state meaning of transaction effects) and BundleJudge.tla (meaning of changesets / "
         "reverts, stated once from the property texts); the recorder harness/src/bin/bundle.rs, which builds EVM account "
         "records from effects, executes and records but compares nothing. Effects are restricted to what the EVM can emit "
         "(create only onto code-less nonce-0 storage-less addresses, self-destruct only of contracts, storage writes only "
         "by accounts with code, code only changes through creation); universe: 2 addresses, 1-2 slots, values 0..2, "
         "balances 0..3, <= 3-4 commits and <= 3 merges per history.")
_LEVEL = ("TLC enumerates every history of commits / merges / balance increments / drains of Bundle.tla within the bounds "
          "and, after each, every observation (%s); the recorder replays each on the real code; BundleJudge.tla (run by TLC "
          "over the recorded answers) accepts an answer only if it satisfies the defining equation of the property. "
          "Exhaustive within the bounds for both state-clear settings.")
SERVES = {
    "C15": dict(technique="TLA+ plain-state reference (Bundle.tla) + TLC-enumerated histories replayed on State and CacheDB; recorded reads judged by BundleJudge.tla",
                level=_LEVEL % "reads of every account, slot and code through State, and through CacheDB modulo empty==absent", note=_NOTE, ref="DESIGN.md section 3 C15"),
    "C16": dict(technique="TLA+: ApplyChangeset(to_plain_state(k), G0) = Gm judged by TLC (BundleJudge.tla) on changesets recorded from TLC-enumerated histories and merge schedules",
                level=_LEVEL % "to_plain_state with OriginalValuesKnown Yes and No at every merge schedule", note=_NOTE, ref="DESIGN.md section 3 C16"),
    "C17": dict(technique="TLA+: ApplyReverts(reverts[k], Gk) = Gk-1 and revert(j) meaning judged by TLC (BundleJudge.tla) on recorded reverts of TLC-enumerated histories",
                level=_LEVEL % "plain reverts of every group, and the bundle after revert(j) for every j", note=_NOTE, ref="DESIGN.md section 3 C17"),
    "C18": dict(technique="TLA+: extend / take_n_reverts / prepend_state judged by meaning (BundleJudge.tla) against the monolithic history, all split points",
                level=_LEVEL % "B1.extend(B2) for every split point, take_n_reverts(n) for every n, prepend_state", note=_NOTE, ref="DESIGN.md section 3 C18"),
    "C19": dict(technique="TLA+: State with a preloaded bundle vs State over the merged database, reads and changesets judged by BundleJudge.tla",
                level=_LEVEL % "reads and resulting changeset of a State with bundle prestate and of a State over the merged database, every split point", note=_NOTE, ref="DESIGN.md section 3 C19"),
}
OBS = {"C15": ["read"], "C16": ["changeset"], "C17": ["reverts", "revert_n"], "C18": ["split", "take_n", "prepend"],
       "C19": ["preload"]}

D0S = {
    # single-address universes (allow longer histories)
    "X1": {16: dict(ex=True, bal=1, nonce=1, code=1, stor={0: 1, 1: 0})},
    "Y1": {16: dict(ex=False, bal=0, nonce=0, code=0, stor={0: 0, 1: 0})},
    # 16: an existing contract with storage; 17: absent (creatable)
    "X": {16: dict(ex=True, bal=1, nonce=1, code=1, stor={0: 1, 1: 0}), 17: dict(ex=False, bal=0, nonce=0, code=0, stor={0: 0, 1: 0})},
    # 16: funded address without code/nonce (creatable, touchable); 17: empty existing account
    "Y": {16: dict(ex=True, bal=1, nonce=0, code=0, stor={0: 0, 1: 0}), 17: dict(ex=True, bal=0, nonce=0, code=0, stor={0: 0, 1: 0})},
}


def tla_d0(d0, slots):
    def acc(r):
        stor = " @@ ".join("(%d :> %d)" % (k, r["stor"][k]) for k in slots)
        return "[info |-> [ex |-> %s, bal |-> %d, nonce |-> %d, code |-> %d], stor |-> (%s)]" % (
            "TRUE" if r["ex"] else "FALSE", r["bal"], r["nonce"], r["code"], stor)
    return " @@ ".join("(%d :> %s)" % (a, acc(r)) for a, r in d0.items())


def json_d0(d0, slots):
    return {str(a): {"info": {"ex": r["ex"], "bal": r["bal"], "nonce": r["nonce"], "code": r["code"]},
                     "stor": {str(k): r["stor"][k] for k in slots}} for a, r in d0.items()}


def pipeline(ctx, res, pid, name, d0name, state_clear, slots, vals, kinds, obs, maxc, maxm, maxhist, writesets,
             layer="state", workers=6):
    d0 = D0S[d0name]
    q = lambda xs: "{" + ", ".join('"%s"' % x for x in xs) + "}"
    consts = dict(Addr=vf.tla_set(sorted(d0)), Slot=vf.tla_set(slots), Val=vf.tla_set(vals), D0=tla_d0(d0, slots),
                  StateClear="TRUE" if state_clear else "FALSE", MaxBal=3, MaxCommits=maxc, MaxMerges=maxm,
                  MaxHist=maxhist, WriteSets=writesets, Kinds=q(kinds), Obs=q(obs))
    gen = vf.tlc(ctx, "Bundle", vf.cfg(consts, invariants=["TypeOK", "AbsentHasNoStorage"]), name=name + "_gen",
                 workers=workers, timeout=1800, stream=("EDGE",), xmx="10g")
    if "EDGE" not in gen.files:
        raise vf.ToolError("vacuous: no edges from Bundle.tla for " + name)
    cfgp = ctx.path("bundle", name + ".json")
    json.dump(dict(addr=sorted(d0), slot=slots, state_clear=state_clear, d0=json_d0(d0, slots)), open(cfgp, "w"))
    binary = vf.cargo_build("bundle")
    recp = ctx.path("bundle", name + ".rec.ndjson")
    vf.vh(binary, ["record", gen.files["EDGE"], recp, "cfg=" + cfgp, "layer=" + layer])
    nrec = sum(1 for _ in open(recp))
    jconsts = dict(AddrS=q(sorted(d0)), SlotS=q(slots), EmptyIsAbsent="TRUE" if layer == "cachedb" else "FALSE")
    # judge in chunks (ndJsonDeserialize holds a whole file in memory)
    chunks, cur, fh = [], 0, None
    with open(recp) as f:
        for line in f:
            if fh is None or cur >= 200000:
                if fh:
                    fh.close()
                chunks.append(ctx.path("bundle", "%s.rec.%d.ndjson" % (name, len(chunks))))
                fh, cur = open(chunks[-1], "w"), 0
            fh.write(line)
            cur += 1
    if fh:
        fh.close()

    class J:
        lines = {"REJECT": [], "INFO": []}
        wall = 0.0
    judge = J()
    judged = 0
    for ci, cp in enumerate(chunks):
        jr = vf.tlc(ctx, "BundleJudge", vf.cfg(jconsts, view=None, invariants=["Done"]), name="%s_judge%d" % (name, ci),
                    workers=1, timeout=3000, env={"TRACE": cp}, xss="1g", xmx="10g", coverage=False)
        judge.lines["REJECT"] += jr.lines.get("REJECT", [])
        judged += (jr.lines.get("INFO") or [{"judged": 0}])[-1]["judged"]
        judge.wall += jr.wall
        os.unlink(cp)
    info = [{"judged": judged}]
    if judged != nrec:
        raise vf.ToolError("judge did not reach the end of %s (%s of %d records)" % (name, judged, nrec))
    rejects = judge.lines.get("REJECT", [])
    # operations seen (vacuity guard) and samples
    seen = {}
    want = set(r["i"] for r in rejects)
    hists = {}
    with open(gen.files["EDGE"]) as f:
        for i, line in enumerate(f, 1):
            if i in want or i % 40009 == 1:
                e = json.loads(line)
                hists[i] = e
    with open(recp) as f:
        for line in f:
            o = line.split('"op":{', 1)[1]
            k = o.split('"op":"', 1)[1].split('"', 1)[0]
            seen[k] = seen.get(k, 0) + 1
    missing = [o for o in obs if o not in seen]
    if missing:
        raise vf.ToolError("vacuous: observations never made in %s: %s" % (name, missing))
    res.add_tlc(gen)
    res.traces += nrec
    res.evaluations += nrec
    res.engines.append({"engine": name, "layer": layer, "generator_distinct_states": gen.distinct, "edges_recorded": nrec,
                        "judged": info[-1]["judged"], "rejected": len(rejects), "ops": seen,
                        "gen_wall_s": round(gen.wall, 1), "judge_wall_s": round(judge.wall, 1)})
    for i, e in list(hists.items())[:2]:
        if i not in want:
            res.sample({"engine": name, "hist": e["hist"], "op": e["op"]})
    recs = {}
    if rejects:
        with open(recp) as f:
            for line in f:
                r = json.loads(line)
                if r["i"] in want:
                    recs[r["i"]] = r
    for r in rejects:
        e = hists[r["i"]]
        kinds_in = sorted({x["kind"] for h in e["hist"] + [e["op"]] if h["op"] == "commit" for x in h["effs"]} |
                          {h["op"] for h in e["hist"] if h["op"] in ("increment", "drain")})
        for reason in r["reasons"]:
            key = "bundle|%s|%s|%s|%s" % (layer, r["op"]["op"], reason, "+".join(kinds_in))
            res.violation(key, "%s (%s, state_clear=%s): after history %s the observation %s is rejected by BundleJudge: %s; observed %s" % (
                name, layer, state_clear, json.dumps(e["hist"]), json.dumps(r["op"]), reason,
                json.dumps(recs.get(r["i"], {}).get("obs"))[:1500]),
                {"engine": "bundle", "mode": "record", "vh_args": ["cfg=" + cfgp, "layer=" + layer], "edge": e,
                 "cfg": json.load(open(cfgp)), "judge_consts": jconsts, "reason": reason,
                 "observed": recs.get(r["i"], {}).get("obs")})
    return gen, judge


CORE = ["change", "create", "selfdestruct", "touch_empty", "create_destroy"]
MORE = CORE + ["increment", "drain", "load_only"]
REINC = ["create", "selfdestruct", "change"]


def run(ctx, pid):
    res = vf.Result()
    obs = OBS[pid]
    res.rule = ("every edge (history, observation) of Bundle.tla within the bounds, per (initial database, state-clear "
                "setting, effect kinds) configuration; distinct = distinct edges recorded and judged")
    # (d0, state clear, slots, vals, kinds, max commits, max merges, max hist, write sets)
    if ctx.quick:
        plans = [("X", True, [0], [0, 1], CORE, 3, 3, 6, "{{}, {0}}"),
                 ("Y1", False, [0], [0, 1], MORE, 4, 3, 7, "{{}, {0}}")]
        if ctx.seed % 2 == 0:
            plans[0] = ("Y", True, [0], [0, 1], CORE, 3, 3, 6, "{{}, {0}}")
        # re-incarnation: one contract destroyed and re-created repeatedly under every merge schedule (long
        # histories are affordable with one address and three kinds; seeded change C16 needed 4 commits + 2 merges)
        plans.append(("X1", True, [0], [0, 1], REINC, 5, 3, 8, "{{}, {0}}"))
    else:
        plans = [("X", True, [0], [0, 1], MORE, 3, 3, 6, "{{}, {0}}"),
                 ("Y", True, [0], [0, 1], MORE, 3, 3, 6, "{{}, {0}}"),
                 ("X", False, [0], [0, 1], CORE, 3, 3, 6, "{{}, {0}}"),
                 ("Y", False, [0], [0, 1], MORE, 3, 3, 6, "{{}, {0}}"),
                 ("X1", True, [0, 1], [0, 1, 2], MORE + ["rich"], 3, 3, 6, "{{}, {0}, {0, 1}}"),
                 ("X1", True, [0], [0, 1], CORE, 5, 4, 9, "{{}, {0}}"),
                 ("Y1", True, [0], [0, 1], MORE, 4, 3, 7, "{{}, {0}}"),
                 ("Y1", False, [0], [0, 1], MORE, 4, 3, 7, "{{}, {0}}"),
                 ("X", True, [0], [0, 1], CORE + ["pair"], 2, 2, 4, "{{}, {0}}"),
                 ("X1", True, [0, 1], [0, 1], REINC, 5, 4, 9, "{{}, {0}, {1}}")]
    for d, sc, slots, vals, kinds, maxc, maxm, maxhist, ws in plans:
        name = "b_%s_%s_%s_%d%s" % (pid, d, "sc" if sc else "nosc", maxc, "r" if "rich" in kinds else "i" if kinds == REINC else "")
        if pid == "C15":
            # reads do not need merges; also through CacheDB
            pipeline(ctx, res, pid, name, d, sc, slots, vals, kinds, obs, maxc, 1, maxhist, ws)
            pipeline(ctx, res, pid, name + "_cachedb", d, sc, slots, vals,
                     [k for k in kinds if k not in ("increment", "drain")], obs, maxc, 0, maxhist - 1, ws, layer="cachedb")
        else:
            pipeline(ctx, res, pid, name, d, sc, slots, vals, kinds, obs, maxc, maxm, maxhist, ws)
    res.exhaustive = True
    res.assumptions += ["transaction effects are restricted to shapes the EVM can emit",
                        "CacheDB reads are compared modulo 'empty account == no account' (CacheDB is fork-agnostic)",
                        "after extend/prepend only OriginalValuesKnown::No changesets are judged (documented by the API)",
                        "a revert slot recorded as 'destroyed' reads as the pre-bundle value when the entry is wiped, else zero"]
    return res


def replay_one(ctx, rp):
    """Re-execute one recorded edge on the current tree and let BundleJudge decide it again."""
    cfgp = ctx.path("replay.cfg.json")
    json.dump(rp["cfg"], open(cfgp, "w"))
    inp = vf.write_ndjson(ctx.path("replay.in.ndjson"), [rp["edge"]])
    recp = ctx.path("replay.rec.ndjson")
    layer = [a for a in rp["vh_args"] if a.startswith("layer=")][0]
    vf.vh(vf.cargo_build("bundle"), ["record", inp, recp, "cfg=" + cfgp, layer])
    print(open(recp).read().strip()[:3000])
    jr = vf.tlc(ctx, "BundleJudge", vf.cfg(rp["judge_consts"], view=None, invariants=["Done"]), name="replay_judge",
                workers=1, timeout=600, env={"TRACE": recp}, xss="1g", coverage=False)
    rej = jr.lines.get("REJECT", [])
    for r in rej:
        print("REJECT", json.dumps(r))
    return bool(rej)
