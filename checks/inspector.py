"""C29, C30 (and the trace-level part of C25, C28) -- InspectorProtocol.tla / InspectorTrace.tla.

DIRECTION B (trace validation).  harness/src/bin/inspector.rs generates programs, executes each on the real
revm::Evm with a recording inspector (plus four other ways for C28) and writes an ndjson trace of the
inspector notifications; TLC walks the trace with the pushdown acceptor of InspectorProtocol.tla and prints
a REJECT line (line, program, rule broken) for the first notification of a program that is not a behaviour
of the protocol.  Every run also
  * model-checks the acceptor itself over a tiny alphabet against a declarative statement of balance /
    bracketing / once-only reporting (and shows, by disabling one rule of the acceptor at a time, that TLC
    then finds a violation of those invariants);
  * corrupts recorded, accepted traces (drop / swap / duplicate / alter one notification) and requires the
    trace specification to reject each corruption with the expected rule (the binding is not vacuous).

A rule belongs to one property (properties_of); `bin/check Cxx` reports the rejections of Cxx only.

Stand-alone use:  python3 checks/inspector.py replay <replay.json | program.ndjson>
re-executes the stored program, validates its trace with TLC and prints the verdict.
"""
import concurrent.futures as cf
import json
import os
import sys
import time

if __name__ == "__main__":
    sys.path.insert(0, os.path.join(os.path.dirname(os.path.abspath(__file__)), "..", "lib"))
import vf

# What is registered.  C30 did not hold before /repo commit da0cc227 ("derive the inspector's selfdestruct
# notification from the executed instruction"): the notification was inferred from the last journal entry
# (`C30_DEFECT`).  With that repair all four checks pass.  VERIF_INSPECTOR_ALL=1 registers every property
# regardless of DECIDED.
DECIDED = {"C29": True, "C30": True, "C25": True, "C28": True}

_TECH = ("TLA+ protocol specification InspectorProtocol.tla (pushdown acceptor for the sequence of inspector "
         "notifications of one transaction), model-checked by TLC against a declarative statement of the property, and "
         "bound to revm by trace validation: generated programs are executed on the real revm::Evm with a recording "
         "inspector and TLC (InspectorTrace.tla) decides for every recorded notification whether it is a behaviour of the "
         "specification")
_TEXTS = {
    "C29": dict(
        technique=_TECH,
        level="Per run (quick: 1.3k programs / ~68k notifications; thorough: 20k programs / ~690k notifications): enumerated corner programs "
              "(calls refused before a frame exists: depth limit reached by a 1025-deep recursion, insufficient balance, "
              "precompile, absent / code-less target, CREATE with value above balance, nonce overflow, CREATE2 collision, "
              "failing init code; calls and creates answered by the inspector itself -- selected by callee / init code or by depth, also NESTED 1..4 frames deep inside create transactions, CREATE/CREATE2 frames and CALL frames in all mixes; LOG0-4 succeeding and failing) over "
              "several hardforks, plus seeded random call graphs over 3 contracts, biased opcode streams and uniform random "
              "bytecode. For every notification TLC checks: *_end pops the innermost open frame with the same kind and the "
              "same inputs (caller, target, code address, scheme, value, gas limit, input digest, static flag / caller, "
              "scheme, value, init-code digest, salt, gas limit); one step then one step_end per instruction, no "
              "interleaving; the child's call/create follows the step_end of the CALL/CREATE instruction whose inputs it "
              "must be consistent with; initialize_interp once per real frame and never for refused or answered frames; "
              "one log per completed LOGn (address = executing contract, n topics), none for a failed one. The acceptor "
              "itself is model-checked (all accepted sequences up to 6 (quick) / 9 (thorough) events over a 70-event alphabet) against "
              "declarative invariants Balanced, Complete, Bracketed, LogsOnce, SelfDestructOnce.",
        note="Trusted: InspectorProtocol.tla; the recorder in harness/src/bin/inspector.rs (it logs, it never judges). "
             "The order 'step_end of a CALL precedes the child's call notification' and 'log/selfdestruct is delivered "
             "either inside the step bracket or directly after step_end' are readings of the property text (it does not "
             "fix them). Not covered: EOF creation hooks (eofcreate/eofcreate_end are in the specification and in the "
             "model-checked alphabet's protocol but no generated program reaches them: EOF needs OSAKA and validated "
             "containers); an inspector that halts execution from step(); database errors in the middle of a frame. "
             "Programs whose trace exceeds 700 notifications are validated for their terminal record and digests only.",
        ref="DESIGN.md section 3 C29"),
    "C30": dict(
        technique=_TECH,
        level="Enumerated SELFDESTRUCT corners x hardforks HOMESTEAD, BYZANTIUM, ISTANBUL, BERLIN, LONDON, SHANGHAI, CANCUN, "
              "PRAGUE (to other / self / absent / precompile / caller, with and without balance, dirty upper bits in the "
              "stack word, empty stack in frames entered with and without value, after a child that self-destructed, inside "
              "STATICCALL, out of gas inside SELFDESTRUCT, in init code, deployed and called in the same transaction, via "
              "DELEGATECALL and CALLCODE, twice, followed by a revert of the caller) plus random call graphs. TLC checks for "
              "every trace: exactly one selfdestruct(c,t,v) per SELFDESTRUCT step whose result is SelfDestruct, none "
              "otherwise; c = executing contract of the open frame (derived from the call inputs by Ethereum's rules, not "
              "from revm's bookkeeping), t = address on top of the stack at the step, v = balance of c at the step; in the "
              "EIP-6780 corner (Cancun+, t = c, c not created in this transaction) only presence and addresses are judged.",
        note="Trusted: InspectorProtocol.tla, the recorder (it reads the stack top and the executing account's balance at "
             "each SELFDESTRUCT step from the interpreter / journaled state). 'Created in this transaction' is derived by "
             "the specification from the create notifications.",
        ref="DESIGN.md section 3 C30"),
    "C25": dict(
        technique=_TECH + " (trace-level part of C25 only)",
        level="For every instruction of every recorded frame TLC checks: pc inside the padded code (padding >= 33 bytes "
              "beyond the code, bytes beyond the code are STOP), pc continuity (next pc = pc + 1 + immediate size, or a "
              "JUMPDEST inside the code after a taken jump), stack height in 0..1024 and, when the instruction succeeded, "
              "equal to height - removed + added of the Yellow Paper table of Opcodes.tla (which must also define the "
              "opcode under the hardfork), gas remaining non-increasing per instruction and continuous between "
              "instructions (a returning child hands back exactly its unused gas after success/revert, nothing after an "
              "exceptional halt), memory size word aligned and non-decreasing, halting results only from the halting "
              "instructions; per transaction: exactly one terminal record with status Success/Revert/Halt consistent with "
              "the outermost frame result, gas used <= gas limit; a panic in any of the five ways of running the "
              "transaction (catch_unwind, harness built with debug assertions and overflow checks) is a violation.",
        note="PARTIAL: this engine decides what a hook trace and the process status show. It does not decide memory "
             "safety of reads without observable effect (sanitizer territory), EOF containers, or the uninspected "
             "interpreter's step sequence (only its result digest, via C28). Random programs are short (<= 64 bytes of "
             "code per contract, gas limits <= 300k); traces above 700 notifications are only judged for termination, "
             "status, gas bound and digests.",
        ref="DESIGN.md section 3 C25"),
    "C28": dict(
        technique=_TECH + " (every program is additionally executed without inspector and with NoOpInspector, GasInspector "
                          "and TracerEip3155 writing to a sink)",
        level="For every generated program with an observing inspector (all but the ones where the recording inspector "
              "answers calls itself) the five executions' result digests -- status and reason, gas used, gas refunded, "
              "output, logs, and per touched account balance / nonce / code hash / self-destructed / created flags / "
              "changed storage slots -- must be identical; the trace specification rejects the first Digest record that "
              "differs from the recorded run's (rule observing_inspector_changes_result).",
        note="Differential at the level of ExecutionResult and EvmState, decided inside the trace specification; the "
             "programs are the generated ones of this engine (call graphs, opcode streams, random bytes; forks FRONTIER.."
             "PRAGUE), not the C01 model's behaviours. The digest is computed by the harness (a projection, not a judgement).",
        ref="DESIGN.md section 3 C28"),
}
_ALL = bool(os.environ.get("VERIF_INSPECTOR_ALL"))
SERVES = {p: t for p, t in _TEXTS.items() if DECIDED[p] or _ALL}
READY = bool(SERVES)

C30_DEFECT = ("crates/revm/src/inspector/handler_register.rs: the SELFDESTRUCT wrapper infers the notification from "
              "journaled_state.journal.last().last() instead of from the instruction's result")

C28_RULES = {"observing_inspector_changes_result", "digest_before_terminal_record"}
C25_RULES = {"panic", "pc_outside_code", "opcode_beyond_code_is_not_STOP", "pc_discontinuity", "jump_to_non_JUMPDEST",
             "stack_height_out_of_range", "stack_height_discontinuity", "gas_discontinuity", "gas_increased",
             "memory_size_not_word_aligned", "memory_discontinuity", "memory_shrank_or_unaligned",
             "code_padding_too_short", "undefined_opcode_executed", "result_from_wrong_instruction",
             "stack_effect_differs_from_instruction", "pc_after_instruction", "undefined_result",
             "gas_used_exceeds_gas_limit", "status_differs_from_outermost_frame_result",
             "trace_ends_without_terminal_record", "terminal_record_with_open_frames", "result_without_any_frame",
             "child_gas_exceeds_caller_gas", "returned_gas_exceeds_gas_limit", "returned_gas_differs_from_frame_gas",
             "call_result_differs_from_last_instruction", "event_after_terminal_record"}


def properties_of(rule):
    """The properties a broken rule belongs to (one, except a panic that also leaves frames without their end)."""
    if rule == "panic_with_open_frames":
        return {"C25", "C29"}
    if rule.lower().startswith("selfdestruct_"):
        return {"C30"}
    if rule in C28_RULES:
        return {"C28"}
    if rule in C25_RULES:
        return {"C25"}
    return {"C29"}


MC_INV = ["AcceptedIsWellFormed", "StackMatchesHistory", "NeverStuck"]
SABOTAGES = ["end_with_any_inputs", "log_twice", "selfdestruct_any_target", "selfdestruct_optional", "step_inside_step"]


def optable(ctx):
    """The instruction table and fork order, evaluated by TLC from Opcodes.tla (single source)."""
    defs = ('ASSUME PrintT("INFO " \\o ToJson([ins |-> [b \\in 1..256 |-> Info[b-1].ins], '
            'outs |-> [b \\in 1..256 |-> Info[b-1].outs], imm |-> [b \\in 1..256 |-> Info[b-1].imm], '
            'intro |-> [b \\in 1..256 |-> Info[b-1].intro], forks |-> Forks]))\n')
    run = vf.tlc(ctx, "Opcodes", vf.cfg({"MaxHist": 0, "TrackPrev": "FALSE", "TrackRan": '"none"'}, view=None, defs=defs),
                 name="insp_optable", workers=1, coverage=False)
    t = run.lines["INFO"][0]
    if len(t["ins"]) != 256 or "CANCUN" not in t["forks"]:
        raise vf.ToolError("instruction table dump from Opcodes.tla is malformed")
    q = lambda xs: "<<" + ", ".join(json.dumps(x) for x in xs) + ">>"
    return {"TabIns": q(t["ins"]), "TabOuts": q(t["outs"]), "TabImm": q(t["imm"]), "TabIntro": q(t["intro"]),
            "ForkSeq": q(t["forks"])}


def trace_cfg(tab):
    c = dict(tab)
    c.update({"Strict": "TRUE", "KeepHist": "FALSE", "MaxLen": 0, "Sabotage": '"none"'})
    return vf.cfg(c, init="TInit", next="TNext", view="TView", postcondition="Consumed")


def validate(ctx, tab, name, path, nlines):
    """Run the trace specification over one ndjson file; returns (rejects, stats, run)."""
    run = vf.tlc(ctx, "InspectorTrace", trace_cfg(tab), name=name, workers=1, deque=True, xss="1g", xmx="4g",
                 coverage=False, env={"TRACE": path}, timeout=1500)
    info = [i for i in run.lines.get("INFO", []) if "consumed" in i]
    if len(info) != 1 or info[0]["consumed"] != nlines:
        raise vf.ToolError("trace %s not fully consumed by TLC: %s of %d records (log %s)" % (name, info, nlines, run.log))
    return run.lines.get("REJECT", []), info[0]["stats"], run


def split_programs(lines):
    """[(pid, [raw lines])] from a recorded trace."""
    out = []
    for ln in lines:
        if '"e":"Reset"' in ln:
            out.append((json.loads(ln)["p"], []))
        out[-1][1].append(ln)
    return out


def model_check(ctx, tab, maxlen, sabotage="none", workers=4):
    c = dict(tab)
    c.update({"Strict": "FALSE", "KeepHist": "TRUE", "MaxLen": maxlen, "Sabotage": json.dumps(sabotage)})
    spec = vf.cfg(c, init="MCInit", next="MCNext", view="MCView", invariants=MC_INV)
    return vf.tlc(ctx, "InspectorProtocol", spec, name="insp_mc_" + sabotage, workers=workers, xss="1g", xmx="6g",
                  coverage=False, timeout=1500, allow_rc=(0,) if sabotage == "none" else (0, 12))


def sabotage_is_caught(ctx, tab, s):
    try:
        model_check(ctx, tab, 5, sabotage=s, workers=1)
    except vf.ToolError as e:
        if "AcceptedIsWellFormed" in str(e):
            return True
        raise
    return False


# ----------------------------------------------------------------------------- corrupted traces

def _idx(evs, pred, nth=0):
    hits = [i for i, e in enumerate(evs) if pred(i, e)]
    return hits[nth] if len(hits) > nth else None


def _depths(evs):
    d, out = 0, []
    for e in evs:
        if e["e"] in ("Call", "Create"):
            d += 1
        out.append(d)
        if e["e"] in ("CallEnd", "CreateEnd"):
            d -= 1
    return out


def corruptions(evs):
    """(name, corrupted event list, expected rules) for one accepted program (list of event dicts)."""
    dep = _depths(evs)
    live_end = lambda i, e: e["e"] == "CallEnd" and dep[i] == 2 and evs[i - 1]["e"] == "StepEnd"
    out = []

    def add(name, i, fn, rules):
        if i is None:
            return
        new = [dict(e) for e in evs]
        fn(new, i)
        out.append((name, new, set(rules)))

    i = _idx(evs, live_end)
    add("drop_call_end", i, lambda n, i: n.pop(i), ["step_after_frame_result", "end_inputs_differ_from_start"])
    add("duplicate_call_end", i, lambda n, i: n.insert(i, dict(n[i])), ["end_inputs_differ_from_start"])
    add("call_end_other_gas_limit", i, lambda n, i: n[i].update(gas=n[i]["gas"] + 1), ["end_inputs_differ_from_start"])
    add("call_end_other_input", i, lambda n, i: n[i].update(inp=n[i]["inp"] + 64), ["end_inputs_differ_from_start"])
    j = _idx(evs, lambda k, e: e["e"] == "CallEnd" and dep[k] == 1)
    if i is not None and j is not None:
        def swap(n, i):
            n[i], n[j] = n[j], n[i]
        add("swap_two_ends", i, swap, ["end_inputs_differ_from_start"])
    i = _idx(evs, lambda k, e: e["e"] == "Init" and dep[k] == 2)
    add("drop_initialize_interp", i, lambda n, i: n.pop(i), ["step_without_initialize_interp"])
    i = _idx(evs, lambda k, e: e["e"] == "Log")
    add("duplicate_log", i, lambda n, i: n.insert(i, dict(n[i])), ["log_reported_twice"])
    add("drop_log", i, lambda n, i: n.pop(i), ["log_missing"])
    add("log_other_address", i, lambda n, i: n[i].update(addr=n[i]["addr"] + 1), ["log_address_is_not_executing_contract"])
    add("log_other_topic_count", i, lambda n, i: n[i].update(nt=(n[i]["nt"] + 1) % 5), ["log_topic_count"])
    i = _idx(evs, lambda k, e: e["e"] == "SelfDestruct")
    add("selfdestruct_other_target", i, lambda n, i: n[i].update(t=n[i]["t"] + 1), ["selfdestruct_target_is_not_stack_top"])
    add("selfdestruct_other_contract", i, lambda n, i: n[i].update(c=n[i]["c"] + 1), ["selfdestruct_contract_is_not_executing_contract"])
    add("selfdestruct_other_value", i, lambda n, i: n[i].update(v=n[i]["v"] + 1), ["selfdestruct_value_is_not_contract_balance"])
    add("drop_selfdestruct", i, lambda n, i: n.pop(i), ["selfdestruct_missing"])
    add("duplicate_selfdestruct", i, lambda n, i: n.insert(i, dict(n[i])), ["selfdestruct_reported_twice"])
    i = _idx(evs, lambda k, e: e["e"] == "Step" and k + 2 < len(evs) and evs[k + 2]["e"] == "Step", 1)
    add("duplicate_step", i, lambda n, i: n.insert(i, dict(n[i])), ["step_before_step_end"])
    add("drop_step_end", i, lambda n, i: n.pop(i + 1), ["step_before_step_end"])
    add("drop_step", i, lambda n, i: n.pop(i), ["step_end_without_step"])
    add("step_gas_plus_one", i, lambda n, i: n[i].update(gas=n[i]["gas"] + 1), ["gas_discontinuity"])
    add("step_pc_plus_one", i, lambda n, i: n[i].update(pc=n[i]["pc"] + 1), ["pc_discontinuity", "opcode_beyond_code_is_not_STOP"])
    add("step_memory_plus_one", i, lambda n, i: n[i].update(mem=n[i]["mem"] + 1), ["memory_size_not_word_aligned"])
    add("step_end_stack_plus_one", i, lambda n, i: n[i + 1].update(sl=n[i + 1]["sl"] + 1), ["stack_effect_differs_from_instruction"])
    add("step_end_gas_increase", i, lambda n, i: n[i + 1].update(gas=n[i]["gas"] + 1), ["gas_increased"])
    i = _idx(evs, lambda k, e: e["e"] == "Digest", 2)
    add("digest_differs", i, lambda n, i: n[i].update(dg=n[i]["dg"] + 1), ["observing_inspector_changes_result"])
    i = _idx(evs, lambda k, e: e["e"] == "End")
    add("gas_used_above_limit", i, lambda n, i: n[i].update(used=evs[0]["gl"] + 1), ["gas_used_exceeds_gas_limit"])
    add("status_flipped", i, lambda n, i: n[i].update(res="Halt" if n[i]["res"] == "Success" else "Success"),
        ["status_differs_from_outermost_frame_result"])
    add("panic", i, lambda n, i: n.__setitem__(i, {"e": "Panic", "mode": "recording", "msg": "x"}), ["panic"])
    k = _idx(evs, lambda k, e: e["e"] == "Step", 1)
    add("panic_inside_frame", k, lambda n, k: n.insert(k, {"e": "Panic", "mode": "recording", "msg": "x"}), ["panic_with_open_frames"])
    add("end_dropped", i, lambda n, i: n.pop(i), ["digest_before_terminal_record"])
    add("control_unmodified", 0, lambda n, i: None, [])
    return out


def self_test(ctx, tab, progs, rejected_pids):
    """Corrupt accepted programs; every corruption must be rejected with an expected rule, the control accepted."""
    has = lambda evs, k: any(e["e"] == k for e in evs)
    bases = {}
    for pid, raw in progs:
        if pid in rejected_pids or len(raw) > 400:
            continue
        evs = [json.loads(x) for x in raw]
        if not evs[0]["hooks"] or not evs[0]["observing"]:
            continue
        dep = _depths(evs)
        feats = []
        if any(e["e"] == "CallEnd" and dep[i] == 2 and evs[i - 1]["e"] == "StepEnd" for i, e in enumerate(evs)):
            feats.append("nested")
        if has(evs, "Log"):
            feats.append("log")
        if any(e["e"] == "SelfDestruct" and e["t"] != e["c"] for e in evs):
            feats.append("sd")
        for f in feats:
            bases.setdefault(f, evs)
        if len(bases) == 3:
            break
    if len(bases) < 3:
        raise vf.ToolError("self-test: no accepted program with features %s" % sorted({"nested", "log", "sd"} - set(bases)))
    cases, lines, seen = [], [], set()
    for f, evs in sorted(bases.items()):
        for name, new, rules in corruptions(evs):
            if name in seen and name != "control_unmodified":
                continue
            seen.add(name)
            pid = 900000 + len(cases)
            new[0] = dict(new[0], p=pid)
            cases.append((pid, name + "@" + f, rules))
            lines += [json.dumps(e, separators=(",", ":")) for e in new]
    path = ctx.path("trace", "selftest.ndjson")
    with open(path, "w") as fh:
        fh.write("\n".join(lines) + "\n")
    rejects, stats, run = validate(ctx, tab, "insp_selftest", path, len(lines))
    by = {}
    for r in rejects:
        by.setdefault(r["pid"], r["rule"])
    result, bad = {}, []
    for pid, name, rules in cases:
        got = by.get(pid)
        result[name] = got or "accepted"
        if (rules and got not in rules) or (not rules and got is not None):
            bad.append("%s: expected %s, trace specification said %s" % (name, sorted(rules) or "accepted", got or "accepted"))
    if bad:
        raise vf.ToolError("self-test of the trace specification failed (binding would be vacuous): " + "; ".join(bad))
    must = {"drop_call_end", "swap_two_ends", "duplicate_log", "selfdestruct_other_target", "duplicate_step",
            "digest_differs", "step_gas_plus_one", "drop_selfdestruct"}
    missing = must - {n.split("@")[0] for n in result}
    if missing:
        raise vf.ToolError("self-test: corruptions not exercised: %s" % sorted(missing))
    return result, run


# ----------------------------------------------------------------------------------------- run

def run(ctx, pid):
    res = vf.Result()
    quick = ctx.quick
    nprog = 1300 if quick else 20000
    shards = 4 if quick else 6
    binary = vf.cargo_build("inspector")
    progs_path = ctx.path("trace", "programs.ndjson")
    trace_path = ctx.path("trace", "trace.ndjson")
    t0 = time.time()
    vf.vh(binary, ["gen", progs_path, "n=%d" % nprog, "seed=%d" % ctx.seed, "tier=%s" % ctx.tier, "deep=1"])
    _, err = vf.vh(binary, ["run", progs_path, trace_path, "maxev=700"])
    gen_wall = time.time() - t0
    programs = {}
    for ln in open(progs_path):
        p = json.loads(ln)
        programs[p["id"]] = p
    raw = [l.rstrip("\n") for l in open(trace_path) if l.strip()]
    progs = split_programs(raw)
    if len(progs) != len(programs):
        raise vf.ToolError("harness recorded %d programs of %d" % (len(progs), len(programs)))
    # shards: the depth-limit program alone (deep frame stack), the others in contiguous chunks of equal size
    deep = [x for x in progs if programs[x[0]]["cls"] == "deep"]
    rest = [x for x in progs if programs[x[0]]["cls"] != "deep"]
    total = sum(len(r) for _, r in rest)
    chunks, cur, acc = [], [], 0
    for x in rest:
        cur.append(x)
        acc += len(x[1])
        if acc >= total / shards and len(chunks) < shards - 1:
            chunks.append(cur)
            cur, acc = [], 0
    chunks.append(cur)
    if deep:
        chunks.append(deep)
    files = []
    for i, ch in enumerate(chunks):
        p = ctx.path("trace", "shard%d.ndjson" % i)
        n = 0
        with open(p, "w") as fh:
            for _, r in ch:
                fh.write("\n".join(r) + "\n")
                n += len(r)
        files.append((p, n))
    tab = optable(ctx)

    # the acceptor itself is model-checked when the run is about the protocol (C29, C30); for C25 / C28 only
    # the trace walk matters
    with_mc = pid in ("C29", "C30")
    rejects, stats, wall = [], {}, {}
    with cf.ThreadPoolExecutor(max_workers=len(files) + 2) as ex:
        futs = {ex.submit(validate, ctx, tab, "insp_shard%d" % i, p, n): i for i, (p, n) in enumerate(files)}
        mc = ex.submit(model_check, ctx, tab, 6 if quick else 9, "none", 4) if with_mc else None
        sab = {s: ex.submit(sabotage_is_caught, ctx, tab, s) for s in (SABOTAGES if with_mc else [])}
        for f, i in futs.items():
            rj, st, r = f.result()
            rejects += rj
            for k, v in st.items():
                stats[k] = max(stats.get(k, 0), v) if k == "max_depth" else stats.get(k, 0) + v
            res.states += r.distinct
            res.transitions += r.generated
            wall["shard%d" % i] = round(r.wall, 1)
        mcrun = mc.result() if mc else None
        missed = [s for s, f in sab.items() if not f.result()]
    if missed:
        raise vf.ToolError("declarative invariants of InspectorProtocol.tla do not notice the disabled rule(s) %s" % missed)
    if mcrun:
        res.states += mcrun.distinct
        res.transitions += mcrun.generated

    # vacuity guards: every kind of notification and every special situation was met and accepted.  They are
    # enforced whenever this run reports nothing for `pid`; if notifications of `pid` were rejected, the
    # rejections are the result (a broken implementation may leave nothing of some kind to accept).
    mine = [r for r in rejects if pid in properties_of(r["rule"])]
    need = ["Call", "CallEnd", "Create", "CreateEnd", "Init", "Step", "StepEnd", "Log", "SelfDestruct", "End", "Digest",
            "end_of_refused_frame", "end_of_answered_frame", "failed_LOG", "failed_SELFDESTRUCT", "accepted_programs"]
    zero = [k for k in need if not stats.get(k)]
    if stats["log_after_step_end"] + stats["log_inside_step"] == 0:
        zero.append("log notification")
    if stats["sd_after_step_end"] + stats["sd_inside_step"] == 0:
        zero.append("selfdestruct notification")
    if stats.get("max_depth", 0) < 1026:
        zero.append("depth limit")
    if zero and not mine:
        raise vf.ToolError("vacuous: never accepted %s (max depth %s)" % (zero, stats.get("max_depth")))

    rejected_pids = {r["pid"] for r in rejects}
    try:
        st_result, st_run = self_test(ctx, tab, progs, rejected_pids)
        res.states += st_run.distinct
        res.transitions += st_run.generated
    except vf.ToolError as e:
        if not mine or "no accepted program" not in str(e):
            raise
        st_result = {"skipped": str(e)}

    # rejections -> violations of the property they belong to (smallest program first)
    size = {p: len(r) for p, r in progs}
    per_rule = {}
    for r in sorted(rejects, key=lambda r: (size.get(r["pid"], 0), r["pid"])):
        rule = r["rule"]
        per_rule[rule] = per_rule.get(rule, 0) + 1
        if pid not in properties_of(rule):
            continue
        ev = r["event"]
        prog = programs.get(r["pid"], {})
        kind = ev.get("e", "?")
        if rule.endswith("_missing") or rule == "trace_ends_without_terminal_record":
            kind = "-"
        elif kind in ("Digest", "Panic"):
            kind = "%s:%s" % (kind, ev.get("mode"))
        cx = r.get("context", {})
        key = "inspector|%s|%s" % (kind, rule)
        if rule.endswith("_for_failed_instruction"):      # one key per way the instruction failed
            key += ":" + str(cx.get("step", {}).get("res"))
        what = ("program %s (%s, %s, %d notifications) line %d: %s breaks rule %s; last instruction %s, innermost frame %s" % (
            r["pid"], prog.get("cls"), prog.get("fork"), size.get(r["pid"], 0), r["line"], json.dumps(ev), rule,
            json.dumps({k: cx.get("step", {}).get(k) for k in ("op", "pc", "res", "top", "bal")}),
            json.dumps({k: cx.get("frame", {}).get(k) for k in ("kind", "ctx", "live", "res")})))
        res.violation(key, what, {"engine": "inspector", "mode": "replay", "vh_args": [], "edge": {"program": prog},
                                  "program": prog, "rule": rule, "event": ev, "context": cx,
                                  "how": "python3 checks/inspector.py replay <this file>"})
    res.traces = len(progs)
    res.evaluations = len(raw)
    res.distinct = len(progs) - len(rejected_pids)
    res.exhaustive = False
    res.rule = ("programs generated from seed %d: enumerated corner scenarios x hardforks (SELFDESTRUCT, refused/answered "
                "calls and creates, logs, depth limit) + random call graphs, opcode streams, random bytes; one trace per "
                "program, every notification judged by the TLA+ acceptor; distinct = programs accepted in full" % ctx.seed)
    classes = {}
    for p in programs.values():
        c = p["cls"].split(":")[0]
        classes[c] = classes.get(c, 0) + 1
    res.extra["inspector"] = {
        "programs": len(progs), "program_classes": classes, "notifications": len(raw), "accepted_counters": stats,
        "rejections_by_rule(all properties)": per_rule, "rejected_programs": len(rejected_pids),
        "tlc_wall_s": wall, "harness_wall_s": round(gen_wall, 1),
        "protocol_model_check": ({"MaxLen": 6 if quick else 9, "distinct": mcrun.distinct, "wall_s": round(mcrun.wall, 1),
                                  "invariants": MC_INV, "sabotaged_acceptors_caught": SABOTAGES} if mcrun
                                 else "not part of this property's run (see C29)"),
        "corrupted_traces_rejected": st_result,
    }
    for pid_, raw_ in progs[:: max(1, len(progs) // 3)][:3]:
        res.sample({"program": programs[pid_]["cls"], "fork": programs[pid_]["fork"], "first_events": [json.loads(x) for x in raw_[1:4]]})
    res.assumptions += [
        "the recorder logs faithfully what the hooks receive (it never judges)",
        "programs with more than 700 notifications are judged for termination, status, gas bound and digests only (%d)" % stats.get("nohooks_programs", 0),
        "EOF creation hooks are specified but not exercised",
    ]
    return res


def _replay(path):
    j = json.load(open(path)) if path.endswith(".json") else None
    prog = (j["replay"]["program"] if j and "replay" in j else j) or json.loads(open(path).readline())
    ctx = vf.Ctx("inspector_replay", "quick", 1)
    binary = vf.cargo_build("inspector")
    pp = ctx.path("prog.ndjson")
    vf.write_ndjson(pp, [prog])
    tp = ctx.path("trace.ndjson")
    _, err = vf.vh(binary, ["run", pp, tp, "maxev=100000"])
    lines = [l for l in open(tp) if l.strip()]
    for i, l in enumerate(lines):
        print("%4d %s" % (i + 1, l.rstrip()))
    rejects, stats, _ = validate(ctx, optable(ctx), "replay", tp, len(lines))
    for r in rejects:
        print("REJECT line %d rule %s (%s): %s" % (r["line"], r["rule"], "/".join(sorted(properties_of(r["rule"]))), json.dumps(r["event"])))
    print("verdict:", "REJECTED" if rejects else "accepted")
    return 1 if rejects else 0


if __name__ == "__main__":
    if len(sys.argv) == 3 and sys.argv[1] == "replay":
        sys.exit(_replay(sys.argv[2]))
    print(__doc__)
    sys.exit(2)
