"""C13 -- Gas.tla: exhaustive edge dump replayed on revm_interpreter::Gas, two numeric domains."""
import vf

READY = True
SERVES = {
    "C13": dict(
        technique="TLA+ spec Gas.tla model-checked by TLC; every (state, operation) edge of the model replayed on revm_interpreter::Gas and the projected meter compared (spec->impl conformance)",
        level="TLC enumerates every reachable state of the gas-meter specification for two numeric domains (small numbers; numbers adjacent to u64::MAX / i64::MAX through an order- and difference-preserving embedding), checks the property's clauses as invariants/action properties of the specification, and prints every edge with the expected successor; the harness applies each edge's history and operation to the real Gas value and compares limit/remaining/spent/refunded and the charge result. Exhaustive for the bounded domain, so any change to the meter that alters one of these observables on a short history is detected.",
        note="Trusted: Gas.tla as the statement of the property; the adapter harness/src/bin/gas.rs. Assumes erase_cost is called with at most the amount charged and the final refund is computed from a non-negative recorded refund (the property's 'consistent with frame accounting'). Values between the neighbourhoods of 0 and of the type maximum are not explored.",
        ref="DESIGN.md section 3, C13"),
}

OPS = ["new", "new_spent", "record_cost", "erase_cost", "spend_all", "set_spent", "record_refund",
       "set_refund", "set_final_refund"]
INV = ["NeverNegative", "SpentIsLimitMinusRemaining"]
PROPS = ["FailedChargeChangesNothing", "ChargeIsExact", "FinalRefundCapped"]


def run(ctx, pid):
    res = vf.Result()
    res.rule = ("every (state, operation) edge of Gas.tla reachable within MaxHist operations, in a small "
                "domain and in a domain whose top stands for u64::MAX/i64::MAX; distinct = distinct edges")
    if ctx.quick:
        small = dict(Limits=vf.tla_set([0, 1, 5, 12]), Costs=vf.tla_set([0, 1, 2, 4, 5, 6, 12, 13]),
                     Refunds=vf.tla_set([-3, -1, 0, 1, 2, 6]), Big=0, MaxHist=5)
        big = dict(Limits=vf.tla_set([0, 2, 998, 1000]), Costs=vf.tla_set([0, 1, 3, 997, 999, 1000]),
                   Refunds=vf.tla_set([-2, 0, 1, 999, 1000]), Big=1000, MaxHist=4)
    else:
        small = dict(Limits=vf.tla_set([0, 1, 2, 5, 11, 12]), Costs="0..13",
                     Refunds="-3..6", Big=0, MaxHist=6)
        big = dict(Limits=vf.tla_set([0, 1, 2, 998, 999, 1000]), Costs=vf.tla_set([0, 1, 2, 3, 997, 998, 999, 1000]),
                   Refunds=vf.tla_set([-2, -1, 0, 1, 2, 998, 999, 1000]), Big=1000, MaxHist=5)
    binary = vf.cargo_build("gas")
    for name, consts in (("gas_small", small), ("gas_big", big)):
        run_ = vf.tlc(ctx, "Gas", vf.cfg(consts, invariants=INV, properties=PROPS), name=name, workers=8)
        vf.replay_edges(ctx, res, run_, "gas", ["big=%d" % consts["Big"]], name=name, binary=binary, expect_ops=OPS)
    res.exhaustive = True
    res.assumptions += ["erase_cost is only called with amounts previously charged (frame accounting)",
                        "set_final_refund is only judged for a non-negative recorded refund",
                        "numbers between the two neighbourhoods of 0 and the type maximum are not explored"]
    return res
