"""C04 -- JumpDest.tla: case enumeration (all short codes + random long codes) replayed on revm's
jump-table analysis and on the JUMP / JUMPI step of the real interpreter."""
import concurrent.futures
import copy

import vf

READY = True
SERVES = {
    "C04": dict(
        technique="TLA+ spec JumpDest.tla model-checked by TLC; every code enumerated by the model is analysed by revm (to_analysed / JumpTable::is_valid, eagerly and through Contract::new) and probe programs jumping to every target are executed on the real interpreter and through whole Evm transactions, compared with the spec's valid-destination sets (spec->impl conformance)",
        level="TLC enumerates every byte string up to the length bound over {JUMPDEST, PUSH1, PUSH2, PUSH32, PUSH0, STOP, DUP1} (so every truncated trailing PUSH and every JUMPDEST hidden in push data of these shapes), plus random codes of up to 40 bytes using all of PUSH1..PUSH32, checks the definition's own lemmas as invariants (wording of the property = instruction scan = declarative fixpoint; immediates never valid; prefix stability; zero padding adds nothing; header/data independence of the probe programs; JUMP/JUMPI step semantics) and prints for each code the valid destinations of the bare code and of the probe programs. For each code the harness compares JumpTable::is_valid / Contract::is_valid_jump at every offset 0..len+34 and far beyond (eager analysis, lazy analysis in Contract::new, re-analysis, raw-slice round trip), and executes PUSH32 t JUMP / PUSH32 c PUSH32 t JUMPI (c in {0, 1, 2^64, 2^255}) in front of the code for every target t in 0..len+34, large powers of two and 2^k + (offset of each 0x5b byte), observing the instruction result, pc, stack height and next instruction right after the jump step; the same through Evm transactions (call to raw code, call to analysed code, create). Any change of the analysis or of the jump check that alters the accepted set for one of these codes/targets is detected.",
        note="Trusted: JumpDest.tla as the statement of the property; the adapter harness/src/bin/jumpdest.rs (it classifies each run as jumped / InvalidJump / fell-through / other from the recorded step, no validity computation). The per-target verdict is the spec's JumpOk applied to the printed data: 't is accepted iff t is a member of the printed ValidDests', computed as set membership/counting in Python (targets above the code length are rejected by JumpOk's first conjunct). Targets are a finite palette, not all 2^256 values; codes longer than the bound are sampled; every one of the 256 byte values is used (alone, as PUSH1 data and after a JUMPDEST) in front of every short string over JUMPDEST/PUSH1, and the random walks draw from all 256 values.",
        ref="DESIGN.md section 3, C04"),
}

INV = ["TypeOK", "JumpOkIsMembership", "ScanAgreesWithText", "Partition", "StartsAreTheFixpoint", "ValidHoldsJumpdest",
       "BeyondEndNeverOk", "NoPushNothingHidden", "ImmediatesNeverValid", "JumpdestAfterPush1",
       "AfterImmediatesIsInstruction", "PushInDataIsInert", "PrefixStable", "PaddingAddsNothing",
       "HeaderShifts", "DataIsIrrelevant", "JumpSemantics", "JumpiSemantics"]
PROPS = ["ExtensionKeepsStatus"]

ALPHABET = [0x5b, 0x60, 0x61, 0x7f, 0x5f, 0x00, 0x80]
# classes of the random walk: JUMPDEST frequent, short pushes, long pushes, PUSH32, the rest
WEIGHTED = "<<{91}, {91}, {91}, {96}, {96, 97, 98, 99}, 100..126, {127}, {95, 0, 128, 86, 87, 255}, (0..95) \\cup (128..255)>>"

H = lambda x: "0x%x" % x
BIGS = [H(v) for v in (2**16, 2**31, 2**32 - 1, 2**32, 2**63, 2**64 - 1, 2**64, 2**128, 2**255, 2**256 - 1)]
ALIAS_BASES = [H(v) for v in (2**32, 2**64, 2**128, 2**192, 2**255, 2**256 - 2**64)]
JUMP_VARIANTS = ["eager_latest", "lazy_frontier"]
JUMPI_VARIANTS = ["c1_eager_frontier", "c1_lazy_latest", "c2p64_lazy_latest", "c2p255_eager_latest"]


def probe(case, code, hdr, lenk, validk, *, alias=True, bigs=BIGS):
    """Targets of a probe program and the expected tally: accepted exactly the members of the
    printed valid set (JumpOk), everything else InvalidJump."""
    upto = case[lenk] + 34
    offs = [hdr + i for i, b in enumerate(code) if b == 0x5b] if alias else []
    op = dict(code=code, upto=upto, bigs=bigs, alias_bases=ALIAS_BASES if alias else [], alias_offsets=offs)
    n = upto + 1 + len(bigs) + len(op["alias_bases"]) * len(offs)
    valid = case[validk]
    if any(v > upto for v in valid) or hdr + len(code) != case[lenk]:
        raise vf.ToolError("spec output inconsistent with the probe layout: %r" % case)
    jump = dict(jumped=valid, invalid=n - len(valid), fell=0, other=[])
    fall = dict(jumped=[], invalid=0, fell=n, other=[])
    return op, jump, fall


def edges_of(case, evm):
    code = case["code"]
    view = dict(len=case["len"], code=code, valid=case["valid"], far=[])
    out = [dict(hist=[], op=dict(op="analyse", code=code),
                post=dict(eager=view, eager_contract=view, lazy_contract=view, reanalysed=view,
                          roundtrip=dict(valid=case["valid"], far=[])))]
    op, jump, _ = probe(case, code, 34, "lenJ", "validJ")
    out.append(dict(hist=[], op=dict(op="execute", kind="jump", **op), post={v: jump for v in JUMP_VARIANTS}))
    op, jump, fall = probe(case, code, 67, "lenI", "validI")
    post = {v: jump for v in JUMPI_VARIANTS}
    post["c0_lazy_latest"] = fall
    out.append(dict(hist=[], op=dict(op="execute", kind="jumpi", **op), post=post))
    if evm:
        op, jump, _ = probe(case, code, 4, "lenC", "validC", bigs=BIGS[-4:])
        out.append(dict(hist=[], op=dict(op="evm", kind="call", **op), post=dict(call_raw=jump, call_analysed=jump)))
        op, jump, _ = probe(case, code, 34, "lenJ", "validJ", alias=False, bigs=BIGS[-4:])
        out.append(dict(hist=[], op=dict(op="evm", kind="create", **op), post=dict(create=jump)))
    return out


GC = {"JAVA_TOOL_OPTIONS": "-XX:ParallelGCThreads=2"}     # many GC threads only hurt on a busy machine
CHUNK = 120000      # edges per harness invocation (the harness holds its whole input in memory)


def replay(ctx, res, runs, name, binary, evm_every):
    """Turn the CASE lines of TLC runs into edges (one per case and kind) and replay them, a chunk at a time."""
    seen, edges, nvalid, nedges, chunks = set(), [], 0, 0, 0
    first = runs[0]
    first.generated = sum(r.generated for r in runs)
    first.wall = max(r.wall for r in runs)
    cases = [c for r in runs for c in r.lines.get("CASE", [])]
    for r in runs:
        r.lines = {}

    def flush():
        nonlocal edges, chunks, nedges
        first.lines = {"EDGE": edges}
        vf.replay_edges(ctx, res, first, "jumpdest", name=name if chunks == 0 else "%s_%d" % (name, chunks),
                        binary=binary, expect_ops=["analyse", "execute", "evm"] if chunks == 0 else ["analyse", "execute"])
        first.distinct = first.generated = 0          # count the TLC states once
        nedges += len(edges)
        chunks += 1
        edges = []

    for case in cases:
        k = tuple(case["code"])
        if k in seen:
            continue
        seen.add(k)
        nvalid += bool(case["valid"])
        edges += edges_of(case, evm=(len(seen) % evm_every == 0) or len(k) <= 3)
        if len(edges) >= CHUNK:
            flush()
    if not seen or not nvalid:
        raise vf.ToolError("vacuous: %s produced %d cases, %d with a valid destination" % (name, len(seen), nvalid))
    if edges:
        flush()
    res.extra.setdefault("codes", {})[name] = dict(codes=len(seen), with_valid_destination=nvalid, edges=nedges)


def run(ctx, pid):
    res = vf.Result()
    res.rule = ("every byte string of length <= N over {5b,60,61,7f,5f,00,80} (one TLC state per code) plus the codes "
                "met on random walks of 40 bytes over JUMPDEST/PUSH1..PUSH32/others; per code: the analysis at every "
                "offset and the JUMP/JUMPI step for every target of the palette; distinct = distinct codes x kinds")
    n = 5 if ctx.quick else 6
    procs, walks = (2, 25) if ctx.quick else (4, 375)     # random walks: processes x walks each
    binary = vf.cargo_build("jumpdest")
    consts = dict(Alphabet=vf.tla_set(ALPHABET), Heads="{<<>>}", MaxLen=n, Weighted=WEIGHTED)
    ex = vf.tlc(ctx, "JumpDest", vf.cfg(consts, view=None, invariants=INV, properties=PROPS),
                name="jumpdest_all", workers=4, timeout=1500, xss="64m", xmx="4g", env=GC)
    if ex.distinct != sum(len(ALPHABET) ** k for k in range(n + 1)):
        raise vf.ToolError("TLC enumerated %d codes, expected all of length <= %d" % (ex.distinct, n))
    replay(ctx, res, [ex], "jumpdest_all", binary, evm_every=2 if ctx.quick else 4)
    # every one of the 256 byte values (alone, as PUSH1 data, after a JUMPDEST) followed by every short string over
    # {JUMPDEST, PUSH1[, STOP]}: no byte other than PUSH1..PUSH32 may hide or expose what follows it
    consts = dict(Alphabet="{91, 96}" if ctx.quick else "{91, 96, 0}", MaxLen=4 if ctx.quick else 5, Weighted=WEIGHTED,
                  Heads="{p \\o <<b>> : p \\in {<<>>, <<96>>, <<91>>}, b \\in 0..255}")
    eb = vf.tlc(ctx, "JumpDest", vf.cfg(consts, view=None, invariants=INV, properties=PROPS),
                name="jumpdest_bytes", workers=4, timeout=1500, xss="64m", xmx="4g", env=GC)
    k, m = (2, 4) if ctx.quick else (3, 5)
    # (codes reachable from a one-byte head and from a two-byte head are counted once)
    want = 256 * sum(k ** i for i in range(m)) + 512 * sum(k ** i for i in range(m - 1)) - 2 * k * sum(k ** i for i in range(m - 1))
    if eb.distinct != want:
        raise vf.ToolError("TLC enumerated %d byte-context codes, expected %d" % (eb.distinct, want))
    replay(ctx, res, [eb], "jumpdest_bytes", binary, evm_every=4)

    # TLC's RandomElement stream is the same in every worker of one process, so the walks are spread
    # over single-worker processes with different seeds instead.
    consts = dict(Alphabet="{}", Heads="{<<>>}", MaxLen=40, Weighted=WEIGHTED)
    spec = vf.cfg(consts, next="NextRandom", view=None, invariants=INV, properties=PROPS)

    def sim(i):
        c = copy.copy(ctx)
        c.seed = ctx.seed * 1000 + i
        return vf.tlc(c, "JumpDest", spec, name="jumpdest_random%d" % i, workers=1, simulate=walks, depth=41, timeout=900,
                      xss="64m", xmx="2g", env=GC)
    with concurrent.futures.ThreadPoolExecutor(procs) as pool:
        sims = list(pool.map(sim, range(procs)))
    replay(ctx, res, sims, "jumpdest_random", binary, evm_every=1)
    res.exhaustive = True
    res.assumptions += ["jump targets are a palette (every offset up to 34 bytes beyond the program, large powers of two, "
                        "2^k + offsets of 0x5b bytes), not all 256-bit values",
                        "codes longer than %d bytes are sampled (random walks), not enumerated" % n,
                        "the verdict for a target is membership in the valid set printed by the specification (JumpOk)"]
    return res
