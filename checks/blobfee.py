"""C32 -- BlobFee.tla over Bignum.tla: fake_exponential, blob gas price, next excess blob gas.

TLC runs:
  1. BignumCheck (shared with C03): the limb operators equal their integer meaning for all operands at
     small sizes, including the mixed-length DivMod / MulFull that the fee arithmetic uses.
  2. BlobFee in mode "refine": for every (factor, numerator, denominator) of a small box the limb loop
     equals the EIP's loop on integers (invariants Refines, Monotone, Sanity); the expectations of
     that box are replayed on revm as well.
  3. BlobFee in mode "cases": boundary points at full size (u64 arguments, 512-bit working numbers
     that are asserted never to truncate); TLC prints the exact price / excess or "does not fit".
The harness (harness/src/bin/blobfee.rs, overflow checks on) calls the real functions; comparison is
generic.  Expectations come only from TLC; this file merely re-spells limb arrays as hex numbers."""
import vf
from checks.alu import bignum_check

READY = True
SERVES = {
    "C32": dict(
        technique="TLA+ spec BlobFee.tla (EIP-4844 fake_exponential / blob gas price / next excess blob gas: the EIP's "
                  "loop on integers and on Bignum.tla limb numbers) model-checked by TLC; refinement limb loop = integer "
                  "loop checked on a small box; TLC-computed expectations replayed on revm_primitives "
                  "(spec->impl conformance)",
        level="TLC checks for every (factor, numerator, denominator) of a small box that the limb computation equals "
              "the EIP's loop on integers and that the result is monotone in the numerator, then evaluates the loop on "
              "512-bit limb numbers (asserting that no step truncates, so the result is the unbounded-integer one) at "
              "~40 excess values x both update fractions from 0 to beyond the point where the price leaves 128 bits, "
              "a set of fake_exponential argument triples up to the u64 edge, and 729 (excess, used, target) triples "
              "around 0, the target and 2^64; the harness calls calc_blob_gasprice, fake_exponential, "
              "calc_excess_blob_gas, BlockEnv::set_blob_excess_gas_and_price and "
              "BlobExcessGasAndPrice::from_parent_and_target with overflow checks on and the returned number (or the "
              "fact that none is returned) is compared with the specification's expectation.",
        note="Trusted: BlobFee.tla/Bignum.tla as the statement of the property; harness/src/bin/blobfee.rs; the hex "
             "re-spelling in checks/blobfee.py. Points, not all u64 values; arguments far beyond the capacity of the "
             "limb numbers (2^32.. 2^64-1) get the expectation 'does not fit 128 bits' from the monotonicity of the "
             "loop. A call that panics under overflow checks counts as 'no number returned'; in a build without "
             "overflow checks the same inputs wrap silently.",
        ref="DESIGN.md section 3, C32"),
}

OPS = ["fake_exponential", "calc_blob_gasprice", "calc_excess_blob_gas", "block_env", "from_parent"]


def numify(v, n):
    """Re-spell every little-endian array of n byte-limbs as a minimal hex number (representation only)."""
    if isinstance(v, list):
        if len(v) == n and all(isinstance(x, int) and not isinstance(x, bool) and 0 <= x < 256 for x in v):
            return "%#x" % sum(x << (8 * i) for i, x in enumerate(v))
        return [numify(x, n) for x in v]
    if isinstance(v, dict):
        return {k: numify(x, n) for k, x in v.items()}
    return v


def run(ctx, pid):
    res = vf.Result()
    res.rule = ("refinement: every (factor, numerator, denominator) and (excess, used, target) of a small box; "
                "conformance: one case per box tuple and per full-size boundary point")
    q = ctx.quick
    bignum_check(ctx, res, [(2, 2, 3), (8, 1, 1)] if q else [(2, 3, 2), (1, 6, 4), (3, 2, 3), (4, 2, 1), (8, 1, 1)])
    binary = vf.cargo_build("blobfee")
    probe, _ = vf.vh(binary, ["probe", "-"])
    res.extra["implementation_boundaries"] = [p for p in probe if p.get("kind") == "probe"]
    L = 64
    box = "[f |-> 3, n |-> 24, d |-> 6, e |-> 8]" if q else "[f |-> 4, n |-> 40, d |-> 8, e |-> 14]"
    base = dict(W=8, L=L, D=12, Box=box)
    # ---- small box: refinement + conformance
    items = []
    run_ = vf.tlc(ctx, "BlobFee", vf.cfg(dict(base, Mode='"refine"', Points='"quick"'), view=None,
                                         invariants=["Refines", "Monotone", "Sanity"]),
                  name="blobfee_box", workers=6, timeout=1500, coverage=False,
                  sink=lambda pre, v: items.append(numify(v, L)) if pre == "EDGE" else None)
    run_.lines["EDGE"] = items
    vf.replay_edges(ctx, res, run_, "blobfee", name="blobfee_box", binary=binary,
                    expect_ops=["fake_exponential", "calc_excess_blob_gas"])
    # ---- a second limb geometry for the refinement alone (4-bit limbs): uniformity in W
    run2 = vf.tlc(ctx, "BlobFee", vf.cfg(dict(W=4, L=24, D=5, Box="[f |-> 3, n |-> 24, d |-> 6, e |-> 4]",
                                              Mode='"refine"', Points='"quick"'), view=None,
                                         invariants=["Refines", "Monotone", "Sanity"]),
                   name="blobfee_box_w4", workers=6, timeout=1500, coverage=False, keep=())
    res.add_tlc(run2)
    res.engines.append({"engine": "blobfee_box_w4", "tlc_distinct": run2.distinct, "tlc_wall_s": round(run2.wall, 1),
                        "invariant": "Refines, Monotone, Sanity"})
    # ---- full-size boundary points
    items = []
    run_ = vf.tlc(ctx, "BlobFee", vf.cfg(dict(base, Mode='"cases"', Points='"quick"' if q else '"thorough"'), view=None),
                  name="blobfee_points", workers=6, timeout=2400, coverage=False,
                  sink=lambda pre, v: items.append(numify(v, L)) if pre == "EDGE" else None)
    run_.lines["EDGE"] = items
    far = [it for it in items if it["op"]["op"] == "calc_blob_gasprice" and int(it["op"]["excess"], 16) >= 10 ** 9]
    unfit = [it for it in items if it["op"]["op"] == "calc_blob_gasprice" and not it["post"]["fits"]]
    if len(far) != 8 or len(unfit) <= len(far):
        raise vf.ToolError("vacuous: expected 8 far points (4 arguments x 2 fractions) and computed points whose price "
                           "leaves 128 bits, got %d / %d" % (len(far), len(unfit)))
    summ = vf.replay_edges(ctx, res, run_, "blobfee", name="blobfee_points", binary=binary, expect_ops=OPS)
    res.extra["cases_per_operation"] = summ.get("ops")
    res.exhaustive = False
    res.assumptions += [
        "the harness is built with overflow checks on: an arithmetic overflow inside the functions under test shows "
        "as a panic (reported as 'no number returned'), where a release build would wrap",
        "excess values are boundary points (0 .. 6*10^8 plus 10^9, 2^32, 2^63, 2^64-1), not all u64 values; the "
        "expectation for arguments beyond 6*10^8 rests on the monotonicity of the EIP's loop in its numerator",
        "the limb algorithms of Bignum.tla are uniform in limb width and count (checked for all operands at small sizes)"]
    return res
