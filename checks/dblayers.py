"""C20 -- DbLayers.tla: every (state, operation) edge of the database-layer specification replayed
through each of revm's database wrappers stacked on a reference database holding the model's data.

One TLC run per model configuration, N replays of its edge dump (one per layer).  Each edge carries
what a layer must support to replay it (cfg: commits / inserts / conf / ccode); a layer is sent
exactly the edges it can execute."""
import concurrent.futures
import json
import os

import vf

# History: the first runs found (A) CacheDB/State without has_storage, (B) insert_account_info on a cached
# NotExisting account, (C) selfdestruct-then-touch resurrecting storage in CacheDB -- fixed in /repo (43233319,
# f5b48490, e5de2ad1; 8e6c24aa makes State::code_by_hash serve committed code) -- and (D) State treating a changed
# code-less nonce-0 account as storage-known, recorded in known_findings.json.
READY = True

SERVES = {
    "C20": dict(
        technique="TLA+ spec DbLayers.tla (the single right answer of every database query = lookup in "
                  "the constant underlying data overlaid with everything committed through the layer) "
                  "model-checked by TLC; every (state, operation) edge replayed through each real wrapper "
                  "(RefDb itself, &mut, Box<dyn Database>, WrapDatabaseRef over value/&/Arc, DatabaseComponents, "
                  "CacheDB as Database and as DatabaseRef and behind &mut/Box/WrapDatabaseRef, CacheDB<CacheDB>, "
                  "State plain / with bundle update+merge / over WrapDatabaseRef / over Box<dyn> / over CacheDB, "
                  "EmptyDB, InMemoryDB, State<EmptyDB>) and the answer compared (spec->impl conformance)",
        level="TLC enumerates every state of the specification reachable within MaxHist operations, where a "
              "state is the committed overlay plus three history abstractions a cache could depend on (the last "
              "answer given to each query; the last value written to each slot and account, kept across wipes; the exact order of block numbers asked), checks the property's "
              "clauses as invariants/action properties of the specification (pass-through while nothing is "
              "committed, queries change nothing, repetition is stable, destroyed accounts read nothing, "
              "created storage is exactly what was written, untouched entries are not written, addresses do "
              "not interfere), and prints every edge with the expected answer; the harness replays each "
              "edge's history on a fresh layer and compares the answer of the last operation. Exhaustive for "
              "the bounded universe (4 account kinds, 2 slots, 3 codes, block numbers around the 256 window), "
              "so a wrapper that drops, defaults, caches stale or mis-keys any of the five queries on a short "
              "history is detected.",
        note="Trusted: DbLayers.tla as the statement of the property; the adapter harness/src/bin/dblayers.rs "
             "and its reference database RefDb. Assumptions: State is only judged on histories that follow "
             "its documented caller protocol (basic(a) before storage/has_storage/commit of a); absent and "
             "empty account are identified only for an account that a commit left empty (EIP-161), that got the "
             "empty info by insert_account_info, or that was absent when replace_account_storage was called; "
             "has_storage is not asked where a written zero covers a non-zero slot of the underlying data; "
             "DatabaseComponents is not judged on has_storage "
             "because its component traits have no such query.",
        ref="DESIGN.md section 3, C20"),
}

QUERIES = ["basic", "has_storage", "storage", "acode", "code_by_hash", "block_hash"]
COMMITS = ["touch", "create", "selfdestruct", "untouched"]
INSERTS = ["insert_info", "insert_storage", "replace_storage"]
INV = ["TypeOK", "PassThrough", "HasStorageIsSomeSlot", "CodeResolvable", "AbsentIsBlank"]
PROPS = ["QueriesChangeNothing", "StableWithoutWrites", "DestroyedReadsNothing", "CreatedStorageIsWhatWasWritten",
         "TouchWritesOnlyItsSlots", "UntouchedChangesNothing", "OtherAddressesUnaffected"]


def L(world="populated", commits=False, inserts=False, protocol=False, ccode=True, has=True, thin=False):
    """thin: a forwarding variant of a primary layer; in the thorough tier it replays the histories
    one operation shorter than the primary layers do (i.e. what the primary layers get in quick)."""
    return dict(world=world, commits=commits, inserts=inserts, protocol=protocol, ccode=ccode, has=has, thin=thin)


def family(lname):
    """Violation keys are grouped by the code that answers: adapters, CacheDB, State."""
    if lname.startswith(("cachedb", "inmemorydb")):
        return "cachedb"
    if lname.startswith("state"):
        return "state"
    return "adapter"


# layer name (harness `layer=`) -> what it can replay
LAYERS = {
    # adapters: queries only
    "ref": L(), "ref_asref": L(thin=True), "mutref": L(), "boxdyn": L(), "wrapref": L(), "wrap_arc": L(thin=True),
    "wrap_borrow": L(thin=True),
    # DatabaseComponents: the State/StateRef component traits have no has-storage query
    "components": L(has=False), "components_ref": L(has=False, thin=True),
    # CacheDB: commit + the three direct writers; tolerates storage()/commit of unloaded accounts
    "cachedb": L(commits=True, inserts=True), "cachedb_ref": L(commits=True, inserts=True),
    "cachedb_mutref": L(commits=True, inserts=True, thin=True), "cachedb_wrap": L(commits=True, inserts=True, thin=True),
    "cachedb_boxed": L(commits=True, inserts=True, thin=True),
    "cachedb2": L(commits=True, inserts=True), "cachedb2_ref": L(commits=True, inserts=True, thin=True),
    # State: commit; documented caller protocol
    "state": L(commits=True, protocol=True), "state_bundle": L(commits=True, protocol=True),
    "state_wrapref": L(commits=True, protocol=True),
    "state_boxed": L(commits=True, protocol=True, thin=True),
    "state_cachedb": L(commits=True, protocol=True, thin=True),
    # the empty world
    "emptydb": L("empty"), "emptydb_ref": L("empty", thin=True),
    "inmemorydb": L("empty", commits=True, inserts=True), "inmemorydb_ref": L("empty", commits=True, inserts=True, thin=True),
    "state_empty": L("empty", commits=True, protocol=True),
}

ALL_BLOCKS = "{1, 2, 255, 256, 257, 258, 600}"


def models(quick):
    """name -> constants of one TLC run."""
    one = "{{1}, {2}, {3}, {4}}"
    if quick:
        return {
            "single": dict(World='"populated"', Focus=one, BlockNums="{600}", Rich="TRUE", MaxHist=3),
            "deep": dict(World='"populated"', Focus=one, BlockNums="{}", Rich="FALSE", MaxHist=4),
            "pair": dict(World='"populated"', Focus="{{1, 3}}", BlockNums="{}", Rich="FALSE", MaxHist=3),
            "blocks": dict(World='"populated"', Focus="{{}}", BlockNums=ALL_BLOCKS, Rich="FALSE", MaxHist=4),
            "empty": dict(World='"empty"', Focus="{{3}}", BlockNums="{1, 258}", Rich="TRUE", MaxHist=3),
        }
    return {
        "single": dict(World='"populated"', Focus=one, BlockNums="{600}", Rich="TRUE", MaxHist=4),
        "deep": dict(World='"populated"', Focus=one, BlockNums="{}", Rich="FALSE", MaxHist=5),
        "pair": dict(World='"populated"', Focus="{{1, 3}}", BlockNums="{}", Rich="FALSE", MaxHist=4),
        "blocks": dict(World='"populated"', Focus="{{}}", BlockNums=ALL_BLOCKS, Rich="FALSE", MaxHist=5),
        "empty": dict(World='"empty"', Focus="{{3}}", BlockNums="{1, 258}", Rich="TRUE", MaxHist=4),
    }


class _Sub:
    """The part of a TLC run one layer replays (vf.replay_edges only reads these attributes)."""

    def __init__(self, run, path, n, samples, first):
        self.lines = {"EDGE": samples}
        self.files = {"EDGE": path}
        self.counts = {"EDGE": n}
        self.distinct = run.distinct if first else 0
        self.generated = 0
        self.wall = run.wall if first else 0.0


CAPS = ("commits", "inserts", "protocol", "ccode", "has", "thin")


def accepts(caps, e, thin_len):
    commits, inserts, protocol, ccode, has, thin = caps
    c = e["cfg"]
    if thin and len(e["hist"]) >= thin_len:
        return False
    return not ((c["commits"] and not commits) or (c["inserts"] and not inserts)
                or (protocol and not c["conf"]) or (c["ccode"] and not ccode)
                or (e["op"]["op"] == "has_storage" and not has))


def split(ctx, mname, path, classes, thin_len):
    """One pass over the edge dump: for every capability class the edges a layer of that class can
    execute.  Returns class -> (file, count, samples, ops)."""
    out = {c: [open(ctx.path("replay", "%s.class%d.ndjson" % (mname, i)), "w"), 0, [], set()]
           for i, c in enumerate(classes)}
    with open(path) as f:
        for line in f:
            e = json.loads(line)
            for c, o in out.items():
                if accepts(c, e, thin_len):
                    o[0].write(line)
                    o[1] += 1
                    o[3].add(e["op"]["op"])
                    if o[1] <= 2 or o[1] % 20011 == 0:
                        o[2].append(e)
    for o in out.values():
        o[0].close()
        o[0] = o[0].name
    return out


def run(ctx, pid):
    res = vf.Result()
    res.rule = ("every (state, operation) edge of DbLayers.tla reachable within MaxHist operations (state = committed "
                "overlay + last answer per query + last value written per slot/account + order of block numbers asked + protocol conformance), replayed "
                "through every layer able to execute it; distinct = distinct (edge, layer) pairs")
    binary = vf.cargo_build("dblayers")
    only = [x for x in os.environ.get("VERIF_DBLAYERS_ONLY", "").split(",") if x]
    jobs = []
    total_states = total_edges = 0
    for mname, consts in models(ctx.quick).items():
        run_ = vf.tlc(ctx, "DbLayers", vf.cfg(consts, invariants=INV, properties=PROPS), name="dbl_" + mname,
                      workers=4, coverage=False, timeout=1500, stream=("EDGE",))
        n = run_.counts.get("EDGE", 0)
        if not n:
            raise vf.ToolError("vacuous: no edges from model %s" % mname)
        total_states += run_.distinct
        total_edges += n
        world = consts["World"].strip('"')
        mine = {l: tuple(v[c] for c in CAPS) for l, v in LAYERS.items()
                if v["world"] == world and (not only or l in only)}
        thin_len = consts["MaxHist"] if ctx.quick else consts["MaxHist"] - 1
        parts = split(ctx, mname, run_.files["EDGE"], sorted(set(mine.values())), thin_len)
        first = True
        for lname, caps in mine.items():
            path, cnt, samples, ops = parts[caps]
            if not cnt:
                raise vf.ToolError("vacuous: layer %s gets no edge of model %s" % (lname, mname))
            jobs.append((mname, lname, _Sub(run_, path, cnt, samples, first), sorted(ops)))
            first = False
        res.extra.setdefault("models", {})[mname] = {"constants": consts, "tlc_distinct": run_.distinct,
                                                     "edges": n, "tlc_wall_s": round(run_.wall, 1)}

    def replay(job):
        mname, lname, sub, ops = job
        r = vf.Result()
        # vacuity: the layer must have executed every operation kind the model offers it
        vf.replay_edges(ctx, r, sub, "dblayers", ["layer=" + lname], name="%s.%s" % (mname, lname), binary=binary,
                        expect_ops=ops, keyprefix=family(lname))
        return r
    with concurrent.futures.ThreadPoolExecutor(max_workers=6) as ex:
        for r in ex.map(replay, jobs):
            res.merge(r)

    # every operation of the specification must have reached some layer, every layer some query
    seen = {}
    for e in res.engines:
        for o, n in e["ops"].items():
            seen[o] = seen.get(o, 0) + n
    want = QUERIES + COMMITS + INSERTS + ["commit2"]
    missing = [o for o in want if o not in seen]
    if missing:
        raise vf.ToolError("vacuous: operations never replayed on any layer: %s" % missing)
    res.states = total_states
    res.transitions = total_edges
    res.exhaustive = True
    res.extra["layers"] = sorted({e["engine"].split(".", 1)[1] for e in res.engines})
    # which layers gave a wrong answer to which kind of question (the keys group by family)
    failing = {}
    for v in res.violations:
        lay = v["what"].split(":", 1)[0].split(".", 1)[1]
        failing.setdefault(v["key"], set()).add(lay)
    res.extra["failing_layers"] = {k: sorted(x) for k, x in sorted(failing.items())}
    for k, x in sorted(failing.items()):
        vf.log("wrong answers %s on layers: %s" % (k, ", ".join(sorted(x))))
    res.assumptions += [
        "State (state.rs 'Account is guaranteed to be loaded', cache.rs 'All accounts should be present inside cache') is "
        "judged only on histories where basic(a) precedes storage(a,_), has_storage(a) and every commit mentioning a; "
        "the other layers are judged on all histories",
        "absent and empty (balance 0, nonce 0, no code) are identified for basic() only on an account that (a) a commit "
        "left empty (EIP-161 deletion vs fork-agnostic CacheDB), (b) got the empty info by insert_account_info, or (c) "
        "was absent when replace_account_storage gave it storage (CacheDB then holds an empty account); the model does "
        "not empty an account that still has storage",
        "commits contain only changes the EVM can produce: nonce never decreases, code changes only by creation, "
        "creation only at nonce 0 / no code, an account becomes empty only if it was empty or absent",
        "DatabaseComponents is not judged on has_storage: its State/StateRef component traits offer no such query",
        "has_storage is not asked where a zero written through the layer covers a non-zero slot of the underlying data "
        "(an overlay of slots cannot decide it; needs insert_account_storage(a,k,0) or an SSTORE at an address whose "
        "has-storage answer the EVM never uses)",
        "underlying data: four account kinds (contract with storage, EOA, absent, code-less nonce-0 account with "
        "storage), 2 slots, 3 codes; larger data is not explored",
    ]
    return res
