"""Evm.tla engine (C01 C07 C08 C09 C10 C21 C28 C29 C31 C34): TLC builds programs and transactions and
interprets them byte by byte; the harness executes the same scenarios on revm and compares."""
import json
import vf

READY = True
SERVES = {}

FORKS = ["FRONTIER", "FRONTIER_THAWING", "HOMESTEAD", "DAO_FORK", "TANGERINE", "SPURIOUS_DRAGON", "BYZANTIUM",
         "CONSTANTINOPLE", "PETERSBURG", "ISTANBUL", "MUIR_GLACIER", "BERLIN", "LONDON", "ARROW_GLACIER",
         "GRAY_GLACIER", "MERGE", "SHANGHAI", "CANCUN", "PRAGUE"]
SENDER, COINBASE, EOA, ABSENT, EMPTY, C1, C2 = 161, 203, 171, 172, 173, 193, 194
COINBASE2 = 204


def world0(contracts, tokens=None):
    z = {0: 0, 1: 0, 2: 0, 3: 0}
    w = {4: dict(ex=False, bal=0, nonce=0, stor=z),
         SENDER: dict(ex=True, bal=50000000, nonce=5, stor=z),
         COINBASE: dict(ex=True, bal=1, nonce=0, stor=z),
         COINBASE2: dict(ex=True, bal=0, nonce=0, stor=z),
         EOA: dict(ex=True, bal=5, nonce=1, stor=z),
         ABSENT: dict(ex=False, bal=0, nonce=0, stor=z),
         EMPTY: dict(ex=True, bal=0, nonce=0, stor=z)}
    for c in contracts:
        w[c] = dict(ex=True, bal=3, nonce=1, stor={0: 0, 1: 5, 2: 0, 3: 0})
    for t, r in (tokens or {}).items():
        w[t] = r
    return w


def tla_world(w):
    def acc(r):
        stor = " @@ ".join("(%d :> %d)" % (k, v) for k, v in r["stor"].items())
        return "[ex |-> %s, bal |-> %d, nonce |-> %d, code |-> <<>>, stor |-> (%s)]" % (
            "TRUE" if r["ex"] else "FALSE", r["bal"], r["nonce"], stor)
    return " @@ ".join("(%d :> %s)" % (a, acc(r)) for a, r in w.items())


def consts(fork, contracts, kinds, maxsnips, maxtx, txgas, targets, prices=(10,), maxcreates=3, tokens=None, steps=400, variety=True, plan=None, coinbases=(COINBASE,), rejections=False, precreated="<<>>", values=(0,)):
    fi = FORKS.index(fork)
    q = lambda xs: "{" + ", ".join('"%s"' % x for x in xs) + "}"
    return dict(Fork=fi, Contracts=vf.tla_set(contracts), World0=tla_world(world0(contracts, tokens)), Sender=SENDER,
                Coinbase=COINBASE, Coinbases=vf.tla_set(coinbases), Rejections="TRUE" if rejections else "FALSE", PreCreated=precreated, TxValues=vf.tla_set(values), MaxSnips=maxsnips, MaxTx=maxtx, MaxCreates=maxcreates, SnipKinds=q(kinds),
                TxGas=vf.tla_set(txgas), TxTargets=vf.tla_set(targets), BaseFee=7 if fi >= 12 else 0,
                GasPrices=vf.tla_set(prices), StepBound=steps, TxVariety="TRUE" if variety else "FALSE",
                SetupPlan="<<" + ", ".join("[c |-> %d, kinds |-> %s]" % (c, q(ks)) for c, ks in (plan or [])) + ">>")


INV = ["Conservation", "DepthBounded", "GasRules", "StaticFrozen"]


def generate(ctx, name, cs, simulate=0, depth=600, workers=6, timeout=900):
    """Run TLC on Evm.tla; returns the run (REPLAY lines streamed to a file)."""
    if simulate:
        return vf.tlc(ctx, "Evm", vf.cfg(cs, invariants=INV), name=name, workers=workers, timeout=timeout,
                      simulate=simulate, depth=depth, stream=("REPLAY",), max_lines=simulate, xss="64m")
    return vf.tlc(ctx, "Evm", vf.cfg(cs, invariants=INV), name=name, workers=workers, timeout=timeout,
                  stream=("REPLAY",), xss="64m")


def replay(ctx, res, run, name, binary, db="state", insp="rec", reuse=1, facets=None, sdev=0, klass="evm", respec="", preverify=0):
    """Execute the generated scenarios on revm and convert mismatches into violations.
    facets: None = every difference counts; else a list of path fragments a diff must contain."""
    f = run.files.get("REPLAY")
    if not f:
        raise vf.ToolError("vacuous: Evm.tla produced no behaviours for " + name)
    outp = ctx.path("evm", "%s.%s.%s.%d%s%s.out.ndjson" % (name, db, insp, reuse, respec, "p" if preverify else ""))
    extra = (["respec=" + respec] if respec else []) + (["preverify=1"] if preverify else [])
    vf.vh(binary, ["behaviours", f, outp, "db=" + db, "insp=" + insp, "reuse=%d" % reuse, "sdev=%d" % sdev] + extra)
    lines = [json.loads(l) for l in open(outp) if l.strip()]
    summ = [l for l in lines if l.get("kind") == "summary"][-1]
    res.traces += summ["behaviours"]
    res.evaluations += summ["behaviours"]
    res.engines.append({"engine": name, "db": db, "insp": insp, "reuse": reuse, "respec": respec, "preverify": preverify,
                        "behaviours": summ["behaviours"],
                        "ok": summ["ok"], "mismatching": summ["root"], "panics": summ["panics"]})
    for m in lines:
        if m.get("kind") != "mismatch":
            continue
        diff = m["diff"]
        if facets is not None and not any(any(fr in d for fr in facets) for d in diff):
            continue
        sc = m["scenario"]
        key = "%s|%s|%s|%s" % (klass + (".respec" if respec else "") + (".preverify" if preverify else ""), db,
                               insp if insp != "rec" else "-", m["sig"])
        what = ("%s: scenario #%d (fork %s, %d tx) differs at %s: expected %s, revm gave %s" % (
            name, m["idx"], FORKS[sc["fork"]], len(sc["txs"]), diff[:6],
            json.dumps(_at(m["exp"], diff[0]))[:300], json.dumps(_at(m["got"], diff[0]))[:300]))
        res.violation(key, what, {"engine": "evm", "mode": "behaviours", "behaviour": sc,
                                  "vh_args": ["db=" + db, "insp=" + insp, "reuse=%d" % reuse] + extra,
                                  "expected": m["exp"], "observed": m["got"], "diff": diff})
    return summ


def _at(v, path):
    import re
    for part in [p for p in path.split("/") if p]:
        m = re.match(r"([^\[#]*)((\[\d+\])*)", part)
        k = m.group(1)
        try:
            if k != "":
                v = v[k]
            for i in re.findall(r"\[(\d+)\]", m.group(2)):
                v = v[int(i)]
        except Exception:
            return v
    return v


ALL = ["store", "tstore", "mem", "log", "env", "env2", "arith", "jump", "call", "rdata", "create", "term"]
_NOTE = ("Trusted: Evm.tla (my reading of the Yellow Paper and the EIPs listed in its header) and the projection in "
         "harness/src/bin/evm.rs (address/token resolution, result and world read-back). Domain: the ~95 modelled opcodes "
         "(every other byte: undefined => halt, defined but unmodelled => behaviour not judged), words below 10^9 or "
         "address tokens, memory below 4 KiB, 2-3 contracts + sender/two coinbases/EOA/absent/empty account/identity "
         "precompile, programs of <= 4-6 snippets from a library of ~2500 (free random setup) or exhaustive products of "
         "snippet families (planned setup), 1-3 transactions: legacy, EIP-2930 access lists, EIP-1559, EIP-4844 blob "
         "transactions (blob gas price 1) and EIP-7702 authorization lists (authorities supplied as recovered, no "
         "signatures), plus transactions rejected for lack of funds interleaved. Not covered: 256-bit arithmetic inside "
         "programs (C03 decides the ALU), KECCAK256, BLOCKHASH, precompiles other than identity (C23), EOF.")


def _lvl(what):
    return ("TLC interprets byte code generated from a snippet library under the rules of the chosen hardfork "
            "(exhaustively for a small alphabet, by seeded simulation for the full one), checking conservation, depth, gas "
            "and static-frame invariants on the specification; every finished behaviour (accounts, transactions, expected "
            "results, callback sequence with journal depths, expected final world) is executed on the real Evm and " + what)


SERVES = {
    "C01": dict(technique="TLA+ byte-level EVM + transaction layer (Evm.tla) run by TLC; generated scenarios replayed on revm::Evm, results and post-state compared", level=_lvl("status, gas used, refund, output, logs, created address and the complete post-state are compared, for all 19 mainnet SpecIds in the thorough tier."), note=_NOTE, ref="DESIGN.md section 3 C01, appendix A"),
    "C07": dict(technique="Evm.tla predicts the journal depth at every call/create callback; compared with journaled_state.depth() observed by a recording inspector, incl. a 1024-deep recursion probe after failing siblings", level=_lvl("the sequence of call/call_end/create/create_end/log callbacks with the journal depth at each is compared; a dedicated configuration recurses to the depth limit after failing sibling calls/creates (value > balance, precompile failure, empty code)."), note=_NOTE + " EOF call kinds (EXTCALL family, EOFCREATE) are not modelled.", ref="DESIGN.md section 3 C07"),
    "C08": dict(technique="Conservation invariant model-checked on Evm.tla; balances of every account after every scenario compared with revm", level=_lvl("all account balances are compared; TLC checks that the sum of balances plus what was burnt (base fee, self-destruct to self) is constant."), note=_NOTE, ref="DESIGN.md section 3 C08"),
    "C09": dict(technique="GasRules invariant model-checked on Evm.tla; gas_used, refund, sender and coinbase balances compared with revm", level=_lvl("gas used, refund and the sender/coinbase balances are compared; TLC checks intrinsic <= spent, floor <= used <= limit, refund cap, halt uses all."), note=_NOTE + " 'intrinsic gas <= gas used' is read as a bound on gas spent before the refund (the refund can legitimately take the reported figure below 21000 before Prague).", ref="DESIGN.md section 3 C09"),
    "C10": dict(technique="Evm.tla static-frame rules; scenarios nesting writes below STATICCALL replayed on revm", level=_lvl("everything is compared, on programs that put SSTORE/TSTORE/LOG/CREATE/SELFDESTRUCT/value calls below STATICCALL through CALL/CALLCODE/DELEGATECALL chains."), note=_NOTE, ref="DESIGN.md section 3 C10"),
    "C21": dict(technique="Evm.tla creation rules (collision on code, nonce or storage); scenarios with pre-populated target addresses replayed through every database layer", level=_lvl("everything is compared, with the would-be created address pre-populated with storage / nonce / code / balance, for create transactions, CREATE and CREATE2, behind State, CacheDB, and data inserted into CacheDB."), note=_NOTE, ref="DESIGN.md section 3 C21"),
    "C28": dict(technique="every Evm.tla scenario executed with no inspector, NoOpInspector, GasInspector, TracerEip3155 and a recording inspector; each must equal the specification's prediction", level=_lvl("all five executions are compared with the same prediction."), note=_NOTE, ref="DESIGN.md section 3 C28"),
    "C31": dict(technique="multi-transaction Evm.tla behaviours executed on one reused Evm and on a fresh Evm per transaction; both must equal the specification", level=_lvl("both the reused-Evm and the fresh-Evm-per-transaction executions are compared with the prediction (transient storage, warm sets, logs are per transaction in the specification)."), note=_NOTE + " preverify_transaction / modify_spec_id interleavings are covered by the C02 and C22 engines.", ref="DESIGN.md section 3 C31"),
    "C25": dict(technique="Evm.tla scenarios (TLC-generated programs of nested calls / creates of every outcome, return-data and output-area handling) executed on revm::Evm with debug assertions, overflow checks and the cfg-guarded instruction-pointer assertion; a panic is a violation (transaction-level part of C25)", level=_lvl("only panics (and with them failed debug assertions / bounds checks) count for C25 here; wrong results are C01's."), note=_NOTE + " Legacy bytecode only; address sanitizing is not used.", ref="DESIGN.md section 3 C25"),
    "C34": dict(technique="Evm.tla access sets (EIP-2929/2930/3651) with snapshot-restore on revert; gas conformance on Berlin..Prague", level=_lvl("gas used is compared on Berlin..Prague scenarios with access lists, reverting frames and repeated accesses; any cold/warm divergence changes gas_used."), note=_NOTE + " EIP-7702 authorities/delegation targets are not modelled.", ref="DESIGN.md section 3 C34"),
}
FACETS = {"C07": ["events"], "C08": ["/bal", "status"], "C09": ["gas_used", "refunded", "/161/bal", "/203/bal"],
          "C34": ["gas_used", "refunded"], "C25": ["panic"]}
GAS = [100000, 60000, 25000, 300000]
TGT = [193, 194, 0, 171]


def run(ctx, pid):
    res = vf.Result()
    binary = vf.cargo_build("evm")
    res.rule = ("scenarios (programs built from snippets + transactions) generated by TLC from Evm.tla, by exhaustive "
                "enumeration of a small alphabet and by seeded simulation of the full one; distinct = distinct scenarios replayed")
    facets = FACETS.get(pid)
    q = ctx.quick
    rot = lambda xs, k: [xs[(ctx.seed + i) % len(xs)] for i in range(k)]
    n = 500 if q else 3000

    def sim(name, fork, kinds, **kw):
        maxs = kw.pop("maxsnips", 4)
        maxtx = kw.pop("maxtx", 2)
        cnt = kw.pop("n", n)
        gas = kw.pop("gas", GAS)
        tg = kw.pop("targets", TGT)
        r = generate(ctx, name, consts(fork, [193, 194], kinds, maxs, maxtx, gas, tg, **kw), simulate=cnt, depth=3000)
        res.add_tlc(r)
        return r

    def planned(name, fork, contracts, plan, **kw):
        gas = kw.pop("gas", [300000])
        r = generate(ctx, name, consts(fork, contracts, [], 0, kw.pop("maxtx", 1), gas, kw.pop("targets", [193]),
                                       variety=kw.pop("variety", False), plan=plan, **kw), workers=4)
        res.add_tlc(r)
        return r

    C3 = [193, 194, 195]
    # targeted exhaustive products (every member of each family in every position of the plan)
    P_STATIC = [(193, ["sfwd"]), (194, ["fwd2", "write"]), (195, ["write"])]           # writes below STATICCALL chains
    P_NESTED = [(193, ["store"]), (193, ["fwd1"]), (193, ["rev"]), (194, ["store", "tstore"])]  # outer+committed inner, outer reverts
    P_WARM = [(193, ["call194"]), (193, ["call194"]), (193, ["probe"]), (194, ["probe"]), (194, ["rev"])]  # access in reverted frames, again later
    P_SINGLE = [(194, ["body"]), (193, ["store", "tstore", "mem", "log", "env", "env2", "arith", "jump", "rdata", "term", "callS", "createS"])]

    # what a caller finds in its return-data buffer and in its output area after calls / creates of every outcome,
    # then after one more call (a buffer or length carried over from the previous sub-call shows here)
    P_RDATA = [(194, ["body", "bodyD"]), (193, ["callD", "createS"]), (193, ["callO", "rdata"]), (193, ["rdata"])]

    # repeated self-destructs of one contract with re-funding in between and a reverting ancestor
    P_SD2 = [(194, ["sdcond"]), (193, ["call194", "call194v"]), (193, ["call194", "call194v"]), (193, ["call195", "call194"]),
             (193, ["call194", "call194v"]), (195, ["call194", "call194v"]), (195, ["call194"]), (195, ["rev"])]

    if pid == "C01":
        # every mainnet SpecId in both tiers (a fork-specific slip must not hide behind the rotation);
        # generation runs four TLC processes at a time
        from concurrent.futures import ThreadPoolExecutor
        cnt = 130 if q else 3000

        def gen(f):
            return f, generate(ctx, "c01_" + f, consts(f, [193, 194], ALL, 4, 2, GAS, TGT,
                                                         prices=(7, 10) if FORKS.index(f) >= 12 else (1, 10)),
                               simulate=cnt, depth=3000, workers=2 if q else 4)
        with ThreadPoolExecutor(max_workers=4) as ex:
            runs = list(ex.map(gen, FORKS))
        for f, r in runs:
            res.add_tlc(r)
            replay(ctx, res, r, "c01_" + f, binary)
        # exhaustive: every snippet of the library alone (callee with each body), and the nested-revert product
        for f in (rot(["PRAGUE", "LONDON", "BYZANTIUM", "FRONTIER", "SHANGHAI", "ISTANBUL"], 2) if q else FORKS):
            r = planned("c01single_" + f, f, [193, 194], P_SINGLE, gas=[300000, 30000] if not q else [300000])
            replay(ctx, res, r, "c01single_" + f, binary)
        for f in rot(["CANCUN", "BERLIN", "HOMESTEAD"], 1 if q else 3):
            r = planned("c01nested_" + f, f, [193, 194], P_NESTED)
            replay(ctx, res, r, "c01nested_" + f, binary)
        # what is left of an account that self-destructs twice when the second time is rolled back (whole post-state)
        for f in rot(["SHANGHAI", "BYZANTIUM", "CANCUN", "HOMESTEAD"], 1 if q else 4):
            r = planned("c01sd2_" + f, f, C3, P_SD2, gas=[600000])
            replay(ctx, res, r, "c01sd2_" + f, binary)
        # code deposit that the create frame cannot afford: creates below calls with 700 / 40000 gas
        for f in (rot(["FRONTIER", "HOMESTEAD", "SPURIOUS_DRAGON", "LONDON"], 2) if q else ["FRONTIER", "HOMESTEAD", "SPURIOUS_DRAGON", "BERLIN", "LONDON", "PRAGUE"]):
            r = planned("c01deposit_" + f, f, [193, 194], [(194, ["createS"]), (193, ["callS"])])
            replay(ctx, res, r, "c01deposit_" + f, binary)
        for f in (["CANCUN"] + rot(["BYZANTIUM", "PRAGUE", "LONDON", "ISTANBUL"], 1) if q else ["BYZANTIUM", "ISTANBUL", "LONDON", "CANCUN", "PRAGUE"]):
            r = planned("c01rdata_" + f, f, [193, 194], P_RDATA)
            replay(ctx, res, r, "c01rdata_" + f, binary)
    elif pid == "C07":
        # depth-limit probe: all gas is forwarded before Tangerine Whistle, so 1024 levels are affordable
        for f in rot(["HOMESTEAD", "FRONTIER"], 1):
            kinds = ["recurse0"] if q else ["recurse"]
            r = generate(ctx, "c07deep_" + f, consts(f, [193], kinds, 1, 1, [400000] if q else [29000000], [193], prices=(1,),
                                                     steps=40000, variety=False), workers=4, timeout=2400)
            res.add_tlc(r)
            deep = 0
            for line in open(r.files["REPLAY"]):
                for rr in json.loads(line)["res"]:
                    deep = max([deep] + [e[1] for e in rr["events"]])
            if deep < 1025:
                raise vf.ToolError("vacuous: the depth probe reached only %d levels" % deep)
            res.extra["max_depth_reached_in_probe"] = deep
            replay(ctx, res, r, "c07deep_" + f, binary, facets=facets)
        for f in rot(["CANCUN", "BERLIN", "BYZANTIUM", "PRAGUE", "TANGERINE", "SHANGHAI"], 2 if q else 6):
            r = sim("c07_" + f, f, ["call", "create", "term", "recurse", "log", "store"])
            replay(ctx, res, r, "c07_" + f, binary, facets=facets)
        # every call kind into every callee body, twice in a row, then one more call: a frame that
        # does not give its depth back shows at the next callback
        for f in rot(["BYZANTIUM", "CANCUN", "HOMESTEAD"], 1 if q else 3):
            r = planned("c07sib_" + f, f, [193, 194], [(194, ["body", "rev"]), (193, ["callS"]), (193, ["call194"]), (193, ["call194"])])
            replay(ctx, res, r, "c07sib_" + f, binary, facets=facets)
        # a create rejected for a collision (code / nonce / storage at the derived address) must give its depth back too
        z = {0: 0, 1: 0, 2: 0, 3: 0}
        for pn, pre in (("storage", dict(ex=True, bal=0, nonce=0, stor={0: 0, 1: 5, 2: 0, 3: 0})),
                        ("nonce", dict(ex=True, bal=0, nonce=1, stor=z))):
            for f in rot(["LONDON", "BYZANTIUM", "PRAGUE"], 1 if q else 3):
                r = planned("c07coll_%s_%s" % (f, pn), f, [193, 194], [(193, ["createS"]), (193, ["call194"])],
                            tokens={1000000001: pre})
                replay(ctx, res, r, "c07coll_%s_%s" % (f, pn), binary, facets=facets)
    elif pid in ("C08", "C09"):
        for f in rot(["LONDON", "PRAGUE", "FRONTIER", "ISTANBUL", "SPURIOUS_DRAGON", "CANCUN", "BERLIN", "HOMESTEAD"], 3 if q else 8):
            r = sim(pid + "_" + f, f, ["store", "call", "create", "term", "mem", "env"], prices=(7, 10) if FORKS.index(f) >= 12 else (1, 10))
            replay(ctx, res, r, pid + "_" + f, binary, facets=facets)
        # refunds against the caps and the Prague floor: every store snippet twice, with every transaction shape
        for f in (["PRAGUE"] + rot(["LONDON", "ISTANBUL", "BYZANTIUM"], 1 if q else 3)):
            r = planned(pid + "refund_" + f, f, [193], [(193, ["store"]), (193, ["store"])], variety=(f == "PRAGUE"),
                        gas=[100000], prices=(10,))
            replay(ctx, res, r, pid + "refund_" + f, binary, facets=facets)
        if pid == "C08":
            # repeated self-destructs of one contract with re-funding in between and a reverting ancestor
            for f in rot(["SHANGHAI", "BYZANTIUM", "CANCUN", "HOMESTEAD"], 2 if q else 4):
                r = planned("c08sd2_" + f, f, C3, P_SD2, gas=[600000])
                replay(ctx, res, r, "c08sd2_" + f, binary, facets=facets)
            for f in rot(["CANCUN", "LONDON", "SPURIOUS_DRAGON", "HOMESTEAD"], 1 if q else 4):
                r = planned("c08sd_" + f, f, [193, 194], [(194, ["body"]), (193, ["callS"])])
                replay(ctx, res, r, "c08sd_" + f, binary, facets=facets)
    elif pid == "C10":
        for f in rot(["BYZANTIUM", "CANCUN", "LONDON", "PETERSBURG", "PRAGUE"], 2 if q else 5):
            r = planned("c10_" + f, f, C3, P_STATIC)
            replay(ctx, res, r, "c10_" + f, binary)
        for f in rot(["CANCUN", "BYZANTIUM", "PRAGUE"], 1 if q else 3):
            r = sim("c10s_" + f, f, ["call", "store", "tstore", "log", "create", "term"], maxsnips=5)
            replay(ctx, res, r, "c10s_" + f, binary)
    elif pid == "C21":
        z = {0: 0, 1: 0, 2: 0, 3: 0}
        pres = {"storage": dict(ex=True, bal=0, nonce=0, stor={0: 0, 1: 5, 2: 0, 3: 0}),
                "nonce": dict(ex=True, bal=0, nonce=1, stor=z), "balance": dict(ex=True, bal=2, nonce=0, stor=z),
                # storage without any account record (the database answers None for the account, yet owns slots)
                "storage_noinfo": dict(ex=False, bal=0, nonce=0, stor={0: 0, 1: 5, 2: 0, 3: 0})}
        for f in rot(["PETERSBURG", "LONDON", "CANCUN", "PRAGUE"], 1 if q else 4):
            for pn, pre in pres.items():
                # (a plain call follows the create: its callback depth shows whether the rejected create gave its
                # journal level back)
                r = planned("c21_%s_%s" % (f, pn), f, [193, 194], [(193, ["createS"]), (193, ["call194"])], targets=[193, 0],
                            tokens={1000000001: pre})
                for db in ("state", "cachedb", "cachedb_ins", "state_nobundle"):
                    # slots without an account record cannot exist in a state trie; the only carrier the property
                    # names is storage *inserted into the caching database* (CacheDB::insert_account_storage on a
                    # fresh address: basic() answers None, the slots are there)
                    if pn == "storage_noinfo" and db != "cachedb_ins":
                        continue
                    replay(ctx, res, r, "c21_%s_%s" % (f, pn), binary, db=db)
            # the target is first touched / funded by a committed transaction, then created onto
            # (the address token of 193's next CREATE exists from the start)
            # (from Spurious Dragon a touched EMPTY account is deleted with its storage, which the fork-agnostic
            # CacheDB does not do: there the target is funded with 1 wei; before Spurious Dragon both values)
            for ff, vals in ((f, (1,)), ("TANGERINE", (0, 1))):
                r = planned("c21touch_%s" % ff, ff, [193], [(193, ["createS"])], targets=[193, 1000000001], maxtx=2, values=vals,
                            tokens={1000000001: pres["storage"]}, precreated='<< <<"create", 193, 1>> >>')
                for db in ("state", "cachedb", "cachedb_ins", "state_nobundle"):
                    replay(ctx, res, r, "c21touch_%s" % ff, binary, db=db, klass="evm.c21touch")
    elif pid == "C28":
        for f in rot(["CANCUN", "LONDON", "BYZANTIUM", "PRAGUE", "FRONTIER"], 2 if q else 5):
            r = sim("c28_" + f, f, ALL)
            for insp in ("none", "noop", "gas", "tracer", "rec"):
                replay(ctx, res, r, "c28_" + f, binary, insp=insp)
    elif pid == "C31":
        for f in rot(["CANCUN", "BERLIN", "PRAGUE", "SPURIOUS_DRAGON", "LONDON"], 2 if q else 5):
            r = sim("c31_" + f, f, ["store", "tstore", "call", "create", "term", "log", "env", "probe"], maxtx=3,
                    coinbases=(COINBASE, COINBASE2), rejections=True)
            replay(ctx, res, r, "c31_" + f, binary, reuse=1)
            replay(ctx, res, r, "c31_" + f, binary, reuse=0)
            replay(ctx, res, r, "c31_" + f, binary, reuse=1, insp="none")
            # the same instance after a spec change: built for another hardfork (across the Cancun / Spurious Dragon
            # rule changes), the first transaction executed under it without committing, then modify_spec_id(f);
            # and with preverify_transaction() before every transact_commit()
            other = {"CANCUN": "SHANGHAI", "PRAGUE": "LONDON", "SPURIOUS_DRAGON": "HOMESTEAD"}.get(f, "CANCUN")
            replay(ctx, res, r, "c31_" + f, binary, reuse=1, respec=other)
            replay(ctx, res, r, "c31_" + f, binary, reuse=1, preverify=1)
        # leak probes: transaction 1 writes transient storage / warms / logs, transaction 2 reads
        for f in rot(["CANCUN", "PRAGUE", "BERLIN"], 1 if q else 3):
            r = planned("c31leak_" + f, f, [193, 194], [(193, ["probe", "tstore"]), (194, ["tstore"])],
                        maxtx=2, targets=[193, 194], coinbases=(COINBASE, COINBASE2), rejections=True)
            replay(ctx, res, r, "c31leak_" + f, binary, reuse=1)
            replay(ctx, res, r, "c31leak_" + f, binary, reuse=0)
        # transient storage must not survive a transaction: a contract that first reads slot 0 (and stores what it
        # read), then writes it, called by two transactions in a row
        for f in rot(["CANCUN", "PRAGUE"], 1 if q else 2):
            r = planned("c31tleak_" + f, f, [193, 194], [(194, ["tstore"]), (194, ["tstore"]), (193, ["call194", "tstore"])],
                        maxtx=3 if not q else 2, targets=[193, 194])
            replay(ctx, res, r, "c31tleak_" + f, binary, reuse=1)
    elif pid == "C25":
        for f in rot(["BYZANTIUM", "CANCUN", "LONDON", "PRAGUE"], 2 if q else 4):
            r = planned("c25rdata_" + f, f, [193, 194], P_RDATA)
            replay(ctx, res, r, "c25rdata_" + f, binary, facets=facets, klass="evm.c25")
        for f in rot(["PRAGUE", "FRONTIER", "ISTANBUL", "SHANGHAI"], 1 if q else 4):
            r = sim("c25s_" + f, f, ALL, maxsnips=5)
            replay(ctx, res, r, "c25s_" + f, binary, facets=facets, klass="evm.c25")
    elif pid == "C34":
        for f in rot(["BERLIN", "LONDON", "SHANGHAI", "CANCUN", "PRAGUE"], 2 if q else 5):
            r = planned("c34_" + f, f, [193, 194], P_WARM)
            replay(ctx, res, r, "c34_" + f, binary, facets=facets)
        for f in rot(["SHANGHAI", "BERLIN", "PRAGUE", "CANCUN", "LONDON"], 2 if q else 5):
            r = sim("c34s_" + f, f, ["store", "call", "create", "probe", "term"], maxsnips=5)
            replay(ctx, res, r, "c34s_" + f, binary, facets=facets)
    res.exhaustive = False
    res.assumptions += ["behaviours leaving the modelled value domain are cut by the specification and not judged",
                        "transactions are valid by construction (validity is decided by the C02 engine)"]
    for e in res.engines[:3]:
        res.sample(e)
    return res
