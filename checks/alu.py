"""C03 -- Alu.tla over Bignum.tla: the 25 arithmetic / comparison / bitwise / shift instructions.

Three kinds of TLC runs:
  1. BignumCheck: every limb operator of Bignum.tla equals its integer meaning, for ALL operands, at
     small limb widths / counts (exhaustive; one state per operand tuple).
  2. Alu in mode "refine": every instruction's limb algorithm equals the property's integer
     definition, for ALL operand tuples, at small word sizes (exhaustive).
  3. Alu in mode "cases" at W = 8, N = 32: TLC evaluates the limb algorithms on a boundary palette
     of 256-bit operands and prints the expected stack and gas per fork; the harness executes the
     instruction on the real interpreter under every fork's instruction table; comparison is
     generic.
Expectations come only from TLC; this file merely re-spells limb arrays as hex words."""
import vf

READY = True
SERVES = {
    "C03": dict(
        technique="TLA+ specs Alu.tla (the 25 instructions: integer definition, limb algorithms, gas per fork) over "
                  "Bignum.tla (naturals as limb sequences) model-checked by TLC; refinement limb algorithm = integer "
                  "definition checked exhaustively at small word sizes; TLC-computed 256-bit expectations replayed on "
                  "revm's interpreter under the instruction table of 14 forks (spec->impl conformance)",
        level="TLC (a) checks for every operand tuple of 4- to 8-bit words (limb widths 1, 2, 3, 4, 8 bits; 1 to 6 limbs; "
              "bytes of 1 to 4 bits) that each instruction's limb algorithm yields exactly the value the property "
              "defines with unbounded integers (two's complement, zero on division by zero, MIN/-1, sign of SMOD, "
              "BYTE/SIGNEXTEND/shift saturation), (b) instantiates the same algorithms at 8 x 32 limbs and evaluates "
              "every pair of a ~50-value boundary palette for the 21 one/two-operand instructions, every triple of a "
              "16-value palette for ADDMOD/MULMOD and a bases x exponents grid for EXP, cross-checking each result at "
              "full width by an inverse computation; the harness runs `PUSH32.. OP STOP` through Interpreter::run for "
              "each of 14 forks and the final stack (sentinel kept, inputs consumed, one result), the gas spent and "
              "the availability per fork are compared with the specification's expectation.",
        note="Trusted: Alu.tla/Bignum.tla as the statement of the property (the 256-bit oracle rests on the uniformity "
             "of the limb algorithms in limb width and count, checked exhaustively only at small sizes, plus the "
             "full-width inverse checks); harness/src/bin/alu.rs; the hex re-spelling of limb arrays in checks/alu.py. "
             "Operands are a boundary palette, not all 2^512 pairs; EXP is explored on a bases x exponents grid; gas is "
             "the program's total (PUSH32 = 3 each, STOP = 0) under a 10^6 limit, so out-of-gas paths are not covered here.",
        ref="DESIGN.md section 3, C03"),
}

ALL_OPS = ["ADD", "MUL", "SUB", "DIV", "SDIV", "MOD", "SMOD", "ADDMOD", "MULMOD", "EXP", "SIGNEXTEND", "LT", "GT",
           "SLT", "SGT", "EQ", "ISZERO", "AND", "OR", "XOR", "NOT", "BYTE", "SHL", "SHR", "SAR"]


def tla_strs(xs):
    return "{" + ", ".join('"%s"' % x for x in xs) + "}"


def hexify(v, n=32):
    """Re-spell every little-endian array of n byte-limbs as a big-endian hex word (representation only)."""
    if isinstance(v, list):
        if len(v) == n and all(isinstance(x, int) and not isinstance(x, bool) and 0 <= x < 256 for x in v):
            return "0x" + "".join("%02x" % x for x in reversed(v))
        return [hexify(x, n) for x in v]
    if isinstance(v, dict):
        return {k: hexify(x, n) for k, x in v.items()}
    return v


def bignum_check(ctx, res, configs, tag="bignum"):
    """BignumCheck.tla: exhaustive agreement of the limb operators with their integer meaning."""
    tot = 0
    for (w, la, ld) in configs:
        name = "%s_w%d_a%d_d%d" % (tag, w, la, ld)
        run = vf.tlc(ctx, "BignumCheck", vf.cfg(dict(W=w, LenA=la, LenD=ld), init="BInit", next="BNext", view=None,
                                                invariants=["Meaning"]), name=name, workers=6, timeout=1500, coverage=False)
        exp = 1 + (2 ** w) ** la * (1 + (2 ** w) ** la + (2 ** w) ** ld)
        if run.distinct != exp:
            raise vf.ToolError("%s: expected %d states (all operand tuples), TLC found %d" % (name, exp, run.distinct))
        res.add_tlc(run)
        tot += run.distinct
        res.engines.append({"engine": name, "tlc_distinct": run.distinct, "tlc_wall_s": round(run.wall, 1),
                            "invariant": "Meaning (limb operator = integer meaning, all operands)"})
    res.extra["bignum_operand_tuples_checked"] = res.extra.get("bignum_operand_tuples_checked", 0) + tot


def run(ctx, pid):
    res = vf.Result()
    res.rule = ("refinement: every operand tuple of every instruction at small word sizes (one TLC state each); "
                "conformance: one case per (instruction, operand tuple) from the 256-bit palettes, each run under 14 forks")
    q = ctx.quick
    # ---- 1. Bignum operators = integer meaning, all operands
    bignum_check(ctx, res, [(2, 2, 1), (1, 4, 3)] if q else [(2, 3, 2), (1, 6, 4), (3, 2, 3), (4, 2, 1), (8, 1, 1)])
    # ---- 2. instruction algorithms = the property's definition, all operand tuples
    three = ["ADDMOD", "MULMOD"]
    narrow = [o for o in ALL_OPS if o not in three and o != "EXP"]
    if q:
        refine = [(2, 2, 2, ALL_OPS), (1, 4, 2, ALL_OPS)]
    else:
        refine = [(2, 3, 2, ALL_OPS), (2, 3, 3, ["BYTE", "SIGNEXTEND", "EXP"]), (1, 5, 1, ALL_OPS), (1, 6, 3, ALL_OPS),
                  (3, 2, 2, ALL_OPS), (4, 2, 4, narrow), (8, 1, 2, narrow)]
    tuples = 0
    for (w, n, bb, ops) in refine:
        name = "refine_w%d_n%d_b%d" % (w, n, bb)
        consts = dict(W=w, N=n, BB=bb, Mode='"refine"', Ops=tla_strs(ops), Pal2='"tiny"', Pal3='"tiny"')
        run_ = vf.tlc(ctx, "Alu", vf.cfg(consts, view=None, invariants=["Refines"]), name=name, workers=6, timeout=2400, coverage=False)
        m = 2 ** (w * n)
        exp = 1 + len(ops) * m + sum(m ** {1: 1, 2: 2, 3: 3}[3 if o in three else 1 if o in ("ISZERO", "NOT") else 2]
                                     for o in ops)
        if run_.distinct != exp:
            raise vf.ToolError("%s: expected %d states (all operand tuples), TLC found %d" % (name, exp, run_.distinct))
        res.add_tlc(run_)
        tuples += exp - 1 - len(ops) * m
        res.engines.append({"engine": name, "tlc_distinct": run_.distinct, "tlc_wall_s": round(run_.wall, 1),
                            "ops": len(ops), "invariant": "Refines (Alg = Def on every operand tuple)"})
    res.extra["refinement_operand_tuples_checked"] = tuples
    # ---- 3. 256-bit cases replayed on the interpreter
    binary = vf.cargo_build("alu")
    pal2, pal3 = ('"small"', '"tiny"') if q else ('"full"', '"small"')
    consts = dict(W=8, N=32, BB=8, Mode='"cases"', Ops=tla_strs(ALL_OPS), Pal2=pal2, Pal3=pal3)
    items = []
    run_ = vf.tlc(ctx, "Alu", vf.cfg(consts, view=None), name="cases256", workers=6, timeout=2400, coverage=False,
                  sink=lambda pre, v: items.append(hexify(v)) if pre == "EDGE" else None)
    run_.lines["EDGE"] = items
    summ = vf.replay_edges(ctx, res, run_, "alu", name="cases256", binary=binary, expect_ops=ALL_OPS)
    res.extra["cases_per_instruction"] = summ.get("ops")
    res.exhaustive = False
    res.assumptions += [
        "the limb algorithms of Bignum.tla/Alu.tla are uniform in limb width and limb count: their agreement with the "
        "integer definition is checked for all operands only at word sizes of 4 to 8 bits, and at 256 bits by inverse "
        "computations on every generated case",
        "256-bit operands come from boundary palettes (all pairs / all triples of the palette), EXP from a bases x exponents grid",
        "gas is observed as Gas::spent() of `PUSH32.. OP STOP` with a 10^6 limit (PUSH32 = 3, STOP = 0 in every fork)"]
    return res
