"""C23 -- Precompiles.tla: the table of precompile calls (fork x address x input x gas limit) printed by
TLC, replayed on the precompile functions of revm-precompile and through a CALL inside a real Evm."""
import vf

READY = True
SERVES = {
    "C23": dict(
        technique="TLA+ spec Precompiles.tla (written from the Yellow Paper and EIP-196/197/198/152/1108/2565/4844/2537) "
                  "model-checked by TLC; every call of its case table (hardfork x precompile address x input x gas "
                  "limit) is replayed (a) on the precompile object registered in Precompiles::new(<price set>) and "
                  "(b) through a contract that CALLs the address inside a real Evm, and status / gas / output length / "
                  "decided output bytes / success flag / gas consumed out of the forwarded gas / return data are "
                  "compared generically (spec->impl conformance)",
        level="PARTIAL BY DESIGN: decided for every precompile are the gas charged, out-of-gas exactly when the defined "
              "cost exceeds the limit (gas limits cost-1, cost, cost+1, 0 and ample for every input), the input-length / "
              "flag / point-encoding failure rules, the length of the output, in which hardfork each address starts to be "
              "a precompile (and that it is an ordinary empty account before), and the CALL-level mapping (success flag, "
              "failure consumes all forwarded gas and returns no data, PrecompileOOG vs PrecompileError). Output BYTES "
              "are decided only for identity, for modexp with moduli < 2^15 under every length/padding shape (lengths "
              "0,1,2,32,33, truncated, oversized, short header, exponent head zero/non-zero, huge declared lengths, the "
              "three mult_complexity branches), and for the outputs the EIPs fix without cryptography (O+O, P+O, 0*P, "
              "1*P, n*P, pairings with infinity, empty pairing, the constant answer of a successful point evaluation, "
              "ecrecover's empty answer on malformed v/r/s). NOT decided: SHA-256 and RIPEMD-160 digests, the BLAKE2 F "
              "output, the address recovered by ecrecover, bn254 / BLS12-381 curve arithmetic on non-trivial points "
              "(sums, multiples, MSM, pairings, map-to-curve) and whether a KZG proof verifies -- for those only gas, "
              "failure and output-length rules are checked. TLC checks the property's clauses as invariants of the table "
              "(AllDecided, GasWithinLimit, OogExactly, FailureIsAboutTheInput, ForkGating, IdentityCopies, "
              "OutputLengths, ModexpCorrect against a naive e-fold product, Repricing, CallAccounting).",
        note="Trusted: Precompiles.tla as the statement of the EIPs (its constants -- prices, BLS discount tables, field "
             "moduli, group orders -- were written from the EIP texts and checked arithmetically, not copied from the "
             "Rust); four inputs taken as valid on the authority of their sources (Ethereum test-suite ecrecover vector, "
             "c-kzg-4844 correct-proof vector, bn254 generator (1,2), EIP-2537 G1 generator); the adapter "
             "harness/src/bin/precompiles.rs, whose in-EVM gas figure is the GAS difference around the CALL minus the "
             "same measurement with 0 gas forwarded. Where an input is invalid AND the gas is below the defined cost, and "
             "for modexp lengths that do not fit 64 bits (revm reports ModexpBase/ModOverflow instead of out-of-gas), "
             "either kind of failure is accepted. Gas limits are < 2^31; modexp lengths in [2^24, 2^40) and gas limits "
             "near 2^64 are not explored. BLS12-381 numbers are those of the final EIP-2537 (7 precompiles at 0x0b-0x11).",
        ref="DESIGN.md section 3, C23"),
}

NAMES = ["ecrecover", "sha256", "ripemd160", "identity", "modexp", "bn_add", "bn_mul", "bn_pairing", "blake2f", "kzg",
         "bls_g1add", "bls_g1msm", "bls_g2add", "bls_g2msm", "bls_pairing", "bls_map_fp", "bls_map_fp2", "unassigned"]
INV = ["AllDecided", "PlanIsFunctionOfInput", "GasWithinLimit", "OogExactly", "FailureIsAboutTheInput", "ForkGating",
       "IdentityCopies", "OutputLengths", "ModexpCorrect", "Repricing", "CallAccounting"]
SIX = ["HOMESTEAD", "BYZANTIUM", "ISTANBUL", "BERLIN", "CANCUN", "PRAGUE"]


def strs(xs):
    return "{" + ", ".join('"%s"' % x for x in xs) + "}"


def run(ctx, pid):
    res = vf.Result()
    res.rule = ("every call of the case table of Precompiles.tla: (hardfork, precompile address, input of the "
                "precompile's input families, gas limit in {0, cost-1, cost, cost+1, ample}); distinct = distinct calls")
    if ctx.quick:
        consts = dict(DirectForks=strs(SIX), EvmForks=strs(SIX), ModexpFullForks=strs(["BYZANTIUM", "BERLIN"]),
                      FullCuts="FALSE", WideGas="FALSE", RichVals="FALSE", MsmKs=vf.tla_set([1, 2, 3, 64, 127, 128, 129]))
        timeout = 900
    else:
        consts = dict(DirectForks=strs(SIX + ["LATEST"]),
                      EvmForks=strs(SIX + ["FRONTIER", "TANGERINE", "SPURIOUS_DRAGON", "PETERSBURG", "MUIR_GLACIER",
                                           "LONDON", "SHANGHAI", "LATEST"]),
                      ModexpFullForks=strs(["BYZANTIUM", "PETERSBURG", "BERLIN", "PRAGUE"]),
                      FullCuts="TRUE", WideGas="TRUE", RichVals="TRUE", MsmKs="1..130")
        timeout = 3000
    binary = vf.cargo_build("precompiles")
    run_ = vf.tlc(ctx, "Precompiles", vf.cfg(consts, invariants=INV), name="precompiles", workers=6, xss="1g",
                  coverage=False, stream=("EDGE",), timeout=timeout)
    summ = vf.replay_edges(ctx, res, run_, "precompiles", name="precompiles", binary=binary, expect_ops=NAMES)
    res.exhaustive = True
    res.extra["calls_per_precompile"] = summ.get("ops", {})
    res.assumptions += [
        "output bytes of SHA-256, RIPEMD-160, BLAKE2 F, ecrecover, non-trivial bn254/BLS12-381 arithmetic and KZG "
        "verification are NOT decided (gas, failure and output length only)",
        "four inputs are taken as valid on the authority of their sources (ecrecover and KZG test vectors, the bn254 "
        "and BLS12-381 G1 generators)",
        "invalid input with gas below the defined cost, and modexp lengths beyond 64 bits: any failure is accepted",
        "gas limits below 2^31; the in-EVM gas figure is relative to the same CALL forwarding 0 gas",
    ]
    return res
