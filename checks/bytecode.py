"""C27 (partial) -- BytecodeKinds.tla: case enumeration of byte strings (all short strings, structured
EF00 / EF01 strings, random longer ones); every constructor of revm's Bytecode replayed on each
and all accessors compared; the hash clause judged by TLC on recorded digests against one fixed
function H supplied by an independent library call."""
import concurrent.futures
import copy
import json
import os
import shutil

import vf

READY = True
SERVES = {
    "C27": dict(
        technique="TLA+ spec BytecodeKinds.tla model-checked by TLC (PARTIAL claim: classification, original bytes/length, analysis invariance and the EIP-7702 designator round trip are decided by the specification; the hash clause only relative to the library's keccak256). TLC enumerates byte strings and prints, per string and per constructor (new_raw_checked, new_raw, new_legacy, new_analyzed / LegacyAnalyzedBytecode::new, Eip7702Bytecode::new_raw, Eip7702Bytecode::new / Bytecode::new_eip7702, default), what every accessor of the built value must answer, raw and after to_analysed (spec->impl conformance); the harness records hash_slow() of every built value next to keccak256 of the op's bytes and TLC judges those records (BytecodeKinds.tla, section judge)",
        level="PARTIAL. Decided: for every byte string over {ef,00,01,02,5b,60,7f,fe} up to the length bound, 91 structured strings (EF0100||address for an address palette, wrong version byte, 18/19/21 address bytes, EF02../EE01.. look-alikes, shifted designators, EF00 prefixes, the smallest EOF container and its single corruptions, 23..34-byte legacy codes ending in JUMPDEST / a cut-off PUSH32 / zeros) and random strings of up to 40 bytes over all byte values biased towards the reserved prefixes: the kind the checking constructor assigns (legacy / eof / eip7702 / refused), that new_raw panics exactly where new_raw_checked refuses, and for every value built by every constructor, raw, analysed and analysed twice: original_bytes = original_byte_slice = the input, len, is_empty, is_eof / is_eip7702 / variant, bytes()/bytes_slice()/bytecode() = the input followed only by zero bytes (non-empty padding exactly for the analysed form), the analysed form's own accessors, the delegate address = bytes 3..22 and raw() = the same 23 bytes, Eip7702Bytecode::new(a).raw() = ef0100||a and its re-parse for every 20-byte string met. TLC checks the clauses as lemmas of the specification's value model (OriginalIsInput, AnalysisKeepsOriginal, PadIrrelevant, HashArgIsInput, DesignatorRoundTrip, constructor-vs-EIP classification lemmas, two action properties). Hash clause, decided only in this form: hash_slow() of every built value (all constructors, raw and analysed) equals ONE digest per original byte string, that digest is what revm::primitives::keccak256 returns for the op's bytes, it is KECCAK_EMPTY for the empty string, equals the two digests printed in EIP-7702 / EIP-3540 for ef01 / ef00, and distinct strings of the run have distinct digests.",
        note="NOT decided (honest limit of the technique): that the digest is Keccak-256 -- TLA+ cannot compute it; H is bound to alloy's keccak256 (the same library function hash_slow itself calls) and anchored to the real function only at three published digests (empty, ef01, ef00). EOF is covered only for classification by the EF00 prefix: strings shorter than the smallest container, the smallest container (one 1-byte code section) and its single corruptions; general EOF decoding/encoding is C26 (not applicable). Byte strings are a bounded enumeration plus samples, not all strings; addresses are the 20-byte strings met (palette + random). For strings that start with ef01 but are not a 23-byte version-0 designator the EIP-7702 text says 'not a delegation' (ordinary code) while new_raw_checked refuses them and new_raw panics; the specification follows the constructors' documentation ('error / panics on incorrect format') and records the difference as lemma MalformedDelegationRefused -- the property speaks only about values that were built. Trusted: BytecodeKinds.tla as the statement of the property; the adapter harness/src/bin/bytecode.rs (it reports executable bytes relative to the op's length: first n bytes, rest-all-zero, rest-non-empty; the amount of padding is deliberately not compared).",
        ref="DESIGN.md section 4 (BytecodeKinds.tla extension), property C27"),
}

INV = ["TypeOK", "KindTotal", "EofUniverse", "CheckedAgreesWithEip", "RefusedOnlyReserved", "MalformedDelegationRefused",
       "NeverAcceptsMalformedDesignator", "DecoderAgreesWithChecked", "OriginalIsInput", "AnalysisKeepsOriginal",
       "PadIrrelevant", "HashArgIsInput", "DesignatorRoundTrip", "AddressPalette"]
PROPS = ["AppendKeepsLegacy", "OnlyExactLengthDelegates"]
OPS = ["new_raw_checked", "new_raw", "new_legacy", "new_analyzed", "decode7702", "delegate", "default"]

ALPHABET = [0xEF, 0x00, 0x01, 0x02, 0x5B, 0x60, 0x7F, 0xFE]
# random mode, per position: position 1 mostly EF; position 2 mostly 00/01; position 3 mostly the version 00
WEIGHTED = ("<< <<{239}, {239}, {239}, 0..255>>, <<{0}, {1}, {1}, {1}, {2, 255}, 0..255>>, "
            "<<{0}, {0}, {0}, {1}, 0..255>>, <<0..255, 0..255, {0, 1, 91, 96, 127, 239}>> >>")
GC = {"JAVA_TOOL_OPTIONS": "-XX:ParallelGCThreads=2"}


CHUNK = 40000       # edges per harness invocation (the harness holds its whole input in memory)


def judge(ctx, res, name, edges_path, recp, nedges, need_anchors):
    """TLC (JudgeInit/JudgeNext of BytecodeKinds.tla) on the hash records the harness wrote during the replay."""
    spec = vf.cfg(dict(Alphabet="{}", MaxLen=0, Weighted="<<>>"), init="JudgeInit", next="JudgeNext", view=None)
    jr = vf.tlc(ctx, "BytecodeKinds", spec, name=name + "_judge", workers=1, timeout=1500, env=dict(GC, TRACE=recp),
                xss="256m", xmx="8g", coverage=False)
    info = (jr.lines.get("INFO") or [{}])[-1]
    if info.get("judged") != nedges:
        raise vf.ToolError("judge did not see every record of %s: %s of %d" % (name, info.get("judged"), nedges))
    if not info.get("built") or (need_anchors and info.get("anchors") != 3):
        raise vf.ToolError("vacuous judge run %s: %s" % (name, info))
    rejects = sorted(jr.lines.get("REJECT", []), key=lambda r: (len(r["code"]), r["i"]))     # smallest code first
    want = {r["i"] for r in rejects}
    recs, edges = {}, {}
    if want:
        for line in open(recp):
            r = json.loads(line)
            if r["i"] in want:
                recs[r["i"]] = r
        for i, line in enumerate(open(edges_path), 1):
            if i in want:
                edges[i] = json.loads(line)
    for r in rejects:
        rec, e = recs.get(r["i"], {}), edges.get(r["i"])
        if e and e["op"]["op"] != r["op"]:
            raise vf.ToolError("record %d of %s does not belong to edge %d" % (r["i"], name, r["i"]))
        for reason in r["reasons"]:
            key = "%s_hash|%s:%s" % (name.split("_")[0], r["op"], reason.replace(" ", "_"))
            res.violation(key, "%s: %s -- op %s on code %s: hash_slow answers %s, H(code) = %s" % (
                name, reason, r["op"], json.dumps(r["code"])[:300], rec.get("hashes"), rec.get("keccak")),
                {"engine": "bytecode", "mode": "record", "edge": e, "reason": reason, "observed": rec})
    res.evaluations += nedges
    res.engines.append({"engine": name + "_judge", "records_judged": info["judged"], "records_with_built_values": info["built"],
                        "published_digests_exercised": info.get("anchors"), "rejected": len(rejects),
                        "judge_wall_s": round(jr.wall, 1)})
    os.unlink(recp)
    return info


def pipeline(ctx, binary, run, name, *, expect_ops, need_anchors):
    """Generic replay of the CASE edges (a chunk at a time; the same pass writes the hash records), then the
    hash judge on all records of the run.  Own Result: runs in a thread."""
    res = vf.Result()
    if "CASE" not in run.files:
        raise vf.ToolError("vacuous: no CASE lines from %s" % name)
    whole, nedges = run.files["CASE"], run.counts["CASE"]
    recp = ctx.path("replay", name + ".rec.ndjson")
    open(recp, "w").close()
    done, seen, chunk = 0, {}, ctx.path("replay", name + ".chunk.ndjson")

    def flush(k, nlines):
        nonlocal done
        part = recp + ".part"
        run.files["CASE"], run.counts["CASE"] = chunk, nlines
        summ = vf.replay_edges(ctx, res, run, "bytecode", ["rec=" + part, "base=%d" % done],
                               name=name if k == 0 else "%s_%d" % (name, k), binary=binary, prefix="CASE")
        run.distinct = run.generated = 0          # count the TLC states once
        for o, c in summ.get("ops", {}).items():
            seen[o] = seen.get(o, 0) + c
        with open(recp, "a") as out, open(part) as f:
            shutil.copyfileobj(f, out)
        os.unlink(part)
        done += nlines

    with open(whole) as f:
        k, nlines, out = 0, 0, open(chunk, "w")
        for line in f:
            out.write(line)
            nlines += 1
            if nlines >= CHUNK:
                out.close()
                flush(k, nlines)
                k, nlines, out = k + 1, 0, open(chunk, "w")
        out.close()
        if nlines:
            flush(k, nlines)
    os.unlink(chunk)
    run.files["CASE"], run.counts["CASE"] = whole, nedges
    missing = [o for o in expect_ops if o not in seen]
    if missing or done != nedges:
        raise vf.ToolError("vacuous: %s replayed %d of %d edges, operations never exercised: %s" % (name, done, nedges, missing))
    info = judge(ctx, res, name, whole, recp, nedges, need_anchors)
    return res, info


def run(ctx, pid):
    res = vf.Result()
    res.rule = ("every byte string of length <= N over {ef,00,01,02,5b,60,7f,fe} plus the structured strings of "
                "BytecodeKinds.tla (one TLC state per string) plus the strings met on random walks of 40 bytes; per string "
                "one edge per constructor (all accessors, raw / analysed / re-analysed) and one judged hash record per edge; "
                "distinct = distinct (string, constructor) pairs")
    n = 4 if ctx.quick else 5
    procs, walks = (2, 20) if ctx.quick else (2, 150)
    binary = vf.cargo_build("bytecode")
    short = sum(len(ALPHABET) ** k for k in range(n + 1))

    def exhaustive():
        consts = dict(Alphabet=vf.tla_set(ALPHABET), MaxLen=n, Weighted=WEIGHTED)
        ex = vf.tlc(ctx, "BytecodeKinds", vf.cfg(consts, view=None, invariants=INV + ["NoDuplicates"], properties=PROPS),
                    name="bytecode_all", workers=3, timeout=1500, xss="64m", xmx="4g", env=GC, stream=("CASE",))
        if ex.distinct <= short + 80:
            raise vf.ToolError("TLC enumerated %d strings, expected all %d of length <= %d and the structured ones" %
                               (ex.distinct, short, n))
        return ex, pipeline(ctx, binary, ex, "bytecode_all", expect_ops=OPS, need_anchors=True)

    # random walks (TLC's RandomElement stream is the same in every worker of a process: one worker per process)
    def sim(i):
        consts = dict(Alphabet="{}", MaxLen=40, Weighted=WEIGHTED)
        spec = vf.cfg(consts, init="InitRandom", next="NextRandom", view=None, invariants=INV, properties=PROPS)
        c = copy.copy(ctx)
        c.seed = ctx.seed * 1000 + i
        return vf.tlc(c, "BytecodeKinds", spec, name="bytecode_random%d" % i, workers=1, simulate=walks, depth=41,
                      timeout=600, xss="64m", xmx="2g", env=GC, stream=("CASE",))

    def random_part(pool):
        sims = list(pool.map(sim, range(procs)))
        first, merged, deleg = sims[0], ctx.path("replay", "bytecode_random.case.ndjson"), 0
        with open(merged, "w") as out:
            for s in sims:
                if "CASE" not in s.files:
                    raise vf.ToolError("vacuous: a random run printed no CASE line")
                with open(s.files["CASE"]) as f:
                    for line in f:
                        deleg += '"op":"decode7702"' in line and '"outcome":"built"' in line
                        out.write(line)
        if not deleg:
            raise vf.ToolError("vacuous: no random walk produced a designator")
        first.files["CASE"] = merged
        first.counts["CASE"] = sum(s.counts["CASE"] for s in sims)
        first.generated = first.distinct = first.counts["CASE"]
        first.wall = max(s.wall for s in sims)
        return first, deleg, pipeline(ctx, binary, first, "bytecode_random", expect_ops=OPS[:5], need_anchors=False)

    # at most 3 + procs TLC workers at a time (generators), then one judge worker per pipeline
    with concurrent.futures.ThreadPoolExecutor(procs + 2) as pool:
        fe = pool.submit(exhaustive)
        fr = pool.submit(random_part, pool)
        ex, (res_e, info) = fe.result()
        rnd, deleg, (res_r, _) = fr.result()
    res.merge(res_e)
    res.merge(res_r)
    res.extra["strings"] = {
        "bytecode_all": dict(strings=ex.distinct, short=short, structured=ex.distinct - short, edges=ex.counts["CASE"],
                             records_with_built_values=info["built"]),
        "bytecode_random": dict(walks=procs * walks, edges=rnd.counts["CASE"], random_designators=deleg)}
    res.exhaustive = True
    res.assumptions += ["PARTIAL: the digest function H is the library's keccak256 applied by the harness to the op's bytes; "
                        "that H is Keccak-256 is anchored only at the digests of the empty string, ef01 and ef00",
                        "EOF only as far as classification by the EF00 prefix: strings shorter than the smallest container, "
                        "the smallest container and its single corruptions",
                        "strings longer than %d bytes are structured cases or samples (random walks), not enumerated" % n,
                        "the amount of zero padding of the analysed form is not compared (any non-empty all-zero padding is accepted)"]
    return res


def replay_one(ctx, rp):
    """Re-execute one stored edge on the current tree: generic comparison, or (hash) record + judge."""
    if not rp.get("edge"):
        print("a whole-run reason (%s) has no single edge to replay; run the check again" % rp.get("reason"))
        return True
    binary = vf.cargo_build("bytecode")
    inp = vf.write_ndjson(ctx.path("replay.in.ndjson"), [rp["edge"]])
    if rp.get("mode") == "record":
        recp = ctx.path("replay.rec.ndjson")
        vf.vh(binary, ["record", inp, recp])
        print(open(recp).read().strip()[:3000])
        spec = vf.cfg(dict(Alphabet="{}", MaxLen=0, Weighted="<<>>"), init="JudgeInit", next="JudgeNext", view=None)
        jr = vf.tlc(ctx, "BytecodeKinds", spec, name="replay_judge", workers=1, timeout=600, env={"TRACE": recp},
                    coverage=False)
        rej = jr.lines.get("REJECT", [])
        for r in rej:
            print("REJECT", json.dumps(r))
        return bool(rej)
    out, _ = vf.vh(binary, ["edges", inp, "-"])
    for o in out:
        print(json.dumps(o)[:3000])
    return any(o.get("kind") == "mismatch" for o in out)
