"""C11 -- Memory.tla: exhaustive edge dumps replayed on revm_interpreter::SharedMemory, the
interpreter's resize_memory helper and the resize_memory! macro (four configurations)."""
import vf

READY = True
SERVES = {
    "C11": dict(
        technique="TLA+ spec Memory.tla (a stack of per-frame byte sequences) model-checked by TLC; every (state, operation) edge of the model replayed on the real SharedMemory / Interpreter and the projected memories compared (spec->impl conformance)",
        level="TLC enumerates every state of the memory specification reachable within a bounded history in four configurations (nested contexts with interleaved growth; all byte-level writes/reads/copies; 32-byte word and U256 accessors; word-aligned expansion with the quadratic charge incl. offsets adjacent to usize::MAX), checks the property's clauses on the specification itself (child starts empty, parent frozen while a child runs and restored on return, only the current context is ever touched, fresh bytes are zero, size only grows, word alignment, total paid = Cmem(size), failed expansion changes nothing) and prints every edge with the expected successor; the harness applies each edge's history and operation to the real object and compares len/is_empty/current_expansion_cost, the bytes of EVERY open context (observed on a clone by freeing contexts), the remaining gas, the success flag and the value returned by reads. Exhaustive for the bounded domain, so any change to the shared buffer that alters one of these observables on a short history is detected.",
        note="Trusted: Memory.tla as the statement of the property; the adapter harness/src/bin/memory.rs; serde's view of the checkpoint count as the number of open contexts. Out-of-bounds calls (documented as panicking) are outside the domain. The return-data window, MSIZE/MLOAD through real bytecode and nested real calls are decided by the Evm engine, not here. Memory beyond 4096 words is only represented by 'costs more than the frame has'.",
        ref="DESIGN.md section 3, C11"),
}

INV = ["TypeOK", "ParentFrozenWhileChildRuns", "WordAligned", "PaidIsQuadratic"]
PROPS = ["ParentRestoredOnReturn", "OnlyCurrentIsTouched", "ChildStartsEmpty", "FreshBytesAreZero",
         "OnlyGrows", "ChargeIsDifference"]

W1 = "[i \\in 1..32 |-> i]"                 # 01 02 .. 20: every position distinct, asymmetric
W2 = "[i \\in 1..32 |-> 256 - 7 * i]"       # f9 f2 .. : high bytes, distinct
TOP = 1000000

BASE = dict(Ops="{}", Bytes="{0}", Sizes="{0}", Offsets="{0}", Lens="{0}", Datas="{<<>>}", Words="{}",
            MaxDepth=1, AllowShrink="FALSE", GasLimits="{0}", Top=0, MaxHist=1)


def configs(quick):
    q = quick
    c = {}
    # nested contexts with interleaved growth: "child writes non-zero, is freed, parent or next
    # sibling grows over the same bytes"
    c["mem_ctx"] = dict(BASE, Ops=vf.tla_set('"%s"' % o for o in ["new_context", "free_context", "resize", "set_byte", "get_byte"]),
                        Bytes="{0, 165}" if q else "{0, 165, 60}", Sizes="{0, 1, 2, 3}" if q else "{0, 1, 2, 3}",
                        MaxDepth=3 if q else 4, MaxHist=8 if q else 9)
    # every byte-level operation inside one or two contexts (raw resize may also shrink)
    c["mem_bytes"] = dict(BASE, Ops=vf.tla_set('"%s"' % o for o in [
                              "new_context", "free_context", "resize", "set_byte", "set", "slice_mut", "context_memory_mut",
                              "set_data", "copy", "get_byte", "slice", "slice_range"]),
                          Bytes="{0, 7}", Sizes="{0, 3}" if q else "{0, 2, 4}", Offsets="0..3", Lens="0..3",
                          Datas="{<<>>, <<165>>, <<90, 60>>, <<1, 2, 3>>}", MaxDepth=1 if q else 2, AllowShrink="TRUE",
                          MaxHist=4)
    # MCOPY / set_data inside a nested context whose parent already holds memory (the context's checkpoint is not 0):
    # the write must land in the current context and leave every enclosing context's bytes alone
    c["mem_copy"] = dict(BASE, Ops=vf.tla_set('"%s"' % o for o in ["new_context", "free_context", "resize", "set_byte", "copy", "set_data"]),
                         Bytes="{7}", Sizes="{0, 3}", Offsets="0..2", Lens="{1, 2}" if q else "{0, 1, 2}", Datas="{<<165>>, <<90, 60>>}",
                         MaxDepth=1 if q else 2, MaxHist=6 if q else 7)
    # 32-byte accessors
    c["mem_words"] = dict(BASE, Ops=vf.tla_set('"%s"' % o for o in [
                              "new_context", "free_context", "resize", "set_word", "set_u256", "get_word", "get_u256",
                              "num_words"]),
                          Sizes="{0, 32, 34}", Lens="{0, 1, 31, 32, 33, 63, 64, 65, 96, 97}",
                          Words="{%s, %s}" % (W1, W2), MaxDepth=1, AllowShrink="TRUE", MaxHist=3 if q else 4)
    # word-aligned expansion and its price (needs > 22 words for the quadratic term to show)
    c["mem_expand"] = dict(BASE, Ops=vf.tla_set('"%s"' % o for o in [
                               "new_context", "free_context", "gas", "expand", "resize_memory", "set_byte"]),
                           Bytes="{9}", Sizes="{1, 33, 737}" if q else "{1, 32, 33, 736, 737, 1441}",
                           Offsets=("{0, 31, 32, 703, 200000, %d, %d}" if q else "{0, 1, 31, 32, 64, 703, 1470, 200000, %d, %d}") % (TOP - 1, TOP),
                           Lens="{1, 32, 33}",
                           GasLimits="{2, 3, 70, 10000}" if q else "{0, 2, 3, 5, 6, 69, 70, 72, 73, 10000}",
                           MaxDepth=1 if q else 2, Top=TOP, MaxHist=4)
    return c


def run(ctx, pid):
    res = vf.Result()
    res.rule = ("every (state, operation) edge of Memory.tla reachable within MaxHist operations, in four "
                "configurations (contexts / byte operations / word operations / metered expansion); distinct = distinct edges")
    binary = vf.cargo_build("memory")
    for name, consts in configs(ctx.quick).items():
        run_ = vf.tlc(ctx, "Memory", vf.cfg(consts, invariants=INV, properties=PROPS), name=name, workers=4, timeout=900)
        ops = [o.strip().strip('"') for o in consts["Ops"].strip("{}").split(",")]
        vf.replay_edges(ctx, res, run_, "memory", ["top=%d" % consts["Top"]], name=name, binary=binary, expect_ops=ops)
    res.exhaustive = True
    res.assumptions += ["operations documented as panicking out of bounds are only applied inside the current context's bounds",
                        "expand is only called with len >= 1 and resize_memory only with a size above the current one (as every instruction does)",
                        "gas limits of the model are below Cmem(4096 words); larger memories appear only as 'unaffordable'",
                        "the number of open contexts is read from SharedMemory's serde form (the API has no accessor)"]
    return res
