"""C05 -- Opcodes.tla: every (opcode byte, SpecId) and every (precompile address, SpecId) case of the
table specification replayed on the real Evm / instruction tables / precompile sets."""
import vf

READY = True
SERVES = {
    "C05": dict(
        technique="TLA+ table specification Opcodes.tla (instruction set and precompile set per hardfork, written from the Yellow Paper and the EIPs) model-checked by TLC; every case it enumerates is replayed on the real code (spec->impl conformance): real transactions through revm::Evm built for each SpecId, the interpreter with make_instruction_table::<_, SPEC> for a Spec of every SpecId, OPCODE_INFO_JUMPTABLE, and the handler's load_precompiles",
        level="Exhaustive over the property's quantifier: all 256 opcode bytes x all 21 SpecIds (FRONTIER..OSAKA and LATEST), each executed in legacy code with 17 stack items through (a) a real transaction and (b) the per-Spec instruction table, comparing the outcome class undefined / designated-INVALID / defined (and, for a transaction, all-gas-consumed) with the specification's Defined(op, fork); all 256 static opcode descriptions (stack inputs/outputs, immediate size, legacy-only flag); 21 addresses (0x01..0x14, 0x100) x 21 SpecIds x {callee absent, callee funded}: a probe contract CALLs the address with empty input and success flag, RETURNDATASIZE and the exact gas consumed by CALL (base/warm/cold/new-account + precompile price or everything forwarded) must equal the specification's PrecompileEmptyCall; the precompile address set (callable map and pre-warmed set) after configuring each SpecId and after every re-configuration f1->f2 (thorough: every probe also after every re-configuration). TLC checks table sanity (shapes of PUSH/DUP/SWAP/LOG, monotonicity, known instruction-set sizes per fork, precompile sets are initial segments, probe adequacy) and the two clauses of the property as invariants.",
        note="Trusted: Opcodes.tla as the statement of which EIP introduced what; the adapter harness/src/bin/opcodes.rs (builds the probe code, maps HaltReason OpcodeNotFound/NotActivated -> 'undefined', InvalidFEOpcode -> 'invalid'). Legacy code only: that EOF-only opcodes work inside EOF containers under OSAKA is not checked. Precompiles are probed with empty input through CALL only; MODEXP with empty input is indistinguishable from a code-less account between Byzantium and Berlin by the call probe (there the configure projection of the address sets decides). The 'table' path uses harness-defined Spec types for SpecIds revm has no named Spec for.",
        ref="DESIGN.md section 3, C05"),
}

OPS = ["configure", "run", "info", "exec", "call_addr"]
INV = ["TypeOK", "UndefinedIffNotIntroduced", "PrecompileIffIntroduced"]
PROPS = ["OnlyConfigureChangesFork", "HistoryIndependent"]
NFORKS, NBYTES, NADDRS = 21, 256, 21


def run(ctx, pid):
    res = vf.Result()
    res.rule = ("every edge of Opcodes.tla: Configure(f) for 21 SpecIds (and every re-configuration f1->f2), Info(b) for "
                "256 bytes, Exec(b, path) for 256 bytes x 21 SpecIds x {evm, table}, CallAddr(a, funded) for 21 addresses "
                "x 21 SpecIds x 2; thorough: all probes additionally after every re-configuration; distinct = distinct edges")
    if ctx.quick:
        plans = [(dict(MaxHist=4, TrackPrev="FALSE", TrackRan='"dep"'), "opcodes")]
    else:
        plans = [(dict(MaxHist=3, TrackPrev="TRUE", TrackRan='"none"'), "opcodes_reconf"),
                 (dict(MaxHist=4, TrackPrev="FALSE", TrackRan='"all"'), "opcodes_ran")]
    binary = vf.cargo_build("opcodes")
    for consts, name in plans:
        run_ = vf.tlc(ctx, "Opcodes", vf.cfg(consts, invariants=INV, properties=PROPS), name=name, workers=4,
                      timeout=2400, coverage=False)
        edges = run_.lines.get("EDGE", [])
        # vacuity guards: the dump must contain the whole quantifier of the property
        execs = {(e["op"]["byte"], e["op"]["fork"], e["op"]["path"]) for e in edges if e["op"]["op"] == "exec"}
        calls = {(e["op"]["addr"], e["op"]["fork"], e["op"]["funded"]) for e in edges if e["op"]["op"] == "call_addr"}
        infos = {e["op"]["byte"] for e in edges if e["op"]["op"] == "info"}
        confs = {e["op"]["fork"] for e in edges if e["op"]["op"] == "configure"}
        classes = {e["post"]["last"]["class"] for e in edges if e["op"]["op"] == "exec"}
        if (len(execs) != NBYTES * NFORKS * 2 or len(calls) != NADDRS * NFORKS * 2 or len(infos) != NBYTES
                or len(confs) != NFORKS or classes != {"undefined", "invalid", "defined"}):
            raise vf.ToolError("vacuous: TLC enumerated %d exec / %d call / %d info / %d configure cases, classes %s"
                               % (len(execs), len(calls), len(infos), len(confs), sorted(classes)))
        if consts["TrackRan"] != '"none"':
            # every re-configuration f1 -> f2 after a transaction under f1 must be followed by address probes
            after = {(e["hist"][-3]["fork"], e["op"]["fork"]) for e in edges
                     if e["op"]["op"] == "call_addr" and len(e["hist"]) >= 3 and e["hist"][-2]["op"] == "run"
                     and e["hist"][-1]["op"] == "configure"}
            if len(after) < NFORKS * (NFORKS - 1):
                raise vf.ToolError("vacuous: only %d (ran-under, configured) pairs probed after a transaction" % len(after))
            res.extra["reconfigured_after_tx_pairs"] = len(after)
        summ = vf.replay_edges(ctx, res, run_, "opcodes", [], name=name, binary=binary,
                               expect_ops=[o for o in OPS if o != "run" or consts["TrackRan"] != '"none"'],
                               keyprefix="opcodes")
        if summ.get("tainted"):
            # a tainted edge is one whose history already diverged (reported at its root); say so
            vf.log("opcodes: %d edges not judged because an earlier operation of their history diverged" % summ["tainted"])
    res.exhaustive = True
    res.extra["opcode_fork_cases"] = len(execs)
    res.extra["precompile_fork_cases"] = len(calls)
    res.extra["undefined_cases"] = sum(1 for e in edges if e["op"]["op"] == "exec" and e["post"]["last"]["class"] == "undefined")
    res.assumptions += ["legacy (non-EOF) code only; EOF-only opcodes are required to be undefined in it under every SpecId",
                        "precompiles probed through CALL with empty input, callee absent or funded with 1 wei",
                        "the outcome of a *defined* opcode is only required not to be OpcodeNotFound/NotActivated/InvalidFEOpcode"]
    return res
