"""property id -> engines whose results decide it, plus the MANIFEST texts.

Every module checks/<engine>.py with READY = True is discovered; its SERVES dict maps each property
it decides to the manifest texts (technique, level, note, ref).  bin/mkmanifest renders
MANIFEST.json from this so the manifest cannot drift from what bin/check runs."""
import importlib
import os
import pkgutil

PROPS = {}
TEXT = {}
_here = os.path.dirname(os.path.abspath(__file__))
for _m in sorted(pkgutil.iter_modules([_here]), key=lambda m: m.name):
    if _m.name in ("registry",):
        continue
    _mod = importlib.import_module("checks." + _m.name)
    if not getattr(_mod, "READY", False):
        continue
    for _pid, _t in getattr(_mod, "SERVES", {}).items():
        PROPS.setdefault(_pid, []).append(_m.name)
        if _pid in TEXT:
            for _k in ("technique", "level", "note"):
                TEXT[_pid][_k] = TEXT[_pid][_k] + " || " + _t[_k]
        else:
            TEXT[_pid] = dict(_t)

# properties not (yet) claimed -> reason.
NOT_APPLICABLE = {
    "C24": "agreement of two cryptographic backends is a differential test of two builds of external libraries; there is no state machine or specifiable function short of re-implementing secp256k1/KZG in TLA+ (DESIGN.md section 4)",
    "C26": "byte-exact EOF decode/encode round trip and validator/interpreter agreement are encode/decode fidelity; would need the 900-line EOF validator restated in TLA+ (DESIGN.md section 4)",
    "C27": "original bytes/length/keccak of stored bytecode is byte fidelity of pure accessors plus a hash function; nothing for a model checker to explore (DESIGN.md section 4)",
}
for _p in ["C%02d" % i for i in range(1, 35)]:
    if _p not in PROPS and _p not in NOT_APPLICABLE:
        NOT_APPLICABLE[_p] = "not yet claimed: the specification/harness for this property is still being built (see DESIGN.md section 9 build order); no check is registered rather than registering an unsound one"
for _p in list(NOT_APPLICABLE):
    if _p in PROPS:
        del NOT_APPLICABLE[_p]
