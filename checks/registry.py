"""property id -> engines whose results decide it, plus the MANIFEST texts.  bin/mkmanifest renders
MANIFEST.json from this table so that the manifest can never drift from what bin/check runs."""

PROPS = {
    "C13": ["gas"],
}

TEXT = {
    "C13": dict(
        technique="TLA+ spec Gas.tla model-checked by TLC; every (state, operation) edge of the model replayed on revm_interpreter::Gas and the projected meter compared (spec->impl conformance)",
        level="TLC enumerates every reachable state of the gas-meter specification for two numeric domains (small numbers; numbers adjacent to u64::MAX / i64::MAX through an order- and difference-preserving embedding), checks the property's clauses as invariants/action properties of the specification, and prints every edge with the expected successor; the harness applies each edge's history and operation to the real Gas value and compares limit/remaining/spent/refunded and the charge result. Exhaustive for the bounded domain, so any change to the meter that alters one of these observables on a short history is detected.",
        note="Trusted: Gas.tla as the statement of the property; the 60-line adapter harness/src/gas.rs. Assumes erase_cost is called with at most the amount charged and the final refund is computed from a non-negative recorded refund (the property's 'consistent with frame accounting'). Values between the neighbourhoods of 0 and of the type maximum are not explored.",
        ref="DESIGN.md section 3, C13"),
}

# properties not (yet) claimed -> reason.  Kept current by hand; bin/mkmanifest refuses overlap.
NOT_APPLICABLE = {
    "C24": "agreement of two cryptographic backends is a differential test of two builds of external libraries; there is no state machine or specifiable function short of re-implementing secp256k1/KZG in TLA+ (DESIGN.md section 4)",
    "C26": "byte-exact EOF decode/encode round trip and validator/interpreter agreement are encode/decode fidelity; would need the 900-line EOF validator restated in TLA+ (DESIGN.md section 4)",
    "C27": "original bytes/length/keccak of stored bytecode is byte fidelity of pure accessors plus a hash function; nothing for a model checker to explore (DESIGN.md section 4)",
}
for _p in ["C%02d" % i for i in range(1, 35)]:
    if _p not in PROPS and _p not in NOT_APPLICABLE:
        NOT_APPLICABLE[_p] = "not yet claimed: the specification/harness for this property is still being built (see DESIGN.md section 9 build order); no check is registered rather than registering an unsound one"
