---------------------------- MODULE GasSchedule ----------------------------
(* The gas schedule of the EVM as pure operators over (hardfork, arguments)  -- property C14.

   Every operator below is written from the Yellow Paper (appendix G "Fee Schedule", appendix H
   "Virtual Machine Specification", section 6.2 "intrinsic gas") and from the EIPs that changed a
   price; the EIP is named at each operator.  Nothing here is derived from the Rust code: the
   harness calls the real functions of revm_interpreter::gas with the arguments of each CASE line
   printed by this module and compares what they return with the `expect` of the line.

   A hardfork is an index into ForkName (the list of revm's SpecIds of a non-optimism build, in
   activation order).  What a fork changes is stated once, in `Introduces`; every price asks
   `Has(fork, "EIP-n")`.  Forks that introduce nothing (the ice-age delays FRONTIER_THAWING,
   MUIR_GLACIER, ARROW_GLACIER, GRAY_GLACIER; DAO_FORK; BYZANTIUM, MERGE, CANCUN as far as *these*
   prices go; LATEST = OSAKA) therefore price exactly as their predecessor.

   Two state machines over the single variable `st` live in this module:

     Init / Next        "the case table": every initial state is one (function, fork, arguments)
                        tuple together with the value the schedule prescribes; it is printed as a
                        CASE line.  There are no transitions.  Invariants over the table restate
                        facts every case must satisfy (TableInv).

     SeqInit / SeqNext  one storage slot written repeatedly inside one transaction; it accumulates
                        the SSTORE charges and refunds and TLC checks the design properties of net
                        gas metering (EIP-2200: the refund counter of a slot never goes negative;
                        the net price of a sequence depends only on the original value, the final
                        value and the number of writes) -- see SeqInv.

   Schedule-wide facts that need no state are ASSUMEs at the end (TLC evaluates them at startup).

   Numbers.  TLC integers are 32-bit, so the case table uses arguments < 2^31 whose results are
   < 2^31.  The last section ("arguments near 2^64") states, as closed forms derived by hand, what
   the formulas give for lengths 2^64-k and 2^61-k and for memory sizes 2^e; such numbers are
   written [sum |-> <<<<a1,e1>>, <<a2,e2>>, ...>>] meaning a1*2^e1 + a2*2^e2 + ...   The general
   clause "fails exactly when the true value does not fit in 64 bits" is otherwise outside this
   module (no bignum arithmetic). *)
EXTENDS Integers, Sequences, FiniteSets, TLC, Json

CONSTANTS Vals,          \* storage values of the SSTORE matrix (contains 0)
          GasLefts,      \* gas remaining when SSTORE is executed (around the 2300 sentry)
          Lens,          \* byte lengths (copy, keccak, log, create2, initcode, num_words)
          Words,         \* memory sizes in 32-byte words
          Exps,          \* EXP exponents given as plain numbers
          ExpBits,       \* EXP exponents 2^e and 2^e - 1 for e in ExpBits
          ZeroBytes, NonZeroBytes,   \* numbers of zero / non-zero calldata bytes
          KeyCounts,     \* numbers of storage keys of one access-list entry
          MaxAddrs,      \* access lists have 0..MaxAddrs entries
          MaxAuths,      \* authorization lists have 0..MaxAuths entries
          Multiples,     \* per-word prices tried with cost_per_word
          HiKs,          \* k of the lengths 2^64 - k and 2^61 - k
          HiExps,        \* e of the memory sizes 2^e
          MaxSeq         \* number of writes in the SSTORE sequence machine

VARIABLE st

OOG == -1                                   \* a price that is a failure (no price is negative)
FAIL == "OOG"                               \* how a failure is printed in a CASE line
Show(x) == IF x = OOG THEN FAIL ELSE x

------------------------------------------------------------------------------
(* Hardforks *)

ForkName == << "FRONTIER", "FRONTIER_THAWING", "HOMESTEAD", "DAO_FORK", "TANGERINE",
               "SPURIOUS_DRAGON", "BYZANTIUM", "CONSTANTINOPLE", "PETERSBURG", "ISTANBUL",
               "MUIR_GLACIER", "BERLIN", "LONDON", "ARROW_GLACIER", "GRAY_GLACIER", "MERGE",
               "SHANGHAI", "CANCUN", "PRAGUE", "OSAKA", "LATEST" >>
Forks == 0 .. (Len(ForkName) - 1)
ForkIx(name) == CHOOSE i \in Forks : ForkName[i + 1] = name
HOMESTEAD == ForkIx("HOMESTEAD")         TANGERINE == ForkIx("TANGERINE")
SPURIOUS_DRAGON == ForkIx("SPURIOUS_DRAGON")  CONSTANTINOPLE == ForkIx("CONSTANTINOPLE")
PETERSBURG == ForkIx("PETERSBURG")       ISTANBUL == ForkIx("ISTANBUL")
BERLIN == ForkIx("BERLIN")               LONDON == ForkIx("LONDON")
SHANGHAI == ForkIx("SHANGHAI")           PRAGUE == ForkIx("PRAGUE")
LATEST == ForkIx("LATEST")

(* The price-changing EIPs each fork activated.
   CONSTANTINOPLE: EIP-1283 (net metering, first version) was scheduled for it and removed by
   PETERSBURG, which activated at the same mainnet block; it never priced a mainnet SSTORE and is
   not part of this schedule (SSTORE is priced the Frontier way until EIP-2200).
   EIP-1108 (Istanbul, alt_bn128) prices precompiles, which are not gas *functions* of this
   component.  EIP-1153/5656 (Cancun) have constant prices (see Constant). *)
Introduces(f) ==
    CASE f = HOMESTEAD       -> {"EIP-2"}                              \* creation transactions pay 32000
      [] f = TANGERINE       -> {"EIP-150"}                            \* IO-heavy operations repriced
      [] f = SPURIOUS_DRAGON -> {"EIP-160", "EIP-161"}                 \* EXP byte 50; new-account charge only for dead + value
      [] f = ISTANBUL        -> {"EIP-1884", "EIP-2028", "EIP-2200"}   \* SLOAD 800; calldata 16; net metering + sentry
      [] f = BERLIN          -> {"EIP-2929", "EIP-2930"}               \* cold/warm access; access lists
      [] f = LONDON          -> {"EIP-3529"}                           \* refunds reduced
      [] f = SHANGHAI        -> {"EIP-3860"}                           \* initcode metered
      [] f = PRAGUE          -> {"EIP-7623", "EIP-7702"}               \* calldata floor; authorizations
      [] OTHER               -> {}
ActiveTab == [f \in Forks |-> UNION { Introduces(g) : g \in 0 .. f }]    \* a fork keeps what its predecessors introduced
Active(f) == ActiveTab[f]
Has(f, eip) == eip \in Active(f)

------------------------------------------------------------------------------
(* Yellow Paper appendix G, and the constants of later EIPs *)

G_zero == 0            G_jumpdest == 1        G_base == 2           G_verylow == 3
G_low == 5             G_mid == 8             G_high == 10
G_sset == 20000        G_sreset == 5000       R_sclear == 15000     R_selfdestruct == 24000
G_selfdestruct == 5000 G_create == 32000      G_codedeposit == 200  G_callvalue == 9000
G_callstipend == 2300  G_newaccount == 25000  G_exp == 10           G_memory == 3
G_txcreate == 32000    G_txdatazero == 4      G_transaction == 21000
G_log == 375           G_logdata == 8         G_logtopic == 375
G_keccak256 == 30      G_keccak256word == 6   G_copy == 3           G_blockhash == 20
G_expbyte(f) == IF Has(f, "EIP-160") THEN 50 ELSE 10
G_txdatanonzero(f) == IF Has(f, "EIP-2028") THEN 16 ELSE 68
\* EIP-2929 / EIP-2930
G_coldsload == 2100    G_coldaccountaccess == 2600    G_warmaccess == 100
G_accesslistaddress == 2400   G_accessliststorage == 1900
\* EIP-3860, EIP-7623, EIP-7702
G_initcodeword == 2    G_tokenstandard == 4   G_tokenfloor == 10    G_perauth == 25000   G_perauthbase == 12500

(* Ceiling of len/32: the number of 32-byte words that hold len bytes. *)
WordsOf(len) == (len + 31) \div 32

------------------------------------------------------------------------------
(* Storage *)

(* SLOAD.  50 (Frontier), 200 (EIP-150), 800 (EIP-1884), and from EIP-2929 2100 for the first
   access to the slot in the transaction, 100 afterwards. *)
SloadCost(f, cold) ==
    IF Has(f, "EIP-2929") THEN (IF cold THEN G_coldsload ELSE G_warmaccess)
    ELSE IF Has(f, "EIP-1884") THEN 800
    ELSE IF Has(f, "EIP-150") THEN 200
    ELSE 50

(* Parameters of net metering (EIP-2200) as EIP-2929 rewrote them. *)
SloadGas(f)    == IF Has(f, "EIP-2929") THEN G_warmaccess ELSE 800
SstoreReset(f) == IF Has(f, "EIP-2929") THEN G_sreset - G_coldsload ELSE G_sreset
(* EIP-3529: SSTORE_CLEARS_SCHEDULE = SSTORE_RESET_GAS + ACCESS_LIST_STORAGE_KEY_COST *)
ClearRefund(f) == IF Has(f, "EIP-3529") THEN SstoreReset(f) + G_accessliststorage ELSE R_sclear

(* SSTORE of `new` into a slot whose value at the start of the transaction was `orig` and is now
   `cur`, with `gasleft` gas remaining when the instruction executes.
     Before EIP-2200: 20000 when a zero slot becomes non-zero, 5000 otherwise.
     EIP-2200: fails if gasleft <= 2300; a no-op or a write to a dirty slot costs SLOAD_GAS; the
     first write costs SSTORE_SET (orig = 0) or SSTORE_RESET.
     EIP-2929: as EIP-2200 with SLOAD_GAS = 100, SSTORE_RESET = 2900, plus 2100 if the slot is cold.
   Before EIP-2929 `cold` has no meaning and must not influence the price. *)
SstoreCost(f, orig, cur, new, cold, gasleft) ==
    IF ~Has(f, "EIP-2200")
    THEN (IF cur = 0 /\ new # 0 THEN G_sset ELSE G_sreset)
    ELSE IF gasleft <= G_callstipend THEN OOG
    ELSE (IF Has(f, "EIP-2929") /\ cold THEN G_coldsload ELSE 0)
         + (IF cur = new THEN SloadGas(f)
            ELSE IF orig = cur THEN (IF orig = 0 THEN G_sset ELSE SstoreReset(f))
            ELSE SloadGas(f))

(* Refund counter change of the same SSTORE (may be negative).
     Before EIP-2200: 15000 when a non-zero slot becomes zero.
     EIP-2200, clause by clause. *)
SstoreRefund(f, orig, cur, new) ==
    IF ~Has(f, "EIP-2200")
    THEN (IF cur # 0 /\ new = 0 THEN R_sclear ELSE 0)
    ELSE IF cur = new THEN 0
    ELSE IF orig = cur
    THEN (IF orig # 0 /\ new = 0 THEN ClearRefund(f) ELSE 0)
    ELSE   (IF orig # 0 /\ cur = 0 THEN -ClearRefund(f) ELSE 0)
         + (IF orig # 0 /\ cur # 0 /\ new = 0 THEN ClearRefund(f) ELSE 0)
         + (IF orig = new
            THEN (IF orig = 0 THEN G_sset - SloadGas(f) ELSE SstoreReset(f) - SloadGas(f))
            ELSE 0)

------------------------------------------------------------------------------
(* Accounts *)

(* EIP-2929 price of touching an account (BALANCE, the EXTCODE and CALL families): 2600 cold, 100 warm. *)
AccountAccess(cold) == IF cold THEN G_coldaccountaccess ELSE G_warmaccess

(* EIP-7702: a call to an account that delegates also pays for the access to the delegate.
   deleg is "none", "cold" or "warm". *)
AccessWithDelegation(cold, deleg) ==
    AccountAccess(cold) + (IF deleg = "none" THEN 0 ELSE AccountAccess(deleg = "cold"))

(* BALANCE, EXTCODESIZE, EXTCODEHASH and the base of EXTCODECOPY (revm prices the first three
   inside the instructions; they are stated for completeness and used by the ASSUMEs). *)
BalanceCost(f, cold) ==
    IF Has(f, "EIP-2929") THEN AccountAccess(cold) ELSE IF Has(f, "EIP-1884") THEN 700
    ELSE IF Has(f, "EIP-150") THEN 400 ELSE 20
ExtCodeBase(f, cold) ==
    IF Has(f, "EIP-2929") THEN AccountAccess(cold) ELSE IF Has(f, "EIP-150") THEN 700 ELSE 20
ExtCodeHashCost(f, cold) ==
    IF Has(f, "EIP-2929") THEN AccountAccess(cold) ELSE IF Has(f, "EIP-1884") THEN 700 ELSE 400

(* The CALL family, without the gas handed to the callee.
     access:      40 (Frontier), 700 (EIP-150), EIP-2929 cold/warm (+ delegate, EIP-7702);
     value:       9000 if value is transferred;
     new account: 25000 if the callee does not exist (Frontier .. EIP-150); from EIP-161 only if
                  the callee is dead (non-existent or empty) AND value is transferred.
   `dead` is "does not exist" before EIP-161 and "dead" after it. *)
CallCost(f, value, dead, cold, deleg) ==
      (IF Has(f, "EIP-2929") THEN AccessWithDelegation(cold, deleg)
       ELSE IF Has(f, "EIP-150") THEN 700 ELSE 40)
    + (IF value THEN G_callvalue ELSE 0)
    + (IF dead /\ (value \/ ~Has(f, "EIP-161")) THEN G_newaccount ELSE 0)

(* SELFDESTRUCT.  Free in Frontier; EIP-150: 5000, plus 25000 if the beneficiary does not exist;
   EIP-161: the 25000 only if a non-zero balance is sent to a dead beneficiary; EIP-2929: plus
   2600 if the beneficiary is cold (no warm charge).  Whether the contract had already been
   destroyed in this transaction changes the refund, never the price. *)
SelfdestructCost(f, hadValue, targetExists, cold) ==
    IF ~Has(f, "EIP-150") THEN 0
    ELSE G_selfdestruct
         + (IF ~targetExists /\ (hadValue \/ ~Has(f, "EIP-161")) THEN G_newaccount ELSE 0)
         + (IF Has(f, "EIP-2929") /\ cold THEN G_coldaccountaccess ELSE 0)
(* Refund: 24000 once per contract, abolished by EIP-3529. *)
SelfdestructRefund(f, previouslyDestroyed) ==
    IF Has(f, "EIP-3529") \/ previouslyDestroyed THEN 0 ELSE R_selfdestruct

------------------------------------------------------------------------------
(* Memory and data *)

(* C_mem(a) = G_memory * a + floor(a^2 / 512) for a memory of `a` words (YP eq. 326).
   a = 512 q + r  =>  floor(a^2/512) = 512 q^2 + 2 q r + floor(r^2/512)  (keeps TLC below 2^31). *)
MemoryGas(a) ==
    LET q == a \div 512  r == a % 512
    IN G_memory * a + 512 * q * q + 2 * q * r + (r * r) \div 512

PerWord(len, price) == price * WordsOf(len)
CopyCost(len)       == G_verylow + PerWord(len, G_copy)            \* CALLDATACOPY, CODECOPY, RETURNDATACOPY, MCOPY
ExtCodeCopyCost(f, len, cold) == ExtCodeBase(f, cold) + PerWord(len, G_copy)
Keccak256Cost(len)  == G_keccak256 + PerWord(len, G_keccak256word)
LogCost(topics, len) == G_log + G_logtopic * topics + G_logdata * len
Create2Cost(len)    == G_create + PerWord(len, G_keccak256word)    \* EIP-1014: hashing the initcode
InitcodeCost(len)   == PerWord(len, G_initcodeword)                \* EIP-3860

(* EXP: 10 + G_expbyte * (number of bytes of the exponent); the exponent 0 has no bytes. *)
RECURSIVE ByteLen(_)
ByteLen(n) == IF n = 0 THEN 0 ELSE 1 + ByteLen(n \div 256)
ByteLenPow2(e, minus) == IF minus = 0 THEN e \div 8 + 1 ELSE (e + 7) \div 8     \* of 2^e and of 2^e - 1
ExpCost(f, bytes) == G_exp + G_expbyte(f) * bytes

------------------------------------------------------------------------------
(* Transactions *)

(* EIP-7623 tokens (from EIP-2028 on a non-zero byte is 4 tokens of 4 gas; before it 68 gas = 17). *)
Tokens(zeros, nonzeros, eip2028) == zeros + nonzeros * (IF eip2028 THEN 4 ELSE 17)
FloorCost(tokens) == G_transaction + G_tokenfloor * tokens

RECURSIVE SumSeq(_)
SumSeq(s) == IF s = <<>> THEN 0 ELSE Head(s) + SumSeq(Tail(s))

(* Intrinsic gas g_0 (YP section 6.2) of a transaction with the given calldata mix; `access` is
   the sequence of key counts of the access-list entries.
     21000 + 4/zero byte + 68 (16 from EIP-2028)/non-zero byte
     + 32000 for a creation (EIP-2, not in Frontier)
     + 2400/address + 1900/key (EIP-2930)
     + 2/word of initcode for a creation (EIP-3860)
     + 25000/authorization (EIP-7702). *)
IntrinsicGas(f, zeros, nonzeros, create, access, auths) ==
      G_transaction
    + G_txdatazero * zeros + G_txdatanonzero(f) * nonzeros
    + (IF create /\ Has(f, "EIP-2") THEN G_txcreate ELSE 0)
    + (IF Has(f, "EIP-2930") THEN G_accesslistaddress * Len(access) + G_accessliststorage * SumSeq(access) ELSE 0)
    + (IF create /\ Has(f, "EIP-3860") THEN InitcodeCost(zeros + nonzeros) ELSE 0)
    + (IF Has(f, "EIP-7702") THEN G_perauth * auths ELSE 0)
(* EIP-7623 floor; "0" (never binding) before Prague. *)
FloorGas(f, zeros, nonzeros) ==
    IF Has(f, "EIP-7623") THEN FloorCost(Tokens(zeros, nonzeros, TRUE)) ELSE 0

------------------------------------------------------------------------------
(* Named constants of the component (revm_interpreter::gas::constants and eip7702) *)

Constant ==
    [ ZERO |-> G_zero, BASE |-> G_base, VERYLOW |-> G_verylow, LOW |-> G_low, MID |-> G_mid, HIGH |-> G_high,
      JUMPDEST |-> G_jumpdest, SELFDESTRUCT |-> R_selfdestruct, CREATE |-> G_create, CALLVALUE |-> G_callvalue,
      NEWACCOUNT |-> G_newaccount, EXP |-> G_exp, MEMORY |-> G_memory, LOG |-> G_log, LOGDATA |-> G_logdata,
      LOGTOPIC |-> G_logtopic, KECCAK256 |-> G_keccak256, KECCAK256WORD |-> G_keccak256word, COPY |-> G_copy,
      BLOCKHASH |-> G_blockhash, CODEDEPOSIT |-> G_codedeposit,
      INSTANBUL_SLOAD_GAS |-> 800, SSTORE_SET |-> G_sset, SSTORE_RESET |-> G_sreset, REFUND_SSTORE_CLEARS |-> R_sclear,
      STANDARD_TOKEN_COST |-> G_tokenstandard, NON_ZERO_BYTE_DATA_COST |-> 68, NON_ZERO_BYTE_MULTIPLIER |-> 17,
      NON_ZERO_BYTE_DATA_COST_ISTANBUL |-> 16, NON_ZERO_BYTE_MULTIPLIER_ISTANBUL |-> 4,
      TOTAL_COST_FLOOR_PER_TOKEN |-> G_tokenfloor,
      EOF_CREATE_GAS |-> 32000,                      \* EIP-7620 EOFCREATE
      DATA_LOAD_GAS |-> 4, DATA_LOADN_GAS |-> 3,     \* EIP-7480
      CONDITION_JUMP_GAS |-> 4,                      \* EIP-4200 RJUMPI
      RETF_GAS |-> 3,                                \* EIP-4750
      ACCESS_LIST_ADDRESS |-> G_accesslistaddress, ACCESS_LIST_STORAGE_KEY |-> G_accessliststorage,
      COLD_SLOAD_COST |-> G_coldsload, COLD_ACCOUNT_ACCESS_COST |-> G_coldaccountaccess,
      WARM_STORAGE_READ_COST |-> G_warmaccess,       \* also TLOAD/TSTORE (EIP-1153)
      WARM_SSTORE_RESET |-> G_sreset - G_coldsload,
      INITCODE_WORD_COST |-> G_initcodeword, CALL_STIPEND |-> G_callstipend, MIN_CALLEE_GAS |-> G_callstipend,
      PER_EMPTY_ACCOUNT_COST |-> G_perauth, PER_AUTH_BASE_COST |-> G_perauthbase ]

------------------------------------------------------------------------------
(* Arguments near 2^64 (closed forms; |b| < 2^31 throughout).

   L = 2^64 - k, 1 <= k:   ceil(L/32) = 2^59 - (k div 32)
       (k = 32 j + i, 0 <= i < 32:  L = 32 (2^59 - j - 1) + (32 - i); the remainder 32-i is in
        1..32, so the ceiling is 2^59 - j - 1 + 1.)
   m * 2^59 + b fits in 64 bits  iff  m < 32, or m = 32 and b < 0. *)
Big(terms) == [sum |-> terms]
HiLen(k)   == Big(<< <<1, 64>>, <<-k, 0>> >>)              \* the length 2^64 - k
HiLinear(m, b) == IF m < 32 \/ (m = 32 /\ b < 0) THEN Big(<< <<m, 59>>, <<b, 0>> >>) ELSE FAIL
HiWords(k)          == HiLinear(1, -(k \div 32))
HiPerWord(k, price) == HiLinear(price, -price * (k \div 32))
HiPerWordPlus(k, price, base) == HiLinear(price, base - price * (k \div 32))
(* LOG with len = 2^61 - k:  8 len = 2^64 - 8k, so the price 2^64 + (c - 8k), c = 375 + 375 topics,
   fits iff c < 8k.  With len = 2^64 - k it never fits. *)
Hi61Len(k) == Big(<< <<1, 61>>, <<-k, 0>> >>)
Hi61LogCost(topics, k) ==
    LET cc == G_log + G_logtopic * topics
    IN IF cc < G_logdata * k THEN Big(<< <<1, 64>>, <<cc - G_logdata * k, 0>> >>) ELSE FAIL
(* Memory of 2^e words, e >= 5: 3 * 2^e + 2^(2e-9); fits iff 2e-9 < 64 i.e. e <= 36 (then
   2^63 + 3*2^36 < 2^64).  A price that does not fit is a failure.  (memory_gas returns a plain
   u64: its failure value is u64::MAX, a charge no meter can pay because some gas is always spent
   before memory is touched; the harness prints u64::MAX of memory_gas as "OOG".) *)
HiMemWords(e) == Big(<< <<1, e>> >>)
HiMemoryGas(e) == IF e <= 36 THEN Big(<< <<3, e>>, <<1, 2 * e - 9>> >>) ELSE FAIL

------------------------------------------------------------------------------
(* The case table *)

Row(fn, fk, args, exp) ==
    [f |-> fn, fork |-> fk, name |-> IF fk < 0 THEN "ANY" ELSE ForkName[fk + 1], args |-> args, expect |-> exp]
Case(fn, fk, args, exp) ==
    /\ st = Row(fn, fk, args, exp)
    /\ PrintT("CASE " \o ToJson(Row(fn, fk, args, exp)))
CaseF(fn, fk, args, exp) ==                  \* a function that can fail: exp is a price or OOG
    /\ st = Row(fn, fk, args, exp)
    /\ PrintT("CASE " \o ToJson(Row(fn, fk, args, Show(exp))))
NoFork == -1     \* the function does not depend on the hardfork

AccessLists == UNION { [1 .. m -> KeyCounts] : m \in 0 .. MaxAddrs }
Delegations == {"none", "cold", "warm"}

Init ==
    \* --- storage
    \/ \E f \in Forks, o \in Vals, p \in Vals, n \in Vals, cold \in BOOLEAN, g \in GasLefts :
          CaseF("sstore_cost", f, [orig |-> o, present |-> p, new |-> n, cold |-> cold, gasleft |-> g],
               SstoreCost(f, o, p, n, cold, g))
    \/ \E f \in Forks, o \in Vals, p \in Vals, n \in Vals :
          Case("sstore_refund", f, [orig |-> o, present |-> p, new |-> n], SstoreRefund(f, o, p, n))
    \/ \E f \in Forks, cold \in BOOLEAN :
          Case("sload_cost", f, [cold |-> cold], SloadCost(f, cold))
    \* --- accounts.  A delegation can only be observed from Prague on (EIP-7702 code does not
    \*     exist earlier), so earlier forks are only asked about "none".
    \/ \E f \in Forks, v \in BOOLEAN, dead \in BOOLEAN, cold \in BOOLEAN, d \in Delegations :
          /\ d = "none" \/ Has(f, "EIP-7702")
          /\ Case("call_cost", f, [value |-> v, empty |-> dead, cold |-> cold, delegate |-> d],
                  CallCost(f, v, dead, cold, d))
    \/ \E f \in Forks, hv \in BOOLEAN, ex \in BOOLEAN, cold \in BOOLEAN, prev \in BOOLEAN :
          Case("selfdestruct_cost", f, [had_value |-> hv, target_exists |-> ex, cold |-> cold, previously_destroyed |-> prev],
               SelfdestructCost(f, hv, ex, cold))
    \/ \E cold \in BOOLEAN :
          Case("warm_cold_cost", NoFork, [cold |-> cold], AccountAccess(cold))
    \/ \E cold \in BOOLEAN, d \in Delegations :
          Case("warm_cold_cost_with_delegation", NoFork, [cold |-> cold, delegate |-> d], AccessWithDelegation(cold, d))
    \* --- memory and data
    \/ \E w \in Words : Case("memory_gas", NoFork, [words |-> w], MemoryGas(w))
    \/ \E l \in Lens : Case("memory_gas_for_len", NoFork, [len |-> l], MemoryGas(WordsOf(l)))
    \/ \E l \in Lens : Case("num_words", NoFork, [len |-> l], WordsOf(l))
    \/ \E l \in Lens, m \in Multiples : Case("cost_per_word", NoFork, [len |-> l, multiple |-> m], PerWord(l, m))
    \/ \E l \in Lens : Case("verylowcopy_cost", NoFork, [len |-> l], CopyCost(l))
    \/ \E f \in Forks, l \in Lens, cold \in BOOLEAN :
          Case("extcodecopy_cost", f, [len |-> l, cold |-> cold], ExtCodeCopyCost(f, l, cold))
    \/ \E l \in Lens : Case("keccak256_cost", NoFork, [len |-> l], Keccak256Cost(l))
    \/ \E t \in 0 .. 4, l \in Lens : Case("log_cost", NoFork, [topics |-> t, len |-> l], LogCost(t, l))
    \/ \E l \in Lens : Case("create2_cost", NoFork, [len |-> l], Create2Cost(l))
    \/ \E l \in Lens : Case("initcode_cost", NoFork, [len |-> l], InitcodeCost(l))
    \/ \E f \in Forks, x \in Exps : Case("exp_cost", f, [power |-> x], ExpCost(f, ByteLen(x)))
    \/ \E f \in Forks, e \in ExpBits, m \in {0, 1} :
          /\ m = 1 \/ e < 256
          /\ Case("exp_cost", f, [power |-> Big(<< <<1, e>>, <<-m, 0>> >>)], ExpCost(f, ByteLenPow2(e, m)))
    \* --- transactions.  Access lists exist from Berlin, authorization lists from Prague (earlier
    \*     forks reject such transactions before pricing them); an EIP-7702 transaction is never a creation.
    \/ \E f \in Forks, z \in ZeroBytes, n \in NonZeroBytes, cr \in BOOLEAN, al \in AccessLists, au \in 0 .. MaxAuths :
          /\ al = <<>> \/ Has(f, "EIP-2930")
          /\ au = 0 \/ (Has(f, "EIP-7702") /\ ~cr)
          /\ Case("calculate_initial_tx_gas", f, [zeros |-> z, nonzeros |-> n, create |-> cr, access |-> al, auths |-> au],
                  [initial |-> IntrinsicGas(f, z, n, cr, al, au), floor |-> FloorGas(f, z, n)])
    \/ \E z \in ZeroBytes, n \in NonZeroBytes, ist \in BOOLEAN :
          Case("get_tokens_in_calldata", NoFork, [zeros |-> z, nonzeros |-> n, istanbul |-> ist], Tokens(z, n, ist))
    \/ \E z \in ZeroBytes, n \in NonZeroBytes :
          Case("calc_tx_floor_cost", NoFork, [tokens |-> Tokens(z, n, TRUE)], FloorCost(Tokens(z, n, TRUE)))
    \* --- named constants
    \/ \E nm \in DOMAIN Constant : Case("const", NoFork, [name |-> nm], Constant[nm])
    \* --- arguments near 2^64
    \/ \E k \in HiKs : Case("num_words", NoFork, [len |-> HiLen(k)], HiWords(k))
    \/ \E k \in HiKs, m \in Multiples \cup {31, 32, 33} :
          Case("cost_per_word", NoFork, [len |-> HiLen(k), multiple |-> m], HiPerWord(k, m))
    \/ \E k \in HiKs : Case("verylowcopy_cost", NoFork, [len |-> HiLen(k)], HiPerWordPlus(k, G_copy, G_verylow))
    \/ \E k \in HiKs, f \in {TANGERINE, LATEST} :
          Case("extcodecopy_cost", f, [len |-> HiLen(k), cold |-> FALSE], HiPerWordPlus(k, G_copy, ExtCodeBase(f, FALSE)))
    \/ \E k \in HiKs : Case("keccak256_cost", NoFork, [len |-> HiLen(k)], HiPerWordPlus(k, G_keccak256word, G_keccak256))
    \/ \E k \in HiKs : Case("create2_cost", NoFork, [len |-> HiLen(k)], HiPerWordPlus(k, G_keccak256word, G_create))
    \/ \E k \in HiKs : Case("initcode_cost", NoFork, [len |-> HiLen(k)], HiPerWord(k, G_initcodeword))
    \/ \E k \in HiKs, t \in {0, 4} : Case("log_cost", NoFork, [topics |-> t, len |-> HiLen(k)], FAIL)
    \/ \E k \in HiKs, t \in {0, 4} : Case("log_cost", NoFork, [topics |-> t, len |-> Hi61Len(k)], Hi61LogCost(t, k))
    \/ \E e \in HiExps : Case("memory_gas", NoFork, [words |-> HiMemWords(e)], HiMemoryGas(e))
    \* 2^64 - k words, or the 2^59 - (k div 32) words of 2^64 - k bytes: the quadratic term alone exceeds 2^64
    \/ \E k \in HiKs : Case("memory_gas", NoFork, [words |-> HiLen(k)], FAIL)
    \/ \E k \in HiKs : Case("memory_gas_for_len", NoFork, [len |-> HiLen(k)], FAIL)

Next == FALSE /\ st' = st
View == st

(* Facts every row of the table satisfies. *)
IsNat(x) == x \in Nat
TableInv ==
    /\ st.f = "sstore_cost" =>
          /\ (st.expect = OOG) <=> (Has(st.fork, "EIP-2200") /\ st.args.gasleft <= 2300)      \* EIP-2200 sentry
          /\ st.expect # OOG => st.expect >= SloadCost(st.fork, FALSE) \/ ~Has(st.fork, "EIP-2200")
          /\ st.expect # OOG /\ ~Has(st.fork, "EIP-2929") =>
                 st.expect = SstoreCost(st.fork, st.args.orig, st.args.present, st.args.new, ~st.args.cold, st.args.gasleft)
    /\ st.f = "sstore_refund" =>
          /\ st.args.present = st.args.new => st.expect = 0                                  \* a no-op refunds nothing
          /\ st.expect < 0 => (st.args.orig # 0 /\ st.args.present = 0)                       \* only un-clearing takes refund back
    /\ st.f \in {"call_cost", "selfdestruct_cost", "sload_cost"} => IsNat(st.expect)
    /\ st.f = "calculate_initial_tx_gas" =>
          /\ st.expect.initial >= G_transaction
          /\ Has(st.fork, "EIP-7623") <=> st.expect.floor >= G_transaction
          \* EIP-7623: without access list, creation or authorizations the floor dominates the
          \* intrinsic gas (10 per token against 4 per token)
          /\ (Has(st.fork, "EIP-7623") /\ st.args.access = <<>> /\ ~st.args.create /\ st.args.auths = 0)
                 => st.expect.floor >= st.expect.initial

------------------------------------------------------------------------------
(* One slot written MaxSeq times in one transaction *)

SeqInit == \E f \in Forks, o \in Vals, cold \in BOOLEAN :
    st = [fork |-> f, orig |-> o, cur |-> o, n |-> 0, paid |-> 0, refund |-> 0, cold |-> cold]

SeqNext == /\ st.n < MaxSeq
           /\ \E v \in Vals :
                st' = [st EXCEPT !.cur = v, !.n = @ + 1,
                          !.paid = @ + SstoreCost(st.fork, st.orig, st.cur, v, st.cold /\ st.n = 0, 100000),
                          !.refund = @ + SstoreRefund(st.fork, st.orig, st.cur, v)]
SeqView == st

(* The refund counter of a slot never goes below zero (EIP-2200 "Rationale"). *)
RefundNeverNegative == st.refund >= 0

(* Net metering is path independent: after n >= 1 writes the charges minus the refunds are
   (n-1) SLOAD_GAS + the cold surcharge + the price of going from orig to cur in one write:
   SLOAD_GAS if nothing changed, else SSTORE_SET / SSTORE_RESET minus the clearing refund. *)
OneWrite(f, orig, cur) ==
    IF cur = orig THEN SloadGas(f)
    ELSE IF orig = 0 THEN G_sset
    ELSE SstoreReset(f) - (IF cur = 0 THEN ClearRefund(f) ELSE 0)
NetMeteringPathIndependent ==
    (Has(st.fork, "EIP-2200") /\ st.n >= 1) =>
        st.paid - st.refund = (st.n - 1) * SloadGas(st.fork)
                              + (IF Has(st.fork, "EIP-2929") /\ st.cold THEN G_coldsload ELSE 0)
                              + OneWrite(st.fork, st.orig, st.cur)
(* Before net metering every write costs at least 5000 and at most one clearing refund is earned per write. *)
FrontierBounds ==
    ~Has(st.fork, "EIP-2200") => (st.paid >= G_sreset * st.n /\ st.refund <= R_sclear * st.n /\ st.refund >= 0)
SeqInv == RefundNeverNegative /\ NetMeteringPathIndependent /\ FrontierBounds

------------------------------------------------------------------------------
(* Schedule-wide facts *)

Bools == BOOLEAN
\* forks that introduce nothing price like their predecessor, for every function of the fork
ASSUME AliasForks ==
    \A f \in Forks \ {0} : Introduces(f) = {} =>
        /\ Active(f) = Active(f - 1)
        /\ \A o \in 0 .. 2, p \in 0 .. 2, n \in 0 .. 2, cold \in Bools :
              /\ SstoreCost(f, o, p, n, cold, 2301) = SstoreCost(f - 1, o, p, n, cold, 2301)
              /\ SstoreCost(f, o, p, n, cold, 2300) = SstoreCost(f - 1, o, p, n, cold, 2300)
              /\ SstoreRefund(f, o, p, n) = SstoreRefund(f - 1, o, p, n)
        /\ \A a \in Bools, b \in Bools, cc \in Bools :
              /\ CallCost(f, a, b, cc, "none") = CallCost(f - 1, a, b, cc, "none")
              /\ SelfdestructCost(f, a, b, cc) = SelfdestructCost(f - 1, a, b, cc)
              /\ SloadCost(f, a) = SloadCost(f - 1, a) /\ ExtCodeBase(f, a) = ExtCodeBase(f - 1, a)
              /\ BalanceCost(f, a) = BalanceCost(f - 1, a) /\ ExtCodeHashCost(f, a) = ExtCodeHashCost(f - 1, a)
        /\ G_expbyte(f) = G_expbyte(f - 1) /\ G_txdatanonzero(f) = G_txdatanonzero(f - 1)
        /\ \A cr \in Bools : IntrinsicGas(f, 3, 5, cr, <<>>, 0) = IntrinsicGas(f - 1, 3, 5, cr, <<>>, 0)
\* the glacier / DAO / merge forks are among them
ASSUME \A nm \in {"FRONTIER_THAWING", "DAO_FORK", "MUIR_GLACIER", "ARROW_GLACIER", "GRAY_GLACIER", "MERGE", "PETERSBURG", "LATEST"} :
          Introduces(ForkIx(nm)) = {}
\* a warm access is never dearer than a cold one, and prices never fell between forks before Berlin
ASSUME WarmLeCold ==
    \A f \in Forks : /\ SloadCost(f, FALSE) <= SloadCost(f, TRUE)
                     /\ BalanceCost(f, FALSE) <= BalanceCost(f, TRUE)
                     /\ ExtCodeBase(f, FALSE) <= ExtCodeBase(f, TRUE)
                     /\ \A v \in Bools, d \in Bools : CallCost(f, v, d, FALSE, "none") <= CallCost(f, v, d, TRUE, "none")
\* EIP-2929 keeps the cold prices consistent: cold SSTORE reset = the old 5000; EIP-3529's clearing refund is 4800
ASSUME Eip2929Eip3529 ==
    /\ SstoreReset(BERLIN) + G_coldsload = G_sreset
    /\ ClearRefund(BERLIN) = 15000 /\ ClearRefund(LONDON) = 4800
    /\ SelfdestructRefund(LONDON, FALSE) = 0 /\ SelfdestructRefund(BERLIN, FALSE) = 24000
\* EIP-7623 tokens agree with the EIP-2028 byte prices: 4 gas per token = 4 per zero byte, 16 per non-zero byte
ASSUME TokensAgreeWithBytePrices ==
    \A z \in 0 .. 8, n \in 0 .. 8 :
        /\ G_tokenstandard * Tokens(z, n, TRUE) = G_txdatazero * z + G_txdatanonzero(PRAGUE) * n
        /\ G_tokenstandard * Tokens(z, n, FALSE) = G_txdatazero * z + G_txdatanonzero(0) * n
\* memory: strictly increasing by at least 3 per word, quadratic term first felt at 23 words,
\* and expanding in two steps costs what expanding in one step costs (the meter charges differences)
ASSUME MemoryShape ==
    /\ \A a \in 0 .. 2100 : MemoryGas(a + 1) - MemoryGas(a) >= G_memory
    /\ \A a \in 0 .. 22 : MemoryGas(a) = 3 * a
    /\ MemoryGas(23) = 70 /\ MemoryGas(32) = 98 /\ MemoryGas(1024) = 5120
    /\ \A a \in 0 .. 600 : MemoryGas(a) = 3 * a + (a * a) \div 512
\* the byte length used for EXP: 2^e has e div 8 + 1 bytes, 2^e - 1 has ceil(e/8)
ASSUME ByteLenAgrees ==
    /\ ByteLen(0) = 0 /\ ByteLen(255) = 1 /\ ByteLen(256) = 2 /\ ByteLen(65535) = 2 /\ ByteLen(65536) = 3
    /\ ByteLenPow2(8, 0) = ByteLen(256) /\ ByteLenPow2(8, 1) = ByteLen(255) /\ ByteLenPow2(0, 1) = ByteLen(0)
    /\ ByteLenPow2(16, 0) = ByteLen(65536) /\ ByteLenPow2(16, 1) = ByteLen(65535) /\ ByteLenPow2(256, 1) = 32
==========================================================================
