------------------------------- MODULE Gas -------------------------------
(* The gas meter of one frame (property C13).

   State: the limit fixed at construction, the gas remaining, the refund counter.
   Numbers are model integers; the harness embeds them into u64 / i64.  With the constant
   Big > 0 the model value Big stands for u64::MAX (i64::MAX for refunds) and values close to
   Big stand for values equally close to the real maximum; additions and subtractions that
   stay inside the two neighbourhoods {0..K} and {Big-K..Big} are exact under that embedding,
   which is how the u64 edge of the meter is reached with 32-bit TLC integers.

   Written from the property text and the yellow paper's gas accounting, not from gas.rs:
     - a charge larger than what remains fails and changes nothing;
     - a successful charge reduces `remaining` by exactly the cost;
     - spent = limit - remaining at all times, 0 <= remaining <= limit;
     - returning unused gas (at most what was charged) increases remaining;
     - the final refund is min(recorded, spent div q), q = 2 before London, 5 from London. *)
EXTENDS Integers, Sequences, TLC, Json

CONSTANTS Limits,      \* limits a meter can be created with
          Costs,       \* arguments of record_cost / erase_cost / set_spent
          Refunds,     \* arguments of record_refund / set_refund (may be negative)
          Big,         \* 0 = plain small domain; otherwise the model value standing for the type maximum
          MaxHist      \* bound on the history length (exhaustive mode)

VARIABLES limit, remaining, refunded, ok, hist
vars == <<limit, remaining, refunded, ok, hist>>

Spent == limit - remaining
Top == IF Big = 0 THEN 1000000 ELSE Big          \* no model number may exceed the type maximum

Proj == [limit |-> limit, remaining |-> remaining, refunded |-> refunded, spent |-> Spent, ok |-> ok]

Emit(op, post) ==
    PrintT("EDGE " \o ToJson([hist |-> hist, pre |-> Proj, op |-> op, post |-> post]))

Step(op, l, r, f, k) ==
    /\ limit' = l /\ remaining' = r /\ refunded' = f /\ ok' = k
    /\ hist' = Append(hist, op)
    /\ Emit(op, [limit |-> l, remaining |-> r, refunded |-> f, spent |-> l - r, ok |-> k])

Init == /\ limit = 0 /\ remaining = 0 /\ refunded = 0 /\ ok = TRUE /\ hist = <<>>

New == \E l \in Limits : Step([op |-> "new", a |-> l], l, l, 0, TRUE)
NewSpent == \E l \in Limits : Step([op |-> "new_spent", a |-> l], l, 0, 0, TRUE)

\* A charge: fails (meter unchanged, result false) iff cost > remaining.
RecordCost == \E c \in Costs :
    IF c > remaining
    THEN Step([op |-> "record_cost", a |-> c], limit, remaining, refunded, FALSE)
    ELSE Step([op |-> "record_cost", a |-> c], limit, remaining - c, refunded, TRUE)

\* Return of unused gas: only amounts consistent with frame accounting (never more than was charged).
EraseCost == \E c \in Costs :
    /\ c <= Spent
    /\ Step([op |-> "erase_cost", a |-> c], limit, remaining + c, refunded, TRUE)

SpendAll == Step([op |-> "spend_all", a |-> 0], limit, 0, refunded, TRUE)

\* set_spent(s): afterwards spent = min(s, limit).
SetSpent == \E s \in Costs :
    Step([op |-> "set_spent", a |-> s], limit, IF s >= limit THEN 0 ELSE limit - s, refunded, TRUE)

RecordRefund == \E x \in Refunds :
    /\ refunded + x <= Top /\ refunded + x >= -Top
    /\ Step([op |-> "record_refund", a |-> x], limit, remaining, refunded + x, TRUE)

SetRefund == \E x \in Refunds : Step([op |-> "set_refund", a |-> x], limit, remaining, x, TRUE)

Min(a, b) == IF a < b THEN a ELSE b

\* The cap.  Only for a non-negative recorded refund (a negative total at the end of a
\* transaction is outside the property's domain) and, in the Big domain, only when the quotient
\* is a model number (spent small).
SetFinalRefund == \E london \in BOOLEAN :
    /\ refunded >= 0
    /\ Big = 0 \/ Spent < Big \div 2
    /\ LET q == IF london THEN 5 ELSE 2 IN
       Step([op |-> "set_final_refund", a |-> IF london THEN 1 ELSE 0],
            limit, remaining, Min(refunded, Spent \div q), TRUE)

Next == /\ Len(hist) < MaxHist
        /\ \/ New \/ NewSpent \/ RecordCost \/ EraseCost \/ SpendAll \/ SetSpent
           \/ RecordRefund \/ SetRefund \/ SetFinalRefund

Spec == Init /\ [][Next]_vars

View == <<limit, remaining, refunded, ok>>

\* ---- the property, as invariants / action properties of the specification itself
NeverNegative == 0 <= remaining /\ remaining <= limit
SpentIsLimitMinusRemaining == Spent >= 0 /\ Spent + remaining = limit
FailedChargeChangesNothing ==
    [][(hist' # hist /\ hist'[Len(hist')].op = "record_cost" /\ ~ok')
        => (limit' = limit /\ remaining' = remaining /\ refunded' = refunded)]_vars
ChargeIsExact ==
    [][(hist' # hist /\ hist'[Len(hist')].op = "record_cost" /\ ok')
        => (remaining' = remaining - hist'[Len(hist')].a)]_vars
FinalRefundCapped ==
    [][(hist' # hist /\ hist'[Len(hist')].op = "set_final_refund")
        => (refunded' <= refunded /\ refunded' * (IF hist'[Len(hist')].a = 1 THEN 5 ELSE 2) <= Spent
            /\ (refunded' = refunded \/ (refunded' + 1) * (IF hist'[Len(hist')].a = 1 THEN 5 ELSE 2) > Spent))]_vars
==========================================================================
