--------------------------- MODULE InspectorTrace ---------------------------
(* Trace validation (direction B) for InspectorProtocol.tla.

   IOEnv.TRACE names an ndjson file written by harness/src/bin/inspector.rs: for every generated program a
   `Reset` record, the notifications the recording inspector received from the real revm::Evm, the terminal
   record `End`, and one `Digest` per other way of running the same transaction.  This module walks the file
   with a position `l` and asks the protocol acceptor about every record:

     - Judge(record) = "ok"  : the acceptor takes the transition;
     - otherwise             : the record is REJECTED -- a line  REJECT {line, pid, rule, event, ...}  is
                               printed, and the rest of that program is skipped (the next Reset resumes);
                               only a wrong / spurious / missing selfdestruct notification is reported
                               and the walk continues with the same program.

   There is exactly one successor per state, so TLC walks a single path; the last action prints an INFO line
   with the number of records consumed and per-kind counters (vacuity guard of checks/inspector.py).  The
   POSTCONDITION re-checks that the whole file was consumed. *)
EXTENDS InspectorProtocol, Json, IOUtils

Rec == ndJsonDeserialize(IOEnv.TRACE)

VARIABLES l,       \* index of the next record
          pid,     \* program id of the current program
          skip,    \* TRUE: a record of this program was rejected, ignore the rest of it
          stats    \* counters (records accepted per kind, special situations met)
vars == <<pvars, l, pid, skip, stats>>

Kinds == {"Reset", "Call", "CallEnd", "Create", "CreateEnd", "EofCreate", "EofCreateEnd", "Init", "Step",
          "StepEnd", "Log", "SelfDestruct", "End", "Digest"}
Marks == {"programs", "accepted_programs", "rejected", "skipped", "end_of_refused_frame", "end_of_answered_frame",
          "log_after_step_end", "log_inside_step", "sd_after_step_end", "sd_inside_step", "sd_value_not_judged",
          "failed_LOG", "failed_SELFDESTRUCT", "nohooks_programs", "max_depth"}
Bump(s, k) == [s EXCEPT ![k] = @ + 1]

TInit == PInit /\ l = 1 /\ pid = 0 /\ skip = FALSE /\ stats = [k \in Kinds \cup Marks |-> 0]

Ev == Rec[l]

(* Situations worth counting (so that the check can prove they were exercised). *)
Mark(ev, s) ==
    LET s1 == Bump(s, ev.e)
        s2 == IF ev.e \in Ends /\ ~Top.live THEN Bump(s1, IF Top.sc THEN "end_of_answered_frame" ELSE "end_of_refused_frame") ELSE s1
        s3 == IF ev.e = "Log" THEN Bump(s2, IF cur.open THEN "log_inside_step" ELSE "log_after_step_end") ELSE s2
        s4 == IF ev.e = "SelfDestruct" THEN
                 LET t == Bump(s3, IF cur.open THEN "sd_inside_step" ELSE "sd_after_step_end") IN
                 IF NothingLeaves THEN Bump(t, "sd_value_not_judged") ELSE t
              ELSE s3
        s5 == IF ev.e = "StepEnd" /\ ev.res \notin Progress /\ cur.op \in LogOps THEN Bump(s4, "failed_LOG")
              ELSE IF ev.e = "StepEnd" /\ ev.res \notin Progress /\ cur.op = SELFDESTRUCT THEN Bump(s4, "failed_SELFDESTRUCT")
              ELSE s4
        s6 == IF ev.e = "End" THEN Bump(s5, "accepted_programs") ELSE s5
        s7 == IF ev.e \in Starts /\ Len(frames) + 1 > s6["max_depth"] THEN [s6 EXCEPT !["max_depth"] = Len(frames) + 1] ELSE s6
    IN s7

Context ==   \* what the acceptor knew when it rejected (diagnostics only)
    [phase |-> phase, fork |-> fork, depth |-> Len(frames), owed |-> owed, lastev |-> lastev,
     step |-> cur,
     frame |-> IF frames = <<>> THEN [kind |-> "none"]
               ELSE [kind |-> Top.kind, live |-> Top.live, sc |-> Top.sc, ctx |-> Top.ctx, ended |-> Top.ended,
                     res |-> Top.res, pc |-> Top.pc, sl |-> Top.sl, gas |-> Top.gas, mem |-> Top.mem,
                     codelen |-> Top.codelen, inputs |-> Top.inp]]

Reject(rule) ==
    PrintT("REJECT " \o ToJson([line |-> l, pid |-> pid, rule |-> rule, event |-> Ev, context |-> Context]))

InRange == l <= Len(Rec)

\* a new program; a previous program that never reached its terminal record is itself a finding
NewProgram ==
    /\ InRange /\ Ev.e = "Reset"
    /\ IF skip \/ phase \in {"boot", "done"} THEN TRUE ELSE Reject("trace_ends_without_terminal_record")
    /\ Begin(Ev.fork, Ev.gl, Ev.hooks)
    /\ pid' = Ev.p /\ skip' = FALSE /\ l' = l + 1
    /\ stats' = LET s == Bump(Bump(stats, "Reset"), "programs") IN
                IF Ev.hooks THEN s ELSE Bump(s, "nohooks_programs")

Good ==
    /\ InRange /\ Ev.e # "Reset" /\ ~skip
    /\ Accept(Ev)
    /\ stats' = Mark(Ev, stats)
    /\ l' = l + 1 /\ UNCHANGED <<pid, skip>>

(* A rejected selfdestruct notification (or a missing one) does not disturb the frame / step structure, so the
   walk reports it and carries on with the same program: the other properties are still judged on the rest of
   the trace (on a tree that breaks C30 this keeps C25 / C28 / C29 fully checked). *)
SDRules == {"selfdestruct_without_SELFDESTRUCT_instruction", "selfdestruct_reported_twice",
            "selfdestruct_for_failed_instruction", "selfdestruct_contract_is_not_executing_contract",
            "selfdestruct_target_is_not_stack_top", "selfdestruct_value_is_not_contract_balance"}
BadSelfDestruct ==          \* the notification is dropped (if one was owed, it counts as delivered)
    /\ InRange /\ Ev.e = "SelfDestruct" /\ ~skip
    /\ Judge(Ev) \in SDRules
    /\ Reject(Judge(Ev))
    /\ owed' = "none" /\ lastev' = "SelfDestruct"
    /\ stats' = Bump(stats, "rejected") /\ l' = l + 1
    /\ UNCHANGED <<phase, fork, glimit, frames, cur, created, topres, enddg, hist, pid, skip>>
MissingSelfDestruct ==      \* reported; the record at l is judged again without the obligation
    /\ InRange /\ Ev.e # "Reset" /\ ~skip
    /\ Judge(Ev) = "selfdestruct_missing"
    /\ Reject("selfdestruct_missing")
    /\ owed' = "none"
    /\ stats' = Bump(stats, "rejected")
    /\ UNCHANGED <<phase, fork, glimit, frames, cur, lastev, created, topres, enddg, hist, pid, skip, l>>

Bad ==
    /\ InRange /\ Ev.e # "Reset" /\ ~skip
    /\ Judge(Ev) \notin {"ok", "selfdestruct_missing"} \cup (IF Ev.e = "SelfDestruct" THEN SDRules ELSE {})
    /\ Reject(Judge(Ev))
    /\ skip' = TRUE /\ stats' = Bump(stats, "rejected")
    /\ l' = l + 1 /\ UNCHANGED <<pvars, pid>>

Skip ==
    /\ InRange /\ Ev.e # "Reset" /\ skip
    /\ stats' = Bump(stats, "skipped")
    /\ l' = l + 1 /\ UNCHANGED <<pvars, pid, skip>>

Finish ==
    /\ l = Len(Rec) + 1
    /\ IF skip \/ phase \in {"boot", "done"} THEN TRUE
       ELSE PrintT("REJECT " \o ToJson([line |-> l, pid |-> pid, rule |-> "trace_ends_without_terminal_record",
                                         event |-> [e |-> "EOF"], context |-> Context]))
    /\ PrintT("INFO " \o ToJson([consumed |-> Len(Rec), stats |-> stats]))
    /\ l' = l + 1 /\ UNCHANGED <<pvars, pid, skip, stats>>

TNext == NewProgram \/ Good \/ Bad \/ BadSelfDestruct \/ MissingSelfDestruct \/ Skip \/ Finish
TView == <<l, owed>>

\* the whole file was walked: Init, one state per record (one more per missing selfdestruct), one for Finish
Consumed == \/ TLCGet("stats").diameter >= Len(Rec) + 2
            \/ (PrintT("INFO " \o ToJson([incomplete |-> TLCGet("stats").diameter, records |-> Len(Rec)])) /\ FALSE)
=============================================================================
