---------------------------- MODULE BignumCheck ----------------------------
(* TLC visits every number of LenA limbs and every pair with a number of LenA limbs
   (same-length operators) and of LenD limbs (mixed-length operators) and checks the meanings.
   One state per operand tuple; the invariant Meaning is evaluated on each. *)
EXTENDS Bignum
CONSTANTS LenA, LenD   \* limb counts of the operands
VARIABLE st
Numbers(n) == [1 .. n -> 0 .. B - 1]

BInit == st = <<"start">>
BNext ==
    \/ /\ st[1] = "start"
       /\ \E a \in Numbers(LenA) : st' = <<"a", a>>
    \/ /\ st[1] = "a"
       /\ \/ \E b \in Numbers(LenA) : st' = <<"ab", st[2], b>>
          \/ \E d \in Numbers(LenD) : st' = <<"ad", st[2], d>>

Meaning ==
    /\ st[1] = "a" => MeansUnary(Force(st[2]))
    /\ st[1] = "ab" => MeansBinary(Force(st[2]), Force(st[3]))
    /\ st[1] = "ad" => MeansMixed(Force(st[2]), Force(st[3]))
=============================================================================
