------------------------------ MODULE EofLayout ------------------------------
(* The EOF container format and the part of EOF validation a specification of this size can
   decide (property C26, partial).

   "Any byte string that decodes as an EOF container re-encodes to exactly the same bytes,
    decoding never panics, and validation returns the same verdict every time.  Every container
    that validation accepts executes without reaching any interpreter path that assumes a valid
    container (missing code section, jump outside a section, missing subcontainer)."

   Written from EIP-3540 (container), EIP-4750 (types section / CALLF / RETF), EIP-6206 (JUMPF,
   non-returning 0x80), EIP-5450 (stack validation), EIP-3670 (code validation), EIP-7480 (data
   section), EIP-7620 (sub-containers, EOFCREATE / RETURNCONTRACT), not from the Rust code.

   ------------------------------------------------------------------------------------------
   PART 1 -- the container grammar (the layout of the revision of the EIPs this revm implements)

     container := header body
     header    := magic(EF 00) version(01)
                  kind_types(01) types_size:u16
                  kind_code(02) num_code_sections:u16 code_size:u16 {num_code_sections}
                  [ kind_container(03) num_container_sections:u16 container_size:u16 {n} ]
                  kind_data(04) data_size:u16
                  terminator(00)
     body      := types_section code_section+ container_section* data_section
     types     := ( inputs:u8 outputs:u8 max_stack_height:u16 ) {num_code_sections}

     all integers big endian;
     types_size = 4 * num_code_sections;  1 <= num_code_sections <= 1024;  every code_size >= 1;
     the container section header is present iff there is at least one sub-container;
     1 <= num_container_sections <= 256; every container_size >= 1;
     inputs <= 0x7F, outputs <= 0x80 (0x80 = non-returning), max_stack_height <= 0x03FF;
     the data section may be SHORTER than data_size (EIP-3540 "data section lifecycle": a
     container that is not yet deployed may declare more data than it carries; the rest is
     appended by RETURNCONTRACT) but never longer: no trailing bytes.

   Differences between this layout and the final text of the EIPs (stated, not adopted silently):
     * container_size is 2 bytes here; the final EIP-3540/7620 text widened it to 4 bytes;
     * kind_data is 04 here; the final EIP-3540 text renumbered it to FF;
     * EIP-5450 makes "inputs <= max_stack_height" a consequence of STACK validation; this revm
       checks it already while decoding.  A byte string that is in the grammar above but has a
       section with inputs > max_stack_height is therefore given the verdict "either" (rejected
       by decoding or by validation, unobservable for consensus); validation MUST reject it.

   Sub-containers are opaque byte strings at this level (the grammar does not look inside).

   The module is a *case enumerator*: the initial states are small abstract containers, every
   step picks one way of writing it down (the encoding, or a single-field corruption of the
   encoding, or a prefix of it) and prints a CASE line with the byte string and what the grammar
   says about it.  The lemmas at the end are checked by TLC on every case.

   ------------------------------------------------------------------------------------------
   PART 2 -- validation, as far as stated here (see "Code validation" below). *)
EXTENDS Integers, Sequences, FiniteSets, TLC, Json

CONSTANTS
    Run,          \* "layout" | "code"
    Codes1,       \* byte strings the first code section is taken from
    Codes2,       \* byte strings of the second code section (<<>> in this set = "no second section")
    Types1,       \* types entries of the first section
    Types2,       \* types entries of the second section
    SubLists,     \* sequences of opaque sub-containers
    Datas,        \* data sections
    Slack,        \* declared data size - actual data size  (0 = filled, >0 = truncated data)
    Planned       \* extra containers given explicitly (sequence of containers; may nest Encode)

VARIABLES c,      \* the abstract container of this case
          cur     \* how it is written down: [name |-> corruption name, bytes |-> byte string]
vars == <<c, cur>>

\* ------------------------------------------------------------------------------ byte strings
U16(n) == <<n \div 256, n % 256>>
U32(n) == <<0, 0>> \o U16(n)
RECURSIVE Flat(_)
Flat(ss) == IF ss = <<>> THEN <<>> ELSE Head(ss) \o Flat(Tail(ss))
RECURSIVE SumSeq(_)
SumSeq(s) == IF s = <<>> THEN 0 ELSE Head(s) + SumSeq(Tail(s))
Lens(ss) == [i \in 1..Len(ss) |-> Len(ss[i])]
Max(a, b) == IF a > b THEN a ELSE b
Min1(n) == IF n > 0 THEN 1 ELSE 0

At(b, i)  == IF i >= 0 /\ i < Len(b) THEN b[i + 1] ELSE -1              \* byte at 0-based offset, -1 past the end
W(b, i)   == IF i >= 0 /\ i + 1 < Len(b) THEN b[i + 1] * 256 + b[i + 2] ELSE -1   \* u16 at offset i
Slice(b, from, n) == SubSeq(b, from + 1, from + n)
Prefix(b, n) == SubSeq(b, 1, n)
SetByte(b, i, v) == [b EXCEPT ![i + 1] = v]
SetU16(b, i, v) == [b EXCEPT ![i + 1] = v \div 256, ![i + 2] = v % 256]
Delete(b, i) == SubSeq(b, 1, i) \o SubSeq(b, i + 2, Len(b))
Insert(b, i, s) == SubSeq(b, 1, i) \o s \o SubSeq(b, i + 1, Len(b))  \* s inserted before offset i

\* ------------------------------------------------------------------ abstract containers, Encode
T(i, o, m) == [inputs |-> i, outputs |-> o, max_stack |-> m]
NonReturning == 128

Cont(ts, cs, ss, d, n) == [types |-> ts, codes |-> cs, subs |-> ss, data |-> d, dsize |-> n]

TypeOk(t) == t.inputs \in 0..127 /\ t.outputs \in 0..128 /\ t.max_stack \in 0..1023

\* Well-formed = denotes a string of the grammar.
WF(k) ==
    /\ Len(k.types) = Len(k.codes) /\ Len(k.codes) \in 1..1024
    /\ \A i \in 1..Len(k.codes) : Len(k.codes[i]) \in 1..65535
    /\ Len(k.subs) \in 0..256
    /\ \A i \in 1..Len(k.subs) : Len(k.subs[i]) \in 1..65535
    /\ \A i \in 1..Len(k.types) : TypeOk(k.types[i])
    /\ Len(k.data) <= k.dsize /\ k.dsize <= 65535
\* The EIP-5450 consequence that this implementation enforces while decoding.
InputsFit(k) == \A i \in 1..Len(k.types) : k.types[i].inputs <= k.types[i].max_stack

TypeBytes(t) == <<t.inputs, t.outputs>> \o U16(t.max_stack)
SizeList(ss) == Flat([i \in 1..Len(ss) |-> U16(Len(ss[i]))])

HdrTypes(k) == <<1>> \o U16(4 * Len(k.types))
HdrCode(k)  == <<2>> \o U16(Len(k.codes)) \o SizeList(k.codes)
HdrSubs(k)  == IF k.subs = <<>> THEN <<>> ELSE <<3>> \o U16(Len(k.subs)) \o SizeList(k.subs)
HdrData(k)  == <<4>> \o U16(k.dsize)
Magic       == <<239, 0, 1>>
Header(k)   == Magic \o HdrTypes(k) \o HdrCode(k) \o HdrSubs(k) \o HdrData(k) \o <<0>>
Body(k)     == Flat([i \in 1..Len(k.types) |-> TypeBytes(k.types[i])])
               \o Flat(k.codes) \o Flat(k.subs) \o k.data
Encode(k)   == Header(k) \o Body(k)

\* offsets of the header fields in Encode(k) (0-based)
PosTypesSize(k) == 4
PosKindCode(k)  == 6
PosNumCodes(k)  == 7
PosCodeSize(k, i) == 9 + 2 * (i - 1)
PosAfterCode(k) == 9 + 2 * Len(k.codes)                      \* kind_container or kind_data
PosSubSize(k, i) == PosAfterCode(k) + 3 + 2 * (i - 1)
PosKindData(k)  == PosAfterCode(k) + (IF k.subs = <<>> THEN 0 ELSE 3 + 2 * Len(k.subs))
PosDataSize(k)  == PosKindData(k) + 1
PosTerminator(k) == PosKindData(k) + 3
HeaderLen(k)    == PosTerminator(k) + 1

\* ------------------------------------------------------------------------- the recogniser
\* Membership of a byte string in the grammar, read left to right.  Result:
\*   [v |-> "ok" | "either" | "error", k |-> the container it denotes (when not "error")]
NoCont == Cont(<<>>, <<>>, <<>>, <<>>, 0)
Err == [v |-> "error", k |-> NoCont, hlen |-> 0, full |-> 0]

U16List(b, p, n) == [i \in 1..n |-> W(b, p + 2 * (i - 1))]

\* Cut `sizes` consecutive pieces out of b starting at offset p.
RECURSIVE Pieces(_, _, _)
Pieces(b, p, sizes) ==
    IF sizes = <<>> THEN <<>> ELSE <<Slice(b, p, Head(sizes))>> \o Pieces(b, p + Head(sizes), Tail(sizes))

ParseTypes(b, p, n) == [i \in 1..n |-> T(At(b, p + 4 * (i - 1)), At(b, p + 4 * (i - 1) + 1), W(b, p + 4 * (i - 1) + 2))]

\* The header: [ok, ts, cs (code sizes), ss (sub-container sizes), ds, hlen]
BadHeader == [ok |-> FALSE, ts |-> 0, cs |-> <<>>, ss |-> <<>>, ds |-> 0, hlen |-> 0]
ParseHeader(b) ==
    IF ~(At(b, 0) = 239 /\ At(b, 1) = 0 /\ At(b, 2) = 1 /\ At(b, 3) = 1) THEN BadHeader
    ELSE LET ts == W(b, 4)
             nc == W(b, 7)
         IN
    IF ts < 0 \/ ts % 4 # 0 \/ At(b, 6) # 2 \/ nc < 1 \/ nc > 1024 \/ 4 * nc # ts THEN BadHeader
    ELSE LET cs == U16List(b, 9, nc)
             p  == 9 + 2 * nc
             hasSubs == At(b, p) = 3
             ns == IF hasSubs THEN W(b, p + 1) ELSE 0
         IN
    IF (\E i \in 1..nc : cs[i] < 1) \/ (hasSubs /\ (ns < 1 \/ ns > 256)) THEN BadHeader
    ELSE LET ss == U16List(b, p + 3, ns)
             q  == IF hasSubs THEN p + 3 + 2 * ns ELSE p          \* offset of kind_data
             ds == W(b, q + 1)
         IN
    IF (\E i \in 1..ns : ss[i] < 1) \/ At(b, q) # 4 \/ ds < 0 \/ At(b, q + 3) # 0 THEN BadHeader
    ELSE [ok |-> TRUE, ts |-> ts, cs |-> cs, ss |-> ss, ds |-> ds, hlen |-> q + 4]

\* length of everything but the data section / of the whole container with its data complete
PartialLen(h) == h.hlen + h.ts + SumSeq(h.cs) + SumSeq(h.ss)
FullLen(h)    == PartialLen(h) + h.ds

Parse(b) ==
    LET h == ParseHeader(b) IN
    IF ~h.ok THEN Err
    ELSE IF Len(b) < PartialLen(h) \/ Len(b) > FullLen(h) THEN Err      \* body cut short / trailing bytes
    ELSE LET nc == Len(h.cs)
             types == ParseTypes(b, h.hlen, nc)
             k == Cont(types,
                       Pieces(b, h.hlen + h.ts, h.cs),
                       Pieces(b, h.hlen + h.ts + SumSeq(h.cs), h.ss),
                       Slice(b, PartialLen(h), Len(b) - PartialLen(h)),
                       h.ds)
         IN
    IF \E i \in 1..nc : ~TypeOk(types[i]) THEN Err
    ELSE [v |-> IF InputsFit(k) THEN "ok" ELSE "either", k |-> k, hlen |-> h.hlen, full |-> FullLen(h)]

\* A container FOLLOWED BY OTHER BYTES (the data of a creation transaction is
\* container ++ constructor input): the container is the prefix whose length the header
\* announces with the data section complete; the rest is the input.
ParseDangling(b) ==
    LET h == ParseHeader(b) IN
    IF ~h.ok \/ Len(b) < FullLen(h) THEN [v |-> "error", k |-> NoCont, rest |-> <<>>]
    ELSE LET r == Parse(Prefix(b, FullLen(h))) IN
         [v |-> r.v, k |-> r.k, rest |-> IF r.v = "error" THEN <<>> ELSE SubSeq(b, FullLen(h) + 1, Len(b))]

\* ------------------------------------------------------------------------ code validation
(* PART 2.  What EOF validation must decide is stated here EXACTLY for a fragment and left open
   outside it:

   The fragment: containers without sub-containers whose code sections are straight-line code
   over the instructions of `Known` below (no RJUMP/RJUMPI/RJUMPV, no DATALOADN, no
   EOFCREATE/RETURNCONTRACT).  For such a container the rules of the EIPs reduce to:

     V1  the first section has type (inputs 0, outputs 0x80)                       [4750, 6206]
     V2  every byte at an instruction position is a defined, EOF-enabled opcode    [3670]
     V3  no instruction's immediate is cut off by the end of the section           [3670]
     V4  the last instruction of a section is terminating (STOP, RETURN, REVERT, INVALID,
         RETF, JUMPF), and -- there being no jumps -- no instruction follows a terminating
         one (it would be unreachable)                                             [5450]
     V5  no instruction finds fewer operands than it pops (height starts at `inputs`);
         CALLF f needs inputs(f), and height - inputs(f) + max_stack(f) <= 1024; f must be a
         returning section and exist; after CALLF height = height - inputs(f) + outputs(f)
         JUMPF f: f exists; height - inputs(f) + max_stack(f) <= 1024; to a non-returning f:
         height >= inputs(f); to a returning f: only from a returning section with
         outputs >= outputs(f) and height = outputs + inputs(f) - outputs(f) exactly
         RETF: height = outputs exactly                                            [5450, 4750, 6206]
     V6  max_stack_height equals the largest height at which any instruction starts [5450]
     V7  a section is declared non-returning (0x80) iff it contains neither RETF nor a JUMPF
         to a returning section                                                    [6206]
     V8  every section is reachable from section 0 through CALLF / JUMPF           [4750]
     V9  a container validated as top level carries all its data (data_size = length)  [3540/7620]
     V10 a container used as INITCODE (creation transaction, EOFCREATE target) contains no
         STOP / RETURN; one used as RUNTIME code contains no RETURNCONTRACT        [7620]

   Verdict: "accept" / "reject" for containers of the fragment; "unknown" otherwise, with two
   exceptions that hold for every container: V1 and V9 violated => "reject".  The complete accept
   set of the validator (jumps, data loads, sub-container references) is NOT specified here. *)

STOP == 0  ADD == 1  POP == 80  PUSH0 == 95  PUSH1 == 96  DUP1 == 128  ADDRESS == 48
CALLF == 227  RETF == 228  JUMPF == 229  RETURN == 243  REVERT == 253  INVALID == 254

Known == {STOP, ADD, POP, PUSH0, PUSH1, DUP1, ADDRESS, CALLF, RETF, JUMPF, RETURN, REVERT, INVALID}
\* opcodes that are certainly not valid in EOF code: never assigned, or removed by EIP-3670/3540
Unassigned == {12, 13, 14, 15, 30, 31, 33, 239}
Removed    == {56, 57, 59, 60, 63, 86, 87, 88, 90, 240, 241, 242, 244, 245, 250, 255}

ImmOf(op)  == CASE op = PUSH1 -> 1 [] op \in {CALLF, JUMPF} -> 2 [] OTHER -> 0
PopsOf(op) == CASE op \in {ADD, RETURN, REVERT} -> 2 [] op \in {POP, DUP1} -> 1 [] OTHER -> 0
PushOf(op) == CASE op \in {ADD, PUSH0, PUSH1, ADDRESS} -> 1 [] op = DUP1 -> 2 [] OTHER -> 0
IsTerm(op) == op \in {STOP, RETURN, REVERT, INVALID, RETF, JUMPF}

\* instructions of a section: [op, arg, st] with st = "ok" | "bad" (V2) | "trunc" (V3) | "unknown";
\* scanning stops at the first instruction that is not "ok".
RECURSIVE ScanFrom(_, _)
ScanFrom(code, i) ==
    IF i >= Len(code) THEN <<>>
    ELSE LET op == code[i + 1] IN
         IF op \notin Known
         THEN <<[op |-> op, arg |-> 0, st |-> IF op \in Unassigned \cup Removed THEN "bad" ELSE "unknown"]>>
         ELSE IF i + ImmOf(op) >= Len(code) THEN <<[op |-> op, arg |-> 0, st |-> "trunc"]>>
         ELSE <<[op |-> op, arg |-> IF ImmOf(op) = 2 THEN W(code, i + 1) ELSE 0, st |-> "ok"]>>
              \o ScanFrom(code, i + 1 + ImmOf(op))
Scan(code) == ScanFrom(code, 0)
ScanStatus(ins) == IF ins = <<>> THEN "ok" ELSE ins[Len(ins)].st

Returning(t) == t.outputs # NonReturning

\* Walk the straight line: j = instruction index, h = height before it, m = largest height so far.
\* Result: -1 = violates V4/V5, otherwise the largest height at an instruction start.
RECURSIVE Walk(_, _, _, _, _, _)
Walk(k, s, ins, j, h, m) ==
    LET I == ins[j]
        me == k.types[s]
        m2 == Max(m, h)
        last == j = Len(ins)
        f == I.arg + 1                              \* target section (1-based) of CALLF / JUMPF
        ft == k.types[f]
    IN
    IF h > 1024 THEN -1
    ELSE IF I.op = CALLF THEN
        IF f > Len(k.types) \/ ~Returning(ft) \/ h < ft.inputs \/ h - ft.inputs + ft.max_stack > 1024 \/ last THEN -1
        ELSE Walk(k, s, ins, j + 1, h - ft.inputs + ft.outputs, m2)
    ELSE IF I.op = JUMPF THEN
        IF f > Len(k.types) \/ h - ft.inputs + ft.max_stack > 1024 \/ ~last THEN -1
        ELSE IF ~Returning(ft) THEN (IF h >= ft.inputs THEN m2 ELSE -1)
        ELSE IF Returning(me) /\ me.outputs >= ft.outputs /\ h = me.outputs + ft.inputs - ft.outputs THEN m2 ELSE -1
    ELSE IF I.op = RETF THEN
        IF last /\ Returning(me) /\ h = me.outputs THEN m2 ELSE -1
    ELSE IF h < PopsOf(I.op) THEN -1
    ELSE IF IsTerm(I.op) THEN (IF last THEN m2 ELSE -1)
    ELSE IF last THEN -1                                             \* falls off the end
    ELSE Walk(k, s, ins, j + 1, h - PopsOf(I.op) + PushOf(I.op), m2)

\* does the section return (V7)?  needs a complete scan
Returns(k, ins) ==
    \E j \in 1..Len(ins) : \/ ins[j].op = RETF
                           \/ ins[j].op = JUMPF /\ ins[j].arg + 1 <= Len(k.types) /\ Returning(k.types[ins[j].arg + 1])
Targets(ins) == {ins[j].arg + 1 : j \in {x \in 1..Len(ins) : ins[x].op \in {CALLF, JUMPF}}}

\* "ok" | "bad" | "unknown" for one section; mode is "init" or "runtime"
SectionVerdict(k, s, mode) ==
    LET ins == Scan(k.codes[s])
        st == ScanStatus(ins)
    IN
    IF st = "unknown" THEN "unknown"
    ELSE IF st # "ok" \/ ins = <<>> THEN "bad"                                        \* V2 V3
    ELSE IF mode = "init" /\ \E j \in 1..Len(ins) : ins[j].op \in {STOP, RETURN} THEN "bad"   \* V10
    ELSE IF k.types[s].inputs > k.types[s].max_stack THEN "bad"
    ELSE IF Walk(k, s, ins, 1, k.types[s].inputs, 0) # k.types[s].max_stack THEN "bad"    \* V4 V5 V6
    ELSE IF Returns(k, ins) # Returning(k.types[s]) THEN "bad"                         \* V7
    ELSE "ok"

RECURSIVE ReachN(_, _, _)
ReachN(k, set, n) ==
    IF n = 0 THEN set
    ELSE ReachN(k, set \cup UNION {Targets(Scan(k.codes[s])) \cap (1..Len(k.codes)) : s \in set}, n - 1)
Reachable(k) == ReachN(k, {1}, Len(k.codes))

\* the verdict of top-level validation, for a WELL-FORMED container k
Validity(k, mode) ==
    LET n == Len(k.codes)
        sv == [s \in 1..n |-> SectionVerdict(k, s, mode)]
    IN
    IF k.types[1].inputs # 0 \/ k.types[1].outputs # NonReturning THEN "reject"        \* V1
    ELSE IF k.dsize # Len(k.data) THEN "reject"                                        \* V9
    ELSE IF ~InputsFit(k) THEN "reject"
    ELSE IF k.subs # <<>> THEN "unknown"
    ELSE IF \E s \in 1..n : sv[s] = "unknown" THEN "unknown"
    ELSE IF \E s \in 1..n : sv[s] = "bad" THEN "reject"
    ELSE IF Reachable(k) # 1..n THEN "reject"                                          \* V8
    ELSE "accept"

\* The sufficient condition of the task in its plainest form (a lemma below shows it is implied):
\* one section, type (0, 0x80, m), PUSH0/POP/ADD/DUP1/ADDRESS... then one halting instruction.
Plain(k, mode) ==
    /\ Len(k.codes) = 1 /\ k.subs = <<>> /\ k.dsize = Len(k.data)
    /\ k.types[1].inputs = 0 /\ k.types[1].outputs = NonReturning
    /\ LET ins == Scan(k.codes[1]) IN
       /\ ins # <<>> /\ ScanStatus(ins) = "ok"
       /\ \A j \in 1..Len(ins) : ins[j].op \in {PUSH0, PUSH1, POP, ADD, DUP1, ADDRESS, STOP, RETURN, REVERT, INVALID}
       /\ \A j \in 1..Len(ins) : IsTerm(ins[j].op) <=> j = Len(ins)
       /\ mode = "init" => ins[Len(ins)].op \in {REVERT, INVALID}
       /\ Walk(k, 1, ins, 1, 0, 0) = k.types[1].max_stack

\* ----------------------------------------------------------------------------- the cases
\* all byte strings of length 1..n over an alphabet (used by the model constants)
Strings(A, n) == UNION {[1..k -> A] : k \in 1..n}

Universe ==
    {Cont(IF c2 = <<>> THEN <<t1>> ELSE <<t1, t2>>, IF c2 = <<>> THEN <<c1>> ELSE <<c1, c2>>, ss, d, Len(d) + sl) :
        c1 \in Codes1, c2 \in Codes2, t1 \in Types1, t2 \in Types2, ss \in SubLists, d \in Datas, sl \in Slack}
    \cup {Planned[i] : i \in 1..Len(Planned)}
\* (when c2 = <<>> the choice of t2 is irrelevant: the set comprehension collapses the duplicates)

\* Abstract containers that are NOT well formed but can still be written down consistently
\* (every size field agrees with the bytes that follow): each isolates one rule of the grammar.
Abnormal(k) ==
    [zero_codes       |-> [k EXCEPT !.types = <<>>, !.codes = <<>>],
     empty_code       |-> [k EXCEPT !.codes[Len(k.codes)] = <<>>],
     empty_sub        |-> [k EXCEPT !.subs = Append(k.subs, <<>>)],
     types_missing    |-> [k EXCEPT !.types = Tail(k.types)],
     types_extra      |-> [k EXCEPT !.types = Append(k.types, T(0, NonReturning, 0))],
     inputs_128       |-> [k EXCEPT !.types[Len(k.types)].inputs = 128, !.types[Len(k.types)].max_stack = 200],
     outputs_129      |-> [k EXCEPT !.types[Len(k.types)].outputs = 129],
     max_stack_1024   |-> [k EXCEPT !.types[Len(k.types)].max_stack = 1024],
     data_longer      |-> [k EXCEPT !.data = k.data \o <<7>>, !.dsize = Len(k.data)]]   \* = one trailing byte
AbnormalNames == {"zero_codes", "empty_code", "empty_sub", "types_missing", "types_extra", "inputs_128",
                  "outputs_129", "max_stack_1024", "data_longer"}

\* Ways of writing the header with its parts in another order / another width.
Reordered(k) ==
    [code_before_types |-> Magic \o HdrCode(k) \o HdrTypes(k) \o HdrSubs(k) \o HdrData(k) \o <<0>> \o Body(k),
     data_before_subs  |-> Magic \o HdrTypes(k) \o HdrCode(k) \o HdrData(k) \o HdrSubs(k) \o <<0>> \o Body(k),
     subs_before_code  |-> Magic \o HdrTypes(k) \o HdrSubs(k) \o HdrCode(k) \o HdrData(k) \o <<0>> \o Body(k),
     types_twice       |-> Magic \o HdrTypes(k) \o HdrTypes(k) \o HdrCode(k) \o HdrSubs(k) \o HdrData(k) \o <<0>> \o Body(k),
     no_data_header    |-> Magic \o HdrTypes(k) \o HdrCode(k) \o HdrSubs(k) \o <<0>> \o Body(k),
     \* kind_container with a zero count where there are no sub-containers (must be omitted instead)
     subs_header_empty |-> Magic \o HdrTypes(k) \o HdrCode(k) \o <<3, 0, 0>> \o HdrData(k) \o <<0>> \o Body(k),
     \* the final EIP text's 4-byte container sizes: not this version's layout
     subs_size_u32     |-> Magic \o HdrTypes(k) \o HdrCode(k)
                           \o (IF k.subs = <<>> THEN <<>> ELSE <<3>> \o U16(Len(k.subs)) \o Flat([i \in 1..Len(k.subs) |-> U32(Len(k.subs[i]))]))
                           \o HdrData(k) \o <<0>> \o Body(k),
     \* code sizes written as one byte each
     code_size_u8      |-> Magic \o HdrTypes(k) \o <<2>> \o U16(Len(k.codes)) \o [i \in 1..Len(k.codes) |-> Len(k.codes[i])]
                           \o HdrSubs(k) \o HdrData(k) \o <<0>> \o Body(k)]
ReorderedNames == {"code_before_types", "data_before_subs", "subs_before_code", "types_twice", "no_data_header",
                   "subs_header_empty", "subs_size_u32", "code_size_u8"}
NeedsSubs == {"data_before_subs", "subs_before_code", "subs_size_u32"}   \* identical to Encode without sub-containers

\* Single-field corruptions of Encode(k): [name, bytes]
FieldCorruptions(k) ==
    LET e == Encode(k) IN
    {[name |-> "magic0",        bytes |-> SetByte(e, 0, 238)],
     [name |-> "magic1",        bytes |-> SetByte(e, 1, 1)],
     [name |-> "version0",      bytes |-> SetByte(e, 2, 0)],
     [name |-> "version2",      bytes |-> SetByte(e, 2, 2)],
     [name |-> "kind_types",    bytes |-> SetByte(e, 3, 2)],
     [name |-> "kind_code",     bytes |-> SetByte(e, PosKindCode(k), 3)],
     [name |-> "kind_after_code", bytes |-> SetByte(e, PosAfterCode(k), 5)],
     [name |-> "kind_after_code0", bytes |-> SetByte(e, PosAfterCode(k), 0)],
     [name |-> "kind_data",     bytes |-> SetByte(e, PosKindData(k), 3)],
     [name |-> "terminator1",   bytes |-> SetByte(e, PosTerminator(k), 1)],
     [name |-> "terminator_missing", bytes |-> Delete(e, PosTerminator(k))],
     [name |-> "terminator_twice", bytes |-> Insert(e, PosTerminator(k), <<0>>)],
     [name |-> "types_size+4",  bytes |-> SetU16(e, 4, 4 * Len(k.types) + 4)],
     [name |-> "types_size-4",  bytes |-> SetU16(e, 4, 4 * Len(k.types) - 4)],
     [name |-> "types_size+1",  bytes |-> SetU16(e, 4, 4 * Len(k.types) + 1)],
     [name |-> "types_size_swapped", bytes |-> SetU16(e, 4, 4 * Len(k.types) * 256)],
     [name |-> "num_codes0",    bytes |-> SetU16(e, PosNumCodes(k), 0)],
     [name |-> "num_codes+1",   bytes |-> SetU16(e, PosNumCodes(k), Len(k.codes) + 1)],
     [name |-> "data_size+1",   bytes |-> SetU16(e, PosDataSize(k), k.dsize + 1)],
     [name |-> "data_size-1",   bytes |-> SetU16(e, PosDataSize(k), Max(k.dsize - 1, 0))],
     [name |-> "data_size_swapped", bytes |-> SetU16(e, PosDataSize(k), (k.dsize % 256) * 256 + k.dsize \div 256)],
     [name |-> "trailing_byte", bytes |-> e \o <<0>>],
     [name |-> "trailing_2",    bytes |-> e \o <<239, 0>>]}
    \cup {[name |-> "code_size+1", bytes |-> SetU16(e, PosCodeSize(k, i), Len(k.codes[i]) + 1)] : i \in 1..Len(k.codes)}
    \cup {[name |-> "code_size-1", bytes |-> SetU16(e, PosCodeSize(k, i), Len(k.codes[i]) - 1)] : i \in 1..Len(k.codes)}
    \cup {[name |-> "code_size_swapped", bytes |-> SetU16(e, PosCodeSize(k, i), Len(k.codes[i]) * 256)] : i \in 1..Len(k.codes)}
    \cup {[name |-> "sub_size+1", bytes |-> SetU16(e, PosSubSize(k, i), Len(k.subs[i]) + 1)] : i \in 1..Len(k.subs)}
    \cup {[name |-> "sub_size-1", bytes |-> SetU16(e, PosSubSize(k, i), Len(k.subs[i]) - 1)] : i \in 1..Len(k.subs)}
    \cup {[name |-> "num_subs0", bytes |-> SetU16(e, PosAfterCode(k) + 1, 0)] : i \in 1..Min1(Len(k.subs))}
    \cup {[name |-> "num_subs+1", bytes |-> SetU16(e, PosAfterCode(k) + 1, Len(k.subs) + 1)] : i \in 1..Min1(Len(k.subs))}

Writings(k) ==
    {[name |-> "encode", bytes |-> Encode(k)]}
    \cup FieldCorruptions(k)
    \cup {[name |-> n, bytes |-> Encode(Abnormal(k)[n])] : n \in AbnormalNames}
    \cup {[name |-> n, bytes |-> Reordered(k)[n]] : n \in (IF k.subs = <<>> THEN ReorderedNames \ NeedsSubs ELSE ReorderedNames \ {"subs_header_empty"})}
    \cup {[name |-> "prefix", bytes |-> Prefix(Encode(k), n)] : n \in 0..(Len(Encode(k)) - 1)}

\* ------------------------------------------------------------------------------- the machine
Fields(k) == [types |-> [i \in 1..Len(k.types) |-> <<k.types[i].inputs, k.types[i].outputs, k.types[i].max_stack>>],
              codes |-> k.codes, subs |-> k.subs, data |-> k.data, dsize |-> k.dsize,
              filled |-> k.dsize = Len(k.data)]

\* What the grammar says about a byte string (printed with every CASE)
Said(b) ==
    LET r == Parse(b)  d == ParseDangling(b) IN
    [verdict |-> r.v,
     fields |-> IF r.v = "error" THEN Fields(NoCont) ELSE Fields(r.k),
     size |-> r.full,
     dangling |-> [verdict |-> d.v, fields |-> IF d.v = "error" THEN Fields(NoCont) ELSE Fields(d.k), rest |-> d.rest],
     \* top-level validation of the container the string denotes: V1 / V9 for all, exact in the fragment
     init |-> IF r.v = "error" THEN "reject" ELSE Validity(r.k, "init"),
     runtime |-> IF r.v = "error" THEN "reject" ELSE Validity(r.k, "runtime"),
     \* does the plain sufficient condition hold for it?
     plain |-> [init |-> r.v = "ok" /\ Plain(r.k, "init"), runtime |-> r.v = "ok" /\ Plain(r.k, "runtime")]]

Start == [name |-> "start", bytes |-> <<>>]
Init == c \in Universe /\ cur = Start

Write ==
    /\ cur = Start
    /\ \E w \in (IF Run = "layout" THEN Writings(c) ELSE {[name |-> "encode", bytes |-> Encode(c)]}) :
        /\ cur' = w /\ c' = c
        /\ PrintT("CASE " \o ToJson([name |-> w.name, bytes |-> w.bytes, said |-> Said(w.bytes)]))
Next == Write
Spec == Init /\ [][Next]_vars

\* ------------------------------------------------------------------------------- lemmas
Written == cur # Start

\* Every universe container is well formed, or is abnormal only in a types entry (palette).
\* L1 (round trip, specification side): a well-formed container is recovered from its encoding.
RoundTrip == WF(c) => LET r == Parse(Encode(c)) IN r.v # "error" /\ r.k = c /\ (r.v = "ok" <=> InputsFit(c))
\* L2 (canonical): whatever string is in the language re-encodes to itself -- the first sentence
\* of the property, for the grammar: there is exactly one way to write a container down.
Canonical == Written => LET r == Parse(cur.bytes) IN r.v # "error" => (WF(r.k) /\ Encode(r.k) = cur.bytes)
\* L3 the enumerated containers are well formed; the abnormal ones are not (and L4: have no
\* encoding in the language)
UniverseWF == Run = "layout" => WF(c)
\* (the code run may plan containers beyond the grammar's limits, e.g. 1025 code sections)
NotWFRejected == (Written /\ cur.name = "encode" /\ ~WF(c)) => Parse(cur.bytes).v = "error"
AbnormalNotWF == \A n \in AbnormalNames : ~WF(Abnormal(c)[n])
\* L4 corruptions that leave the language whatever the container
AlwaysOut == {"magic0", "magic1", "version0", "version2", "kind_types", "kind_code", "kind_after_code",
              "kind_after_code0", "terminator1", "types_size+4", "types_size-4", "types_size+1",
              "types_size_swapped", "num_codes0", "num_codes+1", "zero_codes", "empty_code", "empty_sub",
              "types_missing", "types_extra", "inputs_128", "outputs_129", "max_stack_1024", "data_longer",
              "code_before_types", "subs_before_code", "data_before_subs", "subs_size_u32", "types_twice", "no_data_header", "subs_header_empty",
              "num_subs0", "code_size_u8"}
CorruptionsLeaveLanguage == (Written /\ WF(c) /\ cur.name \in AlwaysOut) => Parse(cur.bytes).v = "error"
\* L5 proper prefixes: in the language only when nothing but data bytes is missing
PrefixRule == (Written /\ WF(c) /\ cur.name = "prefix") =>
    (Parse(cur.bytes).v # "error" <=> Len(cur.bytes) >= Len(Encode(c)) - Len(c.data))
\* L6 trailing bytes are accepted only as (part of) data that the header declares
TrailingRule == (Written /\ WF(c) /\ cur.name = "trailing_byte") =>
    (Parse(cur.bytes).v # "error" <=> c.dsize > Len(c.data))
\* L7 the dangling reading: decodes iff some prefix is a container with complete data, and then
\* container ++ rest is the input
DanglingSplits == Written => LET d == ParseDangling(cur.bytes) IN
    d.v # "error" => (Encode(d.k) \o d.rest = cur.bytes /\ d.k.dsize = Len(d.k.data))
DanglingOfFilled == (Written /\ Parse(cur.bytes).v # "error" /\ Parse(cur.bytes).k.dsize = Len(Parse(cur.bytes).k.data))
    => (ParseDangling(cur.bytes).k = Parse(cur.bytes).k /\ ParseDangling(cur.bytes).rest = <<>>)
\* L8 the plain sufficient condition is inside the accept set stated above
PlainAccepted == \A mode \in {"init", "runtime"} : (WF(c) /\ Plain(c, mode)) => Validity(c, mode) = "accept"
\* L9 initcode is the stricter reading: STOP/RETURN are the only difference inside the fragment
InitImpliesRuntime == (WF(c) /\ Validity(c, "init") = "accept") => Validity(c, "runtime") = "accept"
\* L10 accepted code never underflows / overflows when executed: heights stay within 0..1024
\* (immediate from Walk; stated for the record)
AcceptedHasMaxStack == (WF(c) /\ Validity(c, "runtime") = "accept") =>
    \A s \in 1..Len(c.codes) : Walk(c, s, Scan(c.codes[s]), 1, c.types[s].inputs, 0) = c.types[s].max_stack
==============================================================================
