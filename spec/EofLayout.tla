------------------------------ MODULE EofLayout ------------------------------
(* The EOF container format and the part of EOF validation a specification of this size can
   decide (property C26, partial).

   "Any byte string that decodes as an EOF container re-encodes to exactly the same bytes,
    decoding never panics, and validation returns the same verdict every time.  Every container
    that validation accepts executes without reaching any interpreter path that assumes a valid
    container (missing code section, jump outside a section, missing subcontainer)."

   Written from EIP-3540 (container), EIP-4750 (types section / CALLF / RETF), EIP-6206 (JUMPF,
   non-returning 0x80), EIP-5450 (stack validation), EIP-3670 (code validation), EIP-7480 (data
   section), EIP-7620 (sub-containers, EOFCREATE / RETURNCONTRACT), not from the Rust code.

   ------------------------------------------------------------------------------------------
   PART 1 -- the container grammar (the layout of the revision of the EIPs this revm implements)

     container := header body
     header    := magic(EF 00) version(01)
                  kind_types(01) types_size:u16
                  kind_code(02) num_code_sections:u16 code_size:u16 {num_code_sections}
                  [ kind_container(03) num_container_sections:u16 container_size:u16 {n} ]
                  kind_data(04) data_size:u16
                  terminator(00)
     body      := types_section code_section+ container_section* data_section
     types     := ( inputs:u8 outputs:u8 max_stack_height:u16 ) {num_code_sections}

     all integers big endian;
     types_size = 4 * num_code_sections;  1 <= num_code_sections <= 1024;  every code_size >= 1;
     the container section header is present iff there is at least one sub-container;
     1 <= num_container_sections <= 256; every container_size >= 1;
     inputs <= 0x7F, outputs <= 0x80 (0x80 = non-returning), max_stack_height <= 0x03FF;
     the data section may be SHORTER than data_size (EIP-3540 "data section lifecycle": a
     container that is not yet deployed may declare more data than it carries; the rest is
     appended by RETURNCONTRACT) but never longer: no trailing bytes.

   Differences between this layout and the final text of the EIPs (stated, not adopted silently):
     * container_size is 2 bytes here; the final EIP-3540/7620 text widened it to 4 bytes;
     * kind_data is 04 here; the final EIP-3540 text renumbered it to FF;
     * EIP-5450 makes "inputs <= max_stack_height" a consequence of STACK validation; this revm
       checks it already while decoding.  A byte string that is in the grammar above but has a
       section with inputs > max_stack_height is therefore given the verdict "either" (rejected
       by decoding or by validation, unobservable for consensus); validation MUST reject it.

   Sub-containers are opaque byte strings at this level (the grammar does not look inside).

   The module is a *case enumerator*: the initial states are small abstract containers, every
   step picks one way of writing it down (the encoding, or a single-field corruption of the
   encoding, or a prefix of it) and prints a CASE line with the byte string and what the grammar
   says about it.  The lemmas at the end are checked by TLC on every case.

   ------------------------------------------------------------------------------------------
   PART 2 -- validation, as far as stated here (see "Code validation" below). *)
EXTENDS Integers, Sequences, FiniteSets, TLC, Json

CONSTANTS
    Run,          \* "layout" | "code" | "flow"
    Codes1,       \* byte strings the first code section is taken from
    Codes2,       \* byte strings of the second code section (<<>> in this set = "no second section")
    Types1,       \* types entries of the first section
    Types2,       \* types entries of the second section
    SubLists,     \* sequences of opaque sub-containers
    Datas,        \* data sections
    Slack,        \* declared data size - actual data size  (0 = filled, >0 = truncated data)
    Planned,      \* extra containers given explicitly (sequence of containers; may nest Encode)
    \* ---- the "flow" run (code with control flow as the single / first code section)
    FlowAlpha,    \* alphabet of the byte strings that are built byte by byte
    FlowN,        \* their largest length
    FlowGiven,    \* set of containers given explicitly (section 1's max_stack_height is a placeholder)
    ProbeBases,   \* set of containers whose first code section is probed: a conditional jump to EVERY byte
    Pusher        \* the one-byte instruction that pushes the condition of a probe

VARIABLES c,      \* the abstract container of this case
          cur     \* how it is written down: [name |-> corruption name, bytes |-> byte string]
vars == <<c, cur>>

\* ------------------------------------------------------------------------------ byte strings
U16(n) == <<n \div 256, n % 256>>
U32(n) == <<0, 0>> \o U16(n)
RECURSIVE Flat(_)
Flat(ss) == IF ss = <<>> THEN <<>> ELSE Head(ss) \o Flat(Tail(ss))
RECURSIVE SumSeq(_)
SumSeq(s) == IF s = <<>> THEN 0 ELSE Head(s) + SumSeq(Tail(s))
Lens(ss) == [i \in 1..Len(ss) |-> Len(ss[i])]
Max(a, b) == IF a > b THEN a ELSE b
Min1(n) == IF n > 0 THEN 1 ELSE 0

At(b, i)  == IF i >= 0 /\ i < Len(b) THEN b[i + 1] ELSE -1              \* byte at 0-based offset, -1 past the end
W(b, i)   == IF i >= 0 /\ i + 1 < Len(b) THEN b[i + 1] * 256 + b[i + 2] ELSE -1   \* u16 at offset i
Slice(b, from, n) == SubSeq(b, from + 1, from + n)
Prefix(b, n) == SubSeq(b, 1, n)
SetByte(b, i, v) == [b EXCEPT ![i + 1] = v]
SetU16(b, i, v) == [b EXCEPT ![i + 1] = v \div 256, ![i + 2] = v % 256]
Delete(b, i) == SubSeq(b, 1, i) \o SubSeq(b, i + 2, Len(b))
Insert(b, i, s) == SubSeq(b, 1, i) \o s \o SubSeq(b, i + 1, Len(b))  \* s inserted before offset i

\* ------------------------------------------------------------------ abstract containers, Encode
T(i, o, m) == [inputs |-> i, outputs |-> o, max_stack |-> m]
NonReturning == 128

Cont(ts, cs, ss, d, n) == [types |-> ts, codes |-> cs, subs |-> ss, data |-> d, dsize |-> n]

TypeOk(t) == t.inputs \in 0..127 /\ t.outputs \in 0..128 /\ t.max_stack \in 0..1023

\* Well-formed = denotes a string of the grammar.
WF(k) ==
    /\ Len(k.types) = Len(k.codes) /\ Len(k.codes) \in 1..1024
    /\ \A i \in 1..Len(k.codes) : Len(k.codes[i]) \in 1..65535
    /\ Len(k.subs) \in 0..256
    /\ \A i \in 1..Len(k.subs) : Len(k.subs[i]) \in 1..65535
    /\ \A i \in 1..Len(k.types) : TypeOk(k.types[i])
    /\ Len(k.data) <= k.dsize /\ k.dsize <= 65535
\* The EIP-5450 consequence that this implementation enforces while decoding.
InputsFit(k) == \A i \in 1..Len(k.types) : k.types[i].inputs <= k.types[i].max_stack

TypeBytes(t) == <<t.inputs, t.outputs>> \o U16(t.max_stack)
SizeList(ss) == Flat([i \in 1..Len(ss) |-> U16(Len(ss[i]))])

HdrTypes(k) == <<1>> \o U16(4 * Len(k.types))
HdrCode(k)  == <<2>> \o U16(Len(k.codes)) \o SizeList(k.codes)
HdrSubs(k)  == IF k.subs = <<>> THEN <<>> ELSE <<3>> \o U16(Len(k.subs)) \o SizeList(k.subs)
HdrData(k)  == <<4>> \o U16(k.dsize)
Magic       == <<239, 0, 1>>
Header(k)   == Magic \o HdrTypes(k) \o HdrCode(k) \o HdrSubs(k) \o HdrData(k) \o <<0>>
Body(k)     == Flat([i \in 1..Len(k.types) |-> TypeBytes(k.types[i])])
               \o Flat(k.codes) \o Flat(k.subs) \o k.data
Encode(k)   == Header(k) \o Body(k)

\* offsets of the header fields in Encode(k) (0-based)
PosTypesSize(k) == 4
PosKindCode(k)  == 6
PosNumCodes(k)  == 7
PosCodeSize(k, i) == 9 + 2 * (i - 1)
PosAfterCode(k) == 9 + 2 * Len(k.codes)                      \* kind_container or kind_data
PosSubSize(k, i) == PosAfterCode(k) + 3 + 2 * (i - 1)
PosKindData(k)  == PosAfterCode(k) + (IF k.subs = <<>> THEN 0 ELSE 3 + 2 * Len(k.subs))
PosDataSize(k)  == PosKindData(k) + 1
PosTerminator(k) == PosKindData(k) + 3
HeaderLen(k)    == PosTerminator(k) + 1

\* ------------------------------------------------------------------------- the recogniser
\* Membership of a byte string in the grammar, read left to right.  Result:
\*   [v |-> "ok" | "either" | "error", k |-> the container it denotes (when not "error")]
NoCont == Cont(<<>>, <<>>, <<>>, <<>>, 0)
Err == [v |-> "error", k |-> NoCont, hlen |-> 0, full |-> 0]

U16List(b, p, n) == [i \in 1..n |-> W(b, p + 2 * (i - 1))]

\* Cut `sizes` consecutive pieces out of b starting at offset p.
RECURSIVE Pieces(_, _, _)
Pieces(b, p, sizes) ==
    IF sizes = <<>> THEN <<>> ELSE <<Slice(b, p, Head(sizes))>> \o Pieces(b, p + Head(sizes), Tail(sizes))

ParseTypes(b, p, n) == [i \in 1..n |-> T(At(b, p + 4 * (i - 1)), At(b, p + 4 * (i - 1) + 1), W(b, p + 4 * (i - 1) + 2))]

\* The header: [ok, ts, cs (code sizes), ss (sub-container sizes), ds, hlen]
BadHeader == [ok |-> FALSE, ts |-> 0, cs |-> <<>>, ss |-> <<>>, ds |-> 0, hlen |-> 0]
ParseHeader(b) ==
    IF ~(At(b, 0) = 239 /\ At(b, 1) = 0 /\ At(b, 2) = 1 /\ At(b, 3) = 1) THEN BadHeader
    ELSE LET ts == W(b, 4)
             nc == W(b, 7)
         IN
    IF ts < 0 \/ ts % 4 # 0 \/ At(b, 6) # 2 \/ nc < 1 \/ nc > 1024 \/ 4 * nc # ts THEN BadHeader
    ELSE LET cs == U16List(b, 9, nc)
             p  == 9 + 2 * nc
             hasSubs == At(b, p) = 3
             ns == IF hasSubs THEN W(b, p + 1) ELSE 0
         IN
    IF (\E i \in 1..nc : cs[i] < 1) \/ (hasSubs /\ (ns < 1 \/ ns > 256)) THEN BadHeader
    ELSE LET ss == U16List(b, p + 3, ns)
             q  == IF hasSubs THEN p + 3 + 2 * ns ELSE p          \* offset of kind_data
             ds == W(b, q + 1)
         IN
    IF (\E i \in 1..ns : ss[i] < 1) \/ At(b, q) # 4 \/ ds < 0 \/ At(b, q + 3) # 0 THEN BadHeader
    ELSE [ok |-> TRUE, ts |-> ts, cs |-> cs, ss |-> ss, ds |-> ds, hlen |-> q + 4]

\* length of everything but the data section / of the whole container with its data complete
PartialLen(h) == h.hlen + h.ts + SumSeq(h.cs) + SumSeq(h.ss)
FullLen(h)    == PartialLen(h) + h.ds

Parse(b) ==
    LET h == ParseHeader(b) IN
    IF ~h.ok THEN Err
    ELSE IF Len(b) < PartialLen(h) \/ Len(b) > FullLen(h) THEN Err      \* body cut short / trailing bytes
    ELSE LET nc == Len(h.cs)
             types == ParseTypes(b, h.hlen, nc)
             k == Cont(types,
                       Pieces(b, h.hlen + h.ts, h.cs),
                       Pieces(b, h.hlen + h.ts + SumSeq(h.cs), h.ss),
                       Slice(b, PartialLen(h), Len(b) - PartialLen(h)),
                       h.ds)
         IN
    IF \E i \in 1..nc : ~TypeOk(types[i]) THEN Err
    ELSE [v |-> IF InputsFit(k) THEN "ok" ELSE "either", k |-> k, hlen |-> h.hlen, full |-> FullLen(h)]

\* A container FOLLOWED BY OTHER BYTES (the data of a creation transaction is
\* container ++ constructor input): the container is the prefix whose length the header
\* announces with the data section complete; the rest is the input.
ParseDangling(b) ==
    LET h == ParseHeader(b) IN
    IF ~h.ok \/ Len(b) < FullLen(h) THEN [v |-> "error", k |-> NoCont, rest |-> <<>>]
    ELSE LET r == Parse(Prefix(b, FullLen(h))) IN
         [v |-> r.v, k |-> r.k, rest |-> IF r.v = "error" THEN <<>> ELSE SubSeq(b, FullLen(h) + 1, Len(b))]

\* ------------------------------------------------------------------------ code validation
(* PART 2.  What EOF validation must decide is stated here EXACTLY for every container WITHOUT
   SUB-CONTAINERS and left open ("unknown") for containers that have some (the rules for the
   kinds of sub-containers, EIP-7620, are not written down here).

   Written from EIP-3670 (code validation), EIP-4200 (RJUMP RJUMPI RJUMPV), EIP-4750 / EIP-6206
   (CALLF RETF JUMPF), EIP-5450 (stack validation), EIP-663 (DUPN SWAPN EXCHANGE), EIP-7480
   (DATALOADN), EIP-7069 (EXTCALL...), EIP-7620 (EOFCREATE RETURNCONTRACT).

   A code section is read left to right as a sequence of instructions: one opcode byte followed by
   its immediate bytes (PUSHn: n; RJUMP RJUMPI CALLF JUMPF DATALOADN: 2; DUPN SWAPN EXCHANGE
   EOFCREATE RETURNCONTRACT: 1; RJUMPV: 1 byte max_index followed by max_index+1 two-byte entries).
   A byte is an INSTRUCTION START or an IMMEDIATE byte accordingly -- every byte of an RJUMPV
   table and its max_index byte are immediates.

     V1  the first section has type (inputs 0, outputs 0x80)                       [4750, 6206]
     V2  every instruction start is a defined opcode that is enabled in EOF code   [3670]
     V3  no instruction's immediate (RJUMPV: table) is cut off by the end of the section   [3670, 4200]
     J   every target of RJUMP / RJUMPI / RJUMPV -- relative offset (signed, big endian) counted
         from the END of the jump instruction, for RJUMPV from the end of the whole table -- lies
         inside the section and is an instruction start                            [4200]
         (offset 0 and RJUMPV with max_index 0 are allowed)
     S   EIP-5450, one linear pass.  Every instruction gets stack-height bounds [lo, hi].  The
         first instruction has [inputs, inputs].  Going through the instructions in code order:
         S1  the instruction must have bounds already (from the sequential flow or from an
             earlier forward jump), else it is unreachable by forward traversal -> invalid;
         S2  its operand requirement is judged on lo (no underflow on any path), the call stack
             limit of CALLF / JUMPF on hi, RETF and JUMPF-to-returning need lo = hi = exact;
         S3  successors: the next instruction unless this one is terminating (STOP RETURN REVERT
             INVALID RETF JUMPF RETURNCONTRACT) or RJUMP, and every jump target.  A successor
             must exist (the last instruction must be terminating or RJUMP).  A successor
             reached by sequential flow or a forward jump MERGES the new bounds (min of the
             lo's, max of the hi's); a successor reached by a backward jump (target <= the jump
             instruction itself) must already have EXACTLY the new bounds;
         S4  max_stack_height of the section = the largest hi recorded (<= 1023 by the grammar).
         Requirements: DUPN n: n+1 items (pushes one); SWAPN n: n+2; EXCHANGE x: n+m+1 with
         n = (x >> 4) + 1, m = (x & 15) + 1; DATALOADN o: o + 32 <= declared data size;
         CALLF f: f exists and returns, lo >= inputs(f), hi - inputs(f) + max_stack(f) <= 1024,
         height changes by outputs(f) - inputs(f); JUMPF f: f exists, same limit; to a
         non-returning f: lo >= inputs(f); to a returning f: only from a returning section with
         outputs >= outputs(f) and lo = hi = outputs + inputs(f) - outputs(f); RETF: lo = hi =
         outputs; EOFCREATE / RETURNCONTRACT i: sub-container i exists.   [5450 4750 6206 663 7480 7620]
     V7  a section is declared non-returning (0x80) iff it contains neither RETF nor a JUMPF
         to a returning section                                                    [6206]
     V8  every section is reachable from section 0 through CALLF / JUMPF           [4750]
     V9  a container validated as top level carries all its data (data_size = length)  [3540/7620]
     V10 a container used as INITCODE (creation transaction, EOFCREATE target) contains no
         STOP / RETURN; one used as RUNTIME code contains no RETURNCONTRACT        [7620]

   Differences between this revm revision and the final text of the EIPs (stated, not adopted
   silently; the specification follows the revision):
     * the types entry carries max_stack_HEIGHT (largest absolute height, inputs included); the
       final EIP-5450 text carries max_stack_INCREASE (height above the inputs);
     * JUMPDEST (0x5b) is a valid no-op; RETURNCONTRACT is 0xEE (final: RETURNCODE);
     * the validator stops at the first broken rule, so WHICH rule is reported is not compared.

   Verdict: "accept" / "reject" for containers without sub-containers; "unknown" otherwise, with
   two exceptions that hold for every container: V1 and V9 violated => "reject". *)

STOP == 0  ADD == 1  POP == 80  PUSH0 == 95  PUSH1 == 96  DUP1 == 128  ADDRESS == 48  NOP == 91
CALLF == 227  RETF == 228  JUMPF == 229  RETURN == 243  REVERT == 253  INVALID == 254
RJUMP == 224  RJUMPI == 225  RJUMPV == 226  DUPN == 230  SWAPN == 231  EXCHANGE == 232
DATALOADN == 209  EOFCREATE == 236  RETURNCONTRACT == 238  CALLDATASIZE == 54

\* The instruction set of EOF code by stack effect (pops -> pushes), from the Yellow Paper and the
\* EIPs that added instructions.  CALLF RETF JUMPF DUPN SWAPN EXCHANGE DUPn SWAPn LOGn are separate.
A00 == {STOP, NOP, INVALID, RJUMP}
A01 == {48, 50, 51, 52, 54, 58, 61} \cup (65..72) \cup {74, 89} \cup (95..127) \cup {209, 210}
A11 == {21, 25, 49, 53, 64, 73, 81, 84, 92, 208, 247}
A21 == (1..7) \cup {10, 11} \cup (16..20) \cup (22..24) \cup (26..29) \cup {32}
A31 == {8, 9, 249, 251}                          \* ADDMOD MULMOD EXTDELEGATECALL EXTSTATICCALL
A41 == {248, EOFCREATE}                          \* EXTCALL EOFCREATE
A10 == {POP, RJUMPI, RJUMPV}
A20 == {82, 83, 85, 93, RETURN, REVERT, RETURNCONTRACT}
A30 == {55, 62, 94, 211}                         \* CALLDATACOPY RETURNDATACOPY MCOPY DATACOPY
DUPs == 128..143   SWAPs == 144..159   LOGs == 160..164
Special == {CALLF, RETF, JUMPF, DUPN, SWAPN, EXCHANGE}
Defined == A00 \cup A01 \cup A11 \cup A21 \cup A31 \cup A41 \cup A10 \cup A20 \cup A30 \cup DUPs \cup SWAPs \cup LOGs \cup Special
\* removed from EOF code by EIP-3670 / EIP-3540 (CODESIZE CODECOPY EXTCODESIZE EXTCODECOPY EXTCODEHASH
\* JUMP JUMPI PC GAS CREATE CALL CALLCODE DELEGATECALL CREATE2 STATICCALL SELFDESTRUCT)
Removed    == {56, 57, 59, 60, 63, 86, 87, 88, 90, 240, 241, 242, 244, 245, 250, 255}
Unassigned == (0..255) \ (Defined \cup Removed)

\* the straight-line instructions the first version of this specification was written for (kept:
\* Walk below is the plain reading of the rules for them, and a lemma ties it to the general pass)
Known == {STOP, ADD, POP, PUSH0, PUSH1, DUP1, ADDRESS, CALLF, RETF, JUMPF, RETURN, REVERT, INVALID}

\* immediate bytes that follow the opcode (RJUMPV: only the max_index byte; its table is extra)
ImmOf(op)  == IF op \in 96..127 THEN op - 95
              ELSE IF op \in {RJUMP, RJUMPI, CALLF, JUMPF, DATALOADN} THEN 2
              ELSE IF op \in {RJUMPV, DUPN, SWAPN, EXCHANGE, EOFCREATE, RETURNCONTRACT} THEN 1
              ELSE 0
PopsOf(op) == IF op \in A10 \cup A11 THEN 1 ELSE IF op \in A20 \cup A21 THEN 2 ELSE IF op \in A30 \cup A31 THEN 3
              ELSE IF op \in A41 THEN 4 ELSE IF op \in DUPs THEN op - 127 ELSE IF op \in SWAPs THEN op - 142
              ELSE IF op \in LOGs THEN op - 158 ELSE 0
PushOf(op) == IF op \in A01 \cup A11 \cup A21 \cup A31 \cup A41 THEN 1
              ELSE IF op \in DUPs THEN op - 126 ELSE IF op \in SWAPs THEN op - 142 ELSE 0
IsTerm(op) == op \in {STOP, RETURN, REVERT, INVALID, RETF, JUMPF, RETURNCONTRACT}
IsJump(op) == op \in {RJUMP, RJUMPI, RJUMPV}

S16(hi, lo) == IF hi >= 128 THEN hi * 256 + lo - 65536 ELSE hi * 256 + lo    \* two's complement, big endian

\* instructions of a section, in code order:
\*   [pos (0-based offset of the opcode), op, size (opcode + immediates), arg (the immediate as a
\*    number: u16 / byte), tgts (absolute targets of a jump), st = "ok" | "bad" (V2) | "trunc" (V3)];
\* scanning stops at the first instruction that is not "ok".
RECURSIVE ScanFrom(_, _)
ScanFrom(code, i) ==
    IF i >= Len(code) THEN <<>>
    ELSE LET op == code[i + 1]
             n == Len(code)
             stop(st) == <<[pos |-> i, op |-> op, size |-> 1, arg |-> 0, tgts |-> <<>>, st |-> st]>>
         IN
         IF op \notin Defined THEN stop("bad")
         ELSE IF i + ImmOf(op) >= n THEN stop("trunc")
         ELSE IF op = RJUMPV THEN
              LET cnt == code[i + 2] + 1                  \* max_index + 1 entries
                  size == 2 + 2 * cnt
              IN IF i + size > n THEN stop("trunc")
                 ELSE <<[pos |-> i, op |-> op, size |-> size, arg |-> cnt - 1,
                         tgts |-> [x \in 1..cnt |-> i + size + S16(code[i + 1 + 2 * x], code[i + 2 + 2 * x])],
                         st |-> "ok"]>> \o ScanFrom(code, i + size)
         ELSE LET size == 1 + ImmOf(op) IN
              <<[pos |-> i, op |-> op, size |-> size,
                 arg |-> IF ImmOf(op) = 2 THEN W(code, i + 1) ELSE IF ImmOf(op) = 1 THEN code[i + 2] ELSE 0,
                 tgts |-> IF op \in {RJUMP, RJUMPI} THEN <<i + 3 + S16(code[i + 2], code[i + 3])>> ELSE <<>>,
                 st |-> "ok"]>> \o ScanFrom(code, i + size)
Scan(code) == ScanFrom(code, 0)
ScanStatus(ins) == IF ins = <<>> THEN "ok" ELSE ins[Len(ins)].st
\* (i + ImmOf(op) is the offset of the LAST immediate byte and must lie inside the section; an
\* instruction may END exactly at the end of the section, e.g. a final RJUMP, see S3)

Starts(ins) == {ins[j].pos : j \in 1..Len(ins)}
\* index of the instruction that starts at offset p, 0 if p is not an instruction start
StartIx(ins, p) == IF \E j \in 1..Len(ins) : ins[j].pos = p THEN CHOOSE j \in 1..Len(ins) : ins[j].pos = p ELSE 0
AllTargets(ins) == UNION {{ins[j].tgts[x] : x \in 1..Len(ins[j].tgts)} : j \in 1..Len(ins)}

Returning(t) == t.outputs # NonReturning

\* ---- rule S: the linear pass of EIP-5450
Unseen == [lo |-> 100000, hi |-> -1]
Merge(a, b) == [lo |-> IF a.lo < b.lo THEN a.lo ELSE b.lo, hi |-> Max(a.hi, b.hi)]
Shift(a, d) == [lo |-> a.lo + d, hi |-> a.hi + d]
Yes(d) == [why |-> "ok", d |-> d]
No(why) == [why |-> why, d |-> 0]

\* S2 for instruction I of section s at bounds `at`: may it execute, and by how much does the height change
Effect(k, s, I, at) ==
    LET me == k.types[s]
        f == I.arg + 1                              \* target section (1-based) of CALLF / JUMPF
        ft == k.types[f]
        limit == at.hi - ft.inputs + ft.max_stack <= 1024
        need(n, d) == IF at.lo >= n THEN Yes(d) ELSE No("underflow")
    IN
    IF I.op = CALLF THEN
        IF f > Len(k.types) THEN No("section") ELSE IF ~Returning(ft) THEN No("callf_nonreturning")
        ELSE IF ~limit THEN No("overflow") ELSE need(ft.inputs, ft.outputs - ft.inputs)
    ELSE IF I.op = JUMPF THEN
        IF f > Len(k.types) THEN No("section") ELSE IF ~limit THEN No("overflow")
        ELSE IF ~Returning(ft) THEN need(ft.inputs, 0)
        ELSE IF Returning(me) /\ me.outputs >= ft.outputs
                /\ at.lo = me.outputs + ft.inputs - ft.outputs /\ at.hi = at.lo THEN Yes(0) ELSE No("jumpf_outputs")
    ELSE IF I.op = RETF THEN
        IF Returning(me) /\ at.lo = me.outputs /\ at.hi = me.outputs THEN Yes(0) ELSE No("retf_outputs")
    ELSE IF I.op = DUPN THEN need(I.arg + 1, 1)
    ELSE IF I.op = SWAPN THEN need(I.arg + 2, 0)
    ELSE IF I.op = EXCHANGE THEN need((I.arg \div 16) + 1 + (I.arg % 16) + 1 + 1, 0)
    ELSE IF I.op = DATALOADN THEN (IF I.arg + 32 <= k.dsize THEN Yes(1) ELSE No("dataloadn"))
    ELSE IF I.op \in {EOFCREATE, RETURNCONTRACT} /\ I.arg >= Len(k.subs) THEN No("subcontainer")
    ELSE need(PopsOf(I.op), PushOf(I.op) - PopsOf(I.op))

Falls(op) == ~IsTerm(op) /\ op # RJUMP              \* does control continue with the next instruction
\* successors of instruction j as instruction indexes (all targets are instruction starts: rule J first)
Succ(ins, j) == (IF Falls(ins[j].op) THEN {j + 1} ELSE {})
                \cup {StartIx(ins, ins[j].tgts[x]) : x \in 1..Len(ins[j].tgts)}

\* rec: instruction index -> bounds; sx: instruction index -> its successors.
\* Result [why, rec]: why = "ok" or the rule that is broken.
RECURSIVE Pass(_, _, _, _, _, _)
Pass(k, s, ins, sx, j, rec) ==
    IF j > Len(ins) THEN [why |-> "ok", rec |-> rec]
    ELSE IF rec[j] = Unseen THEN [why |-> "unreachable", rec |-> rec]                       \* S1
    ELSE LET e == Effect(k, s, ins[j], rec[j]) IN
         IF e.why # "ok" THEN [why |-> e.why, rec |-> rec]                                  \* S2
         ELSE LET nxt == Shift(rec[j], e.d) IN
              IF Falls(ins[j].op) /\ j = Len(ins) THEN [why |-> "falls_off", rec |-> rec]    \* S3
              ELSE IF \E t \in sx[j] : t <= j /\ rec[t] # nxt THEN [why |-> "backward", rec |-> rec]
              ELSE Pass(k, s, ins, sx, j + 1,
                        [t \in 1..Len(ins) |-> IF t > j /\ t \in sx[j] THEN Merge(rec[t], nxt) ELSE rec[t]])

Bounds0(k, s, ins) == [t \in 1..Len(ins) |-> IF t = 1 THEN [lo |-> k.types[s].inputs, hi |-> k.types[s].inputs] ELSE Unseen]
MaxHi(rec) == LET hs == {rec[t].hi : t \in DOMAIN rec} IN CHOOSE h \in hs : \A g \in hs : g <= h

\* does the section return (V7)?  needs a complete scan
Returns(k, ins) ==
    \E j \in 1..Len(ins) : \/ ins[j].op = RETF
                           \/ ins[j].op = JUMPF /\ ins[j].arg + 1 <= Len(k.types) /\ Returning(k.types[ins[j].arg + 1])
Targets(ins) == {ins[j].arg + 1 : j \in {x \in 1..Len(ins) : ins[x].op \in {CALLF, JUMPF}}}

\* The analysis of one section, whatever the container is used for:
\*   [why |-> "ok" or the first broken rule in the order of this text, ins, sx (successors per
\*    instruction), rec (bounds per instruction, meaningful when the pass ran), max (largest hi, -1 without a pass)]
Analyse(k, s) ==
    LET code == k.codes[s]
        ins == Scan(code)
        st == ScanStatus(ins)
        res(why, sx, rec, m) == [why |-> why, ins |-> ins, sx |-> sx, rec |-> rec, max |-> m]
    IN
    IF ins = <<>> THEN res("empty", <<>>, <<>>, -1)
    ELSE IF st = "bad" THEN res("opcode", <<>>, <<>>, -1)                                        \* V2
    ELSE IF st = "trunc" THEN res("truncated", <<>>, <<>>, -1)                                   \* V3
    ELSE IF \E t \in AllTargets(ins) : t < 0 \/ t >= Len(code) THEN res("target_outside", <<>>, <<>>, -1)   \* J
    ELSE IF ~(AllTargets(ins) \subseteq Starts(ins)) THEN res("target_immediate", <<>>, <<>>, -1)           \* J
    ELSE IF k.types[s].inputs > k.types[s].max_stack THEN res("inputs", <<>>, <<>>, -1)
    ELSE LET sx == [j \in 1..Len(ins) |-> Succ(ins, j)]
             p == Pass(k, s, ins, sx, 1, Bounds0(k, s, ins))
         IN
         IF p.why # "ok" THEN res(p.why, sx, p.rec, -1)                                        \* S1-S3
         ELSE IF MaxHi(p.rec) # k.types[s].max_stack THEN res("max_stack", sx, p.rec, MaxHi(p.rec))   \* S4
         ELSE IF Returns(k, ins) # Returning(k.types[s]) THEN res("returning_flag", sx, p.rec, MaxHi(p.rec))   \* V7
         ELSE res("ok", sx, p.rec, MaxHi(p.rec))

\* V10: what the container is used for ("init" or "runtime") only restricts how it may halt
HaltsWrongly(k, s, mode) ==
    LET code == k.codes[s]  ins == Scan(code) IN
    /\ ScanStatus(ins) = "ok"
    /\ \E j \in 1..Len(ins) : ins[j].op \in (IF mode = "init" THEN {STOP, RETURN} ELSE {RETURNCONTRACT})

RECURSIVE ReachN(_, _, _)
ReachN(k, set, n) ==
    IF n = 0 THEN set
    ELSE ReachN(k, set \cup UNION {Targets(Scan(k.codes[s])) \cap (1..Len(k.codes)) : s \in set}, n - 1)
Reachable(k) == ReachN(k, {1}, Len(k.codes))

\* the first section that breaks a rule: [s, why], s = 0 if none does
RECURSIVE FirstBad(_, _)
FirstBad(k, s) == IF s > Len(k.codes) THEN [s |-> 0, why |-> "ok"]
                  ELSE LET w == Analyse(k, s).why IN IF w # "ok" THEN [s |-> s, why |-> w] ELSE FirstBad(k, s + 1)

\* what holds of a WELL-FORMED container whatever it is used for: [v, why]
Core(k) ==
    IF k.types[1].inputs # 0 \/ k.types[1].outputs # NonReturning THEN [v |-> "reject", why |-> "first_type"]   \* V1
    ELSE IF k.dsize # Len(k.data) THEN [v |-> "reject", why |-> "data_truncated"]                  \* V9
    ELSE IF ~InputsFit(k) THEN [v |-> "reject", why |-> "inputs"]
    ELSE IF k.subs # <<>> THEN [v |-> "unknown", why |-> "subcontainers"]
    ELSE LET b == FirstBad(k, 1) IN
         IF b.s # 0 THEN [v |-> "reject", why |-> b.why]
         ELSE IF Len(k.codes) > 1 /\ Reachable(k) # 1..Len(k.codes) THEN [v |-> "reject", why |-> "section_unreachable"]   \* V8
         ELSE [v |-> "accept", why |-> "ok"]
\* the verdict of top-level validation of k used as `mode`, given Core(k)
Under(k, core, mode) ==
    IF core.v = "accept" /\ \E s \in 1..Len(k.codes) : HaltsWrongly(k, s, mode)
    THEN [v |-> "reject", why |-> mode \o "_halt"] ELSE core                                       \* V10
Judgement(k, mode) == Under(k, Core(k), mode)
Validity(k, mode) == Judgement(k, mode).v

\* ---- the straight-line reading (the first version of this specification), kept as a cross-check:
\* Walk the straight line: j = instruction index, h = height before it, m = largest height so far.
\* Result: -1 = violates the rules, otherwise the largest height at an instruction start.
RECURSIVE Walk(_, _, _, _, _, _)
Walk(k, s, ins, j, h, m) ==
    LET I == ins[j]
        me == k.types[s]
        m2 == Max(m, h)
        last == j = Len(ins)
        f == I.arg + 1                              \* target section (1-based) of CALLF / JUMPF
        ft == k.types[f]
    IN
    IF h > 1024 THEN -1
    ELSE IF I.op = CALLF THEN
        IF f > Len(k.types) \/ ~Returning(ft) \/ h < ft.inputs \/ h - ft.inputs + ft.max_stack > 1024 \/ last THEN -1
        ELSE Walk(k, s, ins, j + 1, h - ft.inputs + ft.outputs, m2)
    ELSE IF I.op = JUMPF THEN
        IF f > Len(k.types) \/ h - ft.inputs + ft.max_stack > 1024 \/ ~last THEN -1
        ELSE IF ~Returning(ft) THEN (IF h >= ft.inputs THEN m2 ELSE -1)
        ELSE IF Returning(me) /\ me.outputs >= ft.outputs /\ h = me.outputs + ft.inputs - ft.outputs THEN m2 ELSE -1
    ELSE IF I.op = RETF THEN
        IF last /\ Returning(me) /\ h = me.outputs THEN m2 ELSE -1
    ELSE IF h < PopsOf(I.op) THEN -1
    ELSE IF IsTerm(I.op) THEN (IF last THEN m2 ELSE -1)
    ELSE IF last THEN -1                                             \* falls off the end
    ELSE Walk(k, s, ins, j + 1, h - PopsOf(I.op) + PushOf(I.op), m2)
StraightLine(ins) == ins # <<>> /\ ScanStatus(ins) = "ok" /\ \A j \in 1..Len(ins) : ins[j].op \in Known

\* ---- what validation is FOR (EIP-5450 "guarantees"): the executions of a section.
\* A configuration is <<instruction index, stack height>>; a jump may go either way.  Steps(x) = the
\* configurations after one instruction, or {<<0, 0>>} when the instruction cannot execute there
\* (underflow, limit, typing), runs off the section, or lands on something that is not an instruction.
Crash == <<0, 0>>
Steps(k, s, ins, x) ==
    LET j == x[1]  h == x[2]
        e == Effect(k, s, ins[j], [lo |-> h, hi |-> h])
        nexts == (IF Falls(ins[j].op) THEN {IF j < Len(ins) THEN j + 1 ELSE 0} ELSE {})
                 \cup {StartIx(ins, ins[j].tgts[t]) : t \in 1..Len(ins[j].tgts)}
    IN IF e.why # "ok" \/ 0 \in nexts \/ h + e.d > 1024 THEN {Crash} ELSE {<<t, h + e.d>> : t \in nexts}
RECURSIVE RunsFrom(_, _, _, _, _)
RunsFrom(k, s, ins, seen, frontier) ==
    IF frontier = {} \/ Crash \in seen THEN seen
    ELSE LET new == UNION {Steps(k, s, ins, x) : x \in frontier} \ seen IN
         RunsFrom(k, s, ins, seen \cup new, new \ {Crash})
Runs(k, s, ins) == LET x0 == <<1, k.types[s].inputs>> IN RunsFrom(k, s, ins, {x0}, {x0})

\* The sufficient condition of the task in its plainest form (a lemma below shows it is implied):
\* one section, type (0, 0x80, m), PUSH0/POP/ADD/DUP1/ADDRESS... then one halting instruction.
Plain(k, mode) ==
    /\ Len(k.codes) = 1 /\ k.subs = <<>> /\ k.dsize = Len(k.data)
    /\ k.types[1].inputs = 0 /\ k.types[1].outputs = NonReturning
    /\ LET ins == Scan(k.codes[1]) IN
       /\ ins # <<>> /\ ScanStatus(ins) = "ok"
       /\ \A j \in 1..Len(ins) : ins[j].op \in {PUSH0, PUSH1, POP, ADD, DUP1, ADDRESS, STOP, RETURN, REVERT, INVALID}
       /\ \A j \in 1..Len(ins) : IsTerm(ins[j].op) <=> j = Len(ins)
       /\ mode = "init" => ins[Len(ins)].op \in {REVERT, INVALID}
       /\ Walk(k, 1, ins, 1, 0, 0) = k.types[1].max_stack

\* ----------------------------------------------------------------------------- the cases
\* all byte strings of length 1..n over an alphabet (used by the model constants)
Strings(A, n) == UNION {[1..k -> A] : k \in 1..n}

Universe ==
    {Cont(IF c2 = <<>> THEN <<t1>> ELSE <<t1, t2>>, IF c2 = <<>> THEN <<c1>> ELSE <<c1, c2>>, ss, d, Len(d) + sl) :
        c1 \in Codes1, c2 \in Codes2, t1 \in Types1, t2 \in Types2, ss \in SubLists, d \in Datas, sl \in Slack}
    \cup {Planned[i] : i \in 1..Len(Planned)}
\* (when c2 = <<>> the choice of t2 is irrelevant: the set comprehension collapses the duplicates)

\* Abstract containers that are NOT well formed but can still be written down consistently
\* (every size field agrees with the bytes that follow): each isolates one rule of the grammar.
Abnormal(k) ==
    [zero_codes       |-> [k EXCEPT !.types = <<>>, !.codes = <<>>],
     empty_code       |-> [k EXCEPT !.codes[Len(k.codes)] = <<>>],
     empty_sub        |-> [k EXCEPT !.subs = Append(k.subs, <<>>)],
     types_missing    |-> [k EXCEPT !.types = Tail(k.types)],
     types_extra      |-> [k EXCEPT !.types = Append(k.types, T(0, NonReturning, 0))],
     inputs_128       |-> [k EXCEPT !.types[Len(k.types)].inputs = 128, !.types[Len(k.types)].max_stack = 200],
     outputs_129      |-> [k EXCEPT !.types[Len(k.types)].outputs = 129],
     max_stack_1024   |-> [k EXCEPT !.types[Len(k.types)].max_stack = 1024],
     data_longer      |-> [k EXCEPT !.data = k.data \o <<7>>, !.dsize = Len(k.data)]]   \* = one trailing byte
AbnormalNames == {"zero_codes", "empty_code", "empty_sub", "types_missing", "types_extra", "inputs_128",
                  "outputs_129", "max_stack_1024", "data_longer"}

\* Ways of writing the header with its parts in another order / another width.
Reordered(k) ==
    [code_before_types |-> Magic \o HdrCode(k) \o HdrTypes(k) \o HdrSubs(k) \o HdrData(k) \o <<0>> \o Body(k),
     data_before_subs  |-> Magic \o HdrTypes(k) \o HdrCode(k) \o HdrData(k) \o HdrSubs(k) \o <<0>> \o Body(k),
     subs_before_code  |-> Magic \o HdrTypes(k) \o HdrSubs(k) \o HdrCode(k) \o HdrData(k) \o <<0>> \o Body(k),
     types_twice       |-> Magic \o HdrTypes(k) \o HdrTypes(k) \o HdrCode(k) \o HdrSubs(k) \o HdrData(k) \o <<0>> \o Body(k),
     no_data_header    |-> Magic \o HdrTypes(k) \o HdrCode(k) \o HdrSubs(k) \o <<0>> \o Body(k),
     \* kind_container with a zero count where there are no sub-containers (must be omitted instead)
     subs_header_empty |-> Magic \o HdrTypes(k) \o HdrCode(k) \o <<3, 0, 0>> \o HdrData(k) \o <<0>> \o Body(k),
     \* the final EIP text's 4-byte container sizes: not this version's layout
     subs_size_u32     |-> Magic \o HdrTypes(k) \o HdrCode(k)
                           \o (IF k.subs = <<>> THEN <<>> ELSE <<3>> \o U16(Len(k.subs)) \o Flat([i \in 1..Len(k.subs) |-> U32(Len(k.subs[i]))]))
                           \o HdrData(k) \o <<0>> \o Body(k),
     \* code sizes written as one byte each
     code_size_u8      |-> Magic \o HdrTypes(k) \o <<2>> \o U16(Len(k.codes)) \o [i \in 1..Len(k.codes) |-> Len(k.codes[i])]
                           \o HdrSubs(k) \o HdrData(k) \o <<0>> \o Body(k)]
ReorderedNames == {"code_before_types", "data_before_subs", "subs_before_code", "types_twice", "no_data_header",
                   "subs_header_empty", "subs_size_u32", "code_size_u8"}
NeedsSubs == {"data_before_subs", "subs_before_code", "subs_size_u32"}   \* identical to Encode without sub-containers

\* Single-field corruptions of Encode(k): [name, bytes]
FieldCorruptions(k) ==
    LET e == Encode(k) IN
    {[name |-> "magic0",        bytes |-> SetByte(e, 0, 238)],
     [name |-> "magic1",        bytes |-> SetByte(e, 1, 1)],
     [name |-> "version0",      bytes |-> SetByte(e, 2, 0)],
     [name |-> "version2",      bytes |-> SetByte(e, 2, 2)],
     [name |-> "kind_types",    bytes |-> SetByte(e, 3, 2)],
     [name |-> "kind_code",     bytes |-> SetByte(e, PosKindCode(k), 3)],
     [name |-> "kind_after_code", bytes |-> SetByte(e, PosAfterCode(k), 5)],
     [name |-> "kind_after_code0", bytes |-> SetByte(e, PosAfterCode(k), 0)],
     [name |-> "kind_data",     bytes |-> SetByte(e, PosKindData(k), 3)],
     [name |-> "terminator1",   bytes |-> SetByte(e, PosTerminator(k), 1)],
     [name |-> "terminator_missing", bytes |-> Delete(e, PosTerminator(k))],
     [name |-> "terminator_twice", bytes |-> Insert(e, PosTerminator(k), <<0>>)],
     [name |-> "types_size+4",  bytes |-> SetU16(e, 4, 4 * Len(k.types) + 4)],
     [name |-> "types_size-4",  bytes |-> SetU16(e, 4, 4 * Len(k.types) - 4)],
     [name |-> "types_size+1",  bytes |-> SetU16(e, 4, 4 * Len(k.types) + 1)],
     [name |-> "types_size_swapped", bytes |-> SetU16(e, 4, 4 * Len(k.types) * 256)],
     [name |-> "num_codes0",    bytes |-> SetU16(e, PosNumCodes(k), 0)],
     [name |-> "num_codes+1",   bytes |-> SetU16(e, PosNumCodes(k), Len(k.codes) + 1)],
     [name |-> "data_size+1",   bytes |-> SetU16(e, PosDataSize(k), k.dsize + 1)],
     [name |-> "data_size-1",   bytes |-> SetU16(e, PosDataSize(k), Max(k.dsize - 1, 0))],
     [name |-> "data_size_swapped", bytes |-> SetU16(e, PosDataSize(k), (k.dsize % 256) * 256 + k.dsize \div 256)],
     [name |-> "trailing_byte", bytes |-> e \o <<0>>],
     [name |-> "trailing_2",    bytes |-> e \o <<239, 0>>]}
    \cup {[name |-> "code_size+1", bytes |-> SetU16(e, PosCodeSize(k, i), Len(k.codes[i]) + 1)] : i \in 1..Len(k.codes)}
    \cup {[name |-> "code_size-1", bytes |-> SetU16(e, PosCodeSize(k, i), Len(k.codes[i]) - 1)] : i \in 1..Len(k.codes)}
    \cup {[name |-> "code_size_swapped", bytes |-> SetU16(e, PosCodeSize(k, i), Len(k.codes[i]) * 256)] : i \in 1..Len(k.codes)}
    \cup {[name |-> "sub_size+1", bytes |-> SetU16(e, PosSubSize(k, i), Len(k.subs[i]) + 1)] : i \in 1..Len(k.subs)}
    \cup {[name |-> "sub_size-1", bytes |-> SetU16(e, PosSubSize(k, i), Len(k.subs[i]) - 1)] : i \in 1..Len(k.subs)}
    \cup {[name |-> "num_subs0", bytes |-> SetU16(e, PosAfterCode(k) + 1, 0)] : i \in 1..Min1(Len(k.subs))}
    \cup {[name |-> "num_subs+1", bytes |-> SetU16(e, PosAfterCode(k) + 1, Len(k.subs) + 1)] : i \in 1..Min1(Len(k.subs))}

Writings(k) ==
    {[name |-> "encode", bytes |-> Encode(k)]}
    \cup FieldCorruptions(k)
    \cup {[name |-> n, bytes |-> Encode(Abnormal(k)[n])] : n \in AbnormalNames}
    \cup {[name |-> n, bytes |-> Reordered(k)[n]] : n \in (IF k.subs = <<>> THEN ReorderedNames \ NeedsSubs ELSE ReorderedNames \ {"subs_header_empty"})}
    \cup {[name |-> "prefix", bytes |-> Prefix(Encode(k), n)] : n \in 0..(Len(Encode(k)) - 1)}

\* ------------------------------------------------------------------------------- the machine
Fields(k) == [types |-> [i \in 1..Len(k.types) |-> <<k.types[i].inputs, k.types[i].outputs, k.types[i].max_stack>>],
              codes |-> k.codes, subs |-> k.subs, data |-> k.data, dsize |-> k.dsize,
              filled |-> k.dsize = Len(k.data)]

\* What the grammar says about a byte string (printed with every CASE)
Said(b) ==
    LET r == Parse(b)  d == ParseDangling(b) IN
    [verdict |-> r.v,
     fields |-> IF r.v = "error" THEN Fields(NoCont) ELSE Fields(r.k),
     size |-> r.full,
     dangling |-> [verdict |-> d.v, fields |-> IF d.v = "error" THEN Fields(NoCont) ELSE Fields(d.k), rest |-> d.rest],
     \* top-level validation of the container the string denotes: V1 / V9 for all, exact in the fragment
     init |-> IF r.v = "error" THEN "reject" ELSE Validity(r.k, "init"),
     runtime |-> IF r.v = "error" THEN "reject" ELSE Validity(r.k, "runtime"),
     \* does the plain sufficient condition hold for it?
     plain |-> [init |-> r.v = "ok" /\ Plain(r.k, "init"), runtime |-> r.v = "ok" /\ Plain(r.k, "runtime")]]

Start == [name |-> "start", bytes |-> <<>>]

\* ---- the "flow" run.  The cases are containers whose FIRST code section is
\*   (a) every byte string of length 1..FlowN over FlowAlpha (built byte by byte: action Extend), as
\*       the only section (type 0 inputs, non-returning), no data;
\*   (b) PROBES of the given base containers: a conditional jump (Pusher RJUMPI off / Pusher RJUMPV 0
\*       off) placed in front of the base code (forward probe) or before its last byte (backward probe)
\*       and aimed at EVERY byte of the resulting code, one byte before it and one byte behind it;
\*   (c) the containers given explicitly;
\* each with every declared max_stack_height from 0 to the number of bytes of the section that are
\* opcodes with a net push (no linear pass can compute more than that).
S16Bytes(n) == U16(IF n < 0 THEN n + 65536 ELSE n)
ProbesOf(code) ==
    LET n == Len(code)
        body == SubSeq(code, 1, n - 1)
        last == SubSeq(code, n, n)
    IN    {<<Pusher, RJUMPI>> \o S16Bytes(a - 4) \o code : a \in -1..(n + 4)}
     \cup {<<Pusher, RJUMPV, 0>> \o S16Bytes(a - 5) \o code : a \in -1..(n + 5)}
     \cup {body \o <<Pusher, RJUMPI>> \o S16Bytes(a - (n + 3)) \o last : a \in -1..(n + 4)}
     \cup {body \o <<Pusher, RJUMPV, 0>> \o S16Bytes(a - (n + 4)) \o last : a \in -1..(n + 5)}
Flow1(code) == Cont(<<T(0, NonReturning, 0)>>, <<code>>, <<>>, <<>>, 0)
\* families of explicit cases (the model constants pick among them)
Rep(b, n) == [i \in 1..n |-> b]
\* every byte value as an instruction behind exactly enough / one too few operands, zero immediates
OpcodeCases == UNION {{Flow1(Rep(Pusher, k) \o <<b>> \o Rep(0, ImmOf(b)) \o <<INVALID>>) :
                          k \in {PopsOf(b), Max(PopsOf(b) - 1, 0)}} : b \in 0..255}
\* DUPN / SWAPN / EXCHANGE: immediates x operand counts
ImmCases(imms, ks) == {Flow1(Rep(Pusher, k) \o <<op, x>> \o <<INVALID>>) : op \in {DUPN, SWAPN, EXCHANGE}, x \in imms, k \in ks}
\* DATALOADN: offsets x data sizes (data complete)
DataCases(offs, sizes) == {Cont(<<T(0, NonReturning, 0)>>, << <<DATALOADN>> \o U16(o) \o <<POP, INVALID>> >>, <<>>, Rep(7, n), n) :
                              o \in offs, n \in sizes}
FlowInit == {Flow1(<<>>)} \cup FlowGiven \cup ProbeBases
            \cup UNION {{[b EXCEPT !.codes[1] = p] : p \in ProbesOf(b.codes[1])} : b \in ProbeBases}
NetPush(op) == (op \in Defined /\ PushOf(op) > PopsOf(op)) \/ op = DUPN \/ op = CALLF
Heights(code) == 0..Cardinality({i \in 1..Len(code) : NetPush(code[i])})

\* what the rules say about container k (flow run: straight from the abstract container; that the
\* byte string denotes k is the RoundTrip lemma)
FlowSaid(k) == LET core == Core(k)  i == Under(k, core, "init")  r == Under(k, core, "runtime") IN
               [init |-> i.v, runtime |-> r.v, why_init |-> i.why, why_runtime |-> r.why]

Init == cur = Start /\ c \in (IF Run = "flow" THEN FlowInit ELSE Universe)

Write ==
    /\ cur = Start /\ Run # "flow"
    /\ \E w \in (IF Run = "layout" THEN Writings(c) ELSE {[name |-> "encode", bytes |-> Encode(c)]}) :
        /\ cur' = w /\ c' = c
        /\ PrintT("CASE " \o ToJson([name |-> w.name, bytes |-> w.bytes, said |-> Said(w.bytes)]))

IsBuilt(k) == k = Flow1(k.codes[1]) /\ \A i \in 1..Len(k.codes[1]) : k.codes[1][i] \in FlowAlpha    \* a string under construction
Extend ==
    /\ cur = Start /\ Run = "flow" /\ IsBuilt(c) /\ Len(c.codes[1]) < FlowN
    \* a string whose fate is sealed is a case itself, but its extensions are not enumerated: the scan
    \* has met an undefined opcode (V2), or a complete jump aims before the section or at an offset
    \* that no string of this run reaches (J) -- it is rejected for that reason whatever follows
    /\ LET ins == Scan(c.codes[1]) IN
       /\ ScanStatus(ins) # "bad"
       /\ \A t \in AllTargets(ins) : 0 <= t /\ t < FlowN
    /\ \E b \in FlowAlpha : c' = Flow1(Append(c.codes[1], b))
    /\ cur' = cur
WriteFlow ==
    /\ cur = Start /\ Run = "flow" /\ c.codes[1] # <<>>
    /\ \E m \in Heights(c.codes[1]) :
        LET k == [c EXCEPT !.types[1].max_stack = m] IN
        /\ c' = k
        /\ cur' = [name |-> "flow", bytes |-> Encode(k)]
        /\ PrintT("CASE " \o ToJson([name |-> "flow", bytes |-> cur'.bytes, flow |-> FlowSaid(k)]))
Next == Write \/ Extend \/ WriteFlow
Spec == Init /\ [][Next]_vars

\* ------------------------------------------------------------------------------- lemmas
Written == cur # Start

\* Every universe container is well formed, or is abnormal only in a types entry (palette).
\* L1 (round trip, specification side): a well-formed container is recovered from its encoding.
RoundTrip == WF(c) => LET r == Parse(Encode(c)) IN r.v # "error" /\ r.k = c /\ (r.v = "ok" <=> InputsFit(c))
\* L2 (canonical): whatever string is in the language re-encodes to itself -- the first sentence
\* of the property, for the grammar: there is exactly one way to write a container down.
Canonical == Written => LET r == Parse(cur.bytes) IN r.v # "error" => (WF(r.k) /\ Encode(r.k) = cur.bytes)
\* L3 the enumerated containers are well formed; the abnormal ones are not (and L4: have no
\* encoding in the language)
UniverseWF == Run = "layout" => WF(c)
\* (the code run may plan containers beyond the grammar's limits, e.g. 1025 code sections)
NotWFRejected == (Written /\ cur.name = "encode" /\ ~WF(c)) => Parse(cur.bytes).v = "error"
AbnormalNotWF == \A n \in AbnormalNames : ~WF(Abnormal(c)[n])
\* L4 corruptions that leave the language whatever the container
AlwaysOut == {"magic0", "magic1", "version0", "version2", "kind_types", "kind_code", "kind_after_code",
              "kind_after_code0", "terminator1", "types_size+4", "types_size-4", "types_size+1",
              "types_size_swapped", "num_codes0", "num_codes+1", "zero_codes", "empty_code", "empty_sub",
              "types_missing", "types_extra", "inputs_128", "outputs_129", "max_stack_1024", "data_longer",
              "code_before_types", "subs_before_code", "data_before_subs", "subs_size_u32", "types_twice", "no_data_header", "subs_header_empty",
              "num_subs0", "code_size_u8"}
CorruptionsLeaveLanguage == (Written /\ WF(c) /\ cur.name \in AlwaysOut) => Parse(cur.bytes).v = "error"
\* L5 proper prefixes: in the language only when nothing but data bytes is missing
PrefixRule == (Written /\ WF(c) /\ cur.name = "prefix") =>
    (Parse(cur.bytes).v # "error" <=> Len(cur.bytes) >= Len(Encode(c)) - Len(c.data))
\* L6 trailing bytes are accepted only as (part of) data that the header declares
TrailingRule == (Written /\ WF(c) /\ cur.name = "trailing_byte") =>
    (Parse(cur.bytes).v # "error" <=> c.dsize > Len(c.data))
\* L7 the dangling reading: decodes iff some prefix is a container with complete data, and then
\* container ++ rest is the input
DanglingSplits == Written => LET d == ParseDangling(cur.bytes) IN
    d.v # "error" => (Encode(d.k) \o d.rest = cur.bytes /\ d.k.dsize = Len(d.k.data))
DanglingOfFilled == (Written /\ Parse(cur.bytes).v # "error" /\ Parse(cur.bytes).k.dsize = Len(Parse(cur.bytes).k.data))
    => (ParseDangling(cur.bytes).k = Parse(cur.bytes).k /\ ParseDangling(cur.bytes).rest = <<>>)
\* L8 the plain sufficient condition is inside the accept set stated above
PlainAccepted == \A mode \in {"init", "runtime"} : (WF(c) /\ Plain(c, mode)) => Validity(c, mode) = "accept"
\* L9 initcode is the stricter reading: STOP/RETURN are the only difference inside the fragment
InitImpliesRuntime == (WF(c) /\ Validity(c, "init") = "accept") => Validity(c, "runtime") = "accept"
\* L10 accepted code never underflows / overflows when executed: heights stay within 0..1024
\* (immediate from Walk; stated for the record)
AcceptedHasMaxStack == (WF(c) /\ Validity(c, "runtime") = "accept") =>
    \A s \in 1..Len(c.codes) : Analyse(c, s).max = c.types[s].max_stack

\* ---- lemmas about the general validation rules (checked on every case of every run)
Flowable == WF(c) /\ c.subs = <<>>
\* L11 the general pass and the straight-line reading agree wherever the latter applies
L11(s, a) == (StraightLine(a.ins) /\ c.types[s].inputs <= c.types[s].max_stack) =>
    LET w == Walk(c, s, a.ins, 1, c.types[s].inputs, 0) IN
    /\ (a.why \in {"ok", "max_stack", "returning_flag"}) <=> (w >= 0)
    /\ w >= 0 => w = a.max
\* L12 accepted => every jump target is an instruction start inside the section, never an immediate
L12(s, a) == \A t \in AllTargets(a.ins) : t \in 0..(Len(c.codes[s]) - 1) /\ StartIx(a.ins, t) > 0
\* L13 accepted => no instruction is unreachable: each has bounds, each can be reached from the first
\* one along successors that lead FORWARD only (the prerequisite of the one-pass algorithm), and the
\* last one does not run off the section
RECURSIVE FwdReach(_, _, _)
FwdReach(sx, j, set) == IF j > Len(sx) THEN set
                        ELSE FwdReach(sx, j + 1, IF j \in set THEN set \cup {t \in sx[j] : t > j} ELSE set)
L13(s, a) == /\ \A j \in 1..Len(a.ins) : a.rec[j] # Unseen /\ 0 <= a.rec[j].lo /\ a.rec[j].lo <= a.rec[j].hi
             /\ FwdReach(a.sx, 1, {1}) = 1..Len(a.ins)
             /\ ~Falls(a.ins[Len(a.ins)].op)
\* L14 accepted => the declared max_stack_height is the computed one
L14(s, a) == a.max = c.types[s].max_stack /\ a.max = MaxHi(a.rec) /\ a.max <= 1023
\* L15 what validation is for: in an accepted section EVERY execution (each jump going either way)
\* stays on instruction starts inside the section, finds its operands, stays within the recorded
\* bounds of each instruction, hence below the declared maximum -- and the maximum is attained
\* when the bounds are tight (lo = hi everywhere)
L15(s, a) == LET runs == Runs(c, s, a.ins) IN
    /\ Crash \notin runs
    /\ \A x \in runs : a.rec[x[1]].lo <= x[2] /\ x[2] <= a.rec[x[1]].hi
    /\ (\A j \in 1..Len(a.ins) : a.rec[j].lo = a.rec[j].hi) => \E x \in runs : x[2] = a.max
\* (they speak about c alone: checked once per container -- in the flow run on the written state,
\* whose c carries the declared height of the case; in the other runs on the initial state)
SectionLemmas == ((Written <=> Run = "flow") /\ Flowable) => \A s \in 1..Len(c.codes) :
    LET a == Analyse(c, s) IN
    /\ L11(s, a)
    /\ a.why = "ok" => (L12(s, a) /\ L13(s, a) /\ L14(s, a) /\ L15(s, a))
\* the byte string of a flow case denotes the container the rules were applied to
FlowDenotes == (Run = "flow" /\ Written) => LET r == Parse(cur.bytes) IN r.k = c /\ (r.v = "ok" <=> InputsFit(c)) /\ r.v # "error"
\* L16 a declared max_stack_height decides alone: at most one value is accepted for a given code
\* (flow run: the variants of a code differ in section 1's max_stack_height only)
OnlyOneHeight == (Run = "flow" /\ Written /\ Flowable /\ Core(c).v = "accept") =>
    \A m \in Heights(c.codes[1]) \ {c.types[1].max_stack} : Core([c EXCEPT !.types[1].max_stack = m]).v = "reject"
==============================================================================
