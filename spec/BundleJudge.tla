----------------------------- MODULE BundleJudge -----------------------------
(* Judges what the real State / BundleState / CacheDB answered (recorded by harness/src/bin/
   bundle.rs) against the plain-state semantics of module Bundle (C15 .. C19).

   Input: an ndjson file (IOEnv.TRACE), one record per executed edge of Bundle.tla:
       [i, op, st, obs]
   `st` is the model state printed by the generator for that edge (cur, groups = <<G_0..G_m>>),
   `op` the operation, `obs` the raw answer of the real code.  Everything is JSON-shaped:
   objects are functions over strings, arrays are sequences.

   The meaning of the block-state layer's outputs is defined HERE, once, from the property texts:

     ApplyCS(cs, P)       accounts set / deleted; per account: wipe flag clears the storage, then
                          the listed slots are written; untouched things stay.
     ApplyRev(r, P, G0)   accounts set / deleted / left alone; per account: a listed slot takes the
                          listed value; an unlisted slot takes its pre-bundle (G0) value if the
                          entry is marked wiped and is unchanged otherwise; a slot listed as
                          "destroyed" carries no value of its own: it reads like an unlisted slot
                          of a wiped account (pre-bundle value) and as zero when not wiped.

   and every observation is judged by an equation between plain states.  A record that fails is
   printed as a REJECT line with the reasons; the run itself always terminates normally. *)
EXTENDS Integers, Sequences, FiniteSets, TLC, Json, IOUtils

CONSTANTS AddrS, SlotS,      \* addresses and slots as the strings used in the JSON
          EmptyIsAbsent      \* TRUE for fork-agnostic layers (CacheDB): an empty account == no account

Rec == ndJsonDeserialize(IOEnv.TRACE)

VARIABLE n
Range(s) == {s[x] : x \in DOMAIN s}
Has(r, f) == f \in DOMAIN r
ZeroS == [k \in SlotS |-> 0]
Min(a, b) == IF a < b THEN a ELSE b

InfoEq(x, y) == x.ex = y.ex /\ x.bal = y.bal /\ x.nonce = y.nonce /\ x.code = y.code
Nothing(x) == ~x.ex \/ (x.bal = 0 /\ x.nonce = 0 /\ x.code = 0)
InfoSame(x, y) == InfoEq(x, y) \/ (EmptyIsAbsent /\ Nothing(x) /\ Nothing(y))
PlainEq(P, Q) == \A a \in AddrS : InfoEq(P[a].info, Q[a].info) /\ \A k \in SlotS : P[a].stor[k] = Q[a].stor[k]

-----------------------------------------------------------------------------
\* ---- changesets
CSWellFormed(cs) ==
    /\ \A x, y \in DOMAIN cs.accounts : x # y => cs.accounts[x].a # cs.accounts[y].a
    /\ \A x, y \in DOMAIN cs.storage : x # y => cs.storage[x].a # cs.storage[y].a
    /\ \A x \in Range(cs.accounts) : x.a \in AddrS
    /\ \A x \in Range(cs.storage) : /\ x.a \in AddrS
                                    /\ \A s \in Range(x.slots) : s.k \in SlotS
                                    /\ \A p, q \in DOMAIN x.slots : p # q => x.slots[p].k # x.slots[q].k

ApplyCS(cs, P) ==
    [a \in AddrS |->
        LET sa == {x \in Range(cs.storage) : x.a = a}
            aa == {x \in Range(cs.accounts) : x.a = a}
            s0 == IF sa # {} /\ (CHOOSE x \in sa : TRUE).wipe THEN ZeroS ELSE P[a].stor
            sl == IF sa = {} THEN {} ELSE Range((CHOOSE x \in sa : TRUE).slots)
        IN [info |-> IF aa # {} THEN (CHOOSE x \in aa : TRUE).info ELSE P[a].info,
            stor |-> [k \in SlotS |-> IF \E y \in sl : y.k = k THEN (CHOOSE y \in sl : y.k = k).v ELSE s0[k]]]]

CodesOf(P) == {P[a].info.code : a \in AddrS} \ {0}
ContractsOK(cs, G0, Gm) ==
    /\ \A c \in Range(cs.contracts) : c.ok
    /\ (CodesOf(Gm) \ CodesOf(G0)) \subseteq {c.id : c \in Range(cs.contracts)}

CSMeans(cs, base, target) == CSWellFormed(cs) /\ PlainEq(ApplyCS(cs, base), target)

-----------------------------------------------------------------------------
\* ---- reverts
RevWellFormed(r) ==
    /\ \A x, y \in DOMAIN r.accounts : x # y => r.accounts[x].a # r.accounts[y].a
    /\ \A x, y \in DOMAIN r.storage : x # y => r.storage[x].a # r.storage[y].a
    /\ \A x \in Range(r.accounts) : x.a \in AddrS
    /\ \A x \in Range(r.storage) : /\ x.a \in AddrS
                                   /\ \A s \in Range(x.slots) : s.k \in SlotS
                                   /\ \A p, q \in DOMAIN x.slots : p # q => x.slots[p].k # x.slots[q].k

ApplyRev(r, P, G0) ==
    [a \in AddrS |->
        LET sa == {x \in Range(r.storage) : x.a = a}
            aa == {x \in Range(r.accounts) : x.a = a}
            wiped == sa # {} /\ (CHOOSE x \in sa : TRUE).wiped
            sl == IF sa = {} THEN {} ELSE Range((CHOOSE x \in sa : TRUE).slots)
        IN [info |-> IF aa # {} THEN (CHOOSE x \in aa : TRUE).info ELSE P[a].info,
            stor |-> [k \in SlotS |->
                        IF \E y \in sl : y.k = k /\ ~y.d THEN (CHOOSE y \in sl : y.k = k).v
                        ELSE IF \E y \in sl : y.k = k     \* recorded as "destroyed": no value of its own
                        THEN (IF wiped THEN G0[a].stor[k] ELSE 0)
                        ELSE IF wiped THEN G0[a].stor[k] ELSE P[a].stor[k]]]]

\* reverts rs of a bundle whose groups are G = <<G_0, .., G_m>> (possibly a prefix of st.groups)
RevertsMean(rs, G) ==
    /\ Len(rs) = Len(G) - 1
    /\ \A k \in 1..Len(rs) : RevWellFormed(rs[k]) /\ PlainEq(ApplyRev(rs[k], G[k + 1], G[1]), G[k])

-----------------------------------------------------------------------------
\* ---- reads
ReadMeans(obs, P) ==
    /\ obs.code_ok /\ obs.cbh_ok
    /\ \A a \in AddrS : InfoSame(obs.acct[a], P[a].info) /\ \A k \in SlotS : obs.stor[a][k] = P[a].stor[k]

\* ---- prepend: nothing the newer bundle says is overridden
PrependKeeps(newer, result) ==
    /\ \A x \in Range(newer.accounts) : \E y \in Range(result.accounts) : y.a = x.a /\ InfoEq(y.info, x.info)
    /\ \A x \in Range(newer.storage) : \E y \in Range(result.storage) :
          /\ y.a = x.a /\ (x.wipe => y.wipe)
          /\ \A s \in Range(x.slots) : \E t \in Range(y.slots) : t.k = s.k /\ t.v = s.v
          /\ x.wipe => \A t \in Range(y.slots) : (\E s \in Range(x.slots) : s.k = t.k) \/ t.v = 0

-----------------------------------------------------------------------------
Reasons(r) ==
    LET G == r.st.groups
        m == Len(G) - 1
        G0 == G[1]
        Gm == G[Len(G)]
        o == r.obs
        k == r.op.op
    IN IF Has(o, "panic") THEN {"panic"}
       ELSE CASE k = "read" -> IF ReadMeans(o, r.st.cur) THEN {} ELSE {"read"}
         [] k = "drain" -> IF o.drained = <<r.op.bal>> THEN {} ELSE {"drain-amount"}
         [] k = "changeset" ->
              (IF CSMeans(o, G0, Gm) THEN {} ELSE {"changeset-meaning"})
              \cup (IF ContractsOK(o, G0, Gm) THEN {} ELSE {"changeset-contracts"})
         [] k = "reverts" -> IF RevertsMean(o.groups, G) THEN {} ELSE {"reverts-meaning"}
         [] k = "revert_n" ->
              LET j == r.op.j
                  Gp == SubSeq(G, 1, Len(G) - j) IN
              (IF CSMeans(o.cs_no, G0, Gp[Len(Gp)]) THEN {} ELSE {"revert_n-changeset-no"})
              \cup (IF CSMeans(o.cs_yes, G0, Gp[Len(Gp)]) THEN {} ELSE {"revert_n-changeset-yes"})
              \cup (IF RevertsMean(o.reverts, Gp) THEN {} ELSE {"revert_n-reverts"})
         [] k = "split" ->
              (IF CSMeans(o.cs_no, G0, Gm) THEN {} ELSE {"extend-changeset"})
              \* the joined bundle keeps the older half's original values, so the "values known"
              \* changeset must mean the same (the API only warns that a consumer cannot rely on it
              \* when it does not know where the halves came from)
              \cup (IF CSMeans(o.cs_yes, G0, Gm) THEN {} ELSE {"extend-changeset-yes"})
              \cup (IF RevertsMean(o.reverts, G) THEN {} ELSE {"extend-reverts"})
              \cup (IF ContractsOK(o.cs_no, G0, Gm) THEN {} ELSE {"extend-contracts"})
         [] k = "take_n" ->
              (IF Len(o.taken) = Min(r.op.n, m) THEN {} ELSE {"take_n-count"})
              \cup (IF o.taken \o o.left = o.full THEN {} ELSE {"take_n-slices"})
         [] k = "prepend" ->
              (IF PrependKeeps(o.newer, o.result) THEN {} ELSE {"prepend-overrides"})
              \cup (IF CSMeans(o.result, G0, Gm) THEN {} ELSE {"prepend-meaning"})
              \cup (IF CSMeans(o.result_yes, G0, Gm) THEN {} ELSE {"prepend-meaning-yes"})
         [] k = "preload" ->
              (IF ReadMeans(o.read1, r.st.cur) THEN {} ELSE {"preload-read"})
              \cup (IF ReadMeans(o.read2, r.st.cur) THEN {} ELSE {"merged-read"})
              \cup (IF CSMeans(o.cs1, G0, Gm) THEN {} ELSE {"preload-changeset"})
              \cup (IF CSMeans(o.cs2, r.op.mid, Gm) THEN {} ELSE {"merged-changeset"})
         [] OTHER -> {}

SetSeq(S) == LET RECURSIVE F(_)
                 F(T) == IF T = {} THEN <<>> ELSE LET x == CHOOSE x \in T : TRUE IN <<x>> \o F(T \ {x})
             IN F(S)

Init == n = 0
Next == /\ n < Len(Rec)
        /\ n' = n + 1
        /\ LET r == Rec[n + 1]
               rs == Reasons(r) IN
           rs = {} \/ PrintT("REJECT " \o ToJson([i |-> r.i, op |-> r.op, reasons |-> SetSeq(rs)]))
Done == n = Len(Rec) => PrintT("INFO " \o ToJson([judged |-> n]))
=============================================================================
