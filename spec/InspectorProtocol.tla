------------------------- MODULE InspectorProtocol -------------------------
(* The protocol between the EVM and an attached Inspector (properties C29, C30; the observable,
   trace-level part of C25 and C28).

   An inspector receives notifications ("hooks") while one transaction executes:

     call(inputs)            a message call is about to start      (may be answered by the inspector)
     call_end(inputs, out)   that call has concluded
     create(inputs)          a contract creation is about to start (may be answered by the inspector)
     create_end(inputs, out) that creation has concluded
     eofcreate / eofcreate_end   the same for EOF creations
     initialize_interp       an interpreter was set up for the frame just announced (the frame is real)
     step / step_end         before / after one instruction of the innermost real frame
     log(address, topics)    a LOGn instruction emitted a log
     selfdestruct(contract, target, value)   a SELFDESTRUCT instruction completed

   The specification is a PUSHDOWN ACCEPTOR for the sequence of notifications of one transaction.  It is
   written from the property texts and from Ethereum's execution rules, not from handler_register.rs:

   C29  every call / create / eofcreate notification is followed by exactly one matching *_end carrying the
        SAME inputs, last-in-first-out -- also when no frame ever exists (depth limit, insufficient balance,
        precompile, account without code, address collision, nonce overflow) and when the inspector answered
        the call itself.  Every executed instruction is bracketed by exactly one step and one step_end (no
        second step before the step_end, nothing of another frame in between).  Every log emitted by a LOGn
        instruction that completed is reported exactly once (with the executing contract's address and n
        topics); nothing is reported for a LOGn that failed.
   C30  selfdestruct(c, t, v) is reported exactly once for every SELFDESTRUCT instruction that completes
        (instruction result SelfDestruct) and for nothing else; c = the contract executing in the open frame
        (the frame's target address: for DELEGATECALL / CALLCODE frames the context address), t = the
        address on top of the stack when the instruction started, v = the balance that left the contract =
        the contract's balance when the instruction started.  One corner: from Cancun (EIP-6780), when
        t = c and c was not created in this transaction, nothing leaves the contract; then only the presence
        and the two addresses of the notification are judged, not v.
   C25  (what a trace can show) the program counter stays inside the padded code and advances by the
        instruction's size or to a JUMPDEST; the stack height stays in 0..1024 and changes by the
        instruction's (removed, added) counts of the Yellow Paper when the instruction succeeds; gas remaining
        never increases inside a frame except by what a finished child hands back; memory size is a multiple
        of 32 and never shrinks; the transaction ends in exactly one terminal record with a defined status and
        gas used <= gas limit; no panic.
   C28  the result digests (status, gas used/refunded, output, logs, state changes) of the same transaction
        run without inspector, with the no-op, gas and EIP-3155 inspectors and with the recording inspector
        are all equal.

   ORDER OF step_end RELATIVE TO A CHILD FRAME.  "Bracketed" is about the instruction itself: the step_end of
   a CALL/CREATE-family instruction reports the instruction result CallOrCreate ("a child frame is requested")
   and the child's call/create notification follows it; the child's *_end precedes the parent's next step.
   A log / selfdestruct notification belongs to its instruction; the property does not say on which side of
   step_end it is delivered, so both places are accepted: between step and step_end, or directly after the
   step_end (before any other notification).

   The acceptor is total: Judge(ev) is "ok" or the name of the first rule the event breaks.  Accept(ev) is
   the transition.  InspectorTrace.tla feeds it recorded events; this module can also be model-checked on
   its own over a tiny alphabet (see the section MODEL-CHECKING at the end): TLC then verifies that every
   accepted sequence satisfies a DECLARATIVE statement of balance / bracketing / once-only reporting that is
   written independently of the automaton. *)
EXTENDS Integers, Sequences, FiniteSets, TLC

CONSTANTS Strict,      \* TRUE: also judge the per-instruction scalars (pc, stack height, gas, memory)
          KeepHist,    \* TRUE: remember the accepted events in `hist` (model-checking of this module only)
          Sabotage     \* "none".  Any other value disables ONE rule of the acceptor on purpose; the check uses it
                       \* to show that TLC then finds a violation of the declarative invariants (no vacuity).
Sab(x) == Sabotage = x

-----------------------------------------------------------------------------
(* Instruction table: removed / added stack items, immediate bytes and introducing hardfork per opcode byte,
   and the hardforks in activation order.  The table is NOT written here: checks/inspector.py has TLC evaluate
   it from Opcodes.tla (Info, Forks -- written from the Yellow Paper and the EIPs) and binds it to these
   constants, so there is one table in the project.  Tab*[b + 1] describes opcode byte b. *)
CONSTANTS TabIns, TabOuts, TabImm, TabIntro, ForkSeq
Ins(b)  == TabIns[b + 1]
Outs(b) == TabOuts[b + 1]
Imm(b)  == TabImm[b + 1]
ForkSet == {ForkSeq[i] : i \in 1..Len(ForkSeq)}
FIdx    == TLCEval([f \in ForkSet |-> CHOOSE i \in 1..Len(ForkSeq) : ForkSeq[i] = f])
\* opcodes defined in legacy code under fork f: introduced by f or an earlier fork
Defd    == TLCEval([f \in ForkSet |->
              {b \in 0..255 : TabIntro[b + 1] \in ForkSet /\ FIdx[f] >= FIdx[TabIntro[b + 1]]}])
Cancun  == TLCEval({f \in ForkSet : FIdx[f] >= FIdx["CANCUN"]})

STOP == 0  JUMP == 86  JUMPI == 87  JUMPDEST == 91  RETURN == 243  REVERT == 253  SELFDESTRUCT == 255
LogOps    == 160..164                       \* LOG0..LOG4
CallOps   == {241, 242, 244, 250}           \* CALL, CALLCODE, DELEGATECALL, STATICCALL
CreateOps == {240, 245}                     \* CREATE, CREATE2
SchemeOf(op) == CASE op = 241 -> "Call" [] op = 242 -> "CallCode" [] op = 244 -> "DelegateCall"
                  [] op = 250 -> "StaticCall" [] op = 240 -> "Create" [] op = 245 -> "Create2" [] OTHER -> "?"

(* Instruction results.  An instruction that SUCCEEDED ends in one of Progress; a frame is finished by a
   result other than Continue / CallOrCreate.  GasBack: frame results after which the unused gas returns to
   the caller (success, REVERT, and the calls/creates refused before a frame existed: depth, funds). *)
Progress == {"Continue", "CallOrCreate", "Stop", "Return", "Revert", "SelfDestruct"}
OkRes    == {"Stop", "Return", "SelfDestruct", "ReturnContract"}
RevRes   == {"Revert", "CallTooDeep", "OutOfFunds", "InvalidEOFInitCode", "CreateInitCodeStartingEF00",
             "InvalidExtDelegateCallTarget"}
GasBack  == OkRes \cup RevRes

-----------------------------------------------------------------------------
VARIABLES phase,    \* "boot" nothing yet | "idle" transaction announced | "run" frames open | "finished"
                    \* outermost frame closed | "done" terminal record seen | "nohooks" hook events omitted
          fork,     \* hardfork of the transaction
          glimit,   \* gas limit of the transaction
          frames,   \* stack of announced and not yet concluded calls / creates, outermost first
          cur,      \* the most recent instruction of the innermost frame (open: between step and step_end)
          owed,     \* what the very next notification must be: "none" | "log" | "sd" | "child"
          lastev,   \* kind of the previous notification
          created,  \* addresses of the contracts created so far in this transaction
          topres,   \* result of the outermost frame
          enddg,    \* result digest of the recorded run
          hist      \* accepted events (only if KeepHist)
pvars == <<phase, fork, glimit, frames, cur, owed, lastev, created, topres, enddg, hist>>

NoStep == [open |-> FALSE, pc |-> 0, op |-> 0, sl |-> 0, gas |-> 0, mem |-> 0, top |-> 0, bal |-> 0,
           nlog |-> 0, nsd |-> 0, res |-> "None"]

(* A frame: the notification that opened it (kind + inputs + answered-by-the-inspector flag) and, once an
   interpreter exists (live), what is known about that interpreter. *)
NewFrame(kind, inp, sc) ==
    [kind |-> kind, inp |-> inp, sc |-> sc, live |-> FALSE, ctx |-> 0, static |-> FALSE, codelen |-> 0,
     padlen |-> 0, pc |-> 0, jumped |-> FALSE, sl |-> 0, gas |-> 0, mem |-> 0, ended |-> FALSE, res |-> "None"]

Top     == frames[Len(frames)]
SetTop(f) == [frames EXCEPT ![Len(frames)] = f]

(* The inputs carried by a start or end notification (what "the same inputs" compares). *)
Inp(ev) ==
    CASE ev.e \in {"Call", "CallEnd"} ->
            [k |-> ev.k, from |-> ev.from, to |-> ev.to, code |-> ev.code, val |-> ev.val,
             apparent |-> ev.apparent, gas |-> ev.gas, inp |-> ev.inp, st |-> ev.st]
      [] ev.e \in {"Create", "CreateEnd"} ->
            [k |-> ev.k, from |-> ev.from, val |-> ev.val, gas |-> ev.gas, init |-> ev.init, salt |-> ev.salt]
      [] ev.e \in {"EofCreate", "EofCreateEnd"} ->
            [k |-> ev.k, from |-> ev.from, val |-> ev.val, gas |-> ev.gas, init |-> ev.init]
KindOf(e) == CASE e \in {"Call", "CallEnd"} -> "call" [] e \in {"Create", "CreateEnd"} -> "create"
               [] e \in {"EofCreate", "EofCreateEnd"} -> "eofcreate"
Starts == {"Call", "Create", "EofCreate"}
Ends   == {"CallEnd", "CreateEnd", "EofCreateEnd"}

(* Contracts "created in this transaction" at this moment: those of concluded successful creations and
   those whose creation frame is still open (its init code, or code it delegates to, is running). *)
CreatedNow == created \cup {frames[i].ctx : i \in {j \in DOMAIN frames : frames[j].kind # "call" /\ frames[j].live}}

-----------------------------------------------------------------------------
(* JUDGEMENTS.  Each returns "ok" or the name of the first rule broken. *)

(* A nested call's inputs follow from the instruction and the calling frame (Yellow Paper, CALL / CALLCODE /
   DELEGATECALL / STATICCALL): who is the caller, which account's context executes, is it static. *)
CallContextOK(ev, P) ==
    /\ ev.st = (P.static \/ ev.k = "StaticCall")
    /\ CASE ev.k = "Call"         -> ev.from = P.ctx /\ ev.to = ev.code /\ ~ev.apparent
         [] ev.k = "StaticCall"   -> ev.from = P.ctx /\ ev.to = ev.code /\ ev.val = 0
         [] ev.k = "CallCode"     -> ev.from = P.ctx /\ ev.to = P.ctx /\ ~ev.apparent
         [] ev.k = "DelegateCall" -> ev.from = P.inp.from /\ ev.to = P.ctx /\ ev.apparent /\ ev.val = P.inp.val
         [] OTHER -> TRUE

JudgeStart(ev) ==
    IF cur.open THEN "start_between_step_and_step_end"
    ELSE IF phase = "idle" THEN
        (IF ev.e = "Call" /\ (ev.k # "Call" \/ ev.st) THEN "transaction_call_inputs" ELSE "ok")
    ELSE IF phase # "run" THEN "start_outside_transaction"
    ELSE IF owed # "child" THEN "start_without_call_or_create_instruction"
    ELSE IF (ev.e = "Call") # (cur.op \in CallOps) THEN "start_kind_differs_from_instruction"
    ELSE IF ev.e # "EofCreate" /\ ev.k # SchemeOf(cur.op) THEN "start_scheme_differs_from_instruction"
    ELSE IF ev.e = "Call" /\ ~CallContextOK(ev, Top) THEN "call_inputs_inconsistent_with_instruction_and_caller"
    ELSE IF ev.e # "Call" /\ ev.from # Top.ctx THEN "create_inputs_inconsistent_with_caller"
    ELSE IF Strict /\ ev.gas > cur.gas + (IF ev.e = "Call" THEN 2300 ELSE 0) THEN "child_gas_exceeds_caller_gas"
    ELSE "ok"

JudgeInit(ev) ==
    IF phase # "run" THEN "initialize_interp_without_frame"
    ELSE IF Top.live THEN "initialize_interp_twice"
    ELSE IF Top.sc THEN "initialize_interp_for_call_answered_by_inspector"
    ELSE IF Top.kind = "call" /\ ev.ctx # Top.inp.to THEN "executing_address_differs_from_call_target"
    ELSE IF Top.kind = "call" /\ ev.st # Top.inp.st THEN "static_flag_differs_from_call_inputs"
    ELSE IF ev.gas # Top.inp.gas THEN "frame_gas_limit_differs_from_inputs"
    ELSE IF Strict /\ ev.padlen < ev.codelen + 33 THEN "code_padding_too_short"
    ELSE "ok"

JudgeStep(ev) ==
    IF phase # "run" THEN "step_outside_frame"
    ELSE IF cur.open /\ ~Sab("step_inside_step") THEN "step_before_step_end"
    ELSE IF ~Top.live THEN "step_without_initialize_interp"
    ELSE IF Top.ended THEN "step_after_frame_result"
    ELSE IF ~Strict THEN "ok"
    ELSE IF ev.pc < 0 \/ ev.pc >= Top.padlen THEN "pc_outside_code"
    ELSE IF ev.pc >= Top.codelen /\ ev.op # STOP THEN "opcode_beyond_code_is_not_STOP"
    ELSE IF ev.pc # Top.pc THEN "pc_discontinuity"
    ELSE IF Top.jumped /\ ev.op # JUMPDEST THEN "jump_to_non_JUMPDEST"
    ELSE IF ev.sl < 0 \/ ev.sl > 1024 THEN "stack_height_out_of_range"
    ELSE IF ev.sl # Top.sl THEN "stack_height_discontinuity"
    ELSE IF ev.gas # Top.gas THEN "gas_discontinuity"
    ELSE IF ev.mem % 32 # 0 THEN "memory_size_not_word_aligned"
    ELSE IF ev.mem # Top.mem THEN "memory_discontinuity"
    ELSE "ok"

PcAfterOK(ev) ==
    CASE cur.op = JUMP  -> ev.pc < Top.codelen
      [] cur.op = JUMPI -> ev.pc = cur.pc + 1 \/ ev.pc < Top.codelen
      [] OTHER          -> ev.pc = cur.pc + 1 + Imm(cur.op)

JudgeStepEnd(ev) ==
    IF ~cur.open THEN "step_end_without_step"
    ELSE IF cur.nlog > 0 /\ ev.res # "Continue" THEN "log_for_failed_instruction"
    ELSE IF cur.nsd > 0 /\ ev.res # "SelfDestruct" THEN "selfdestruct_for_failed_instruction"
    ELSE IF ev.res = "CallOrCreate" /\ cur.op \notin CallOps \cup CreateOps THEN "result_from_wrong_instruction"
    ELSE IF ev.res = "SelfDestruct" /\ cur.op # SELFDESTRUCT THEN "result_from_wrong_instruction"
    ELSE IF ev.res = "SelfDestruct" /\ cur.top = 0 THEN "SELFDESTRUCT_completed_without_beneficiary_on_stack"
    ELSE IF ~Strict THEN "ok"
    ELSE IF ev.res = "Stop" /\ cur.op # STOP THEN "result_from_wrong_instruction"
    ELSE IF ev.res = "Return" /\ cur.op # RETURN THEN "result_from_wrong_instruction"
    ELSE IF ev.res = "Revert" /\ cur.op # REVERT THEN "result_from_wrong_instruction"
    ELSE IF ev.res \in Progress /\ cur.op \notin Defd[fork] THEN "undefined_opcode_executed"
    ELSE IF ev.gas > cur.gas THEN "gas_increased"
    ELSE IF ev.mem % 32 # 0 \/ ev.mem < cur.mem THEN "memory_shrank_or_unaligned"
    ELSE IF ev.sl < 0 \/ ev.sl > 1024 THEN "stack_height_out_of_range"
    ELSE IF ev.res \in Progress
            /\ (cur.sl < Ins(cur.op)
                \/ ev.sl # cur.sl - Ins(cur.op) + (IF ev.res = "Continue" THEN Outs(cur.op) ELSE 0))
         THEN "stack_effect_differs_from_instruction"
    ELSE IF ev.res \in {"Continue", "CallOrCreate"} /\ ~PcAfterOK(ev) THEN "pc_after_instruction"
    ELSE "ok"

(* A log belongs to a LOGn instruction of the innermost frame: it arrives inside the bracket (at most once) or
   directly after a step_end that completed the instruction. *)
JudgeLog(ev) ==
    IF cur.open /\ cur.op \notin LogOps THEN "log_without_LOG_instruction"
    ELSE IF cur.open /\ cur.nlog > 0 /\ ~Sab("log_twice") THEN "log_reported_twice"
    ELSE IF ~cur.open /\ owed # "log" THEN
        (IF lastev = "Log" THEN "log_reported_twice"
         ELSE IF lastev = "StepEnd" /\ cur.op \in LogOps THEN "log_for_failed_instruction"
         ELSE "log_without_LOG_instruction")
    ELSE IF ev.addr # Top.ctx THEN "log_address_is_not_executing_contract"
    ELSE IF ev.nt # cur.op - 160 THEN "log_topic_count"
    ELSE "ok"

(* C30.  NothingLeaves is the EIP-6780 corner in which the value is not judged. *)
NothingLeaves == fork \in Cancun /\ cur.top = Top.ctx /\ Top.ctx \notin CreatedNow
JudgeSelfDestruct(ev) ==
    IF cur.open /\ cur.op # SELFDESTRUCT THEN "selfdestruct_without_SELFDESTRUCT_instruction"
    ELSE IF cur.open /\ cur.nsd > 0 THEN "selfdestruct_reported_twice"
    ELSE IF ~cur.open /\ owed # "sd" THEN
        (IF lastev = "SelfDestruct" THEN "selfdestruct_reported_twice"
         ELSE IF lastev = "StepEnd" /\ cur.op = SELFDESTRUCT THEN "selfdestruct_for_failed_instruction"
         ELSE "selfdestruct_without_SELFDESTRUCT_instruction")
    ELSE IF ev.c # Top.ctx THEN "selfdestruct_contract_is_not_executing_contract"
    ELSE IF ev.t # cur.top /\ ~Sab("selfdestruct_any_target") THEN "selfdestruct_target_is_not_stack_top"
    ELSE IF ~NothingLeaves /\ ev.v # cur.bal THEN "selfdestruct_value_is_not_contract_balance"
    ELSE "ok"

JudgeEnd(ev) ==      \* call_end / create_end / eofcreate_end
    IF cur.open THEN "end_between_step_and_step_end"
    ELSE IF phase # "run" THEN "end_without_open_frame"
    ELSE IF Top.kind # KindOf(ev.e) THEN "end_kind_differs_from_innermost_open_frame"
    ELSE IF Inp(ev) # Top.inp /\ ~Sab("end_with_any_inputs") THEN "end_inputs_differ_from_start"
    ELSE IF Top.live /\ ~Top.ended THEN "end_while_frame_is_running"
    ELSE IF ev.e # "CallEnd" /\ Top.live /\ ev.res \in OkRes /\ ev.addr # Top.ctx THEN "created_address_differs_from_executing_address"
    ELSE IF ~Strict THEN "ok"
    ELSE IF ev.e = "CallEnd" /\ Top.live /\ ev.res # Top.res THEN "call_result_differs_from_last_instruction"
    ELSE IF ev.grem > Top.inp.gas THEN "returned_gas_exceeds_gas_limit"
    ELSE IF Top.live /\ ev.res \in GasBack
            /\ (IF ev.e = "CallEnd" THEN ev.grem # Top.gas ELSE ev.grem > Top.gas) THEN "returned_gas_differs_from_frame_gas"
    ELSE "ok"

StatusOf(res) == IF res \in OkRes THEN "Success" ELSE IF res \in RevRes THEN "Revert" ELSE "Halt"
JudgeTxEnd(ev) ==    \* the terminal record of the transaction
    IF phase = "nohooks" THEN (IF ev.res \in {"Success", "Revert", "Halt", "Err"} THEN "ok" ELSE "undefined_result")
    ELSE IF phase = "idle" THEN (IF ev.res = "Err" THEN "ok" ELSE "result_without_any_frame")
    ELSE IF phase # "finished" THEN "terminal_record_with_open_frames"
    ELSE IF ev.res \notin {"Success", "Revert", "Halt"} THEN "undefined_result"
    ELSE IF ~Strict THEN "ok"
    ELSE IF ev.used > glimit THEN "gas_used_exceeds_gas_limit"
    ELSE IF ev.res # StatusOf(topres) THEN "status_differs_from_outermost_frame_result"
    ELSE "ok"

JudgeDigest(ev) ==
    IF phase # "done" THEN "digest_before_terminal_record"
    ELSE IF ev.dg # enddg THEN "observing_inspector_changes_result"
    ELSE "ok"

Judge(ev) ==
    IF ev.e = "Panic" THEN (IF phase = "run" THEN "panic_with_open_frames" ELSE "panic")
    ELSE IF phase = "boot" THEN "event_before_transaction"
    ELSE IF phase = "done" /\ ev.e # "Digest" THEN "event_after_terminal_record"
    ELSE IF phase = "nohooks" /\ ev.e # "End" THEN "hook_event_in_digest_only_run"
    ELSE IF owed = "log" /\ ev.e # "Log" THEN "log_missing"
    ELSE IF owed = "sd" /\ ev.e # "SelfDestruct" /\ ~Sab("selfdestruct_optional") THEN "selfdestruct_missing"
    ELSE IF owed = "child" /\ ev.e \notin Starts THEN "start_missing_after_call_or_create_instruction"
    ELSE CASE ev.e \in Starts        -> JudgeStart(ev)
           [] ev.e \in Ends          -> JudgeEnd(ev)
           [] ev.e = "Init"          -> JudgeInit(ev)
           [] ev.e = "Step"          -> JudgeStep(ev)
           [] ev.e = "StepEnd"       -> JudgeStepEnd(ev)
           [] ev.e = "Log"           -> JudgeLog(ev)
           [] ev.e = "SelfDestruct"  -> JudgeSelfDestruct(ev)
           [] ev.e = "End"           -> JudgeTxEnd(ev)
           [] ev.e = "Digest"        -> JudgeDigest(ev)
           [] OTHER                  -> "unknown_event"

-----------------------------------------------------------------------------
(* TRANSITIONS (only taken when the judgement is "ok"). *)

Remember(ev) == hist' = IF KeepHist THEN Append(hist, ev) ELSE hist

ApplyStart(ev) ==
    /\ frames' = Append(frames, NewFrame(KindOf(ev.e), Inp(ev), ev.sc))
    /\ phase' = "run" /\ owed' = "none" /\ cur' = NoStep
    /\ UNCHANGED <<created, topres, enddg>>

ApplyInit(ev) ==
    /\ frames' = SetTop([Top EXCEPT !.live = TRUE, !.ctx = ev.ctx, !.static = ev.st, !.codelen = ev.codelen,
                                    !.padlen = ev.padlen, !.gas = ev.gas])
    /\ UNCHANGED <<phase, owed, cur, created, topres, enddg>>

ApplyStep(ev) ==
    /\ cur' = [open |-> TRUE, pc |-> ev.pc, op |-> ev.op, sl |-> ev.sl, gas |-> ev.gas, mem |-> ev.mem,
               top |-> ev.top, bal |-> ev.bal, nlog |-> 0, nsd |-> 0, res |-> "None"]
    /\ UNCHANGED <<phase, owed, frames, created, topres, enddg>>

ApplyStepEnd(ev) ==
    /\ cur' = [cur EXCEPT !.open = FALSE, !.res = ev.res]
    /\ owed' = IF ev.res = "CallOrCreate" THEN "child"
               ELSE IF cur.op \in LogOps /\ ev.res = "Continue" /\ cur.nlog = 0 THEN "log"
               ELSE IF ev.res = "SelfDestruct" /\ cur.nsd = 0 THEN "sd"
               ELSE "none"
    /\ frames' = SetTop([Top EXCEPT
                          !.pc = ev.pc, !.sl = ev.sl, !.gas = ev.gas, !.mem = ev.mem, !.res = ev.res,
                          !.jumped = (ev.res = "Continue" /\ (cur.op = JUMP \/ (cur.op = JUMPI /\ ev.pc # cur.pc + 1))),
                          !.ended = (ev.res \notin {"Continue", "CallOrCreate"})])
    /\ UNCHANGED <<phase, created, topres, enddg>>

ApplyLog(ev) ==
    /\ cur' = [cur EXCEPT !.nlog = @ + 1] /\ owed' = "none"
    /\ UNCHANGED <<phase, frames, created, topres, enddg>>

ApplySelfDestruct(ev) ==
    /\ cur' = [cur EXCEPT !.nsd = @ + 1] /\ owed' = "none"
    /\ UNCHANGED <<phase, frames, created, topres, enddg>>

(* A frame concludes: it is removed; the caller (if any) resumes with one more stack item (the success flag /
   the new address) and with the gas the child hands back. *)
ApplyEnd(ev) ==
    LET rest == SubSeq(frames, 1, Len(frames) - 1)
        back == IF ev.res \in GasBack THEN ev.grem ELSE 0 IN
    /\ frames' = IF rest = <<>> THEN rest
                 ELSE [rest EXCEPT ![Len(rest)] = [@ EXCEPT !.sl = @ + 1, !.gas = @ + back]]
    /\ phase' = IF rest = <<>> THEN "finished" ELSE "run"
    /\ topres' = IF rest = <<>> THEN ev.res ELSE topres
    /\ created' = IF ev.e # "CallEnd" /\ ev.res \in OkRes /\ ev.addr # 0 THEN created \cup {ev.addr} ELSE created
    /\ cur' = NoStep /\ owed' = "none"
    /\ UNCHANGED enddg

ApplyTxEnd(ev) == /\ phase' = "done" /\ enddg' = ev.dg /\ UNCHANGED <<frames, cur, owed, created, topres>>
ApplyDigest(ev) == UNCHANGED <<phase, frames, cur, owed, created, topres, enddg>>

Apply(ev) ==
    /\ lastev' = ev.e /\ Remember(ev) /\ UNCHANGED <<fork, glimit>>
    /\ CASE ev.e \in Starts        -> ApplyStart(ev)
         [] ev.e \in Ends          -> ApplyEnd(ev)
         [] ev.e = "Init"          -> ApplyInit(ev)
         [] ev.e = "Step"          -> ApplyStep(ev)
         [] ev.e = "StepEnd"       -> ApplyStepEnd(ev)
         [] ev.e = "Log"           -> ApplyLog(ev)
         [] ev.e = "SelfDestruct"  -> ApplySelfDestruct(ev)
         [] ev.e = "End"           -> ApplyTxEnd(ev)
         [] ev.e = "Digest"        -> ApplyDigest(ev)

Accept(ev) == Judge(ev) = "ok" /\ Apply(ev)

(* A new transaction is announced. *)
Begin(f, gl, hooks) ==
    /\ phase' = IF hooks THEN "idle" ELSE "nohooks"
    /\ fork' = f /\ glimit' = gl /\ frames' = <<>> /\ cur' = NoStep /\ owed' = "none" /\ lastev' = "Reset"
    /\ created' = {} /\ topres' = "None" /\ enddg' = 0 /\ hist' = <<>>

PInit == /\ phase = "boot" /\ fork = "CANCUN" /\ glimit = 0 /\ frames = <<>> /\ cur = NoStep /\ owed = "none"
         /\ lastev = "None" /\ created = {} /\ topres = "None" /\ enddg = 0 /\ hist = <<>>

-----------------------------------------------------------------------------
(* MODEL-CHECKING of the acceptor itself (structure only: Strict = FALSE, KeepHist = TRUE).

   The alphabet is tiny: account 1 is the sender, account 2 a contract, account 3 another contract.
   I1 = the transaction's call 1 -> 2;  I2 = 2 calls itself;  I2g = the same with a different gas limit (so that
   "same inputs" is distinguishable);  I3 = 2 delegate-calls 3's code (context 2, caller 1);  I4 = 3 calls 2;  K2, K3 = 2 / 3 creates (the new
   contract is account 3 or, to keep the alphabet closed, account 2). *)
CONSTANT MaxLen

CI(k, from, to, code, app, gas) == [k |-> k, from |-> from, to |-> to, code |-> code, val |-> 0,
                                    apparent |-> app, gas |-> gas, inp |-> 0, st |-> FALSE]
MCCalls   == {CI("Call", 1, 2, 2, FALSE, 0), CI("Call", 2, 2, 2, FALSE, 0), CI("Call", 2, 2, 2, FALSE, 1),
              CI("DelegateCall", 1, 2, 3, TRUE, 0), CI("Call", 3, 2, 2, FALSE, 0)}
MCCreates == {[k |-> "Create", from |-> f, val |-> 0, gas |-> 0, init |-> 0, salt |-> 0] : f \in {2, 3}}
WithE(r, e) == [x \in DOMAIN r \cup {"e"} |-> IF x = "e" THEN e ELSE r[x]]
With2(r, e, k2, v2) == [x \in DOMAIN r \cup {"e", k2} |-> IF x = "e" THEN e ELSE IF x = k2 THEN v2 ELSE r[x]]
MCAlphabet ==
         {With2(i, "Call", "sc", s) : i \in MCCalls, s \in BOOLEAN}
    \cup {[x \in DOMAIN i \cup {"e", "res", "grem"} |->
              IF x = "e" THEN "CallEnd" ELSE IF x = "res" THEN "Stop" ELSE IF x = "grem" THEN 0 ELSE i[x]] : i \in MCCalls}
    \cup {With2(i, "Create", "sc", s) : i \in MCCreates, s \in BOOLEAN}
    \cup {[x \in DOMAIN i \cup {"e", "res", "grem", "addr"} |->
              IF x = "e" THEN "CreateEnd" ELSE IF x = "res" THEN r ELSE IF x = "grem" THEN 0
              ELSE IF x = "addr" THEN 3 ELSE i[x]] : i \in MCCreates, r \in {"Return", "Revert"}}
    \cup {[e |-> "Init", ctx |-> c, st |-> FALSE, gas |-> g, codelen |-> 0, padlen |-> 0] : c \in {2, 3}, g \in {0, 1}}
    \cup {[e |-> "Step", pc |-> 0, op |-> o, sl |-> 0, gas |-> 0, mem |-> 0, top |-> t, bal |-> 1]
              : o \in {1, 241, 244, 240, 161, 255}, t \in {0, 2, 3}}
    \cup {[e |-> "StepEnd", pc |-> 0, res |-> r, sl |-> 0, gas |-> 0, mem |-> 0]
              : r \in {"Continue", "CallOrCreate", "Stop", "SelfDestruct", "StackUnderflow"}}
    \cup {[e |-> "Log", addr |-> a, nt |-> n] : a \in {2, 3}, n \in {1, 2}}
    \cup {[e |-> "SelfDestruct", c |-> c, t |-> t, v |-> v] : c \in {2, 3}, t \in {2, 3}, v \in {0, 1}}
    \cup {[e |-> "End", res |-> "Success", used |-> 0, dg |-> 1]}

MCInit == PInit /\ phase = "boot"
MCNext ==
    \/ phase = "boot" /\ \E f \in {"LONDON", "CANCUN"} : Begin(f, 0, TRUE)
    \/ Len(hist) < MaxLen /\ \E ev \in MCAlphabet : Accept(ev)
MCView == <<phase, fork, frames, cur, owed, lastev, created, hist>>

(* ---- the DECLARATIVE statement, over the accepted history, written without the automaton ---- *)
IsStart(e) == e.e \in Starts
IsEnd(e)   == e.e \in Ends
EndName(s) == CASE s = "Call" -> "CallEnd" [] s = "Create" -> "CreateEnd" [] s = "EofCreate" -> "EofCreateEnd"
\* number of frames open after the first i events
Depth(h, i) == Cardinality({x \in 1..i : IsStart(h[x])}) - Cardinality({x \in 1..i : IsEnd(h[x])})
\* the start notification that an end at position j answers: the latest start that opened the level being closed
MatchOf(h, j) == CHOOSE i \in 1..(j - 1) :
                    /\ IsStart(h[i]) /\ Depth(h, i) = Depth(h, j - 1)
                    /\ \A i2 \in (i + 1)..(j - 1) : ~(IsStart(h[i2]) /\ Depth(h, i2) = Depth(h, j - 1))
\* C29, balance: every end answers the innermost open start, with its kind and its inputs
Balanced(h) ==
    \A j \in 1..Len(h) : IsEnd(h[j]) =>
        /\ Depth(h, j - 1) >= 1
        /\ LET i == MatchOf(h, j) IN h[j].e = EndName(h[i].e) /\ Inp(h[j]) = Inp(h[i])
\* the terminal record closes a history in which every start has been answered and there was exactly one outermost frame
Complete(h) ==
    \A j \in 1..Len(h) : h[j].e = "End" =>
        /\ Depth(h, j - 1) = 0
        /\ Cardinality({i \in 1..(j - 1) : IsStart(h[i]) /\ Depth(h, i) = 1}) = 1
\* C29, bracketing: steps and step_ends alternate, and between a step and its step_end only the
\* instruction's own log / selfdestruct notification may occur
Structural(e) == e.e \notin {"Log", "SelfDestruct"}
NextStructural(h, i) == CHOOSE j \in (i + 1)..(Len(h) + 1) :
                            /\ j = Len(h) + 1 \/ Structural(h[j])
                            /\ \A x \in (i + 1)..(j - 1) : ~Structural(h[x])
PrevStructural(h, j) == CHOOSE i \in 0..(j - 1) :
                            /\ i = 0 \/ Structural(h[i])
                            /\ \A x \in (i + 1)..(j - 1) : ~Structural(h[x])
Bracketed(h) ==
    /\ \A i \in 1..Len(h) : h[i].e = "Step" =>
           LET j == NextStructural(h, i) IN j = Len(h) + 1 \/ h[j].e = "StepEnd"
    /\ \A j \in 1..Len(h) : h[j].e = "StepEnd" =>
           LET i == PrevStructural(h, j) IN i > 0 /\ h[i].e = "Step"
\* the executing contract at position j: the context of the innermost frame open there
OpenStart(h, j) == CHOOSE i \in 1..(j - 1) :
                      /\ IsStart(h[i]) /\ Depth(h, i) = Depth(h, j)
                      /\ \A i2 \in (i + 1)..(j - 1) : ~(IsStart(h[i2]) /\ Depth(h, i2) = Depth(h, j))
ExecutingAt(h, j) == LET i == OpenStart(h, j) IN IF h[i].e = "Call" THEN h[i].to ELSE h[i + 1].ctx
\* the step a log / selfdestruct notification at position j belongs to, and that step's step_end (0 if not yet there)
StepOf(h, j) == CHOOSE i \in 0..(j - 1) : (i = 0 \/ h[i].e = "Step") /\ \A x \in (i + 1)..(j - 1) : h[x].e # "Step"
StepEndOf(h, i) == IF \E x \in (i + 1)..Len(h) : h[x].e = "StepEnd"
                   THEN CHOOSE x \in (i + 1)..Len(h) : h[x].e = "StepEnd" /\ \A y \in (i + 1)..(x - 1) : h[y].e # "StepEnd"
                   ELSE 0
\* notifications of kind `what` attached to the step at i whose step_end is at e (e = 0: still open)
Attached(h, i, e, what) ==
    {x \in (i + 1)..Len(h) : h[x].e = what /\ (IF e = 0 THEN TRUE ELSE x < e \/ x = e + 1)}
\* C29, logs: once per completed LOGn, none otherwise, right address and topic count
LogsOnce(h) ==
    /\ \A j \in 1..Len(h) : h[j].e = "Log" =>
          LET i == StepOf(h, j) IN
          /\ i > 0 /\ h[i].op \in LogOps
          /\ LET e == StepEndOf(h, i) IN j \in Attached(h, i, e, "Log") /\ (e # 0 => h[e].res = "Continue")
          /\ h[j].nt = h[i].op - 160 /\ h[j].addr = ExecutingAt(h, j)
    /\ \A i \in 1..Len(h) : h[i].e = "Step" =>
          LET e == StepEndOf(h, i)
              n == Cardinality(Attached(h, i, e, "Log")) IN
          /\ n <= 1
          /\ (e # 0 /\ e + 1 <= Len(h) /\ h[i].op \in LogOps /\ h[e].res = "Continue") => n = 1
\* C30: once per completed SELFDESTRUCT, none otherwise, right contract, target and (outside the corner) value
SelfDestructOnce(h) ==
    /\ \A j \in 1..Len(h) : h[j].e = "SelfDestruct" =>
          LET i == StepOf(h, j) IN
          /\ i > 0 /\ h[i].op = SELFDESTRUCT
          /\ LET e == StepEndOf(h, i) IN j \in Attached(h, i, e, "SelfDestruct") /\ (e # 0 => h[e].res = "SelfDestruct")
          /\ h[j].c = ExecutingAt(h, j) /\ h[j].t = h[i].top
          /\ (h[j].v = h[i].bal \/ (fork \in Cancun /\ h[j].t = h[j].c))      \* value judged outside the corner
    /\ \A i \in 1..Len(h) : h[i].e = "Step" =>
          LET e == StepEndOf(h, i)
              n == Cardinality(Attached(h, i, e, "SelfDestruct")) IN
          /\ n <= 1
          /\ (e # 0 /\ e + 1 <= Len(h) /\ h[e].res = "SelfDestruct") => n = 1
\* instructions only run in real frames, and a frame answered by the inspector or refused early runs none
StepsOnlyInLiveFrames(h) ==
    \A j \in 1..Len(h) : h[j].e \in {"Step", "Init"} =>
        /\ Depth(h, j) >= 1
        /\ LET i == OpenStart(h, j) IN
           /\ ~h[i].sc
           /\ h[j].e = "Init" => j = i + 1
           /\ h[j].e = "Step" => h[i + 1].e = "Init"

AcceptedIsWellFormed ==
    /\ Balanced(hist) /\ Complete(hist) /\ Bracketed(hist) /\ LogsOnce(hist) /\ SelfDestructOnce(hist)
    /\ StepsOnlyInLiveFrames(hist)
\* the automaton's frame stack is exactly the set of unanswered starts of the history
StackMatchesHistory == Len(frames) = Depth(hist, Len(hist))
\* the acceptor never paints itself into a corner: some event is always acceptable -- one of the alphabet, or
\* (the alphabet does not contain every caller/context combination) the child start that the rules dictate
CanonicalChild ==
    IF cur.op = 244
    THEN With2(CI("DelegateCall", Top.inp.from, Top.ctx, 3, TRUE, 0), "Call", "sc", FALSE)
    ELSE With2(CI(SchemeOf(cur.op), Top.ctx, 3, 3, FALSE, 0), "Call", "sc", FALSE)
NeverStuck == \/ phase \in {"boot", "done"}
              \/ \E ev \in MCAlphabet : Judge(ev) = "ok"
              \/ owed = "child" /\ cur.op \in CallOps /\ Judge(CanonicalChild) = "ok"
=============================================================================
