------------------------------ MODULE DbLayers ------------------------------
(* What a database layer must answer (property C20).

   The EVM reads the world through five queries -- account info (`basic`), code by hash,
   storage slot, block hash and "does this address already have storage" (EIP-7610) -- and
   writes it back with `commit` (the per-transaction change set: touched accounts with their
   new info and changed slots, self-destructed accounts, newly created accounts).  revm stacks
   wrappers on top of the real data: adapters (&mut, Box, WrapDatabaseRef, DatabaseComponents)
   and caches (CacheDB, State).  The property: a wrapper is invisible.  Whatever is asked,
   in whatever order and however often, the answer is the one the underlying data D, overlaid
   with the changes committed through the wrapper, gives.

   This module states that single right answer.  It has NO notion of a cache: the data is
         D          a constant (accounts, storage, code store, block hashes), and
         committed  the overlay of everything written through the layer
                    (variables acct, wiped, sto, codes),
   and every query action answers  Lookup(D (+) committed, q).  Writing follows Ethereum's
   rules (yellow paper section 6/7, EIP-161, EIP-684/7610), not the Rust code:
     - a touched account takes the new info and the changed slots; other slots keep their value;
     - a self-destructed account is absent afterwards and ALL its storage reads 0, also slots
       that exist in D; an account re-appearing at that address later starts with no storage;
     - a created account starts from empty storage (wipe), then gets the slots written;
     - an account in the change set that is not marked touched is not written at all;
     - a touched account that ends up empty (balance 0, nonce 0, no code) is deleted under
       EIP-161; layers that are fork-agnostic keep it as an empty account.  The two readings are
       observationally the same state of the world; the model marks such an account `dust` and
       tells the replay (field `dust` of the basic op) that absent and empty are identified for
       this one query.  Nowhere else.
   Besides commit, CacheDB has three direct writers (insert_account_info,
   insert_account_storage, replace_account_storage); they are actions too.

   What is explored.  The data variables are the semantic state.  Two history abstractions are
   part of the VIEW so that TLC also distinguishes histories a cache could distinguish:
     seen      for every query, the last answer given for it (<<>> = never asked).  A caching
               defect is a remembered answer surviving a change: <<data, seen>> separates "asked
               before the commit" from "asked after it" and from "never asked";
     blockSeq  the exact sequence of block numbers asked (a pruning cache depends on the order).
   `conf` records whether the history respects the caller protocol documented by State
   (state.rs: "Account is guaranteed to be loaded" before storage(); cache.rs: "All accounts
   should be present inside cache" at commit): basic(a) precedes storage(a,_), has_storage(a)
   and any commit mentioning a.  It is part of the view, so every conformant history is reached
   by a conformant path; layers that demand the protocol are only judged on conf edges.

   Every action prints its edge (history, operation, the one right answer); the harness replays
   the edges through each real layer. *)
EXTENDS Integers, Sequences, FiniteSets, TLC, Json

CONSTANTS World,      \* "populated" (the reference data below) or "empty" (revm's EmptyDB)
          Focus,      \* set of address sets; a behaviour only mentions the addresses of one of them
          BlockNums,  \* block numbers that may be asked
          Rich,       \* TRUE: all operation variants; FALSE: a reduced set (used with two addresses)
          MaxHist     \* bound on the history length

Addrs == 1 .. 4
Slots == {1, 2}
Unset == -1

---------------------------------------------------------------------------
(* The underlying data D.  One address of every kind that behaves differently:
     1  a contract: balance 3, nonce 1, code 1, storage slot 1 = 7
     2  an externally owned account: balance 5, nonce 1, no code, no storage
     3  absent
     4  the EIP-7610 case: balance 1, nonce 0, no code, but storage slot 2 = 4
   Code store: codes 1 and 2 (2 belongs to no modelled account).  Code 3 only ever arrives by a
   commit.  Block hashes are defined for every number (an abstract token).  In the empty world
   every account is absent, there is no storage and no code. *)
Absent == [ex |-> FALSE, bal |-> 0, nonce |-> 0, code |-> 0]
Acc(b, n, c) == [ex |-> TRUE, bal |-> b, nonce |-> n, code |-> c]

DAcct(a) == IF World = "empty" THEN Absent
            ELSE CASE a = 1 -> Acc(3, 1, 1) [] a = 2 -> Acc(5, 1, 0) [] a = 3 -> Absent [] a = 4 -> Acc(1, 0, 0)
DSto(a, k) == IF World = "empty" THEN 0
              ELSE IF a = 1 /\ k = 1 THEN 7 ELSE IF a = 4 /\ k = 2 THEN 4 ELSE 0
DCodes == IF World = "empty" THEN {} ELSE {1, 2}
DBlockHash(n) == n + (IF World = "empty" THEN 2000 ELSE 1000)
DHasStorage(a) == \E k \in Slots : DSto(a, k) # 0

CodeIds == {1, 2, 3}
NewCode == 3

---------------------------------------------------------------------------
VARIABLES focus,     \* the addresses this behaviour talks about (fixed by Init)
          acct,      \* committed overlay on account info: [src |-> "D" | "set" | "dust", info |-> ..]
          wiped,     \* wiped[a]: D's storage of a is no longer visible (destroyed / created / replaced)
          sto,       \* sto[a][k]: value written through the layer, Unset if none
          codes,     \* code ids that arrived through the layer
          seen,      \* history abstraction, see above
          blockSeq,  \* history abstraction, see above
          held,      \* history abstraction: the last info / slot value WRITTEN through the layer, kept
                     \* also after a wipe (destroy, create, replace) made it meaningless -- a cache may
                     \* still hold it, so "written k, then created" and "created" are different histories
          conf,      \* the history respects the caller protocol
          hist       \* the history itself (hidden by the VIEW)
data == <<acct, wiped, sto, codes>>
vars == <<focus, acct, wiped, sto, codes, seen, blockSeq, held, conf, hist>>
\* The depth is part of the view so that the bounded search is exact: a state that can be reached
\* at two depths is expanded at both (a parallel search may otherwise meet it first on the longer
\* path and cut its successors short at the bound).
View == <<focus, acct, wiped, sto, codes, seen, blockSeq, held, conf, Len(hist)>>

\* ---- Lookup(D (+) committed, q): the single right answer of every query
InfoOf(ac, a) == CASE ac[a].src = "D" -> DAcct(a)
                   [] ac[a].src = "dust" -> Absent
                   [] OTHER -> ac[a].info
ValOf(st, wp, a, k) == IF st[a][k] # Unset THEN st[a][k] ELSE IF wp[a] THEN 0 ELSE DSto(a, k)
Info(a) == InfoOf(acct, a)
Dust(a) == acct[a].src = "dust"
Val(a, k) == ValOf(sto, wiped, a, k)
HasSto(a) == \E k \in Slots : Val(a, k) # 0
\* the same lookups in the successor state (for the action properties at the end)
InfoN(a) == InfoOf(acct', a)
ValN(a, k) == ValOf(sto', wiped', a, k)
CodeKnown == DCodes \cup codes
IsEmptyInfo(i) == i.bal = 0 /\ i.nonce = 0 /\ i.code = 0

\* answers are tuples of integers (booleans as 0/1); <<>> is the answer of a write
InfoT(i) == <<IF i.ex THEN 1 ELSE 0, i.bal, i.nonce, i.code>>
B(x) == IF x THEN 1 ELSE 0

NoSeen == [b |-> [a \in Addrs |-> <<>>], h |-> [a \in Addrs |-> <<>>], c |-> [a \in Addrs |-> <<>>],
           s |-> [a \in Addrs |-> [k \in Slots |-> <<>>]], x |-> [c \in CodeIds |-> <<>>]]

IsCommitOp(o) == o.op \in {"touch", "create", "selfdestruct", "untouched", "commit2"}
IsInsertOp(o) == o.op \in {"insert_info", "insert_storage", "replace_storage"}
IsQueryOp(o)  == o.op \in {"basic", "has_storage", "storage", "acode", "code_by_hash", "block_hash"}
Some(h, P(_)) == \E i \in 1 .. Len(h) : P(h[i])
CommittedCodeAsked(o) == o.op = "code_by_hash" /\ o.cm

\* The edge: history, operation, expected answer, and what a layer must support to replay it.
Emit(op, ans, c) ==
    LET h2 == Append(hist, op) IN
    PrintT("EDGE " \o ToJson([hist |-> hist, pre |-> 0, op |-> op, post |-> [ans |-> ans],
        cfg |-> [world |-> World, conf |-> c, commits |-> Some(h2, IsCommitOp),
                 inserts |-> Some(h2, IsInsertOp), ccode |-> Some(h2, CommittedCodeAsked)]]))

Loaded(a) == seen.b[a] # <<>>

Init == /\ focus \in Focus
        /\ acct = [a \in Addrs |-> [src |-> "D", info |-> Absent]]
        /\ wiped = [a \in Addrs |-> FALSE]
        /\ sto = [a \in Addrs |-> [k \in Slots |-> Unset]]
        /\ codes = {}
        /\ seen = NoSeen
        /\ blockSeq = <<>>
        /\ held = [i |-> [a \in Addrs |-> <<>>], s |-> [a \in Addrs |-> [k \in Slots |-> Unset]]]
        /\ conf = TRUE
        /\ hist = <<>>

---------------------------------------------------------------------------
\* Queries: the data does not change; the answer is a function of the data alone.
Query(op, ans, seen2, c) ==
    /\ UNCHANGED <<focus, acct, wiped, sto, codes, held>>
    /\ seen' = seen2 /\ conf' = c
    /\ hist' = Append(hist, op)
    /\ Emit(op, ans, c)

Basic == \E a \in focus :
    /\ UNCHANGED blockSeq
    /\ Query([op |-> "basic", a |-> a, dust |-> Dust(a)], InfoT(Info(a)),
             [seen EXCEPT !.b[a] = InfoT(Info(a))], conf)

Storage == \E a \in focus, k \in Slots :
    /\ UNCHANGED blockSeq
    /\ Query([op |-> "storage", a |-> a, k |-> k], <<Val(a, k)>>,
             [seen EXCEPT !.s[a][k] = <<Val(a, k)>>], conf /\ Loaded(a))

\* has-storage = some slot reads non-zero.  One corner is left out: a layer that keeps its writes
\* as an overlay of slots cannot know the answer when a zero written through it covers the
\* non-zero slots below (it would have to enumerate the underlying storage).  The EVM never
\* needs that answer (EIP-7610 consults has-storage for a code-less nonce-0 address, where no
\* SSTORE can have happened); the model does not ask in that situation.
Shadowed(a) == ~wiped[a] /\ \E k \in Slots : sto[a][k] = 0 /\ DSto(a, k) # 0
HasStorage == \E a \in focus :
    /\ ~Shadowed(a)
    /\ UNCHANGED blockSeq
    /\ Query([op |-> "has_storage", a |-> a], <<B(HasSto(a))>>,
             [seen EXCEPT !.h[a] = <<B(HasSto(a))>>], conf /\ Loaded(a))

\* The code of an account, obtained the way the interpreter does (journaled_state load_code):
\* basic(a); if the info carries no code bytes and the hash is not the empty hash, code_by_hash.
\* It loads the account, so it also counts as basic(a) for the protocol.
AccountCode == \E a \in focus :
    /\ UNCHANGED blockSeq
    /\ Query([op |-> "acode", a |-> a], <<Info(a).code>>,
             [seen EXCEPT !.c[a] = <<Info(a).code>>, !.b[a] = InfoT(Info(a))], conf)

\* Code by hash, only for hashes that exist: in D's code store or arrived through the layer.
\* `cm` marks a hash known only from a commit; every layer that accepts commits must serve it.
CodeByHash == \E c \in CodeKnown :
    /\ UNCHANGED blockSeq
    /\ Query([op |-> "code_by_hash", h |-> c, cm |-> (c \notin DCodes)], <<c>>,
             [seen EXCEPT !.x[c] = <<c>>], conf)

BlockHash == \E n \in BlockNums :
    /\ blockSeq' = Append(blockSeq, n)
    /\ Query([op |-> "block_hash", n |-> n], <<DBlockHash(n)>>, seen, conf)

---------------------------------------------------------------------------
\* Writes.  W is a sequence of <<slot, value>>; the op carries <<slot, old value, new value>>
\* because the EVM's change set does (EvmStorageSlot.original_value / present_value).
Apply(cur, W) == [k \in Slots |->
    LET I == {i \in 1 .. Len(W) : W[i][1] = k} IN IF I = {} THEN cur[k] ELSE W[CHOOSE i \in I : TRUE][2]]
WithOld(a, W, fresh) == [i \in 1 .. Len(W) |-> <<W[i][1], IF fresh THEN 0 ELSE Val(a, W[i][1]), W[i][2]>>]
AllUnset == [k \in Slots |-> Unset]

\* held after writing slots W (and info i) at address a
HeldS(a, W) == [held EXCEPT !.s[a] = Apply(held.s[a], W)]
HeldIS(a, i, W) == [i |-> [held.i EXCEPT ![a] = InfoT(i)], s |-> [held.s EXCEPT ![a] = Apply(held.s[a], W)]]

Write(op, acct2, wiped2, sto2, codes2, held2, c) ==
    /\ acct' = acct2 /\ wiped' = wiped2 /\ sto' = sto2 /\ codes' = codes2 /\ held' = held2
    /\ UNCHANGED <<focus, seen, blockSeq>>
    /\ conf' = c
    /\ hist' = Append(hist, op)
    /\ Emit(op, <<>>, c)

SlotWrites == IF Rich THEN {<<>>, <<<<1, 9>>>>, <<<<1, 0>>>>, <<<<2, 4>>>>}
                      ELSE {<<>>, <<<<1, 9>>>>}

\* A transaction touched `a`: new balance, possibly a nonce bump, code unchanged, some slots
\* written.  Only changes the EVM can produce: the nonce never decreases, code stays, and the
\* account may end up empty only if it was empty/absent before (value cannot leave a
\* code-less nonce-0 account).  An account ending up empty becomes `dust` (EIP-161); the model
\* keeps out of the corner where such an account still has storage.
TouchEffect(a, bal, bump, W) ==
    LET cur == Info(a)
        new == Acc(bal, cur.nonce + bump, cur.code) IN
    [new |-> new,
     ok |-> IF IsEmptyInfo(new) THEN (~cur.ex \/ IsEmptyInfo(cur)) /\ W = <<>> /\ ~HasSto(a) ELSE TRUE,
     acct |-> IF IsEmptyInfo(new) THEN [src |-> "dust", info |-> Absent] ELSE [src |-> "set", info |-> new]]

Touch == \E a \in focus, bal \in (IF Rich THEN {0, 6} ELSE {6}), bump \in {0, 1}, W \in SlotWrites :
    LET e == TouchEffect(a, bal, bump, W) IN
    /\ e.ok
    /\ Rich \/ bump = 0 \/ W # <<>>
    /\ Write([op |-> "touch", a |-> a, bal |-> e.new.bal, nonce |-> e.new.nonce, code |-> e.new.code,
              w |-> WithOld(a, W, FALSE)],
             [acct EXCEPT ![a] = e.acct], wiped, [sto EXCEPT ![a] = Apply(sto[a], W)], codes,
             HeldIS(a, e.new, W), conf /\ Loaded(a))

\* EIP-7702: a transaction set code on an EXISTING externally owned account (nonce >= 1, no code): the account is
\* touched, not created; its nonce moves, its storage stays, and its new code arrives through the layer with this
\* commit -- code_by_hash must know it afterwards, exactly as for a creation.
Delegate == \E a \in focus :
    LET cur == Info(a)
        new == Acc(cur.bal, cur.nonce + 1, NewCode) IN
    /\ cur.ex /\ cur.code = 0 /\ cur.nonce >= 1
    /\ Write([op |-> "touch", a |-> a, bal |-> new.bal, nonce |-> new.nonce, code |-> new.code,
              w |-> WithOld(a, <<>>, FALSE)],
             [acct EXCEPT ![a] = [src |-> "set", info |-> new]], wiped, sto, codes \cup {NewCode},
             HeldIS(a, new, <<>>), conf /\ Loaded(a))

\* CREATE/CREATE2/create transaction deployed at `a`.  Only where the EVM allows a creation
\* (EIP-684: nonce 0 and no code; State documents "EVM did necessary checks").  Existing storage
\* is NOT an obstacle here (EIP-7610 is what has_storage is for, and its default answer is
\* false): whatever the address held in D, was read through the layer or was written by earlier
\* commits, after the creation the storage is exactly the constructor's writes.
CreateInfos == IF Rich THEN {Acc(0, 1, NewCode), Acc(5, 1, 0)} ELSE {Acc(0, 1, NewCode)}
Create == \E a \in focus, i \in CreateInfos, W \in (IF Rich THEN {<<>>, <<<<2, 4>>>>} ELSE {<<>>}) :
    /\ Info(a).nonce = 0 /\ Info(a).code = 0
    /\ Write([op |-> "create", a |-> a, bal |-> i.bal, nonce |-> i.nonce, code |-> i.code,
              w |-> WithOld(a, W, TRUE)],
             [acct EXCEPT ![a] = [src |-> "set", info |-> i]],
             [wiped EXCEPT ![a] = TRUE], [sto EXCEPT ![a] = Apply(AllUnset, W)],
             IF i.code = 0 THEN codes ELSE codes \cup {i.code},
             HeldIS(a, i, W), conf /\ Loaded(a))

\* SELFDESTRUCT took effect at `a` (`cr`: the account had also been created in that transaction).
SelfDestruct == \E a \in focus, cr \in (IF Rich THEN BOOLEAN ELSE {FALSE}) :
    Write([op |-> "selfdestruct", a |-> a, cr |-> cr],
          [acct EXCEPT ![a] = [src |-> "set", info |-> Absent]],
          [wiped EXCEPT ![a] = TRUE], [sto EXCEPT ![a] = AllUnset], codes, held,
          conf /\ Loaded(a))

\* The change set mentions `a` (with different info and a slot) but does not mark it touched:
\* nothing may be written.
Untouched == \E a \in focus :
    Write([op |-> "untouched", a |-> a], acct, wiped, sto, codes, held, conf /\ Loaded(a))

\* One change set with two accounts: `a` receives value, `b` is destroyed.
Commit2 == \E a \in focus, b \in focus :
    /\ a # b
    /\ LET e == TouchEffect(a, 6, 0, <<>>) IN
       Write([op |-> "commit2", a |-> a, bal |-> e.new.bal, nonce |-> e.new.nonce, code |-> e.new.code, b |-> b],
             [acct EXCEPT ![a] = e.acct, ![b] = [src |-> "set", info |-> Absent]],
             [wiped EXCEPT ![b] = TRUE], [sto EXCEPT ![b] = AllUnset], codes,
             HeldIS(a, e.new, <<>>), conf /\ Loaded(a) /\ Loaded(b))

\* CacheDB's direct writers.
\* insert_account_info: the account has this info from now on; storage is not touched.  Inserting
\* the empty info leaves an account that is "empty or absent" (dust), as after EIP-161.
InsertInfo == \E a \in focus, i \in (IF Rich THEN {Acc(8, 2, NewCode), Acc(0, 0, 0)} ELSE {Acc(8, 2, NewCode)}) :
    Write([op |-> "insert_info", a |-> a, bal |-> i.bal, nonce |-> i.nonce, code |-> i.code],
          [acct EXCEPT ![a] = IF IsEmptyInfo(i) THEN [src |-> "dust", info |-> Absent] ELSE [src |-> "set", info |-> i]],
          wiped, sto, IF i.code = 0 THEN codes ELSE codes \cup {i.code}, HeldIS(a, i, <<>>), conf)

InsertStorage == \E a \in focus, kv \in (IF Rich THEN {<<1, 9>>, <<1, 0>>, <<2, 4>>} ELSE {<<1, 0>>, <<2, 4>>}) :
    Write([op |-> "insert_storage", a |-> a, k |-> kv[1], v |-> kv[2]],
          acct, wiped, [sto EXCEPT ![a][kv[1]] = kv[2]], codes, HeldS(a, <<kv>>), conf)

\* replace_account_storage: the account's storage is exactly W from now on.  Giving storage to an
\* address without account makes it an empty account with storage; with W empty nothing
\* distinguishes that from absent (dust).
ReplaceStorage == \E a \in focus, W \in (IF Rich THEN {<<>>, <<<<2, 4>>>>} ELSE {<<>>}) :
    Write([op |-> "replace_storage", a |-> a, w |-> W],
          IF Info(a).ex THEN acct ELSE [acct EXCEPT ![a] = [src |-> "dust", info |-> Absent]],
          [wiped EXCEPT ![a] = TRUE], [sto EXCEPT ![a] = Apply(AllUnset, W)], codes, HeldS(a, W), conf)

Next == /\ Len(hist) < MaxHist
        /\ \/ Basic \/ Storage \/ HasStorage \/ AccountCode \/ CodeByHash \/ BlockHash
           \/ Touch \/ Delegate \/ Create \/ SelfDestruct \/ Untouched \/ Commit2
           \/ InsertInfo \/ InsertStorage \/ ReplaceStorage

Spec == Init /\ [][Next]_vars

---------------------------------------------------------------------------
\* The property's clauses, checked by TLC on this specification.
Last == hist'[Len(hist')]
Stepped == hist' # hist

TypeOK ==
    /\ focus \in Focus
    /\ \A a \in Addrs : /\ acct[a].src \in {"D", "set", "dust"}
                        /\ wiped[a] \in BOOLEAN
                        /\ \A k \in Slots : sto[a][k] \in {Unset} \cup Nat
    /\ codes \subseteq CodeIds
    /\ \A a \in Addrs \ focus : acct[a].src = "D" /\ ~wiped[a] /\ \A k \in Slots : sto[a][k] = Unset

\* "answer like the data they wrap": while nothing has been written through the layer, every
\* answer is D's own.
NothingCommitted == \A a \in Addrs : acct[a].src = "D" /\ ~wiped[a] /\ \A k \in Slots : sto[a][k] = Unset
PassThrough == NothingCommitted =>
    \A a \in Addrs : /\ Info(a) = DAcct(a) /\ HasSto(a) = DHasStorage(a)
                     /\ \A k \in Slots : Val(a, k) = DSto(a, k)

\* has-storage is exactly "some slot reads non-zero", so the two queries can never contradict.
HasStorageIsSomeSlot == \A a \in Addrs : HasSto(a) <=> (\E k \in Slots : Val(a, k) # 0)

\* every account's code can be fetched by hash from somewhere the layer knows
CodeResolvable == \A a \in Addrs : Info(a).code = 0 \/ Info(a).code \in CodeKnown

\* an absent account has no nonce/balance/code
AbsentIsBlank == \A a \in Addrs : ~Info(a).ex => Info(a) = Absent

\* "caching and block-hash pruning never change an answer": a query changes no datum, hence a
\* repetition of it -- with any other queries in between -- answers the same.
QueriesChangeNothing == [][(Stepped /\ IsQueryOp(Last)) => UNCHANGED data]_vars
StableWithoutWrites ==
    [][(Stepped /\ \A i \in 1 .. Len(hist') : IsQueryOp(hist'[i]))
        => /\ \A a \in Addrs : /\ seen.b[a] # <<>> => seen'.b[a] = seen.b[a]
                               /\ seen.h[a] # <<>> => seen'.h[a] = seen.h[a]
                               /\ seen.c[a] # <<>> => seen'.c[a] = seen.c[a]
                               /\ \A k \in Slots : seen.s[a][k] # <<>> => seen'.s[a][k] = seen.s[a][k]
           /\ \A c \in CodeIds : seen.x[c] # <<>> => seen'.x[c] = seen.x[c]]_vars

\* a destroyed account reads as absent and all its storage reads 0
DestroyedReadsNothing ==
    [][(Stepped /\ Last.op = "selfdestruct")
        => (~InfoN(Last.a).ex /\ \A k \in Slots : ValN(Last.a, k) = 0)]_vars
\* a created account holds exactly the slots written by its constructor
CreatedStorageIsWhatWasWritten ==
    [][(Stepped /\ Last.op = "create")
        => \A k \in Slots : ValN(Last.a, k) =
               (IF \E i \in 1 .. Len(Last.w) : Last.w[i][1] = k
                THEN Last.w[CHOOSE i \in 1 .. Len(Last.w) : Last.w[i][1] = k][3] ELSE 0)]_vars
\* a write to one slot changes that slot only; an untouched entry changes nothing
TouchWritesOnlyItsSlots ==
    [][(Stepped /\ Last.op = "touch")
        => \A a \in Addrs, k \in Slots :
              IF a = Last.a /\ \E i \in 1 .. Len(Last.w) : Last.w[i][1] = k
              THEN ValN(a, k) = Last.w[CHOOSE i \in 1 .. Len(Last.w) : Last.w[i][1] = k][3]
              ELSE ValN(a, k) = Val(a, k)]_vars
UntouchedChangesNothing == [][(Stepped /\ Last.op = "untouched") => UNCHANGED data]_vars
\* writes about one address never change what another address reads
OtherAddressesUnaffected ==
    [][(Stepped /\ ~IsQueryOp(Last))
        => \A a \in Addrs : (a # Last.a /\ (Last.op # "commit2" \/ a # Last.b))
              => (InfoN(a) = Info(a) /\ \A k \in Slots : ValN(a, k) = Val(a, k))]_vars
=============================================================================
