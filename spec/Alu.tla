-------------------------------- MODULE Alu --------------------------------
(* The arithmetic, comparison, bitwise and shift instructions of the EVM (property C03).

   "For all operand values, ADD, MUL, SUB, DIV, SDIV, MOD, SMOD, ADDMOD, MULMOD, EXP, SIGNEXTEND, LT,
    GT, SLT, SGT, EQ, ISZERO, AND, OR, XOR, NOT, BYTE, SHL, SHR and SAR push the value defined by
    unbounded-integer arithmetic reduced modulo 2^256 (two's complement for signed operations, zero
    on division or modulus by zero).  Each charges the gas defined for its fork and consumes exactly
    its inputs."

   Written from that text, the yellow paper (appendix H.2, sections 0s "Stop and Arithmetic", 10s
   "Comparison & Bitwise Logic"), EIP-145 (SHL/SHR/SAR, from Constantinople) and EIP-160 (EXP byte
   cost 10 -> 50 from Spurious Dragon); not from arithmetic.rs / bitwise.rs / i256.rs.

   The module has three layers.

   1. THE DEFINITION (Def).  A word has Bits = W * N bits; operands are integers 0 .. 2^Bits - 1;
      the result of every instruction is written with ordinary integer arithmetic, exactly as the
      property and the yellow paper state it.  Operand x is the word on top of the stack (mu_s[0]),
      y the one below it (mu_s[1]), z the third (mu_s[2]).  TLC can evaluate Def only when 2^Bits
      is a small number.

   2. THE ALGORITHMS (Alg).  The same 25 instructions on limb sequences (module Bignum), for any
      limb width W and limb count N.

   3. THE TWO USES.
      Mode = "refine": for small W and N, TLC visits EVERY operand tuple of every instruction and
        checks the invariant Refines: the limb algorithm yields exactly the defined integer.  This
        is the refinement argument: Alg is uniform in W and N, and is correct for all operands at
        (W, N) = (1, 4..6), (2, 2..3), (3, 2), (4, 2), (8, 1), with "bytes" of 1 to 4 bits.
      Mode = "cases": W = 8, N = 32 (256-bit words).  TLC evaluates Alg on operand tuples drawn from
        a boundary palette and prints one EDGE line per (instruction, operands) with the expected
        stack and the expected gas in every fork; the harness runs the instruction on the real
        interpreter (`PUSH32 .. OP STOP` under the instruction table of each fork) and the
        comparison is generic.  Every printed result is additionally cross-checked at full width by
        an inverse computation (Certified) where the instruction has one.

   A "byte" has BB bits (8 in the EVM); BYTE and SIGNEXTEND and the EXP gas count in bytes, so BB is
   a parameter as well: the small models use bytes of 1, 2, 3 or 4 bits. *)
EXTENDS Bignum, Json

CONSTANTS N,        \* limbs per word
          BB,       \* bits per byte; Bits is a multiple of BB
          Mode,     \* "refine" or "cases"
          Ops,      \* the instructions explored in this run
          Pal2,     \* cases mode: name of the operand palette for one- and two-operand instructions
          Pal3      \* cases mode: name of the operand palette for ADDMOD / MULMOD (all triples)

VARIABLE st
vars == <<st>>

Bits == W * N
NBytes == Bits \div BB

AllOps == {"ADD", "MUL", "SUB", "DIV", "SDIV", "MOD", "SMOD", "ADDMOD", "MULMOD", "EXP", "SIGNEXTEND",
           "LT", "GT", "SLT", "SGT", "EQ", "ISZERO", "AND", "OR", "XOR", "NOT", "BYTE", "SHL", "SHR", "SAR"}

Arity(op) == IF op \in {"ISZERO", "NOT"} THEN 1 ELSE IF op \in {"ADDMOD", "MULMOD"} THEN 3 ELSE 2

\* The instruction's number (yellow paper, appendix H.2): 0x01 .. 0x0b and 0x10 .. 0x1d.
Code(op) ==
    CASE op = "ADD" -> 1 [] op = "MUL" -> 2 [] op = "SUB" -> 3 [] op = "DIV" -> 4 [] op = "SDIV" -> 5
      [] op = "MOD" -> 6 [] op = "SMOD" -> 7 [] op = "ADDMOD" -> 8 [] op = "MULMOD" -> 9 [] op = "EXP" -> 10
      [] op = "SIGNEXTEND" -> 11
      [] op = "LT" -> 16 [] op = "GT" -> 17 [] op = "SLT" -> 18 [] op = "SGT" -> 19 [] op = "EQ" -> 20
      [] op = "ISZERO" -> 21 [] op = "AND" -> 22 [] op = "OR" -> 23 [] op = "XOR" -> 24 [] op = "NOT" -> 25
      [] op = "BYTE" -> 26 [] op = "SHL" -> 27 [] op = "SHR" -> 28 [] op = "SAR" -> 29

ASSUME /\ W \in Nat \ {0} /\ N \in Nat \ {0} /\ BB \in Nat \ {0} /\ Bits % BB = 0
       /\ Ops \subseteq AllOps /\ Mode \in {"refine", "cases"}

---------------------------------------------------------------------------------------------------
(* 1. THE DEFINITION, with integers.  Mod = 2^Bits. *)

Mod == 2^Bits
Signed(x) == IF x >= Mod \div 2 THEN x - Mod ELSE x     \* the two's complement reading of a word
Wrap(i) == i % Mod                                      \* the word representing the integer i
Abs(i) == IF i < 0 THEN -i ELSE i
Bool(p) == IF p THEN 1 ELSE 0

RECURSIVE Power(_, _)
Power(x, e) == IF e = 0 THEN 1 % Mod ELSE (x * Power(x, e - 1)) % Mod      \* x^e mod 2^Bits

\* Number of bytes needed to write e: the least k with e < 2^(BB*k).  (EXP is charged per byte of
\* its exponent.)
RECURSIVE ByteCount(_)
ByteCount(e) == IF e = 0 THEN 0 ELSE 1 + ByteCount(e \div 2^BB)

Def(op, x, y, z) ==
    CASE op = "ADD" -> (x + y) % Mod
      [] op = "MUL" -> (x * y) % Mod
      [] op = "SUB" -> (x - y) % Mod
      [] op = "DIV" -> IF y = 0 THEN 0 ELSE x \div y
      [] op = "MOD" -> IF y = 0 THEN 0 ELSE x % y
         \* signed division truncates towards zero; -2^(Bits-1) / -1 = 2^(Bits-1) wraps to itself
      [] op = "SDIV" -> IF y = 0 THEN 0
                        ELSE LET q == Abs(Signed(x)) \div Abs(Signed(y))
                             IN Wrap(IF (Signed(x) < 0) # (Signed(y) < 0) THEN -q ELSE q)
         \* the signed remainder takes the sign of the dividend
      [] op = "SMOD" -> IF y = 0 THEN 0
                        ELSE LET r == Abs(Signed(x)) % Abs(Signed(y))
                             IN Wrap(IF Signed(x) < 0 THEN -r ELSE r)
         \* the intermediate sum / product is NOT reduced modulo 2^Bits
      [] op = "ADDMOD" -> IF z = 0 THEN 0 ELSE (x + y) % z
      [] op = "MULMOD" -> IF z = 0 THEN 0 ELSE (x * y) % z
      [] op = "EXP" -> Power(x, y)
         \* y is read as a signed number of x + 1 bytes: bit t = BB*(x+1) - 1 is its sign
      [] op = "SIGNEXTEND" -> IF x >= NBytes - 1 THEN y
                              ELSE LET t == BB * (x + 1)
                                       low == y % 2^t
                                   IN IF low >= 2^(t - 1) THEN low + (Mod - 2^t) ELSE low
      [] op = "LT" -> Bool(x < y)
      [] op = "GT" -> Bool(x > y)
      [] op = "SLT" -> Bool(Signed(x) < Signed(y))
      [] op = "SGT" -> Bool(Signed(x) > Signed(y))
      [] op = "EQ" -> Bool(x = y)
      [] op = "ISZERO" -> Bool(x = 0)
      [] op = "AND" -> BitwiseNat(LAMBDA p, q : IF p = 1 /\ q = 1 THEN 1 ELSE 0, x, y, Bits)
      [] op = "OR" -> BitwiseNat(LAMBDA p, q : IF p = 1 \/ q = 1 THEN 1 ELSE 0, x, y, Bits)
      [] op = "XOR" -> BitwiseNat(LAMBDA p, q : IF p # q THEN 1 ELSE 0, x, y, Bits)
      [] op = "NOT" -> Mod - 1 - x
         \* byte x of y, byte 0 being the most significant
      [] op = "BYTE" -> IF x >= NBytes THEN 0 ELSE (y \div 2^(Bits - BB * (x + 1))) % 2^BB
      [] op = "SHL" -> IF x >= Bits THEN 0 ELSE (y * 2^x) % Mod
      [] op = "SHR" -> IF x >= Bits THEN 0 ELSE y \div 2^x
         \* arithmetic shift: floor(Signed(y) / 2^x); \div rounds towards minus infinity
      [] op = "SAR" -> IF x >= Bits THEN (IF Signed(y) < 0 THEN Mod - 1 ELSE 0)
                       ELSE Wrap(Signed(y) \div 2^x)

---------------------------------------------------------------------------------------------------
(* Gas and availability per fork (yellow paper appendix G and H; EIP-145; EIP-160). *)

Forks == <<"FRONTIER", "HOMESTEAD", "TANGERINE", "SPURIOUS_DRAGON", "BYZANTIUM", "CONSTANTINOPLE",
           "PETERSBURG", "ISTANBUL", "BERLIN", "LONDON", "MERGE", "SHANGHAI", "CANCUN", "PRAGUE">>
ForkNo(f) == CHOOSE i \in DOMAIN Forks : Forks[i] = f
From(f, g) == ForkNo(f) >= ForkNo(g)                  \* fork f is fork g or later

Exists(op, f) == IF op \in {"SHL", "SHR", "SAR"} THEN From(f, "CONSTANTINOPLE") ELSE TRUE

GVeryLow == 3
GLow == 5
GMid == 8
GExp == 10
GExpByte(f) == IF From(f, "SPURIOUS_DRAGON") THEN 50 ELSE 10

\* expBytes: the byte count of the exponent (only used for EXP).
OpGas(op, f, expBytes) ==
    CASE op \in {"ADD", "SUB", "LT", "GT", "SLT", "SGT", "EQ", "ISZERO", "AND", "OR", "XOR", "NOT", "BYTE",
                 "SHL", "SHR", "SAR"} -> GVeryLow
      [] op \in {"MUL", "DIV", "SDIV", "MOD", "SMOD", "SIGNEXTEND"} -> GLow
      [] op \in {"ADDMOD", "MULMOD"} -> GMid
      [] op = "EXP" -> GExp + GExpByte(f) * expBytes

---------------------------------------------------------------------------------------------------
(* 2. THE ALGORITHMS, on N-limb words a (top of stack), b, c. *)

BoolW(p) == IF p THEN One(N) ELSE Zero(N)
Negative(a) == TopBit(a) = 1
AbsW(a) == IF Negative(a) THEN Neg(a) ELSE a            \* |a| as an unsigned word (2^(Bits-1) stays)
SLt(a, b) == IF Negative(a) # Negative(b) THEN Negative(a) ELSE Lt(a, b)
SarI(a, s) == IF Negative(a) THEN Not(ShrI(Not(a), s)) ELSE ShrI(a, s)

\* Square and multiply, least significant exponent bit first.
PowW(a, e) ==
    FoldLeft(LAMBDA acc, k : <<IF Bit(e, k - 1) = 1 THEN Mul(acc[1], acc[2]) ELSE acc[1], Mul(acc[2], acc[2])>>,
             <<One(N), a>>, Iota(BitLen(e)))[1]

ExpBytesW(e) == (BitLen(e) + BB - 1) \div BB

Alg(op, a, b, c) ==
    CASE op = "ADD" -> Add(a, b)
      [] op = "MUL" -> Mul(a, b)
      [] op = "SUB" -> Sub(a, b)
      [] op = "DIV" -> IF IsZero(b) THEN Zero(N) ELSE DivMod(a, b).q
      [] op = "MOD" -> IF IsZero(b) THEN Zero(N) ELSE DivMod(a, b).r
      [] op = "SDIV" -> IF IsZero(b) THEN Zero(N)
                        ELSE LET q == DivMod(AbsW(a), AbsW(b)).q
                             IN IF Negative(a) # Negative(b) THEN Neg(q) ELSE q
      [] op = "SMOD" -> IF IsZero(b) THEN Zero(N)
                        ELSE LET r == DivMod(AbsW(a), AbsW(b)).r
                             IN IF Negative(a) THEN Neg(r) ELSE r
         \* the sum has N + 1 limbs, the product 2N limbs; the remainder has as many limbs as c
      [] op = "ADDMOD" -> IF IsZero(c) THEN Zero(N)
                          ELSE LET s == AddC(a, b, 0) IN DivMod(Append(s.limbs, s.carry), c).r
      [] op = "MULMOD" -> IF IsZero(c) THEN Zero(N) ELSE DivMod(MulFull(a, b), c).r
      [] op = "EXP" -> PowW(a, b)
         \* move the sign bit of the (k+1)-byte number to the top, then shift back arithmetically
      [] op = "SIGNEXTEND" -> LET k == SatInt(a, NBytes - 1)
                                  s == Bits - BB * (k + 1)
                              IN IF k = NBytes - 1 THEN b ELSE SarI(ShlI(b, s), s)
      [] op = "LT" -> BoolW(Lt(a, b))
      [] op = "GT" -> BoolW(Lt(b, a))
      [] op = "SLT" -> BoolW(SLt(a, b))
      [] op = "SGT" -> BoolW(SLt(b, a))
      [] op = "EQ" -> BoolW(Eq(a, b))
      [] op = "ISZERO" -> BoolW(IsZero(a))
      [] op = "AND" -> And(a, b)
      [] op = "OR" -> Or(a, b)
      [] op = "XOR" -> Xor(a, b)
      [] op = "NOT" -> Not(a)
      [] op = "BYTE" -> LET i == SatInt(a, NBytes)
                        IN IF i = NBytes THEN Zero(N)
                           ELSE And(ShrI(b, Bits - BB * (i + 1)), FromNat(2^BB - 1, N))
      [] op = "SHL" -> ShlI(b, SatInt(a, Bits))          \* a shift by Bits or more leaves nothing
      [] op = "SHR" -> ShrI(b, SatInt(a, Bits))
      [] op = "SAR" -> SarI(b, SatInt(a, Bits))

---------------------------------------------------------------------------------------------------
(* 3a. Mode "refine": every operand tuple; Alg = Def. *)

Word == 0 .. Mod - 1

RefineNext ==
    \/ /\ st[1] = "start"
       /\ \E op \in Ops, x \in Word : st' = <<"x", op, x>>
    \/ /\ st[1] = "x"
       /\ \E y \in (IF Arity(st[2]) >= 2 THEN Word ELSE {0}), z \in (IF Arity(st[2]) = 3 THEN Word ELSE {0}) :
             st' = <<"case", st[2], st[3], y, z>>

Refines ==
    (Mode = "refine" /\ st[1] = "case") =>
        LET op == st[2] x == st[3] y == st[4] z == st[5]
            r == Alg(op, FromNat(x, N), FromNat(y, N), FromNat(z, N))
        IN /\ Len(r) = N /\ IsNumber(r)
           /\ Value(r) = Def(op, x, y, z)
           /\ op = "EXP" => ExpBytesW(FromNat(y, N)) = ByteCount(y)

---------------------------------------------------------------------------------------------------
(* 3b. Mode "cases": boundary operands at full width; expectations are printed for the harness.

   The palettes are built with the operators verified above.  Ks are the bit positions around
   which carries, signs and limb boundaries sit. *)

Pow2(k) == ShlI(One(N), k)
Nat2W(i) == FromNat(i, N)
MinusW(i) == Neg(FromNat(i, N))                                    \* the word of the integer -i
MinS == Pow2(Bits - 1)                                             \* most negative signed word
MaxS == Sub(MinS, One(N))                                          \* most positive signed word
Ks == {k \in {7, 8, 15, 31, 63, 64, 127, 128} : k < Bits - 1}
Ascending == Tab(N, LAMBDA i : (N + 1 - i) % B)                    \* 0x0102..1f20
Stripes == Tab(N, LAMBDA i : IF i % 2 = 1 THEN B - 1 ELSE 0)       \* 0x00ff00ff..00ff
Mixed == Tab(N, LAMBDA i : (i * 37 + 11) % B)                      \* no structure
Mixed2 == Tab(N, LAMBDA i : IF 2 * i > N THEN 0 ELSE (i * 91 + 5) % B)   \* half-width, no structure

Palette(name) ==
    CASE name = "tiny" ->
           {Zero(N), One(N), Nat2W(2), MinusW(1), MinS, MaxS, Mixed, Mixed2}
      [] name = "small" ->
           {Zero(N), One(N), Nat2W(2), Nat2W(3), Nat2W(8), Nat2W(NBytes - 2), Nat2W(NBytes - 1), Nat2W(Bits - 1), Nat2W(Bits),
            MinusW(1), MinusW(2), MinS, MaxS, Pow2(Bits \div 4), Mixed, Mixed2, Stripes}
      [] name = "mid" ->
           {Zero(N), One(N), Nat2W(2), Nat2W(3), Nat2W(7), Nat2W(8), Nat2W(NBytes - 2), Nat2W(NBytes - 1), Nat2W(NBytes),
            Nat2W(Bits - 1), Nat2W(Bits), Nat2W(Bits + 1),
            MinusW(1), MinusW(2), MinusW(3), MinS, Add(MinS, One(N)), MaxS, Pow2(Bits \div 4), Pow2(Bits \div 2),
            Sub(Pow2(Bits \div 2), One(N)), Mixed, Neg(Mixed), Mixed2, Stripes, Not(Stripes), Ascending}
      [] name = "full" ->
           {Zero(N), One(N), MinusW(1), MinusW(2), MinusW(3), MinS, Add(MinS, One(N)), MaxS,
            Ascending, Stripes, Not(Stripes), Mixed, Neg(Mixed), Mixed2, Neg(Mixed2)}
           \cup {Nat2W(i) : i \in {2, 3, 4, 5, 6, 7, 8, 9, NBytes - 2, NBytes - 1, NBytes, NBytes + 1,
                                  Bits - 1, Bits, Bits + 1}}
           \cup {Pow2(k) : k \in Ks} \cup {Add(Pow2(k), One(N)) : k \in Ks} \cup {Sub(Pow2(k), One(N)) : k \in Ks}

\* EXP: bases x exponents (an exponent of e bits costs about 2e multiplications).
ExpBases(name) ==
    IF name \in {"tiny", "small"}
    THEN {Zero(N), One(N), Nat2W(2), Nat2W(3), MinusW(1), Mixed}
    ELSE {Zero(N), One(N), Nat2W(2), Nat2W(3), Nat2W(B + 1), MinusW(1), MinusW(2), Pow2(Bits \div 2), MaxS, Mixed, Stripes}
ExpExponents(name) ==
    IF name \in {"tiny", "small"}
    THEN {Zero(N), One(N), Nat2W(2), Nat2W(B - 1), Nat2W(B), Nat2W(B * B - 1), Pow2(Bits \div 4), Pow2(Bits - 1), MinusW(1), Mixed2}
    ELSE {Nat2W(i) : i \in {0, 1, 2, 3, 7, 8, 9, 15, 16, 17, 31, 32, 33, 63, 64, 65, 127, 128, 129, 255, 256, 257,
                            1000, B * B - 1, B * B}}
         \cup {Pow2(k) : k \in Ks} \cup {Sub(Pow2(k), One(N)) : k \in {31, 63, 64, 128}}
         \cup {MinS, MaxS, MinusW(1), MinusW(2), Mixed, Mixed2, Stripes}

Firsts(op) == IF op = "EXP" THEN ExpBases(Pal2) ELSE IF Arity(op) = 3 THEN Palette(Pal3) ELSE Palette(Pal2)
Seconds(op) == IF op = "EXP" THEN ExpExponents(Pal2)
               ELSE IF Arity(op) = 3 THEN Palette(Pal3) ELSE IF Arity(op) = 2 THEN Palette(Pal2) ELSE {Zero(N)}
Thirds(op) == IF Arity(op) = 3 THEN Palette(Pal3) ELSE {Zero(N)}

(* Cross-checks of a result r at full width by an inverse computation (TLC fails the run if one
   does not hold; it would mean Bignum is wrong at this size, not that revm is). *)
Certified(op, a, b, c, r) ==
    CASE op = "ADD" -> Sub(r, b) = a
      [] op = "SUB" -> Add(r, b) = a
      [] op \in {"DIV", "MOD"} ->
            IsZero(b) \/ LET dm == DivMod(a, b) IN Add(Mul(dm.q, b), dm.r) = a /\ Lt(dm.r, b)
      [] op = "SDIV" -> IsZero(b) \/ (a = MinS /\ b = MinusW(1)) \/
            \* a - q*b is a remainder with the sign of a (or zero) and magnitude below |b|
            LET rem == Sub(a, Mul(r, b)) IN Lt(AbsW(rem), AbsW(b)) /\ (IsZero(rem) \/ Negative(rem) = Negative(a))
      [] op = "SMOD" -> IsZero(b) \/ (Lt(AbsW(r), AbsW(b)) /\ (IsZero(r) \/ Negative(r) = Negative(a)))
      [] op \in {"ADDMOD", "MULMOD"} -> IsZero(c) \/ Lt(r, c)
      [] op = "NOT" -> Not(r) = a
      [] op = "XOR" -> Xor(r, b) = a
      [] op = "AND" -> Or(r, Xor(a, b)) = Or(a, b)
      [] op = "OR" -> And(r, Not(Xor(a, b))) = And(a, b) /\ And(r, Xor(a, b)) = Xor(a, b)
      [] op \in {"LT", "GT", "SLT", "SGT", "EQ", "ISZERO"} -> r \in {Zero(N), One(N)}
         \* shifting back recovers the bits that were not pushed out
      [] op = "SHL" -> LET s == SatInt(a, Bits) IN ShrI(r, s) = And(b, ShrI(AllOnes(N), s))
      [] op = "SHR" -> LET s == SatInt(a, Bits) IN ShlI(r, s) = And(b, ShlI(AllOnes(N), s))
      [] OTHER -> TRUE

Sentinel == Not(Ascending)          \* the word lying under the operands; it must survive

\* The program PUSH32 Sentinel, PUSH32 (operands, last one first), op, STOP: PUSH32 costs 3 in every
\* fork, STOP nothing.  In a fork without the instruction the program halts exceptionally.
Expect(op, a, b, c) ==
    LET r == Alg(op, a, b, c)
        eb == IF op = "EXP" THEN ExpBytesW(b) ELSE 0
    IN IF ~Certified(op, a, b, c, r) THEN Assert(FALSE, <<"Bignum self-check failed", op, a, b, c, r>>)
       ELSE [stack |-> <<Sentinel, r>>,
             forks |-> [f \in {Forks[i] : i \in DOMAIN Forks} |->
                          IF Exists(op, f)
                          THEN [ok |-> TRUE, gas |-> GVeryLow * (1 + Arity(op)) + OpGas(op, f, eb)]
                          ELSE [ok |-> FALSE]]]

Emit(op, post) == PrintT("EDGE " \o ToJson([hist |-> <<>>, pre |-> <<>>, op |-> op, post |-> post]))

CasesNext ==
    \/ /\ st[1] = "start"
       /\ \E op \in Ops : \E a \in Firsts(op) : st' = <<"a", op, a>>
    \/ /\ st[1] = "a"
       /\ LET op == st[2] a == st[3] IN
          \E b \in Seconds(op), c \in Thirds(op) :
             /\ Emit([op |-> op, code |-> Code(op), args |-> SubSeq(<<a, b, c>>, 1, Arity(op))], Expect(op, a, b, c))
             /\ st' = <<"done">>

---------------------------------------------------------------------------------------------------
Init == st = <<"start">>
Next == IF Mode = "refine" THEN RefineNext ELSE CasesNext
Spec == Init /\ [][Next]_vars
=============================================================================
