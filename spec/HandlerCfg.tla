----------------------------- MODULE HandlerCfg -----------------------------
(* The configuration of an EVM handler and what survives reconfiguration (property C22).

   An EVM is constructed for a hardfork, with a list of handler registers (initially empty) and
   with one decision that the fork under test added: whether the block beneficiary is paid the
   transaction fee (`intent`).  After construction the user may reconfigure the EVM as often as
   he likes:

     - change the hardfork        (EvmBuilder::with_spec_id, Evm::modify_spec_id,
                                   Handler::create_handle_generic::<SPEC>)
     - add a handler register     (EvmBuilder::append_handler_register[_box],
                                   Handler::append_handler_register_plain/_box)
     - remove the last register   (Handler::pop_handle_register)
     - rebuild through the builder (evm.modify().build())

   and may execute transactions in between.  None of these operations is documented as
   "resets the handler", so each of them changes exactly the thing it names:

        operation                hardfork   registers          beneficiary decision   nonce
        with/modify_spec_id(f)   f          unchanged          unchanged              unchanged
        create_handle_generic(f) f          unchanged          unchanged              unchanged
        append_register(k)       unchanged  k added at the end unchanged              unchanged
        pop_register             unchanged  last one removed   unchanged              unchanged
        modify_build             unchanged  unchanged          unchanged              unchanged
        transact(k)              unchanged  unchanged          unchanged              +1

   What a configuration *means* is what a transaction executed on it does.  Three fixed
   transactions are used (all from the same funded sender, gas price GasPrice, in a block whose
   base fee is BaseFee < GasPrice, so that there is a non-zero tip):

        "transfer"  Value wei to an account without code        21000 gas
        "log"       Value wei to a contract that emits LOG0      21000 + 3 + 3 + 375 gas, one log
        "revert"    Value wei to a contract that REVERTs         21000 + 3 + 3 gas, value not moved

   Ethereum's rules (yellow paper section 6, EIP-1559) give the outcome:
        the sender pays  moved + GasPrice * gasUsed   (moved = Value unless the call reverted),
        the recipient receives  moved,
        the beneficiary receives  tip * gasUsed, tip = GasPrice - BaseFee from London on and
           GasPrice before London (there is no base fee before London),
        the sender's nonce increases by one.
   With the beneficiary payment switched off the beneficiary receives nothing and *nothing else
   changes*: the share is simply not credited (cf. property C08).

   Registers: "noop" changes nothing; "insp" is the inspector register (the inspector then
   sees the top-level call); a "cnt" register wraps the end-of-transaction hook: its hook notes
   the register's position in the list and then runs the hook it wrapped, so a transaction
   reports the positions of the "cnt" registers, last registered first -- registers must be
   neither lost, nor applied twice, nor reordered by a reconfiguration.  The inspector register is meant to be
   registered once, the model never registers it twice.

   State projection compared with the implementation after every operation: the hardfork the EVM
   reports, the number of registers, the sender's nonce, and for each of the three transactions
   the outcome of executing it (without committing) on the configuration as it is now.

   Out of scope here: the Optimism fee vaults (the harness is built without the optimism
   feature), and the builder calls that are documented as resetting the handler
   (reset_handler and the reset_handler_with_... family), or that replace the handler / the type the handler
   is generic over (with_handler, with_db, with_ref_db, with_empty_db, with_external_context). *)
EXTENDS Integers, Sequences, FiniteSets, TLC, Json

CONSTANTS Forks,      \* the hardforks explored, a subset of the names in Chronology
          Kinds,      \* register kinds explored, a subset of {"noop", "insp", "cnt"}
          GasPrice,   \* gas price of the fixed transactions
          BaseFee,    \* base fee of the block (ignored before London)
          Value,      \* value sent by the fixed transactions
          MaxHist     \* bound on the history length, the construction included

ASSUME /\ BaseFee > 0 /\ GasPrice > BaseFee /\ Value > 0
       /\ Kinds \subseteq {"noop", "insp", "cnt"}

VARIABLES built,    \* has the EVM been constructed
          intent,   \* TRUE = the beneficiary is paid; chosen at construction
          spec,     \* the hardfork
          regs,     \* the handler registers, in the order of registration
          nonce,    \* transactions committed so far = nonce of the sender
          hist      \* history of operations (hidden from the view)
vars == <<built, intent, spec, regs, nonce, hist>>

\* ---------------------------------------------------------------- Ethereum's side of the model
Chronology == <<"ISTANBUL", "BERLIN", "LONDON", "MERGE", "SHANGHAI", "CANCUN", "PRAGUE">>
Rank(f) == CHOOSE i \in 1..Len(Chronology) : Chronology[i] = f
FromLondon(f) == Rank(f) >= Rank("LONDON")

TxKinds == {"transfer", "log", "revert"}
GasUsed(k) == CASE k = "transfer" -> 21000
                [] k = "log"      -> 21000 + 3 + 3 + 375
                [] k = "revert"   -> 21000 + 3 + 3
Moved(k)  == IF k = "revert" THEN 0 ELSE Value
Status(k) == IF k = "revert" THEN "revert" ELSE "success"
Logs(k)   == IF k = "log" THEN 1 ELSE 0

\* what the beneficiary earns per unit of gas on fork f
Tip(f) == IF FromLondon(f) THEN GasPrice - BaseFee ELSE GasPrice
\* what is burned per unit of gas on fork f (EIP-1559)
Burn(f) == IF FromLondon(f) THEN BaseFee ELSE 0

Count(rs, k) == Cardinality({i \in 1..Len(rs) : rs[i] = k})
HasInsp(rs) == Count(rs, "insp") > 0
\* positions of the "cnt" registers, the last registered (outermost wrapper) first
CntTrace(rs) ==
    LET F[j \in 0..Len(rs)] == IF j = 0 THEN <<>>
                               ELSE IF rs[j] = "cnt" THEN <<j>> \o F[j - 1] ELSE F[j - 1]
    IN F[Len(rs)]

\* Outcome of transaction k on a configuration (i = beneficiary decision, f = fork, rs = registers)
\* when the sender's nonce is n.
Outcome(i, f, rs, n, k) ==
    [st     |-> Status(k),
     gas    |-> GasUsed(k),
     refund |-> 0,
     logs   |-> Logs(k),
     snd    |-> Moved(k) + GasPrice * GasUsed(k),       \* debit of the sender
     rcp    |-> Moved(k),                               \* credit of the recipient
     cb     |-> IF i THEN Tip(f) * GasUsed(k) ELSE 0,   \* credit of the beneficiary
     nonce  |-> n + 1,                                  \* sender's nonce afterwards
     insp   |-> HasInsp(rs),                            \* did the inspector see the call
     cnt    |-> CntTrace(rs)]                           \* the "cnt" end-hooks that ran, in order

\* every effect except the credit of the beneficiary
Others(o) == [st |-> o.st, gas |-> o.gas, refund |-> o.refund, logs |-> o.logs, snd |-> o.snd,
              rcp |-> o.rcp, nonce |-> o.nonce, insp |-> o.insp, cnt |-> o.cnt]

\* ---------------------------------------------------------------------------- the projection
ProjOf(b, i, f, rs, n) ==
    IF ~b THEN [built |-> FALSE]
    ELSE [built |-> TRUE, spec |-> f, nregs |-> Len(rs), nonce |-> n,
          probe |-> [transfer |-> Outcome(i, f, rs, n, "transfer"),
                     log      |-> Outcome(i, f, rs, n, "log"),
                     revert   |-> Outcome(i, f, rs, n, "revert")]]
Proj == ProjOf(built, intent, spec, regs, nonce)

Emit(op, post) ==
    PrintT("EDGE " \o ToJson([hist |-> hist, pre |-> Proj, op |-> op, post |-> post]))

Step(op, i, f, rs, n) ==
    /\ built' = TRUE /\ intent' = i /\ spec' = f /\ regs' = rs /\ nonce' = n
    /\ hist' = Append(hist, op)
    /\ Emit(op, ProjOf(TRUE, i, f, rs, n))

\* ------------------------------------------------------------------------------- the actions
Init == /\ built = FALSE /\ intent = TRUE /\ spec = "" /\ regs = <<>> /\ nonce = 0 /\ hist = <<>>

\* Construction: the only moment at which the beneficiary decision is taken.
Build == /\ ~built
         /\ \E i \in BOOLEAN, f \in Forks :
                Step([op |-> "build", intent |-> i, spec |-> f], i, f, <<>>, 0)

\* evm.modify().with_spec_id(f).build()
WithSpecId == /\ built
              /\ \E f \in Forks : Step([op |-> "with_spec_id", spec |-> f], intent, f, regs, nonce)

\* evm.modify_spec_id(f)
ModifySpecId == /\ built
                /\ \E f \in Forks : Step([op |-> "modify_spec_id", spec |-> f], intent, f, regs, nonce)

\* evm.handler = evm.handler.create_handle_generic::<f>()
CreateHandleGeneric ==
    /\ built
    /\ \E f \in Forks : Step([op |-> "create_handle_generic", spec |-> f], intent, f, regs, nonce)

\* A register is added at the end of the list, through the builder or on the handler itself.
AppendRegister ==
    /\ built
    /\ \E k \in Kinds, v \in {"builder", "handler"} :
          /\ k = "insp" => ~HasInsp(regs)
          /\ Step([op |-> "append_register", kind |-> k, via |-> v], intent, spec, Append(regs, k), nonce)

\* The last register is removed (nothing happens when there is none).
PopRegister ==
    /\ built
    /\ Step([op |-> "pop_register"], intent, spec,
            IF regs = <<>> THEN regs ELSE SubSeq(regs, 1, Len(regs) - 1), nonce)

\* evm.modify().build()
ModifyBuild == /\ built /\ Step([op |-> "modify_build"], intent, spec, regs, nonce)

\* A transaction is executed and committed.
Transact == /\ built
            /\ \E k \in TxKinds : Step([op |-> "transact", kind |-> k], intent, spec, regs, nonce + 1)

Next == /\ Len(hist) < MaxHist
        /\ \/ Build \/ WithSpecId \/ ModifySpecId \/ CreateHandleGeneric
           \/ AppendRegister \/ PopRegister \/ ModifyBuild \/ Transact

Spec == Init /\ [][Next]_vars

View == <<built, intent, spec, regs, nonce>>

\* -------------------------- the property, as invariants / action properties of the specification
Now(k) == Outcome(intent, spec, regs, nonce, k)
Twin(k) == Outcome(TRUE, spec, regs, nonce, k)     \* same history, beneficiary paid
LastOp == hist'[Len(hist')]

TypeOK == /\ built \in BOOLEAN /\ intent \in BOOLEAN /\ nonce \in 0..MaxHist
          /\ built => spec \in Forks
          /\ \A j \in 1..Len(regs) : regs[j] \in Kinds
          /\ Count(regs, "insp") <= 1

\* C22, first sentence: the beneficiary is paid iff the EVM was configured to pay it ...
BeneficiaryPaidIffConfigured ==
    built => \A k \in TxKinds : (Now(k).cb > 0) <=> intent
\* ... and every other effect is that of the twin with the payment enabled.
OtherEffectsEqualTwin ==
    built => \A k \in TxKinds : Others(Now(k)) = Others(Twin(k))
\* Ether accounting (the clause of C08 that mentions this switch): what the sender pays is what the
\* recipient and the beneficiary get plus what is burned, plus the beneficiary's share when it is
\* withheld.
EtherAccounted ==
    built => \A k \in TxKinds :
        Now(k).snd = Now(k).rcp + Now(k).cb + Burn(spec) * Now(k).gas
                     + (IF intent THEN 0 ELSE Tip(spec) * Now(k).gas)
\* C22, second sentence: the decision is taken once.
DecisionIsPermanent == [][built => intent' = intent]_vars
\* No reconfiguration changes whether the beneficiary is paid.
ReconfigurationKeepsPayment ==
    [][built => \A k \in TxKinds :
          (Outcome(intent', spec', regs', nonce', k).cb > 0) <=> (Now(k).cb > 0)]_vars
\* Frame conditions: each operation changes only what it names.
OnlyForkOpsChangeFork ==
    [][(built /\ spec' # spec) =>
          LastOp.op \in {"with_spec_id", "modify_spec_id", "create_handle_generic"}]_vars
OnlyRegisterOpsChangeRegisters ==
    [][(built /\ regs' # regs) => LastOp.op \in {"append_register", "pop_register"}]_vars
OnlyTransactChangesNonce ==
    [][(built /\ nonce' # nonce) => (LastOp.op = "transact" /\ nonce' = nonce + 1)]_vars
=============================================================================
