------------------------------ MODULE JumpDest ------------------------------
(* Jump destinations of legacy EVM code (property C04).

   "JUMP and conditional JUMP succeed exactly when the target is less than the code length, the
    byte at the target is JUMPDEST, and that byte is not part of the immediate data of a
    preceding PUSH1..PUSH32.  Otherwise the frame halts with an invalid-jump error."

   Written from the property text and the Yellow Paper (section 9.4.3, the function D_J of valid
   jump destinations, and the definitions of JUMP / JUMPI in appendix H), not from the code:

     - code is a byte string; offsets are 0-based (TLA+ sequences are 1-based, see At);
     - the instructions of a code are found by reading it from offset 0: an instruction occupies
       one byte, except PUSHn (0x60 + n - 1, n = 1..32) which is followed by n bytes of immediate
       data that are never instructions, whatever their value.  Data announced by a PUSH near the
       end of the code but cut off by the end of the code is simply shorter (the missing bytes
       read as zero); PUSH0 (0x5f) has no immediate data;
     - a jump to t is allowed iff t is inside the code, holds 0x5b, and is not such a data byte;
     - JUMP pops the target; JUMPI pops target and condition and only jumps (and only can fail)
       when the condition is non-zero; a jump that is not allowed halts the frame with the
       exceptional halt "InvalidJump"; an allowed jump continues at pc = t (the JUMPDEST itself
       is the next instruction executed).

   The specification is a *case enumerator*: its states are the codes (byte strings over
   Alphabet of length <= MaxLen), built by appending one byte at a time.  TLC checks the
   lemmas below on every code and prints, for every code, the set of valid destinations of the
   bare code and of the three probe programs the harness executes (CASE lines).  The harness
   replays every case on revm's analysis (JumpTable::is_valid) and on the real interpreter
   (the JUMP / JUMPI step of the probe programs) and compares.

   Jump targets are 256-bit numbers; TLC has 32-bit integers.  Nothing is lost: JumpOk(code, t)
   is false for every t >= Len(code) by its first conjunct, so for targets beyond the model's
   integers the verdict is "not allowed" by definition, and the verdict for any t is
   "t is a member of the printed set ValidDests". *)
EXTENDS Integers, Sequences, FiniteSets, TLC, Json

CONSTANTS Alphabet,    \* the byte values codes are built from (exhaustive mode)
          Heads,       \* the codes the exhaustive enumeration starts from ({<<>>}: every string over Alphabet;
                       \* {<<b>> : b \in 0..255}: every byte value followed by every string over Alphabet)
          MaxLen,      \* longest code
          Weighted     \* simulation mode: sequence of sets of bytes, one entry picked uniformly, then a byte of it

VARIABLE code
vars == <<code>>

\* ---------------------------------------------------------------------------- opcodes
STOP     == 0
CALLDATALOAD == 53  \* 0x35
JUMP     == 86      \* 0x56
JUMPI    == 87      \* 0x57
JUMPDEST == 91      \* 0x5b
PUSH0    == 95      \* 0x5f
PUSH1    == 96      \* 0x60
PUSH32   == 127     \* 0x7f

IsPush(b) == b >= PUSH1 /\ b <= PUSH32
Imm(b)    == IF IsPush(b) THEN b - PUSH0 ELSE 0       \* number of immediate bytes following b

\* ------------------------------------------------------------- the definition (property text)
At(c, i)   == c[i + 1]                                 \* byte at 0-based offset i
Offsets(c) == 0 .. Len(c) - 1

\* Offsets at which an instruction starts: read the code from 0, skipping immediates.
RECURSIVE StartsFrom(_, _)
StartsFrom(c, i) == IF i >= Len(c) THEN {} ELSE {i} \cup StartsFrom(c, i + 1 + Imm(At(c, i)))
InstrStarts(c) == StartsFrom(c, 0)

\* Offsets that are immediate data of a PUSH *instruction* (a 0x60..0x7f byte that is itself data
\* announces nothing).
PushData(c) ==
    UNION { {j \in (i + 1) .. (i + Imm(At(c, i))) : j < Len(c)} : i \in InstrStarts(c) }

\* The set of valid jump destinations, clause by clause as in the property.
ValidDests(c) ==
    LET pd == PushData(c)
    IN  {t \in Offsets(c) : At(c, t) = JUMPDEST /\ t \notin pd}

JumpOk(c, t) == t < Len(c) /\ t \in ValidDests(c)

\* The usual operational form (the Yellow Paper's D_J): instruction starts that hold JUMPDEST.
ScanDests(c) == {i \in InstrStarts(c) : At(c, i) = JUMPDEST}

\* ---------------------------------------------------------- the two instructions (one step)
\* Result of executing JUMP with `t` on top of the stack, in a program whose set of valid
\* destinations is V (V is a parameter only so that TLC computes ValidDests(prog) once per program).
JumpStepV(V, t) ==
    IF t \in V THEN [halt |-> "none", pc |-> t, pops |-> 1]
               ELSE [halt |-> "InvalidJump", pc |-> -1, pops |-> 1]
\* Result of executing JUMPI at offset `at` with target `t` on top and condition `cnd` below it.
JumpiStepV(V, at, t, cnd) ==
    IF cnd = 0 THEN [halt |-> "none", pc |-> at + 1, pops |-> 2]
    ELSE IF t \in V THEN [halt |-> "none", pc |-> t, pops |-> 2]
                    ELSE [halt |-> "InvalidJump", pc |-> -1, pops |-> 2]
JumpStep(prog, t)           == JumpStepV(ValidDests(prog), t)
JumpiStep(prog, at, t, cnd) == JumpiStepV(ValidDests(prog), at, t, cnd)

\* ------------------------------------------------------------------------ probe programs
\* What the harness runs on the real interpreter: a fixed-size header that pushes the target
\* (and a condition) with PUSH32 -- or loads it from the call data -- and jumps, followed by the
\* enumerated code.  Validity is that of the WHOLE program.  `d` is the value of the 32 immediate
\* bytes; by DataIsIrrelevant below the valid set does not depend on it, which is what lets one
\* printed set serve all targets.
Fill(d)        == [k \in 1..32 |-> d]
HdrJump(d)     == <<PUSH32>> \o Fill(d) \o <<JUMP>>                               \* 34 bytes
HdrJumpi(d)    == <<PUSH32>> \o Fill(d) \o <<PUSH32>> \o Fill(d) \o <<JUMPI>>     \* 67 bytes
HdrCall        == <<PUSH1, 0, CALLDATALOAD, JUMP>>     \* 4 bytes: the target is the first call-data word
ProgJump(c)    == HdrJump(JUMPDEST) \o c          \* immediates full of 0x5b: the adversarial filling
ProgJumpi(c)   == HdrJumpi(JUMPDEST) \o c
ProgCall(c)    == HdrCall \o c
Shift(S, k)    == {x + k : x \in S}

\* --------------------------------------------------------------------------- enumeration
\* the valid destinations of a program, in increasing order
Sorted(p) == LET V == ValidDests(p) IN SelectSeq([k \in 1..Len(p) |-> k - 1], LAMBDA x : x \in V)

Case(c) == [code   |-> c,
            len    |-> Len(c),            valid  |-> Sorted(c),
            lenC   |-> Len(ProgCall(c)),  validC |-> Sorted(ProgCall(c)),
            lenJ   |-> Len(ProgJump(c)),  validJ |-> Sorted(ProgJump(c)),
            lenI   |-> Len(ProgJumpi(c)), validI |-> Sorted(ProgJumpi(c))]
\* The property is about LEGACY code.  A byte string that starts with EF 00 is, by EIP-3540, an EOF container
\* (or a malformed one) and not legacy code; no case is printed for it (the enumeration still passes through it).
IsLegacy(c) == ~(Len(c) >= 2 /\ c[1] = 239 /\ c[2] = 0)
Emit(c) == IF IsLegacy(c) THEN PrintT("CASE " \o ToJson(Case(c))) ELSE TRUE

Init == code \in Heads /\ Emit(code)

\* exhaustive mode: every extension by one byte of the alphabet (each code has one predecessor,
\* so every code is printed exactly once)
Next == /\ Len(code) < MaxLen
        /\ \E b \in Alphabet : code' = Append(code, b) /\ Emit(code')

\* simulation mode: a random walk; bytes drawn class-first so that JUMPDEST and every PUSHn are
\* frequent
NextRandom ==
    /\ Len(code) < MaxLen
    /\ LET cls == Weighted[RandomElement(1..Len(Weighted))]
           b   == RandomElement(cls)
       IN  code' = Append(code, b) /\ Emit(code')

Spec == Init /\ [][Next]_vars

\* =============================== lemmas checked by TLC on every code =========================
\* (Below, "t \in V" with V == ValidDests(code) is JumpOk(code, t); the LET makes TLC compute the
\* set once per lemma instead of once per offset.)
JumpOkIsMembership ==
    LET V == ValidDests(code)
    IN  \A t \in 0 .. Len(code) + 2 : JumpOk(code, t) <=> t \in V
TypeOK == code \in Seq(0..255) /\ Len(code) <= MaxLen

\* The property's wording and the scan agree.
ScanAgreesWithText == ScanDests(code) = ValidDests(code)

\* Every offset is an instruction start or push data, never both.
Partition ==
    /\ InstrStarts(code) \cup PushData(code) = Offsets(code)
    /\ InstrStarts(code) \cap PushData(code) = {}

\* Declarative characterisation of the instruction starts (no recursion): the only set S of
\* offsets with  j \in S  <=>  j = 0  or  j is the end of the instruction at some i \in S.
\* (2^Len candidates: checked for codes of up to 6 bytes only.)
StartsAreTheFixpoint ==
    Len(code) <= 6 =>
        LET Good(S) == \A j \in Offsets(code) :
                          j \in S <=> (j = 0 \/ \E i \in S : i < j /\ j = i + 1 + Imm(At(code, i)))
        IN  /\ Good(InstrStarts(code))
            /\ \A S \in SUBSET Offsets(code) : Good(S) => S = InstrStarts(code)

\* Every valid destination is inside the code and holds JUMPDEST.
ValidHoldsJumpdest == \A t \in ValidDests(code) : t >= 0 /\ t < Len(code) /\ At(code, t) = JUMPDEST

\* Nothing at or beyond the end of the code is a destination.
BeyondEndNeverOk == LET V == ValidDests(code) IN \A t \in Len(code) .. Len(code) + 40 : t \notin V

\* Without any PUSH1..PUSH32 byte, every 0x5b is a destination (PUSH0 hides nothing).
NoPushNothingHidden ==
    (\A i \in Offsets(code) : ~IsPush(At(code, i)))
        => ValidDests(code) = {i \in Offsets(code) : At(code, i) = JUMPDEST}

\* The n bytes after a PUSHn instruction are not destinations, also when the code ends early.
ImmediatesNeverValid ==
    LET V == ValidDests(code)
    IN  \A i \in InstrStarts(code) :
            \A j \in (i + 1) .. (i + Imm(At(code, i))) : j \notin V

\* ... in particular a JUMPDEST byte right after a PUSH1 instruction,
JumpdestAfterPush1 ==
    LET V == ValidDests(code)
    IN  \A i \in InstrStarts(code) :
            (At(code, i) = PUSH1 /\ i + 1 < Len(code) /\ At(code, i + 1) = JUMPDEST) => (i + 1) \notin V
\* ... and the byte after the immediates of a PUSHn instruction is an instruction again.
AfterImmediatesIsInstruction ==
    LET V == ValidDests(code)
    IN  \A i \in InstrStarts(code) :
            LET j == i + 1 + Imm(At(code, i))
            IN  (j < Len(code) /\ At(code, j) = JUMPDEST) => j \in V

\* A PUSH byte that is itself immediate data announces no data: PUSH1 PUSH1 JUMPDEST.
PushInDataIsInert ==
    LET V == ValidDests(code)
    IN  \A i \in InstrStarts(code) :
            (At(code, i) = PUSH1 /\ i + 2 < Len(code) /\ IsPush(At(code, i + 1)) /\ At(code, i + 2) = JUMPDEST)
                => (i + 2) \in V

\* Validity of an offset depends only on the bytes before it: cutting the code anywhere (which
\* may truncate the data of a trailing PUSH) keeps the status of all remaining offsets.
PrefixStable ==
    \A n \in 0 .. Len(code) :
        ValidDests(SubSeq(code, 1, n)) = {t \in ValidDests(code) : t < n}

\* Appending STOP bytes (the implicit zero continuation of code) creates no destination.
PaddingAddsNothing == ValidDests(code \o [k \in 1..33 |-> STOP]) = ValidDests(code)

\* Probe programs: the header contributes no destination, shifts the code's destinations by its
\* length, and its immediate data (the target / condition values) is irrelevant.
HeaderShifts ==
    /\ ValidDests(ProgJump(code))  = Shift(ValidDests(code), 34)
    /\ ValidDests(ProgJumpi(code)) = Shift(ValidDests(code), 67)
    /\ ValidDests(ProgCall(code))  = Shift(ValidDests(code), 4)
DataIsIrrelevant ==
    \A d \in {STOP, PUSH1, PUSH32, JUMP} :
        /\ ValidDests(HdrJump(d) \o code)  = ValidDests(ProgJump(code))
        /\ ValidDests(HdrJumpi(d) \o code) = ValidDests(ProgJumpi(code))

\* The instructions: an accepted jump lands on a JUMPDEST instruction; a refused one halts with
\* InvalidJump; JUMPI with condition 0 neither jumps nor fails, whatever the target.
JumpSemantics ==
    LET p  == ProgJump(code)
        V  == ValidDests(p)
        st == InstrStarts(p)
    IN  \A t \in 0 .. Len(p) + 34 :
            LET r == JumpStepV(V, t)
            IN  /\ r.halt = "none" <=> (t < Len(p) /\ At(p, t) = JUMPDEST /\ t \in st)
                /\ r.halt = "none" => r.pc = t
                /\ r.halt # "none" => r.halt = "InvalidJump"
JumpiSemantics ==
    LET p == ProgJumpi(code)
        V == ValidDests(p)
    IN  \A t \in 0 .. Len(p) + 34 :
            /\ JumpiStepV(V, 66, t, 0) = [halt |-> "none", pc |-> 67, pops |-> 2]
            /\ \A cnd \in {1, 2, 255} :
                  /\ JumpiStepV(V, 66, t, cnd).halt = JumpStepV(V, t).halt
                  /\ JumpiStepV(V, 66, t, cnd).pc = JumpStepV(V, t).pc

\* Action property: appending a byte never changes the status of an existing offset.
ExtensionKeepsStatus ==
    [][LET V == ValidDests(code)  W == ValidDests(code')
       IN  \A t \in Offsets(code) : t \in V <=> t \in W]_vars
=============================================================================
