------------------------------ MODULE BlobFee ------------------------------
(* The blob fee functions of EIP-4844 (property C32).

   "For every excess blob gas value and update fraction, the blob gas price equals the EIP-4844
    fake-exponential computed with unbounded integers whenever that value fits in 128 bits, and the
    function never silently returns a wrapped value; the next excess blob gas equals
    max(0, parent excess + parent used - target) for all arguments."

   Written from that text and from the helpers of EIP-4844 (and EIP-7691 for the Prague update
   fraction), not from utilities.rs:

       def fake_exponential(factor, numerator, denominator):
           i = 1; output = 0; numerator_accum = factor * denominator
           while numerator_accum > 0:
               output += numerator_accum
               numerator_accum = (numerator_accum * numerator) // (denominator * i)
               i += 1
           return output // denominator

       blob gas price(excess) = fake_exponential(MIN_BASE_FEE_PER_BLOB_GAS = 1, excess, UPDATE_FRACTION)
       UPDATE_FRACTION = 3338477 (Cancun), 5007716 (Prague, EIP-7691)
       next excess     = 0 if parent_excess + parent_used < target else parent_excess + parent_used - target

   Python's integers are unbounded.  Here they are Bignum numbers of L limbs, and every step of the
   loop ASSERTS that its operands leave the top HEADROOM limbs unused, so no product or sum is ever
   truncated: the limb computation IS the unbounded one (or TLC stops with an error, never a wrong
   expectation).  L = 64 limbs of 8 bits = 512 bits carries prices up to about 2^390.

   The module has the same three layers as Alu.tla:
     1. the definition with TLC integers (FakeExpInt, NextExcessInt) - evaluable for small arguments;
     2. the same on Bignum numbers (FakeExpW, NextExcessW);
     3. Mode "refine": every (factor, numerator, denominator) of a small box - TLC checks
        FakeExpW = FakeExpInt (invariant Refines) and prints the expectation for the harness;
        Mode "cases": boundary points at full size (u64 arguments, u128 results); TLC prints the
        expected value, or that it does not fit the result type.

   Monotonicity.  Every operation of the loop is monotone in `numerator` (floor division by a
   positive number, multiplication and addition of naturals), so is the number of iterations, so
   fake_exponential is non-decreasing in its numerator (invariant Monotone checks this on the small
   box).  Hence once TLC has computed a point e0 whose price exceeds 128 bits, every excess >= e0
   is known not to fit either - that is how arguments far beyond the capacity of L limbs (2^63,
   2^64 - 1) get their expectation "does not fit" (FarPoints). *)
EXTENDS Bignum, Json

CONSTANTS L,        \* limbs of the working numbers
          D,        \* limbs of a divisor denominator * i  (96 bits: a u64 times an iteration count)
          Mode,     \* "refine" or "cases"
          Box,      \* refine mode: [f |-> max factor, n |-> max numerator, d |-> max denominator, e |-> max excess/used/target]
          Points    \* cases mode: name of the point set ("quick" or "thorough")

VARIABLE st
vars == <<st>>

---------------------------------------------------------------------------------------------------
(* 1. The definition, with integers. *)

RECURSIVE FakeLoopInt(_, _, _, _, _)
FakeLoopInt(i, output, accum, numerator, denominator) ==
    IF accum > 0
    THEN FakeLoopInt(i + 1, output + accum, (accum * numerator) \div (denominator * i), numerator, denominator)
    ELSE output \div denominator
FakeExpInt(factor, numerator, denominator) == FakeLoopInt(1, 0, factor * denominator, numerator, denominator)

NextExcessInt(excess, used, target) == IF excess + used < target THEN 0 ELSE excess + used - target

---------------------------------------------------------------------------------------------------
(* 2. The same on numbers of L limbs. *)

Headroom == D           \* top limbs that must be zero: then a product with a factor of D limbs is exact
Roomy(a) == \A i \in (L - Headroom + 1) .. L : a[i] = 0
NatL(i) == FromNat(i, L)

RECURSIVE FakeLoopW(_, _, _, _, _)
FakeLoopW(i, output, accum, numerator, denominator) ==
    IF IsZero(accum) THEN DivMod(output, denominator).q
    ELSE IF ~(Roomy(accum) /\ Roomy(output)) THEN Assert(FALSE, <<"BlobFee: number too large for L limbs", i>>)
    ELSE LET out2 == Add(output, accum)
             acc2 == DivMod(Mul(accum, numerator), Trim(Mul(denominator, FromNat(i, D)))).q
         IN FakeLoopW(i + 1, out2, acc2, numerator, denominator)

\* factor, numerator, denominator: numbers below B^D (any length).  The result has L limbs.
\* (Trim only drops leading zero limbs of a factor / divisor: fewer limb steps, same numbers.)
FakeExpW(factor, numerator, denominator) ==
    LET den == Resize(denominator, D)
    IN FakeLoopW(1, Zero(L), Mul(Resize(factor, L), den), Trim(Resize(numerator, D)), den)

\* max(0, excess + used - target); all three have L limbs and are Roomy, so the sum is exact.
NextExcessW(excess, used, target) ==
    LET sum == Add(excess, used) IN IF Lt(sum, target) THEN Zero(L) ELSE Sub(sum, target)

MinBlobGasPrice == 1
FractionCancun == 3338477
FractionPrague == 5007716
Fraction(prague) == IF prague THEN FractionPrague ELSE FractionCancun
BlobGasPriceW(excess, prague) == FakeExpW(NatL(MinBlobGasPrice), excess, NatL(Fraction(prague)))

\* Does a number fit an unsigned type of `bits` bits?
Fits(a, bits) == BitLen(a) <= bits

---------------------------------------------------------------------------------------------------
(* What the harness is told: the exact value if it fits the result type, otherwise only that it
   does not (then anything but a returned number is acceptable). *)

Result(a, bits) == IF Fits(a, bits) THEN [fits |-> TRUE, value |-> a] ELSE [fits |-> FALSE]

Emit(op, post) == PrintT("EDGE " \o ToJson([hist |-> <<>>, pre |-> <<>>, op |-> op, post |-> post]))

---------------------------------------------------------------------------------------------------
(* 3a. Mode "refine": the small box. *)

RefineNext ==
    \/ /\ st[1] = "start"
       /\ \E f \in 0 .. Box.f, d \in 1 .. Box.d : st' = <<"fd", f, d>>
    \/ /\ st[1] = "fd"
       /\ \E n \in 0 .. Box.n :
             /\ n <= 12 * st[3]            \* e^12 keeps every intermediate of FakeExpInt below 2^31
             /\ st' = <<"case", st[2], n, st[3]>>
             /\ Emit([op |-> "fake_exponential", factor |-> NatL(st[2]), numerator |-> NatL(n), denominator |-> NatL(st[3])],
                     [fits |-> TRUE, value |-> NatL(FakeExpInt(st[2], n, st[3]))])
    \/ /\ st[1] = "start"
       /\ \E e \in 0 .. Box.e : st' = <<"eu", e>>
    \/ /\ st[1] = "eu"
       /\ \E u \in 0 .. Box.e, t \in 0 .. Box.e :
             /\ st' = <<"excess", st[2], u, t>>
             /\ Emit([op |-> "calc_excess_blob_gas", excess |-> NatL(st[2]), used |-> NatL(u), target |-> NatL(t)],
                     [fits |-> TRUE, value |-> NatL(NextExcessInt(st[2], u, t))])

Refines ==
    /\ (Mode = "refine" /\ st[1] = "case") =>
          Value(FakeExpW(NatL(st[2]), NatL(st[3]), NatL(st[4]))) = FakeExpInt(st[2], st[3], st[4])
    /\ (Mode = "refine" /\ st[1] = "excess") =>
          Value(NextExcessW(NatL(st[2]), NatL(st[3]), NatL(st[4]))) = NextExcessInt(st[2], st[3], st[4])

Monotone ==
    (Mode = "refine" /\ st[1] = "case" /\ st[3] > 0) =>
        FakeExpInt(st[2], st[3] - 1, st[4]) <= FakeExpInt(st[2], st[3], st[4])

\* The EIP's own sanity: with factor 1 the result approximates e^(numerator/denominator) from below,
\* in particular it is 1 at 0 and at least 2 once numerator >= denominator.
Sanity ==
    (Mode = "refine" /\ st[1] = "case") =>
        /\ FakeExpInt(st[2], 0, st[4]) = st[2]
        /\ st[3] >= st[4] => FakeExpInt(1, st[3], st[4]) >= 2

---------------------------------------------------------------------------------------------------
(* 3b. Mode "cases": boundary points at full size. *)

Pow2L(k) == ShlI(One(L), k)
Million == NatL(1000000)
Mega(i) == Mul(NatL(i), Million)                    \* i * 10^6
U64Max == Sub(Pow2L(64), One(L))
GasPerBlob == 131072                                \* 2^17
Target(blobs) == NatL(blobs * GasPerBlob)

\* Excess values, for both update fractions.  The price leaves 128 bits near 296.2e6 (Cancun) and
\* 444.3e6 (Prague): ln(2^128) = 88.72.  192204552 / 192204553 (Cancun fraction) and 284284038 /
\* 284284039 (Prague fraction) are the last / first arguments around which the intermediate product
\* accum * numerator of a 128-bit implementation of the loop exceeds 2^128 although the price itself
\* is far below (about 2^83): boundary points of the implementation, found by bisection on it.
PricePoints ==
    LET base == {NatL(0), NatL(1), Target(3), Target(6), Pow2L(20), NatL(FractionCancun), NatL(FractionPrague),
                 Mega(10), Mega(50), Mega(100), Mega(150),
                 NatL(192204552), NatL(192204553), Mega(200), Mega(250),
                 NatL(284284038), NatL(284284039), Mega(296), Mega(297), Mega(300), Mega(450)}
        more == {NatL(2), NatL(FractionCancun - 1), Mega(1), Mega(20), Mega(180), Mega(190), Mega(195), Mega(280), Mega(290),
                 Mega(295), Mega(350), Mega(400), Mega(440), Mega(444), Mega(445), Mega(500), Mega(600)}
    IN IF Points = "quick" THEN base ELSE base \cup more

\* Arguments beyond the capacity of L limbs; justified by Monotone once the computed point Beyond
\* does not fit.
FarPoints == {Mega(1000), Pow2L(32), Pow2L(63), U64Max}
Beyond(prague) == IF prague THEN Mega(450) ELSE Mega(300)

\* fake_exponential itself: other factors and update fractions, including the u64 edge.
FakePoints ==
    LET base == {<<NatL(1), NatL(0), U64Max>>, <<U64Max, NatL(0), U64Max>>, <<U64Max, NatL(1), NatL(1)>>,
                 <<NatL(1), U64Max, U64Max>>, <<NatL(1), Pow2L(32), Pow2L(32)>>, <<NatL(1), Pow2L(40), Pow2L(36)>>,
                 <<NatL(1000000000), Mega(50), NatL(2225652)>>, <<NatL(1), Mega(50), NatL(2225652)>>,
                 <<NatL(7), NatL(100), NatL(1)>>, <<NatL(0), Mega(300), NatL(FractionCancun)>>}
        more == {<<U64Max, U64Max, U64Max>>, <<NatL(1), Pow2L(63), Pow2L(62)>>, <<NatL(1), Pow2L(48), Pow2L(44)>>,
                 <<Pow2L(32), Pow2L(32), Pow2L(30)>>, <<NatL(1), NatL(80), NatL(1)>>, <<NatL(1), NatL(89), NatL(1)>>}
    IN IF Points = "quick" THEN base ELSE base \cup more

\* (parent excess, parent used, target): each ranges over values around zero, the target and the u64 edge.
ExcessVals == {NatL(0), NatL(1), Target(3), Target(6), NatL(3 * GasPerBlob - 1), Pow2L(63), Sub(U64Max, One(L)), U64Max,
               Sub(U64Max, Target(3))}

(* TLC note: the expensive values are computed INTO the state (st' = <<.., value>>) and printed by the
   next action from the state, so that each is evaluated exactly once. *)
CasesNext ==
    \/ /\ st[1] = "start"
       /\ \/ \E e \in PricePoints, prague \in BOOLEAN : st' = <<"price", e, prague>>
          \/ \E p \in FakePoints : st' = <<"fake", p>>
          \/ \E e \in ExcessVals : st' = <<"excess", e>>
    \/ /\ st[1] = "price"
       /\ st' = <<"priced", st[2], st[3], Result(BlobGasPriceW(st[2], st[3]), 128)>>
    \/ /\ st[1] = "priced"
       /\ LET e == st[2]
              prague == st[3]
              price == st[4]
          IN /\ Emit([op |-> "calc_blob_gasprice", excess |-> e, prague |-> prague], price)
             /\ Emit([op |-> "block_env", excess |-> e, prague |-> prague], [excess |-> e, price |-> price])
             /\ \* the same point reached through the parent header: excess = (e + target) + 0 - target
                Emit([op |-> "from_parent", excess |-> Add(e, Target(3)), used |-> Zero(L), target |-> Target(3), prague |-> prague],
                     [excess |-> e, price |-> price])
             /\ \* Monotone: once the computed point Beyond does not fit, no larger argument does
                (e = Beyond(prague) /\ ~price.fits) =>
                    \A far \in FarPoints :
                        Leq(e, far) => Emit([op |-> "calc_blob_gasprice", excess |-> far, prague |-> prague], [fits |-> FALSE])
             /\ st' = <<"done">>
    \/ /\ st[1] = "fake"
       /\ st' = <<"faked", st[2], Result(FakeExpW(st[2][1], st[2][2], st[2][3]), 128)>>
    \/ /\ st[1] = "faked"
       /\ Emit([op |-> "fake_exponential", factor |-> st[2][1], numerator |-> st[2][2], denominator |-> st[2][3]], st[3])
       /\ st' = <<"done">>
    \/ /\ st[1] = "excess"
       /\ \E u \in ExcessVals, t \in ExcessVals :
             /\ Emit([op |-> "calc_excess_blob_gas", excess |-> st[2], used |-> u, target |-> t],
                     Result(NextExcessW(st[2], u, t), 64))
             /\ st' = <<"done">>

---------------------------------------------------------------------------------------------------
Init == st = <<"start">>
Next == IF Mode = "refine" THEN RefineNext ELSE CasesNext
Spec == Init /\ [][Next]_vars
=============================================================================
