------------------------------ MODULE Opcodes ------------------------------
(* Which instructions and which precompiled contracts exist under which hardfork (property C05).

   "For every opcode byte and every hardfork, executing that opcode behaves as an undefined
    instruction (halt, all gas consumed) if and only if the opcode is not yet introduced in that
    hardfork (or is EOF-only in legacy code).  Each precompile address behaves as a precompile
    exactly from the hardfork that introduced it and as an empty account before."

   This is a TABLE specification.  The tables are written from the Yellow Paper (appendix H, the
   Frontier instruction set; appendix E, the precompiled contracts) and from the EIPs that added
   instructions or precompiles afterwards -- each group below names its EIP.  They are NOT copied
   from crates/interpreter/src/opcode.rs or crates/precompile/src/lib.rs.

   Around the tables there is a small state machine, the public behaviour of "an EVM configured for
   a hardfork":

     Configure(f)        select hardfork f (build an Evm for f, or re-configure an existing one);
                         observable: the set of precompile addresses of f
     Info(b)             static description of opcode byte b: known?, stack inputs / outputs,
                         immediate size, legacy-only?          (independent of the hardfork)
     Exec(b, path)       run legacy code  17 x PUSH1 0 ; b ; 33 x 00  under the configured fork;
                         observable: did b behave as an UNDEFINED instruction (and, through a real
                         transaction, was all gas consumed), as the designated INVALID instruction,
                         or as a defined instruction.  path = "evm": a real transaction through the
                         Evm built for the SpecId; path = "table": the interpreter with the
                         instruction table instantiated for a Spec whose SPEC_ID is the fork.
     CallAddr(a, funded) a contract CALLs address a (value 0, empty input, 200000 gas forwarded);
                         observable: success flag, RETURNDATASIZE (from Byzantium), and the exact
                         gas the CALL instruction consumed -- which together tell "precompile"
                         from "account without code" in every fork.

   A test history is (Configure | Run)* followed by one probe.  `ran` remembers under which fork a
   transaction was last executed on this Evm (Run: a plain call of an account without code).  `prev` (only with TrackPrev) remembers the
   previously configured fork so that TLC also explores every re-configuration f1 -> f2 before a
   probe; the specification says that the answer depends on the current fork only. *)
EXTENDS Integers, Sequences, FiniteSets, TLC, Json

CONSTANTS MaxHist,      \* bound on the length of a test history
          TrackPrev,    \* TRUE: histories Configure(f1) Configure(f2) probe are explored for all f1, f2
          TrackRan      \* "none" | "dep" | "all": histories Configure(f1) Run Configure(f2) probe -- a transaction
                        \* was EXECUTED under f1 before the re-configuration (whatever an Evm caches per
                        \* transaction -- precompile set, warm addresses, tables -- is then f1's).  "dep": after
                        \* such a history only the fork-dependent opcode bytes are probed (plus every address).

-----------------------------------------------------------------------------
(* Hardforks, oldest first.  The order is the activation order on Ethereum mainnet.  LATEST is not a
   hardfork but a configuration name: "the newest rules this release knows". *)
Forks == << "FRONTIER", "FRONTIER_THAWING", "HOMESTEAD", "DAO_FORK", "TANGERINE", "SPURIOUS_DRAGON",
            "BYZANTIUM", "CONSTANTINOPLE", "PETERSBURG", "ISTANBUL", "MUIR_GLACIER", "BERLIN",
            "LONDON", "ARROW_GLACIER", "GRAY_GLACIER", "MERGE", "SHANGHAI", "CANCUN", "PRAGUE",
            "OSAKA", "LATEST" >>
ForkSet == { Forks[i] : i \in 1..Len(Forks) }
IdxOf   == TLCEval([ f \in ForkSet |-> CHOOSE i \in 1..Len(Forks) : Forks[i] = f ])   \* position in Forks
Idx(f)  == IdxOf[f]
AtLeast(f, g) == Idx(f) >= Idx(g)            \* fork f is g or later

-----------------------------------------------------------------------------
(* The instruction table.  ins/outs = items removed from / placed on the stack (delta/alpha of the
   Yellow Paper), imm = bytes of immediate data following the opcode.  intro = the hardfork that
   introduced the instruction, or "EofOnly" for instructions that exist only inside EOF containers
   (EIP-7692; they are undefined in legacy code under every fork, Osaka included). *)
Op(b, n, f, i, o)     == [byte |-> b, name |-> n, intro |-> f, ins |-> i, outs |-> o, imm |-> 0]
OpI(b, n, f, i, o, m) == [byte |-> b, name |-> n, intro |-> f, ins |-> i, outs |-> o, imm |-> m]

\* Yellow Paper appendix H.2 as of Frontier.
FrontierOps == {
  Op(\h00, "STOP", "FRONTIER", 0, 0),
  Op(\h01, "ADD", "FRONTIER", 2, 1),          Op(\h02, "MUL", "FRONTIER", 2, 1),
  Op(\h03, "SUB", "FRONTIER", 2, 1),          Op(\h04, "DIV", "FRONTIER", 2, 1),
  Op(\h05, "SDIV", "FRONTIER", 2, 1),         Op(\h06, "MOD", "FRONTIER", 2, 1),
  Op(\h07, "SMOD", "FRONTIER", 2, 1),         Op(\h08, "ADDMOD", "FRONTIER", 3, 1),
  Op(\h09, "MULMOD", "FRONTIER", 3, 1),       Op(\h0a, "EXP", "FRONTIER", 2, 1),
  Op(\h0b, "SIGNEXTEND", "FRONTIER", 2, 1),
  Op(\h10, "LT", "FRONTIER", 2, 1),           Op(\h11, "GT", "FRONTIER", 2, 1),
  Op(\h12, "SLT", "FRONTIER", 2, 1),          Op(\h13, "SGT", "FRONTIER", 2, 1),
  Op(\h14, "EQ", "FRONTIER", 2, 1),           Op(\h15, "ISZERO", "FRONTIER", 1, 1),
  Op(\h16, "AND", "FRONTIER", 2, 1),          Op(\h17, "OR", "FRONTIER", 2, 1),
  Op(\h18, "XOR", "FRONTIER", 2, 1),          Op(\h19, "NOT", "FRONTIER", 1, 1),
  Op(\h1a, "BYTE", "FRONTIER", 2, 1),
  Op(\h20, "KECCAK256", "FRONTIER", 2, 1),
  Op(\h30, "ADDRESS", "FRONTIER", 0, 1),      Op(\h31, "BALANCE", "FRONTIER", 1, 1),
  Op(\h32, "ORIGIN", "FRONTIER", 0, 1),       Op(\h33, "CALLER", "FRONTIER", 0, 1),
  Op(\h34, "CALLVALUE", "FRONTIER", 0, 1),    Op(\h35, "CALLDATALOAD", "FRONTIER", 1, 1),
  Op(\h36, "CALLDATASIZE", "FRONTIER", 0, 1), Op(\h37, "CALLDATACOPY", "FRONTIER", 3, 0),
  Op(\h38, "CODESIZE", "FRONTIER", 0, 1),     Op(\h39, "CODECOPY", "FRONTIER", 3, 0),
  Op(\h3a, "GASPRICE", "FRONTIER", 0, 1),     Op(\h3b, "EXTCODESIZE", "FRONTIER", 1, 1),
  Op(\h3c, "EXTCODECOPY", "FRONTIER", 4, 0),
  Op(\h40, "BLOCKHASH", "FRONTIER", 1, 1),    Op(\h41, "COINBASE", "FRONTIER", 0, 1),
  Op(\h42, "TIMESTAMP", "FRONTIER", 0, 1),    Op(\h43, "NUMBER", "FRONTIER", 0, 1),
  \* 0x44 is DIFFICULTY until the Merge and PREVRANDAO afterwards (EIP-4399): same byte, same
  \* stack shape, defined in every fork.
  Op(\h44, "DIFFICULTY", "FRONTIER", 0, 1),   Op(\h45, "GASLIMIT", "FRONTIER", 0, 1),
  Op(\h50, "POP", "FRONTIER", 1, 0),          Op(\h51, "MLOAD", "FRONTIER", 1, 1),
  Op(\h52, "MSTORE", "FRONTIER", 2, 0),       Op(\h53, "MSTORE8", "FRONTIER", 2, 0),
  Op(\h54, "SLOAD", "FRONTIER", 1, 1),        Op(\h55, "SSTORE", "FRONTIER", 2, 0),
  Op(\h56, "JUMP", "FRONTIER", 1, 0),         Op(\h57, "JUMPI", "FRONTIER", 2, 0),
  Op(\h58, "PC", "FRONTIER", 0, 1),           Op(\h59, "MSIZE", "FRONTIER", 0, 1),
  Op(\h5a, "GAS", "FRONTIER", 0, 1),          Op(\h5b, "JUMPDEST", "FRONTIER", 0, 0),
  Op(\hf0, "CREATE", "FRONTIER", 3, 1),       Op(\hf1, "CALL", "FRONTIER", 7, 1),
  Op(\hf2, "CALLCODE", "FRONTIER", 7, 1),     Op(\hf3, "RETURN", "FRONTIER", 2, 0),
  \* 0xfe is the designated invalid instruction (Yellow Paper "INVALID", EIP-141): it is a *defined*
  \* instruction whose effect is an exceptional halt; it is reported in its own class.
  Op(\hfe, "INVALID", "FRONTIER", 0, 0),
  Op(\hff, "SELFDESTRUCT", "FRONTIER", 1, 0) }

\* PUSH1..PUSH32 (n bytes of immediate data), DUP1..DUP16, SWAP1..SWAP16, LOG0..LOG4: Frontier.
Digits == << "0", "1", "2", "3", "4", "5", "6", "7", "8", "9" >>
Dec(n) == IF n < 10 THEN Digits[n + 1] ELSE Digits[(n \div 10) + 1] \o Digits[(n % 10) + 1]
FamilyOps ==
       { OpI(\h5f + n, "PUSH" \o Dec(n), "FRONTIER", 0, 1, n) : n \in 1..32 }
  \cup { Op(\h7f + n, "DUP" \o Dec(n), "FRONTIER", n, n + 1)  : n \in 1..16 }
  \cup { Op(\h8f + n, "SWAP" \o Dec(n), "FRONTIER", n + 1, n + 1) : n \in 1..16 }
  \cup { Op(\ha0 + n, "LOG" \o Dec(n), "FRONTIER", n + 2, 0)  : n \in 0..4 }

LaterOps == {
  Op(\hf4, "DELEGATECALL", "HOMESTEAD", 6, 1),            \* EIP-7
  Op(\h3d, "RETURNDATASIZE", "BYZANTIUM", 0, 1),          \* EIP-211
  Op(\h3e, "RETURNDATACOPY", "BYZANTIUM", 3, 0),          \* EIP-211
  Op(\hfa, "STATICCALL", "BYZANTIUM", 6, 1),              \* EIP-214
  Op(\hfd, "REVERT", "BYZANTIUM", 2, 0),                  \* EIP-140
  Op(\h1b, "SHL", "CONSTANTINOPLE", 2, 1),                \* EIP-145
  Op(\h1c, "SHR", "CONSTANTINOPLE", 2, 1),                \* EIP-145
  Op(\h1d, "SAR", "CONSTANTINOPLE", 2, 1),                \* EIP-145
  Op(\h3f, "EXTCODEHASH", "CONSTANTINOPLE", 1, 1),        \* EIP-1052
  Op(\hf5, "CREATE2", "CONSTANTINOPLE", 4, 1),            \* EIP-1014 (Petersburg only removed EIP-1283)
  Op(\h46, "CHAINID", "ISTANBUL", 0, 1),                  \* EIP-1344
  Op(\h47, "SELFBALANCE", "ISTANBUL", 0, 1),              \* EIP-1884
  Op(\h48, "BASEFEE", "LONDON", 0, 1),                    \* EIP-3198
  Op(\h5f, "PUSH0", "SHANGHAI", 0, 1),                    \* EIP-3855
  Op(\h49, "BLOBHASH", "CANCUN", 1, 1),                   \* EIP-4844
  Op(\h4a, "BLOBBASEFEE", "CANCUN", 0, 1),                \* EIP-7516
  Op(\h5c, "TLOAD", "CANCUN", 1, 1),                      \* EIP-1153
  Op(\h5d, "TSTORE", "CANCUN", 2, 0),                     \* EIP-1153
  Op(\h5e, "MCOPY", "CANCUN", 3, 0) }                     \* EIP-5656

(* EOF instructions (EIP-7692 "EOF v1": EIP-4200, 4750, 6206, 7480, 663, 7069, 7620).  For the
   instructions whose stack use depends on the immediate (CALLF, JUMPF, RETF, DUPN, SWAPN, EXCHANGE)
   the table records the immediate-independent part: nothing removed, and the net growth placed. *)
EofOps == {
  Op(\hd0, "DATALOAD", "EofOnly", 1, 1),         OpI(\hd1, "DATALOADN", "EofOnly", 0, 1, 2),
  Op(\hd2, "DATASIZE", "EofOnly", 0, 1),         Op(\hd3, "DATACOPY", "EofOnly", 3, 0),
  OpI(\he0, "RJUMP", "EofOnly", 0, 0, 2),        OpI(\he1, "RJUMPI", "EofOnly", 1, 0, 2),
  OpI(\he2, "RJUMPV", "EofOnly", 1, 0, 1),       \* 1 = the max_index byte; the table follows it
  OpI(\he3, "CALLF", "EofOnly", 0, 0, 2),        Op(\he4, "RETF", "EofOnly", 0, 0),
  OpI(\he5, "JUMPF", "EofOnly", 0, 0, 2),        OpI(\he6, "DUPN", "EofOnly", 0, 1, 1),
  OpI(\he7, "SWAPN", "EofOnly", 0, 0, 1),        OpI(\he8, "EXCHANGE", "EofOnly", 0, 0, 1),
  OpI(\hec, "EOFCREATE", "EofOnly", 4, 1, 1),    OpI(\hee, "RETURNCONTRACT", "EofOnly", 2, 0, 1),
  Op(\hf7, "RETURNDATALOAD", "EofOnly", 1, 1),   Op(\hf8, "EXTCALL", "EofOnly", 4, 1),
  Op(\hf9, "EXTDELEGATECALL", "EofOnly", 3, 1),  Op(\hfb, "EXTSTATICCALL", "EofOnly", 3, 1) }

Rows  == FrontierOps \cup FamilyOps \cup LaterOps \cup EofOps
Known == { r.byte : r \in Rows }
Bytes == 0..255

\* The complete table: every byte that no Yellow Paper revision and no EIP assigns is "Never".
\* (TLCEval: have TLC build the table once instead of re-evaluating the lookup at every use.)
Info == TLCEval([ b \in Bytes |->
            IF b \in Known THEN CHOOSE r \in Rows : r.byte = b
            ELSE [byte |-> b, name |-> "UNASSIGNED", intro |-> "Never", ins |-> 0, outs |-> 0, imm |-> 0] ])

\* Instructions that are rejected inside EOF containers (EIP-3670 / EIP-7692): legacy only.
LegacyOnly == { \h38, \h39, \h3b, \h3c, \h3f, \h56, \h57, \h58, \h5a,
                \hf0, \hf1, \hf2, \hf4, \hf5, \hfa, \hff }

(* THE definition.  An instruction is defined in legacy code under fork f iff it has an introducing
   hardfork and that hardfork is f or earlier. *)
Defined(b, f) == Info[b].intro \in ForkSet /\ AtLeast(f, Info[b].intro)

\* How executing byte b in legacy code under fork f must look from outside.
Class(b, f) == IF ~Defined(b, f) THEN "undefined"       \* exceptional halt, all gas consumed
               ELSE IF b = \hfe THEN "invalid"           \* the designated INVALID: same effect, own class
               ELSE "defined"                            \* anything else (may succeed, revert, halt otherwise)

ProbePushes == 17    \* stack items the probe provides before the instruction under test

-----------------------------------------------------------------------------
(* Precompiled contracts.  Yellow Paper appendix E (1-4), EIP-196/197/198 (Byzantium), EIP-152
   (Istanbul), EIP-4844 (Cancun), EIP-2537 final (Prague: seven contracts 0x0b..0x11).
   RIP-7212 P256VERIFY at 0x100 is a rollup precompile, not an Ethereum mainnet one. *)
Pre(a, n, f) == [addr |-> a, name |-> n, intro |-> f]
Precompiles == {
  Pre(1, "ECRECOVER", "FRONTIER"),      Pre(2, "SHA256", "FRONTIER"),
  Pre(3, "RIPEMD160", "FRONTIER"),      Pre(4, "IDENTITY", "FRONTIER"),
  Pre(5, "MODEXP", "BYZANTIUM"),        Pre(6, "BN254_ADD", "BYZANTIUM"),
  Pre(7, "BN254_MUL", "BYZANTIUM"),     Pre(8, "BN254_PAIRING", "BYZANTIUM"),
  Pre(9, "BLAKE2F", "ISTANBUL"),        Pre(10, "POINT_EVALUATION", "CANCUN"),
  Pre(11, "BLS12_G1ADD", "PRAGUE"),     Pre(12, "BLS12_G1MSM", "PRAGUE"),
  Pre(13, "BLS12_G2ADD", "PRAGUE"),     Pre(14, "BLS12_G2MSM", "PRAGUE"),
  Pre(15, "BLS12_PAIRING_CHECK", "PRAGUE"), Pre(16, "BLS12_MAP_FP_TO_G1", "PRAGUE"),
  Pre(17, "BLS12_MAP_FP2_TO_G2", "PRAGUE") }
PreAddrs == { p.addr : p \in Precompiles }
PreOf(a) == CHOOSE p \in Precompiles : p.addr = a

\* Addresses probed: every precompile, the neighbours 0x12..0x14 (addresses of an EIP-2537 draft
\* and one never used), and 0x100.
Addrs == (1..20) \cup {256}

Active(a, f)  == a \in PreAddrs /\ AtLeast(f, PreOf(a).intro)
ActiveSet(f)  == { a \in PreAddrs : Active(a, f) }
\* as an ascending sequence (the active set is always an initial segment 1..n, checked below)
ActiveSeq(f)  == [ i \in 1..Cardinality(ActiveSet(f)) |-> i ]

(* What each precompile does with EMPTY input and ample gas: succeeds or fails, length of its
   output, and the gas it charges.  (Appendix E: missing input is read as zeros.)
     ECRECOVER  no valid signature -> success with empty output, 3000
     SHA256     digest of "" -> 32 bytes, 60 + 12 per word;   RIPEMD160 -> 32 bytes, 600 + 120 per word
     IDENTITY   -> empty, 15 + 3 per word
     MODEXP     all three lengths 0 -> empty output; EIP-198 price 0, EIP-2565 (Berlin) minimum 200
     BN254 ADD / MUL of the point at infinity -> 64 zero bytes; 500 / 40000, EIP-1108 (Istanbul) 150 / 6000
     BN254 PAIRING of zero pairs -> 32 bytes (the value 1); 100000 + 80000k, EIP-1108 45000 + 34000k
     BLAKE2F    input must be exactly 213 bytes -> fails
     POINT_EVALUATION input must be exactly 192 bytes -> fails
     BLS12-381  every contract rejects an empty / wrong-length input -> fails *)
Istanbul(f) == AtLeast(f, "ISTANBUL")
EmptyInput(a, f) ==
  CASE a = 1 -> [ok |-> TRUE, out |-> 0,  gas |-> 3000]
    [] a = 2 -> [ok |-> TRUE, out |-> 32, gas |-> 60]
    [] a = 3 -> [ok |-> TRUE, out |-> 32, gas |-> 600]
    [] a = 4 -> [ok |-> TRUE, out |-> 0,  gas |-> 15]
    [] a = 5 -> [ok |-> TRUE, out |-> 0,  gas |-> IF AtLeast(f, "BERLIN") THEN 200 ELSE 0]
    [] a = 6 -> [ok |-> TRUE, out |-> 64, gas |-> IF Istanbul(f) THEN 150 ELSE 500]
    [] a = 7 -> [ok |-> TRUE, out |-> 64, gas |-> IF Istanbul(f) THEN 6000 ELSE 40000]
    [] a = 8 -> [ok |-> TRUE, out |-> 32, gas |-> IF Istanbul(f) THEN 45000 ELSE 100000]
    [] OTHER -> [ok |-> FALSE, out |-> 0, gas |-> 0]

Forwarded == 200000          \* gas the probe passes to the callee (more than any price above)

(* Gas charged by the CALL instruction itself (value 0, no memory expansion):
     40 in Frontier/Homestead; 700 from Tangerine Whistle (EIP-150); from Berlin (EIP-2929) 100 if
     the address is warm -- precompiles are warm from the start of the transaction -- else 2600;
     plus 25000 for a callee that does not exist in the state before Spurious Dragon (Yellow Paper
     C_NEW; EIP-161 later restricted it to value transfers). *)
CallBase(f, active) ==
  IF ~AtLeast(f, "TANGERINE") THEN 40
  ELSE IF ~AtLeast(f, "BERLIN") THEN 700
  ELSE IF active THEN 100 ELSE 2600
NewAccount(f, funded) == IF ~funded /\ ~AtLeast(f, "SPURIOUS_DRAGON") THEN 25000 ELSE 0

(* The prediction for CALL(gas Forwarded, a, value 0, empty input) under fork f.
   Active: the precompile's rule; a failing precompile consumes everything forwarded and CALL
   pushes 0.  Not active: an account without code -- the call succeeds at once, nothing is
   returned, nothing of the forwarded gas is used.  RETURNDATASIZE exists from Byzantium; before,
   retsize is reported as -1 ("not observable"). *)
PrecompileEmptyCall(a, f, funded) ==
  LET act == Active(a, f)
      e   == EmptyInput(a, f)
  IN [ success |-> IF act THEN e.ok ELSE TRUE,
       retsize |-> IF ~AtLeast(f, "BYZANTIUM") THEN -1 ELSE IF act /\ e.ok THEN e.out ELSE 0,
       gas     |-> CallBase(f, act) + NewAccount(f, funded)
                   + (IF act THEN (IF e.ok THEN e.gas ELSE Forwarded) ELSE 0) ]

-----------------------------------------------------------------------------
(* Sanity of the tables themselves, checked by TLC before any state is explored. *)
OneRowPerByte   == \A r, s \in Rows : r.byte = s.byte => r = s
RowsWellFormed  == \A r \in Rows : /\ r.byte \in Bytes
                                   /\ r.intro \in ForkSet \cup {"EofOnly"}
                                   /\ r.ins \in 0..17 /\ r.outs \in 0..18 /\ r.imm \in 0..32
PushShapes      == \A n \in 1..32 : LET r == Info[\h5f + n] IN
                       r.imm = n /\ r.ins = 0 /\ r.outs = 1 /\ r.intro = "FRONTIER"
DupSwapLogShapes == /\ \A n \in 1..16 : Info[\h7f + n].ins = n /\ Info[\h7f + n].outs = n + 1
                    /\ \A n \in 1..16 : Info[\h8f + n].ins = n + 1 /\ Info[\h8f + n].outs = n + 1
                    /\ \A n \in 0..4  : Info[\ha0 + n].ins = n + 2 /\ Info[\ha0 + n].outs = 0
\* only PUSH1..PUSH32 carry immediate data in legacy code
ImmediatesOnlyOnPush == \A b \in Bytes : (Info[b].imm > 0 /\ Info[b].intro \in ForkSet) => b \in \h60..\h7f
\* nothing is ever removed: defined under f => defined under every later fork
NeverRemoved    == \A b \in Bytes : \A f, g \in ForkSet : (Defined(b, f) /\ AtLeast(g, f)) => Defined(b, g)
\* EOF-only and unassigned bytes are undefined in legacy code in every fork
EofAndNeverUndefined == \A b \in Bytes : Info[b].intro \notin ForkSet => \A f \in ForkSet : ~Defined(b, f)
\* "exactly from": the first fork under which b is defined is its introducing fork
ExactlyFromIntro == \A b \in Bytes : Info[b].intro \in ForkSet =>
                       \A f \in ForkSet : Defined(b, f) <=> AtLeast(f, Info[b].intro)
\* forks that brought no instruction change have the instruction set of their predecessor
NoChangeForks   == \A b \in Bytes :
                      /\ Defined(b, "FRONTIER_THAWING") <=> Defined(b, "FRONTIER")
                      /\ Defined(b, "DAO_FORK") <=> Defined(b, "HOMESTEAD")
                      /\ Defined(b, "TANGERINE") <=> Defined(b, "HOMESTEAD")
                      /\ Defined(b, "SPURIOUS_DRAGON") <=> Defined(b, "HOMESTEAD")
                      /\ Defined(b, "PETERSBURG") <=> Defined(b, "CONSTANTINOPLE")
                      /\ Defined(b, "MUIR_GLACIER") <=> Defined(b, "ISTANBUL")
                      /\ Defined(b, "BERLIN") <=> Defined(b, "ISTANBUL")
                      /\ Defined(b, "ARROW_GLACIER") <=> Defined(b, "LONDON")
                      /\ Defined(b, "GRAY_GLACIER") <=> Defined(b, "LONDON")
                      /\ Defined(b, "MERGE") <=> Defined(b, "LONDON")
                      /\ Defined(b, "PRAGUE") <=> Defined(b, "CANCUN")
                      /\ Defined(b, "OSAKA") <=> Defined(b, "CANCUN")      \* legacy code gains nothing from EOF
                      /\ Defined(b, "LATEST") <=> Defined(b, "CANCUN")
\* well-known sizes of the legacy instruction set (independent cross-check of the table)
Count(f) == Cardinality({ b \in Bytes : Defined(b, f) })
KnownCounts     == /\ Count("FRONTIER") = 130 /\ Count("HOMESTEAD") = 131 /\ Count("BYZANTIUM") = 135
                   /\ Count("CONSTANTINOPLE") = 140 /\ Count("ISTANBUL") = 142 /\ Count("LONDON") = 143
                   /\ Count("SHANGHAI") = 144 /\ Count("CANCUN") = 149
                   /\ Cardinality(EofOps) = 19 /\ Cardinality(Rows) = 168
                   /\ Cardinality({ b \in Known : b \notin LegacyOnly }) = 152
\* the probe cannot underflow or overflow the stack of any defined instruction
ProbeIsAdequate == \A r \in Rows : r.ins <= ProbePushes /\ ProbePushes - r.ins + r.outs <= 1024
LegacyOnlyKnown == \A b \in LegacyOnly : Info[b].intro \in ForkSet

\* precompiles: one row per address; the active set of every fork is an initial segment 1..n
PreSane         == /\ \A p, q \in Precompiles : p.addr = q.addr => p = q
                   /\ \A p \in Precompiles : p.intro \in ForkSet
                   /\ \A f \in ForkSet : ActiveSet(f) = 1..Cardinality(ActiveSet(f))
                   /\ \A f, g \in ForkSet : AtLeast(g, f) => ActiveSet(f) \subseteq ActiveSet(g)
PreCounts       == /\ \A f \in ForkSet :
                        Cardinality(ActiveSet(f)) =
                          IF ~AtLeast(f, "BYZANTIUM") THEN 4 ELSE IF ~AtLeast(f, "ISTANBUL") THEN 8
                          ELSE IF ~AtLeast(f, "CANCUN") THEN 9 ELSE IF ~AtLeast(f, "PRAGUE") THEN 10 ELSE 17
                   /\ \A f \in ForkSet : ~Active(18, f) /\ ~Active(19, f) /\ ~Active(20, f) /\ ~Active(256, f)
(* "precompile" and "account without code" are distinguishable by the probe in every fork: the
   predictions for an active and for an inactive address never coincide. *)
ProbeDistinguishes ==
  \A a \in PreAddrs : \A f \in ForkSet : \A funded \in BOOLEAN :
     LET e == EmptyInput(a, f) IN
     [success |-> e.ok, out |-> e.out, gas |-> CallBase(f, TRUE) + (IF e.ok THEN e.gas ELSE Forwarded)]
       # [success |-> TRUE, out |-> 0, gas |-> CallBase(f, FALSE)]
     \* MODEXP under EIP-198 charges 0 for empty input and returns nothing: there the difference
     \* is only visible from Berlin on (warm/cold and the 200 minimum) -- see ModexpBlindSpot.
     \/ (a = 5 /\ ~AtLeast(f, "BERLIN"))
ModexpBlindSpot == \A f \in ForkSet : (AtLeast(f, "BYZANTIUM") /\ ~AtLeast(f, "BERLIN")) =>
                      (EmptyInput(5, f).gas = 0 /\ EmptyInput(5, f).out = 0)

ASSUME TablesSane ==
  /\ OneRowPerByte /\ RowsWellFormed /\ PushShapes /\ DupSwapLogShapes /\ ImmediatesOnlyOnPush
  /\ NeverRemoved /\ EofAndNeverUndefined /\ ExactlyFromIntro /\ NoChangeForks /\ KnownCounts
  /\ ProbeIsAdequate /\ LegacyOnlyKnown /\ PreSane /\ PreCounts /\ ProbeDistinguishes /\ ModexpBlindSpot

-----------------------------------------------------------------------------
(* The state machine. *)
VARIABLES fork,   \* configured hardfork, "none" before the first Configure
          prev,   \* previously configured hardfork (only tracked when TrackPrev), else "none"
          ran,    \* hardfork under which a transaction was last executed on this Evm (TrackRan), else "none"
          last,   \* the last observation
          hist    \* test history (hidden by View)
vars == <<fork, prev, ran, last, hist>>

NoObs == [kind |-> "none"]

Proj(f, l) == [ fork |-> f,
                precompiles |-> IF f = "none" THEN <<>> ELSE ActiveSeq(f),   \* addresses callable as precompiles
                last |-> l ]

Emit(op, post) ==
    PrintT("EDGE " \o ToJson([hist |-> hist, pre |-> Proj(fork, last), op |-> op, post |-> post]))

Init == fork = "none" /\ prev = "none" /\ ran = "none" /\ last = NoObs /\ hist = <<>>

Configure == \E f \in ForkSet :
    LET op == [op |-> "configure", fork |-> f]
        l  == [kind |-> "configured"] IN
    \* (without TrackPrev a second Configure is explored only after a Run)
    /\ (IF TrackPrev \/ hist = <<>> THEN TRUE ELSE hist[Len(hist)].op = "run")
    /\ fork' = f /\ prev' = (IF TrackPrev THEN fork ELSE "none") /\ last' = l /\ UNCHANGED ran
    /\ hist' = Append(hist, op)
    /\ Emit(op, Proj(f, l))

\* execute one plain transaction under the configured fork (nothing observable is required of it here)
Run == LET op == [op |-> "run", fork |-> fork]
           l  == [kind |-> "configured"] IN
    /\ TrackRan # "none" /\ fork # "none" /\ last.kind = "configured" /\ ran # fork
    /\ ran' = fork /\ last' = l /\ UNCHANGED <<fork, prev>>
    /\ hist' = Append(hist, op)
    /\ Emit(op, Proj(fork, l))

Probe(op, l) == /\ last' = l /\ UNCHANGED <<fork, prev, ran>>
                /\ hist' = Append(hist, op)
                /\ Emit(op, Proj(fork, l))

InfoOf(b) == [kind |-> "info", known |-> (b \in Known), ins |-> Info[b].ins, outs |-> Info[b].outs,
              imm |-> Info[b].imm, legacy_only |-> (b \in LegacyOnly)]
InfoAct == \E b \in Bytes :
    /\ fork = "none"                                     \* static: asked once, before any configuration
    /\ Probe([op |-> "info", byte |-> b, name |-> Info[b].name], InfoOf(b))

(* The observation of Exec.  Through a real transaction the property also fixes the gas of the
   undefined (and of the INVALID) case: everything is consumed.  For a defined instruction the gas
   is whatever the instruction costs -- not part of this property, hence not observed. *)
ExecObs(b, f, path) ==
    LET c == Class(b, f) IN
    IF path = "evm" /\ c # "defined" THEN [kind |-> "exec", class |-> c, gas_all |-> TRUE]
    ELSE [kind |-> "exec", class |-> c]
ForkDependent == {b \in Bytes : \E f1, f2 \in ForkSet : Class(b, f1) # Class(b, f2)}
Exec == \E b \in (IF TrackRan = "dep" /\ ran # "none" THEN ForkDependent ELSE Bytes) : \E path \in {"evm", "table"} :
    /\ fork # "none"
    /\ Probe([op |-> "exec", path |-> path, byte |-> b, name |-> Info[b].name, fork |-> fork,
              pushes |-> ProbePushes, observe_gas |-> (path = "evm" /\ Class(b, fork) # "defined")],
             ExecObs(b, fork, path))

CallAddr == \E a \in Addrs : \E funded \in BOOLEAN :
    /\ fork # "none"
    /\ LET p == PrecompileEmptyCall(a, fork, funded) IN
       Probe([op |-> "call_addr", addr |-> a, funded |-> funded, fork |-> fork, forwarded |-> Forwarded,
              observe_retsize |-> AtLeast(fork, "BYZANTIUM")],
             [kind |-> "call", success |-> p.success, retsize |-> p.retsize, gas |-> p.gas])

\* a history is Configure* then one probe
Next == /\ Len(hist) < MaxHist
        /\ last.kind \in {"none", "configured"}
        /\ (Configure \/ Run \/ InfoAct \/ Exec \/ CallAddr)

Spec == Init /\ [][Next]_vars

\* The history itself is hidden; its length is kept so that a configuration reached by a longer
\* history is not mistaken for the same configuration with budget left (exploration order with
\* several TLC workers is not strictly breadth-first).
View == <<fork, prev, ran, last, Len(hist)>>

-----------------------------------------------------------------------------
(* The property, as invariants / action properties of the state machine. *)
LastOp == hist[Len(hist)]

TypeOK == /\ fork \in ForkSet \cup {"none"} /\ prev \in ForkSet \cup {"none"} /\ ran \in ForkSet \cup {"none"}
          /\ last.kind \in {"none", "configured", "info", "exec", "call"}

\* clause 1: undefined behaviour exactly when not (yet) introduced -- or EOF-only, or unassigned
UndefinedIffNotIntroduced ==
    last.kind = "exec" =>
       /\ (last.class = "undefined") <=> ~( Info[LastOp.byte].intro \in ForkSet
                                             /\ Idx(Info[LastOp.byte].intro) <= Idx(fork) )
       /\ (last.class = "undefined" /\ LastOp.path = "evm") => last.gas_all
       /\ Info[LastOp.byte].intro = "EofOnly" => last.class = "undefined"
\* clause 2: precompile exactly from its fork, an account without code before / elsewhere
PrecompileIffIntroduced ==
    last.kind = "call" =>
       LET a == LastOp.addr
           act == a \in PreAddrs /\ Idx(PreOf(a).intro) <= Idx(fork) IN
       /\ ~act => /\ last.success /\ last.retsize \in {-1, 0}
                  /\ last.gas = CallBase(fork, FALSE) + NewAccount(fork, LastOp.funded)
       /\ act  => last.gas >= CallBase(fork, TRUE) + NewAccount(fork, LastOp.funded)
       /\ (act /\ ~last.success) => last.gas = CallBase(fork, TRUE) + NewAccount(fork, LastOp.funded) + Forwarded
\* the configuration changes only by Configure; a probe leaves it alone
OnlyConfigureChangesFork == [][fork' # fork => last'.kind = "configured"]_vars
\* the observation is a function of the current fork and the probe, not of how the fork was reached
HistoryIndependent ==
    [][(last'.kind = "exec") => last' = ExecObs(hist'[Len(hist')].byte, fork', hist'[Len(hist')].path)]_vars
==========================================================================
