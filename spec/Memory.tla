------------------------------- MODULE Memory -------------------------------
(* The memory of nested call frames (property C11), at the level of revm's SharedMemory API and
   of the interpreter's expansion helper.

   What the EVM demands (yellow paper 9.1, 9.4.1 and appendix H, "memory"):
     - every message call / creation runs with its OWN memory, which starts EMPTY;
     - memory is a byte array addressed from 0 whose unwritten bytes read as ZERO;
     - it only grows, in whole 32-byte words, when an instruction touches bytes beyond its
       end, and growing from a words to b words costs  Cmem(b) - Cmem(a),
       Cmem(w) = 3*w + floor(w*w / 512);
     - when the child frame ends, the caller continues with exactly the memory it had
       (nothing the child did to its own memory is visible to anybody afterwards).

   The model is therefore a STACK OF BYTE SEQUENCES, `ctxs`: ctxs[1] is the memory that exists
   before any context was opened, ctxs[Len(ctxs)] is the memory of the running frame ("the
   current context") and the only one any operation can read or write.  Nothing is said about
   how the implementation stores this stack (revm keeps all contexts back to back in one
   buffer and cuts it with checkpoints -- which is exactly why the property needs checking:
   a freed child's bytes lie where the parent's or the next sibling's growth will land).

   Offsets in operations are 0-based like in the EVM; TLA+ sequences are 1-based.

   Operations that the API documents as panicking / undefined outside the current context's
   bounds are enabled inside bounds only.

   Written from the property text and the yellow paper, not from shared_memory.rs. *)
EXTENDS Integers, Sequences, SequencesExt, TLC, Json

CONSTANTS
    Ops,          \* names of the operations explored in this configuration
    Bytes,        \* byte values written by set_byte (0 must be allowed to be written too)
    Sizes,        \* arguments of resize / resize_memory
    Offsets,      \* first byte touched by `expand`  (and data offsets of set_data)
    Lens,         \* lengths: expand, set_data, copy, slice
    Datas,        \* byte strings given to set / set_data / slice_mut / context_memory_mut
    Words,        \* 32-byte strings given to set_word / set_u256 (big-endian value)
    MaxDepth,     \* contexts that may be open at once
    AllowShrink,  \* TRUE: `resize` may also be asked for a smaller size (the raw API allows it)
    GasLimits,    \* gas given to the frame by the `gas` operation
    Top,          \* 0, or the model number standing for usize::MAX (offsets near the top of the address space)
    MaxHist       \* bound on the history length (exhaustive mode)

VARIABLES
    ctxs,    \* the stack of memories, outermost first; a memory is a sequence of bytes
    gas,     \* gas remaining in the running frame's meter
    ok,      \* did the last operation succeed (only `expand` / `resize_memory` can fail: out of gas)
    ret,     \* what the last operation returned (a byte string; <<>> if it returns nothing)
    saved,   \* ghost: saved[i] = ctxs[i] as it was when context i+1 was opened
    paid,    \* ghost: paid[i] = gas charged so far for expanding ctxs[i]
    hist     \* the operations applied so far (hidden by View)
vars == <<ctxs, gas, ok, ret, saved, paid, hist>>

----------------------------------------------------------------------------
\* Vocabulary

WordSize == 32
Zeros(k) == [i \in 1..k |-> 0]
NumWords(n) == (n + WordSize - 1) \div WordSize          \* bytes -> words, rounded up
MemGas(w) == 3 * w + (w * w) \div 512                    \* Cmem of the yellow paper

Depth == Len(ctxs) - 1          \* contexts opened and not yet freed
Cur == ctxs[Len(ctxs)]          \* memory of the running frame
Size == Len(Cur)                \* MSIZE (in bytes)
Has(o) == o \in Ops

\* memory m with the bytes d written at offset o (0-based); needs o + Len(d) <= Len(m)
Overwrite(m, o, d) == [i \in 1..Len(m) |-> IF i > o /\ i <= o + Len(d) THEN d[i - o] ELSE m[i]]
\* the bytes m[o .. o+n-1]
BytesAt(m, o, n) == [i \in 1..n |-> m[o + i]]
\* the stack with the current memory replaced
WithCur(m) == [ctxs EXCEPT ![Len(ctxs)] = m]

\* Memory beyond this many bytes costs more gas than any frame of the model owns (ASSUME
\* below), so asking for it fails for lack of gas whatever the exact cost -- which lets the
\* model contain offsets at the very top of the address space without computing their cost.
Affordable == WordSize * 4096
ASSUME \A g \in GasLimits : g < MemGas(4096)
\* Model numbers above Top \div 2 stand for addresses equally far below the top of the address
\* space (the harness embeds them); they must be far beyond anything affordable.
ASSUME Top = 0 \/ Top \div 2 > 2 * Affordable

----------------------------------------------------------------------------
\* Projection: what an observer of the real object can see.  A memory is shown as its length
\* and the list of its non-zero bytes <<offset, value>> (so that kilobytes of zeros stay small).

MemProj(m) ==
    LET at == SetToSortSeq({i \in 1..Len(m) : m[i] # 0}, <)      \* positions of non-zero bytes, ascending
    IN  [len |-> Len(m), nz |-> [k \in 1..Len(at) |-> <<at[k] - 1, m[at[k]]>>]]

ProjOf(c, g) ==
    LET n == Len(c[Len(c)]) IN
    [depth |-> Len(c) - 1,                        \* open contexts
     len   |-> n,                                 \* len()
     empty |-> n = 0,                             \* is_empty()
     cost  |-> MemGas(NumWords(n)),               \* current_expansion_cost()
     mem   |-> [i \in 1..Len(c) |-> MemProj(c[i])], \* every context; the last one is context_memory()
     gas   |-> g]

Proj == ProjOf(ctxs, gas)

PostOf(c, g, k, r) ==
    LET p == ProjOf(c, g) IN
    [depth |-> p.depth, len |-> p.len, empty |-> p.empty, cost |-> p.cost, mem |-> p.mem,
     gas |-> p.gas, ok |-> k, ret |-> r]

Emit(op, post) ==
    PrintT("EDGE " \o ToJson([hist |-> hist, pre |-> Proj, op |-> op, post |-> post]))

Step(op, c, g, k, r, sv, pd) ==
    /\ ctxs' = c /\ gas' = g /\ ok' = k /\ ret' = r /\ saved' = sv /\ paid' = pd
    /\ hist' = Append(hist, op)
    /\ Emit(op, PostOf(c, g, k, r))

\* an operation that rewrites the current memory / that only reads
Write(op, m) == Step(op, WithCur(m), gas, TRUE, <<>>, saved, paid)
Read(op, r)  == Step(op, ctxs, gas, TRUE, r, saved, paid)

----------------------------------------------------------------------------
Init == /\ ctxs = << <<>> >> /\ gas = 0 /\ ok = TRUE /\ ret = <<>>
        /\ saved = <<>> /\ paid = <<0>> /\ hist = <<>>

\* ---- contexts

\* A call: the callee gets a fresh, EMPTY memory; everything below is kept as it is.
NewContext ==
    /\ Has("new_context") /\ Depth < MaxDepth
    /\ Step([op |-> "new_context"], Append(ctxs, <<>>), gas, TRUE, <<>>,
            Append(saved, Cur), Append(paid, 0))

\* The callee ends: its memory is discarded and the caller's memory is current again, exactly
\* as it was.  Freeing when no context is open does nothing.
FreeContext ==
    /\ Has("free_context")
    /\ IF Depth = 0
       THEN Step([op |-> "free_context"], ctxs, gas, TRUE, <<>>, saved, paid)
       ELSE Step([op |-> "free_context"], SubSeq(ctxs, 1, Depth), gas, TRUE, <<>>,
                 SubSeq(saved, 1, Depth - 1), SubSeq(paid, 1, Depth))

\* ---- size

\* resize(n): afterwards the current memory has n bytes: the old ones (as many as fit) followed
\* by ZEROS -- whatever a previous, freed context may have written "there".
Resize == \E n \in Sizes :
    /\ Has("resize")
    /\ AllowShrink \/ n >= Size
    /\ Write([op |-> "resize", n |-> n],
             IF n >= Size THEN Cur \o Zeros(n - Size) ELSE SubSeq(Cur, 1, n))

\* The frame's gas meter is (re)loaded.
SetGas == \E g \in GasLimits :
    /\ Has("gas")
    /\ Step([op |-> "gas", g |-> g], ctxs, g, TRUE, <<>>, saved, paid)

\* Growing the current memory to hold `need` bytes: whole words, paid by the quadratic formula;
\* if the frame cannot pay, nothing changes and the operation reports failure.
Grow(op, need) ==
    LET words  == NumWords(need)
        charge == MemGas(words) - MemGas(NumWords(Size)) IN
    IF need > Affordable \/ charge > gas
    THEN Step(op, ctxs, gas, FALSE, <<>>, saved, paid)
    ELSE Step(op, WithCur(Cur \o Zeros(WordSize * words - Size)), gas - charge, TRUE, <<>>,
              saved, [paid EXCEPT ![Len(paid)] = @ + charge])

\* An instruction touches the bytes [off, off+len), len >= 1 (instructions with len = 0 do not
\* touch memory at all).  Memory that is already large enough is left alone, free of charge.
Expand == \E off \in Offsets, len \in Lens :
    /\ Has("expand") /\ len >= 1
    /\ LET op == [op |-> "expand", off |-> off, len |-> len] IN
       IF off + len <= Size
       THEN Step(op, ctxs, gas, TRUE, <<>>, saved, paid)
       ELSE Grow(op, off + len)

\* The helper underneath, asked directly for a size larger than the current one.
ResizeMemory == \E n \in Sizes :
    /\ Has("resize_memory") /\ n > Size
    /\ Grow([op |-> "resize_memory", n |-> n], n)

\* ---- writes (all inside the current context, all leave its size alone)

\* (in memories of more than a few bytes the exploration writes single bytes only at the
\* offsets of interest and at the last byte)
Spots == IF Size <= 8 THEN 0..(Size - 1) ELSE {o \in Offsets \cup {Size - 1} : o < Size}
SetByte == \E o \in Spots, b \in Bytes :
    /\ Has("set_byte")
    /\ Write([op |-> "set_byte", o |-> o, b |-> b], Overwrite(Cur, o, <<b>>))

\* set(o, d) and the two ways of writing through a mutable view: slice_mut(o, Len(d)) is
\* exactly the bytes [o, o+Len(d)) of the current context, context_memory_mut() all of them.
SetVia(name) == \E o \in 0..Size, d \in Datas :
    /\ Has(name) /\ o + Len(d) <= Size
    /\ Write([op |-> name, o |-> o, d |-> d], Overwrite(Cur, o, d))

\* 32-byte values: a word is stored as it is, a 256-bit number big-endian (the model's
\* vocabulary for both is the 32-byte string).
SetWordVia(name) == \E o \in 0..Size, w \in Words :
    /\ Has(name) /\ o + WordSize <= Size
    /\ Write([op |-> name, o |-> o, w |-> w], Overwrite(Cur, o, w))

\* set_data(mo, do, len, d): the EVM's copy-from-data (CALLDATACOPY, CODECOPY, RETURNDATACOPY's
\* relatives): memory[mo+i] = d[do+i] for i < len, where bytes past the end of d read as ZERO.
SetData == \E mo \in 0..Size, dofs \in Offsets, len \in Lens, d \in Datas :
    /\ Has("set_data") /\ mo + len <= Size
    /\ Write([op |-> "set_data", mo |-> mo, dofs |-> dofs, len |-> len, d |-> d],
             Overwrite(Cur, mo, [i \in 1..len |-> IF dofs + i <= Len(d) THEN d[dofs + i] ELSE 0]))

\* copy(dst, src, len): MCOPY; the source is read entirely before the destination is written,
\* so overlapping ranges behave as if copied through a temporary.
Copy == \E dst \in 0..Size, src \in 0..Size, len \in Lens :
    /\ Has("copy") /\ src + len <= Size /\ dst + len <= Size
    /\ Write([op |-> "copy", dst |-> dst, src |-> src, len |-> len],
             Overwrite(Cur, dst, BytesAt(Cur, src, len)))

\* ---- reads

GetByte == \E o \in 0..(Size - 1) :
    /\ Has("get_byte")
    /\ Read([op |-> "get_byte", o |-> o], <<Cur[o + 1]>>)

SliceVia(name) == \E o \in 0..Size, n \in Lens :
    /\ Has(name) /\ o + n <= Size
    /\ Read([op |-> name, o |-> o, n |-> n], BytesAt(Cur, o, n))

GetWordVia(name) == \E o \in 0..Size :
    /\ Has(name) /\ o + WordSize <= Size
    /\ Read([op |-> name, o |-> o], BytesAt(Cur, o, WordSize))

\* num_words(x): bytes to words, rounded up (a pure function; the result is returned)
NumWordsOp == \E x \in {y \in Sizes \cup Lens : y <= Affordable} :
    /\ Has("num_words")
    /\ Read([op |-> "num_words", x |-> x], <<NumWords(x)>>)

Next == /\ Len(hist) < MaxHist
        /\ \/ NewContext \/ FreeContext \/ Resize \/ SetGas \/ Expand \/ ResizeMemory
           \/ SetByte \/ SetVia("set") \/ SetVia("slice_mut") \/ SetVia("context_memory_mut")
           \/ SetWordVia("set_word") \/ SetWordVia("set_u256") \/ SetData \/ Copy
           \/ GetByte \/ SliceVia("slice") \/ SliceVia("slice_range")
           \/ GetWordVia("get_word") \/ GetWordVia("get_u256") \/ NumWordsOp

Spec == Init /\ [][Next]_vars

View == <<ctxs, gas, saved, paid>>

----------------------------------------------------------------------------
\* The property, as invariants / action properties of the specification itself.

IsByte(b) == b \in 0..255
TypeOK == /\ Len(ctxs) >= 1 /\ Len(ctxs) <= MaxDepth + 1
          /\ \A i \in 1..Len(ctxs) : \A j \in 1..Len(ctxs[i]) : IsByte(ctxs[i][j])
          /\ gas >= 0
          /\ Len(saved) = Depth /\ Len(paid) = Len(ctxs)

\* "after it returns the parent's memory is byte-for-byte unchanged ... and the parent's size is
\* unchanged": as long as a child is open, its parent is what it was when the child was opened ...
ParentFrozenWhileChildRuns == \A i \in 1..Depth : ctxs[i] = saved[i]
\* ... and the step that ends the child makes exactly that memory current again.
ParentRestoredOnReturn ==
    [][Len(ctxs') = Len(ctxs) - 1 => /\ ctxs'[Len(ctxs')] = saved[Len(saved)]
                                      /\ ctxs' = SubSeq(ctxs, 1, Len(ctxs) - 1)]_vars
\* No operation whatsoever touches a context other than the current one.
OnlyCurrentIsTouched ==
    [][\A i \in 1..(Len(ctxs) - 1) : i < Len(ctxs') => ctxs'[i] = ctxs[i]]_vars

\* "A child frame starts with empty memory."
ChildStartsEmpty ==
    [][Len(ctxs') = Len(ctxs) + 1 => /\ ctxs'[Len(ctxs')] = <<>>
                                      /\ SubSeq(ctxs', 1, Len(ctxs)) = ctxs]_vars

\* "zero-initialised": whenever the current memory gets longer, the old bytes stay and all the
\* new ones are zero.
FreshBytesAreZero ==
    [][(Len(ctxs') = Len(ctxs) /\ Len(ctxs'[Len(ctxs')]) > Size)
        => /\ SubSeq(ctxs'[Len(ctxs')], 1, Size) = Cur
           /\ \A j \in (Size + 1)..Len(ctxs'[Len(ctxs')]) : ctxs'[Len(ctxs')][j] = 0]_vars

\* "only grows": within a context the size never decreases (unless the configuration lets the
\* raw `resize` be called with a smaller size, which the interpreter never does).
OnlyGrows ==
    [][(~AllowShrink /\ Len(ctxs') = Len(ctxs)) => Len(ctxs'[Len(ctxs')]) >= Size]_vars

\* "word-aligned" and "charged by the quadratic formula": when sizes change only through
\* expand / resize_memory, every memory is a whole number of words and what a context has paid
\* in total is exactly Cmem(its size in words), however it got there.
Metered == ~Has("resize")
WordAligned == Metered => \A i \in 1..Len(ctxs) : Len(ctxs[i]) % WordSize = 0
PaidIsQuadratic == Metered => \A i \in 1..Len(ctxs) : paid[i] = MemGas(Len(ctxs[i]) \div WordSize)
\* each single charge is the difference of the formula, and a failed expansion changes nothing
ChargeIsDifference ==
    [][(Len(ctxs') = Len(ctxs) /\ Len(hist') > Len(hist) /\ hist'[Len(hist')].op \in {"expand", "resize_memory"})
        => IF ok' THEN /\ gas - gas' = MemGas(NumWords(Len(ctxs'[Len(ctxs')]))) - MemGas(NumWords(Size))
                       /\ gas' >= 0
                       /\ Len(ctxs'[Len(ctxs')]) >= Size
                  ELSE ctxs' = ctxs /\ gas' = gas]_vars
==========================================================================
