------------------------------- MODULE Bundle -------------------------------
(* The block-state layer by MEANING (properties C15 .. C19).

   The specification knows nothing about caches, account status machines, transition
   accounts or revert records.  It keeps the one thing all of those exist to represent: the
   *plain state* (address -> account info or absence, slot -> value) after every committed
   transaction, and the plain state at every merge point ("group boundary").  Every public
   operation of revm's State / BundleState is then given its meaning in terms of plain states:

     reads (C15)       a read through the state database returns the current plain state;
     changeset (C16)   ApplyChangeset(to_plain_state(..), G_0) = G_m;
     reverts (C17)     ApplyReverts(reverts[k], G_k) = G_(k-1) for every merged group k, and the
                       bundle left by revert(j) has the changeset meaning of G_(m-j);
     extend (C18)      a bundle for groups 1..i extended by one for i+1..m means the same as
                       the monolithic bundle; take_n_reverts slices; prepend never overrides;
     preload (C19)     State over D with bundle B preloaded == State over ApplyChangeset(B, D).

   This module contains (1) the plain-state semantics of transaction effects as pure
   operators, (2) a generator (Init/Next) whose edges TLC enumerates exhaustively: histories
   of commits / merges / balance increments / drains, each followed by every observation.
   The harness executes each history on the real code and RECORDS what the real code answers;
   module BundleJudge then decides, record by record, whether the answer has the right
   meaning.  The harness itself compares nothing. *)
EXTENDS Integers, Sequences, FiniteSets, TLC, Json

CONSTANTS Addr, Slot, Val,   \* Val includes 0 = empty slot
          D0,                \* the database before the history: [Addr -> [info, stor]]
          StateClear,        \* EIP-161 state clearing active
          MaxBal,            \* balances range over 0..MaxBal
          MaxCommits, MaxMerges, MaxHist,
          WriteSets,         \* subsets of Slot a single effect may write
          Kinds,             \* effect kinds enabled ("rich" = more info variants per effect)
          Obs                \* observation operations enabled

Absent == [ex |-> FALSE, bal |-> 0, nonce |-> 0, code |-> 0]
ZeroStor == [k \in Slot |-> 0]
IsEmptyInfo(i) == i.bal = 0 /\ i.nonce = 0 /\ i.code = 0       \* for an existing account
NoStorage(st) == \A k \in Slot : st[k] = 0

VARIABLES st,    \* [cur |-> plain state now, groups |-> <<G_0, .., G_m>>, ncommit |-> commits so far]
          hist
vars == <<st, hist>>

-----------------------------------------------------------------------------
(* ---- meaning of one account-level effect of a transaction on a plain state.
   An effect is what the EVM reports for one touched account:
     change         info replaced, listed slots written            (account exists, non-empty after)
     create         storage wiped, then info and listed slots set  (CREATE/CREATE2/create tx)
     selfdestruct   account and its whole storage gone
     create_destroy created and destroyed in the same transaction: gone
     touch_empty    an absent or empty account was touched: removed when state clearing is
                    active, otherwise it now exists (empty)
     load_only      loaded but not touched: nothing                                         *)
Writes(e) == [k \in Slot |-> IF \E i \in 1..Len(e.w) : e.w[i].k = k
                             THEN (CHOOSE x \in {e.w[i] : i \in 1..Len(e.w)} : x.k = k).n ELSE -1]

EffectOn(acc, e) ==
    LET w == Writes(e) IN
    CASE e.kind = "change" ->
           [info |-> e.info, stor |-> [k \in Slot |-> IF w[k] >= 0 THEN w[k] ELSE acc.stor[k]]]
      [] e.kind = "create" ->
           [info |-> e.info, stor |-> [k \in Slot |-> IF w[k] >= 0 THEN w[k] ELSE 0]]
      [] e.kind \in {"selfdestruct", "create_destroy"} -> [info |-> Absent, stor |-> ZeroStor]
      [] e.kind = "touch_empty" ->
           IF StateClear THEN [info |-> Absent, stor |-> ZeroStor]
           ELSE [info |-> [ex |-> TRUE, bal |-> 0, nonce |-> 0, code |-> 0], stor |-> acc.stor]
      [] OTHER -> acc

RECURSIVE ApplyEffects(_, _)
ApplyEffects(P, effs) ==
    IF effs = <<>> THEN P
    ELSE LET e == Head(effs) IN ApplyEffects([P EXCEPT ![e.a] = EffectOn(P[e.a], e)], Tail(effs))

-----------------------------------------------------------------------------
(* ---- the state machine over plain states *)
NGroups(s) == Len(s.groups) - 1           \* number of merged groups m
LastMerged(s) == s.groups[Len(s.groups)]

ApplyOp(s, op) ==
    CASE op.op = "commit"    -> [s EXCEPT !.cur = ApplyEffects(s.cur, op.effs), !.ncommit = @ + 1]
      [] op.op = "increment" -> [s EXCEPT !.cur[op.a].info =
                                    [ex |-> TRUE, bal |-> s.cur[op.a].info.bal + op.amt,
                                     nonce |-> s.cur[op.a].info.nonce, code |-> s.cur[op.a].info.code]]
      [] op.op = "drain"     -> [s EXCEPT !.cur[op.a].info.bal = 0]
      [] op.op = "merge"     -> [s EXCEPT !.groups = Append(@, s.cur)]
      [] OTHER               -> s          \* observations change nothing

-----------------------------------------------------------------------------
(* ---- which effects the EVM can emit for an account in a given plain state *)
SlotSeq == CHOOSE q \in [1..Cardinality(Slot) -> Slot] :
             \A i, j \in 1..Cardinality(Slot) : i < j => q[i] < q[j]

\* all ways of writing the slots of ws (new values from Val), each with its original value
WSeqs(orig, ws) ==
    LET ks == SelectSeq(SlotSeq, LAMBDA k : k \in ws)
    IN {[i \in 1..Len(ks) |-> [k |-> ks[i], o |-> orig[ks[i]], n |-> f[ks[i]]]] : f \in [ws -> Val]}

InfoAfterChange(i) ==
    IF "rich" \in Kinds
    THEN {[ex |-> TRUE, bal |-> b, nonce |-> n, code |-> i.code] :
            b \in {x \in {i.bal - 1, i.bal, i.bal + 1} : x >= 0 /\ x <= MaxBal},
            n \in {x \in {i.nonce, i.nonce + 1} : x <= 2}}
    ELSE {[ex |-> TRUE, bal |-> i.bal, nonce |-> i.nonce, code |-> i.code]}
         \cup (IF i.bal < MaxBal THEN {[ex |-> TRUE, bal |-> i.bal + 1, nonce |-> i.nonce, code |-> i.code]} ELSE {})
         \cup (IF i.nonce < 2 /\ i.code = 0 THEN {[ex |-> TRUE, bal |-> i.bal, nonce |-> i.nonce + 1, code |-> i.code]} ELSE {})

Effects(P, a) ==
    LET acc == P[a]
        i == acc.info
        zero == ZeroStor
    IN  \* change: the account exists afterwards and is not empty; code never changes; only
        \* accounts with code have storage written
        (IF "change" \in Kinds
         THEN {[kind |-> "change", a |-> a, info |-> ni, w |-> w] :
                 ni \in {x \in InfoAfterChange(i) : ~IsEmptyInfo(x)},
                 w \in UNION {WSeqs(acc.stor, ws) : ws \in IF i.code # 0 THEN WriteSets ELSE {{}}}}
         ELSE {})
        \* create: only onto an address without code, nonce and storage (EIP-684 / EIP-7610)
        \cup (IF "create" \in Kinds /\ i.code = 0 /\ i.nonce = 0 /\ NoStorage(acc.stor)
              THEN {[kind |-> "create", a |-> a,
                     info |-> [ex |-> TRUE, bal |-> b, nonce |-> IF StateClear THEN 1 ELSE 0, code |-> c],
                     w |-> w] :
                       b \in IF "rich" \in Kinds THEN {x \in {i.bal, i.bal + 1} : x <= MaxBal} ELSE {i.bal},
                       c \in IF "rich" \in Kinds THEN {0, 1, 2} ELSE {1, 2},
                       w \in UNION {WSeqs(zero, ws) : ws \in WriteSets}}
              ELSE {})
        \cup (IF "create_destroy" \in Kinds /\ i.code = 0 /\ i.nonce = 0 /\ NoStorage(acc.stor)
              THEN {[kind |-> "create_destroy", a |-> a, info |-> Absent, w |-> <<>>]} ELSE {})
        \* selfdestruct: an existing contract
        \cup (IF "selfdestruct" \in Kinds /\ i.ex /\ i.code # 0
              THEN {[kind |-> "selfdestruct", a |-> a, info |-> i, w |-> <<>>]} ELSE {})   \* info: as before the effect
        \cup (IF "touch_empty" \in Kinds /\ (~i.ex \/ IsEmptyInfo(i))
              THEN {[kind |-> "touch_empty", a |-> a, info |-> Absent, w |-> <<>>]} ELSE {})
        \cup (IF "load_only" \in Kinds
              THEN {[kind |-> "load_only", a |-> a, info |-> i, w |-> <<>>]} ELSE {})

\* transactions touching one account, or two distinct accounts (Kinds contains "pair")
Txs(P) ==
    {<<e>> : e \in UNION {Effects(P, a) : a \in Addr}}
    \cup (IF "pair" \in Kinds
          THEN {<<e1, e2>> : e1 \in UNION {Effects(P, a) : a \in Addr},
                             e2 \in UNION {Effects(P, a) : a \in Addr}}
          ELSE {})

\* (IF, not \/: inside an action TLC would evaluate both disjuncts as separate branches)
ValidTx(t) == IF Len(t) = 1 THEN TRUE
              ELSE t[1].a < t[2].a /\ t[1].kind # "load_only" /\ t[2].kind # "load_only"

-----------------------------------------------------------------------------
Emit(op) == PrintT("EDGE " \o ToJson([hist |-> hist, op |-> op, st |-> st]))

Do(op) == /\ st' = ApplyOp(st, op) /\ hist' = Append(hist, op) /\ Emit(op)

Init == st = [cur |-> D0, groups |-> <<D0>>, ncommit |-> 0] /\ hist = <<>>

Commit == st.ncommit < MaxCommits /\ \E t \in Txs(st.cur) : ValidTx(t) /\ Do([op |-> "commit", effs |-> t])

Increment == "increment" \in Kinds /\ st.ncommit < MaxCommits /\ \E a \in Addr :
    st.cur[a].info.bal + 1 <= MaxBal /\ Do([op |-> "increment", a |-> a, amt |-> 1])

\* DAO-fork style drain of an existing account that stays non-empty (or before state clearing)
Drain == "drain" \in Kinds /\ st.ncommit < MaxCommits /\ \E a \in Addr :
    /\ st.cur[a].info.ex
    /\ st.cur[a].info.nonce > 0 \/ st.cur[a].info.code # 0 \/ ~StateClear
    /\ Do([op |-> "drain", a |-> a, bal |-> st.cur[a].info.bal])

Merge == NGroups(st) < MaxMerges /\ Do([op |-> "merge"])

\* ---- observations (do not change the state; the judge module gives them their meaning).
\* Observations of the bundle are made when nothing is pending (cur = last merged state).
Settled == st.cur = LastMerged(st)

Observe ==
    \/ "read" \in Obs /\ Do([op |-> "read"])
    \/ "changeset" \in Obs /\ NGroups(st) > 0 /\ \E known \in BOOLEAN : Do([op |-> "changeset", known |-> known])
    \/ "reverts" \in Obs /\ NGroups(st) > 0 /\ Do([op |-> "reverts"])
    \/ "revert_n" \in Obs /\ NGroups(st) > 0 /\ \E j \in 1..NGroups(st) : Do([op |-> "revert_n", j |-> j])
    \/ "split" \in Obs /\ Settled /\ \E i \in 1..(NGroups(st) - 1) : Do([op |-> "split", i |-> i, mid |-> st.groups[i + 1]])
    \/ "take_n" \in Obs /\ NGroups(st) > 0 /\ \E n \in 0..(NGroups(st) + 1) : Do([op |-> "take_n", n |-> n])
    \/ "prepend" \in Obs /\ Settled /\ \E i \in 1..(NGroups(st) - 1) : Do([op |-> "prepend", i |-> i, mid |-> st.groups[i + 1]])
    \/ "preload" \in Obs /\ Settled /\ \E i \in 1..NGroups(st) : Do([op |-> "preload", i |-> i, mid |-> st.groups[i + 1]])

Next == Len(hist) < MaxHist /\ (Commit \/ Increment \/ Drain \/ Merge \/ Observe)

Spec == Init /\ [][Next]_vars
View == st

-----------------------------------------------------------------------------
(* ---- sanity of the plain-state semantics itself, checked by TLC *)
WellFormed(P) == \A a \in Addr :
    /\ P[a].info.bal \in 0..MaxBal /\ P[a].info.nonce \in 0..2 /\ P[a].info.code \in 0..2
    /\ ~P[a].info.ex => (P[a].info = Absent /\ (StateClear => NoStorage(P[a].stor)))
    \* from state clearing on, no touched account is left empty in the state
TypeOK == WellFormed(st.cur) /\ \A i \in 1..Len(st.groups) : WellFormed(st.groups[i])

\* an absent account has no storage once state clearing is on; a destroyed account reads as absent
AbsentHasNoStorage == StateClear => \A a \in Addr : ~st.cur[a].info.ex => NoStorage(st.cur[a].stor)
=============================================================================
