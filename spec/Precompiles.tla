---------------------------- MODULE Precompiles ----------------------------
(* The precompiled contracts of the EVM (property C23): for a hardfork, an address, an input byte
   string and a gas limit, what a call to the precompile answers --

       ok      the EIP-defined gas is charged and the EIP-defined output is returned,
       oog     out of gas: exactly when the defined cost exceeds the gas limit,
       fail    the input is one the EIP rejects (wrong length, bad flag, invalid point ...),
       absent  the address is not a precompile in that hardfork (an ordinary empty account),

   and what a CALL instruction that forwards `gas` to that address observes (section "CALL").

   Written from the Yellow Paper (appendix E "Precompiled contracts") and the EIPs named at each
   operator (196/197/198, 152, 1108, 2565, 4844, 2537); not from the Rust code.

   WHAT THIS MODULE DECIDES, AND WHAT IT DOES NOT.  Gas, out-of-gas, failure and the *length* of
   the output are decided for every precompile.  The output *bytes* are decided where they follow
   from the EIP text without cryptography: identity (a copy), modexp for moduli below 2^15
   (square-and-multiply on TLC integers), the group identities of bn254 and BLS12-381
   (O + O = O, P + O = P, 0*P = O, 1*P = P, n*P = O, e(O, Q) = 1, the empty pairing = 1), the
   constant answer of a successful KZG point evaluation, and the empty answer of ecrecover on
   input that is malformed by inspection (v not 27/28, r or s outside [1, n-1]).
   NOT decided: SHA-256 and RIPEMD-160 digests, the BLAKE2 F output, the recovered address of
   ecrecover, sums / multiples / pairings of non-trivial curve points, map-to-curve, and whether a
   KZG proof verifies -- those are cryptographic functions with no useful statement here.  For
   them `dec = FALSE` and only status, gas and output length are stated.  Four inputs are taken as
   *known valid* on the authority of their sources, not of this module: the ecrecover vector of
   the Ethereum test suite (EcVec), the c-kzg-4844 "correct proof" vector (KzgVec), the bn254
   generator (1,2) and the BLS12-381 G1 generator of EIP-2537.

   Bytes.  An input (and a decided output) is a *descriptor*: a sequence of segments
       [k |-> "lit", v |-> <<b1, ..., bn>>]      these bytes
       [k |-> "rep", b |-> byte, n |-> count]    count copies of byte
       [k |-> "ramp", n |-> count]               the bytes (7*j + 1) mod 256, j = 0 .. count-1
   which the harness expands by concatenation.  All semantics below read descriptors through
   ByteAt / Read, which return 0 beyond the end: the "infinitely zero-padded input" of EIP-196/198.

   Numbers.  TLC integers are 32-bit.  Gas limits of the model are below 2^31.  A 32-byte length
   field of modexp is either *small* (< 2^24, computed exactly) or *huge* (>= 2^40: some byte of
   weight >= 2^40 is set), in which case the defined cost exceeds every gas limit of the model (see
   Modexp); lengths in between are outside the modelled domain and are never generated
   (invariant AllDecided).

   Shape of the state machine.  An initial state selects (precompile, hardfork, part); the single
   action Call performs one call chosen from the input families of that selection with a gas limit
   chosen around the defined cost, records it in `last` and prints it as an EDGE line
   (hist = <<>>: calls are independent, a precompile has no state).  The invariants at the end are
   the clauses of the property, checked by TLC on every call of the table. *)
EXTENDS Integers, Sequences, FiniteSets, TLC, Json

CONSTANTS DirectForks,      \* fork names for which the precompile *function* is called (the seven price sets)
          EvmForks,         \* fork names (revm SpecId) for which a contract CALLs the precompile in a real Evm
          ModexpFullForks,  \* forks that get the full modexp length/padding family (others: a reduced one)
          FullCuts,         \* BOOLEAN: all truncation points of the modexp family, or the main ones
          WideGas,          \* BOOLEAN: modexp family gas limits {0, c-1, c, c+1, Big} instead of {c-1, c}
          RichVals,         \* BOOLEAN: more operand values in the modexp family
          MsmKs             \* numbers of pairs tried for the BLS12-381 MSM / pairing gas formulas

VARIABLES sel, last, hist
vars == <<sel, last, hist>>

Max(a, b) == IF a > b THEN a ELSE b
Min(a, b) == IF a < b THEN a ELSE b
Big == 2000000000                 \* "ample gas" (below 2^31)

------------------------------------------------------------------------------
(* Hardforks (revm SpecId names, activation order).  LATEST is documented by the code under test as
   "the newest set" = PRAGUE in this version. *)
ForkOrder == << "FRONTIER", "FRONTIER_THAWING", "HOMESTEAD", "DAO_FORK", "TANGERINE",
                "SPURIOUS_DRAGON", "BYZANTIUM", "CONSTANTINOPLE", "PETERSBURG", "ISTANBUL",
                "MUIR_GLACIER", "BERLIN", "LONDON", "ARROW_GLACIER", "GRAY_GLACIER", "MERGE",
                "SHANGHAI", "CANCUN", "PRAGUE", "LATEST" >>
Rank(f) == CHOOSE i \in 1..Len(ForkOrder) : ForkOrder[i] = f
AtLeast(f, g) == Rank(f) >= Rank(g)
Forks == DirectForks \cup EvmForks

(* The precompiles: name, address, the fork that introduced it.
   1-4 Frontier (Yellow Paper); 5-8 Byzantium (EIP-198, 196, 197); 9 Istanbul (EIP-152);
   10 Cancun (EIP-4844); 11-17 Prague (EIP-2537, final address assignment 0x0b..0x11).
   "unassigned" stands for addresses that are no precompile in any fork (0 and 0x12). *)
Table == <<
  [name |-> "ecrecover",   addr |-> 1,  since |-> "FRONTIER"],
  [name |-> "sha256",      addr |-> 2,  since |-> "FRONTIER"],
  [name |-> "ripemd160",   addr |-> 3,  since |-> "FRONTIER"],
  [name |-> "identity",    addr |-> 4,  since |-> "FRONTIER"],
  [name |-> "modexp",      addr |-> 5,  since |-> "BYZANTIUM"],
  [name |-> "bn_add",      addr |-> 6,  since |-> "BYZANTIUM"],
  [name |-> "bn_mul",      addr |-> 7,  since |-> "BYZANTIUM"],
  [name |-> "bn_pairing",  addr |-> 8,  since |-> "BYZANTIUM"],
  [name |-> "blake2f",     addr |-> 9,  since |-> "ISTANBUL"],
  [name |-> "kzg",         addr |-> 10, since |-> "CANCUN"],
  [name |-> "bls_g1add",   addr |-> 11, since |-> "PRAGUE"],
  [name |-> "bls_g1msm",   addr |-> 12, since |-> "PRAGUE"],
  [name |-> "bls_g2add",   addr |-> 13, since |-> "PRAGUE"],
  [name |-> "bls_g2msm",   addr |-> 14, since |-> "PRAGUE"],
  [name |-> "bls_pairing", addr |-> 15, since |-> "PRAGUE"],
  [name |-> "bls_map_fp",  addr |-> 16, since |-> "PRAGUE"],
  [name |-> "bls_map_fp2", addr |-> 17, since |-> "PRAGUE"],
  [name |-> "unassigned",  addr |-> 0,  since |-> "NEVER"],
  [name |-> "unassigned",  addr |-> 18, since |-> "NEVER"] >>
Exists(pc, f) == pc.since # "NEVER" /\ AtLeast(f, pc.since)

------------------------------------------------------------------------------
(* Bytes and descriptors *)
Rep(b, n) == << [k |-> "rep", b |-> b, n |-> n] >>
Lit(v)    == << [k |-> "lit", v |-> v] >>
Ramp(n)   == << [k |-> "ramp", n |-> n] >>
Zeros(n)  == [i \in 1..n |-> 0]

SegLen(s) == IF s.k = "lit" THEN Len(s.v) ELSE s.n
SegByte(s, j) == IF s.k = "lit" THEN s.v[j + 1] ELSE IF s.k = "rep" THEN s.b ELSE (7 * j + 1) % 256
RECURSIVE DLen(_)
DLen(d) == IF d = <<>> THEN 0 ELSE SegLen(Head(d)) + DLen(Tail(d))
RECURSIVE ByteAt(_, _)                       \* j is 0-based; 0 beyond the end of the input
ByteAt(d, j) == IF d = <<>> THEN 0
                ELSE IF j < SegLen(Head(d)) THEN SegByte(Head(d), j)
                ELSE ByteAt(Tail(d), j - SegLen(Head(d)))
Read(d, off, n) == [i \in 1..n |-> ByteAt(d, off + i - 1)]     \* n bytes at offset off, zero-padded
Bytes(d) == Read(d, 0, DLen(d))

AllZero(w) == \A i \in 1..Len(w) : w[i] = 0
AllZeroD(d) == \A i \in 1..Len(d) :
    LET s == d[i] IN IF s.k = "lit" THEN AllZero(s.v) ELSE IF s.k = "rep" THEN s.b = 0 \/ s.n = 0 ELSE s.n = 0
(* big-endian comparison of two byte strings of the same length *)
Lt(a, b) == \E i \in 1..Len(a) : a[i] < b[i] /\ \A j \in 1..(i - 1) : a[j] = b[j]
(* a byte string whose value is below 2^24, and that value *)
IsSmall(w) == \A i \in 1..(Len(w) - 3) : w[i] = 0
ValSmall(w) == LET n == Len(w) IN (IF n >= 3 THEN w[n - 2] * 65536 ELSE 0) + (IF n >= 2 THEN w[n - 1] * 256 ELSE 0)
                                  + (IF n >= 1 THEN w[n] ELSE 0)
(* n-byte big-endian encoding of v < 2^24 *)
Pow256(e) == IF e = 0 THEN 1 ELSE IF e = 1 THEN 256 ELSE 65536
Enc(v, n) == [i \in 1..n |-> IF n - i >= 3 THEN 0 ELSE (v \div Pow256(n - i)) % 256]
BitLen8(b) == IF b >= 128 THEN 8 ELSE IF b >= 64 THEN 7 ELSE IF b >= 32 THEN 6 ELSE IF b >= 16 THEN 5
              ELSE IF b >= 8 THEN 4 ELSE IF b >= 4 THEN 3 ELSE IF b >= 2 THEN 2 ELSE IF b >= 1 THEN 1 ELSE 0
BitLen(w) == IF AllZero(w) THEN 0
             ELSE LET i == CHOOSE i \in 1..Len(w) : w[i] # 0 /\ \A j \in 1..(i - 1) : w[j] = 0
                  IN 8 * (Len(w) - i) + BitLen8(w[i])
Words(n) == (n + 31) \div 32

(* Constants of the curves and the trusted vectors (byte strings, big-endian). *)
SecpN == <<255,255,255,255,255,255,255,255,255,255,255,255,255,255,255,254,186,174,220,230,175,72,160,59,191,210,94,140,208,54,65,65>>
BnP == <<48,100,78,114,225,49,160,41,184,80,69,182,129,129,88,93,151,129,106,145,104,113,202,141,60,32,140,22,216,124,253,71>>
BnN == <<48,100,78,114,225,49,160,41,184,80,69,182,129,129,88,93,40,51,232,72,121,185,112,145,67,225,245,147,240,0,0,1>>
BlsP == <<26,1,17,234,57,127,230,154,75,27,167,182,67,75,172,215,100,119,75,132,243,133,18,191,103,48,210,160,246,176,246,36,30,171,255,254,177,83,255,255,185,254,255,255,255,255,170,171>>
BlsG1x == <<23,241,211,167,49,151,215,148,38,149,99,140,79,169,172,15,195,104,140,79,151,116,185,5,161,78,58,63,23,27,172,88,108,85,232,63,249,122,26,239,251,58,240,10,219,34,198,187>>
BlsG1y == <<8,179,244,129,227,170,160,241,160,158,48,237,116,29,138,228,252,245,224,149,213,208,10,246,0,219,24,203,44,4,179,237,208,60,199,68,162,136,138,228,12,170,35,41,70,197,231,225>>
(* hash(32) v(32) r(32) s(32): "ValidKey" of the Ethereum precompile tests *)
EcVec == <<69,110,154,234,94,25,122,31,26,247,163,232,90,50,18,250,64,73,163,186,52,194,40,155,76,134,15,192,176,198,78,243,0,0,0,0,0,0,0,0,0,0,0,0,0,0,0,0,0,0,0,0,0,0,0,0,0,0,0,0,0,0,0,28,146,66,104,91,241,97,121,60,194,86,3,194,49,188,47,86,142,182,48,234,22,170,19,125,38,100,172,128,56,130,86,8,79,138,227,189,117,53,36,141,11,212,72,41,140,194,226,7,30,86,153,45,7,116,220,52,12,54,138,233,80,133,42,218>>
(* versioned_hash(32) z(32) y(32) commitment(48) proof(48): c-kzg-4844 verify_kzg_proof_case_correct_proof_31ebd010e6098750 *)
KzgVec == <<1,231,152,21,71,8,254,119,137,66,150,52,5,60,191,159,153,182,25,249,240,132,4,137,39,51,63,206,99,127,84,155,115,237,167,83,41,157,125,72,51,57,216,8,9,161,216,5,83,189,164,2,255,254,91,254,255,255,255,255,0,0,0,0,21,34,164,167,243,78,30,163,80,174,7,194,156,150,199,231,150,85,170,146,97,34,233,95,230,159,203,217,50,202,73,233,143,89,168,210,161,166,37,161,127,63,234,15,229,235,140,137,109,179,118,79,49,133,72,27,194,47,145,180,170,255,204,162,95,38,147,104,87,188,58,124,37,57,234,142,195,169,82,183,166,42,215,29,20,197,113,147,133,192,104,111,24,113,67,4,117,191,58,0,240,170,63,123,141,217,154,154,188,33,96,116,79,175,0,112,114,94,0,182,10,217,160,38,161,91,26,140>>
(* EIP-4844: FIELD_ELEMENTS_PER_BLOB (4096) and BLS_MODULUS as two 32-byte big-endian words *)
KzgRet == <<0,0,0,0,0,0,0,0,0,0,0,0,0,0,0,0,0,0,0,0,0,0,0,0,0,0,0,0,0,0,16,0,115,237,167,83,41,157,125,72,51,57,216,8,9,161,216,5,83,189,164,2,255,254,91,254,255,255,255,255,0,0,0,1>>

------------------------------------------------------------------------------
(* Plans and results.
   What an EIP defines for one input of one precompile is gas-independent: whether the input is
   valid, the cost, and the answer.  That is a *plan*:

     normal     [invalid, cost, outlen, dec, out]: the cost the EIP defines for the input (0 where it
                defines none, e.g. a BLAKE2 input of the wrong length); if the input is valid, the
                answer (its length; its bytes where `dec`ided by this module)
     beyond     the defined cost exceeds every gas limit of the model (>= 2^31)
     unfit      modexp lengths that do not fit 64 bits (cost beyond any limit; see Modexp)
     absent     the address is no precompile in this fork
     undecided  outside the domain of this module (never generated: invariant AllDecided)

   Decide turns a plan and a gas limit into the result of the call -- the one rule common to all
   precompiles, which is the property's sentence: invalid input fails; otherwise out of gas
   exactly when the cost exceeds the limit; otherwise the answer, charging the cost. *)
Plan(kind, invalid, cost, outlen, dec, out) ==
    [kind |-> kind, invalid |-> invalid, cost |-> cost, outlen |-> outlen, dec |-> dec, out |-> out]
POk(cost, n)     == Plan("normal", FALSE, cost, n, FALSE, <<>>)          \* answer of n bytes, bytes not decided
POkOut(cost, d)  == Plan("normal", FALSE, cost, DLen(d), TRUE, d)        \* answer d
PInvalid(cost)   == Plan("normal", TRUE, cost, 0, TRUE, <<>>)
PBeyond(invalid) == Plan("beyond", invalid, 0, 0, TRUE, <<>>)
PUnfit           == Plan("unfit", TRUE, 0, 0, TRUE, <<>>)
PAbsent          == Plan("absent", FALSE, 0, 0, TRUE, <<>>)
PUndef           == Plan("undecided", FALSE, 0, 0, FALSE, <<>>)

Res(st, gas, outlen, dec, out) == [st |-> st, gas |-> gas, outlen |-> outlen, dec |-> dec, out |-> out]
Failure(st) == Res(st, 0, 0, TRUE, <<>>)
(* "fails": invalid input AND not enough gas for the defined cost.  The call fails; which of the two
   reasons is reported is not a property of the EIPs (both consume all the gas). *)
Decide(p, g) ==
    CASE p.kind = "absent"    -> Failure("absent")
      [] p.kind = "undecided" -> Failure("undecided")
      [] p.kind = "unfit"     -> Failure("fails")
      [] p.kind = "beyond"    -> IF p.invalid THEN Failure("fails") ELSE Failure("oog")
      [] p.kind = "normal"    ->
           IF p.invalid THEN (IF p.cost > g THEN Failure("fails") ELSE Failure("fail"))
           ELSE IF p.cost > g THEN Failure("oog")
           ELSE Res("ok", p.cost, p.outlen, p.dec, p.out)

------------------------------------------------------------------------------
(* 0x01 ecrecover (Yellow Paper appendix E): 3000 gas; input read as 128 zero-padded bytes
   h, v, r, s; if v is not 27/28 or r, s are not in [1, secp256k1n - 1] the output is empty;
   never an error. *)
Ecrecover(d) ==
    LET w == Read(d, 0, 128)
        v == SubSeq(w, 33, 64)    r == SubSeq(w, 65, 96)    s == SubSeq(w, 97, 128)
        vOk == AllZero(SubSeq(v, 1, 31)) /\ v[32] \in {27, 28}
        rsOk == ~AllZero(r) /\ ~AllZero(s) /\ Lt(r, SecpN) /\ Lt(s, SecpN)
    IN IF ~vOk \/ ~rsOk THEN POkOut(3000, <<>>)
       ELSE IF w = EcVec THEN POk(3000, 32)          \* a recoverable signature: a 32-byte answer
       ELSE PUndef

(* 0x02 SHA-256: 60 + 12 per word; 0x03 RIPEMD-160: 600 + 120 per word, 32-byte (left-padded) answer;
   0x04 identity: 15 + 3 per word, the answer is the input. *)
Sha256(d)    == POk(60 + 12 * Words(DLen(d)), 32)
Ripemd160(d) == POk(600 + 120 * Words(DLen(d)), 32)
Identity(d)  == POkOut(15 + 3 * Words(DLen(d)), d)

------------------------------------------------------------------------------
(* 0x05 modexp.  EIP-198 (Byzantium): input = three 32-byte lengths Lb, Le, Lm, then base,
   exponent, modulus of those lengths, everything read from the zero-padded input; output =
   base^exponent mod modulus as Lm bytes (all zero if the modulus is 0; 0^0 = 1).
     gas = floor(mult_complexity(max(Lm, Lb)) * max(ADJUSTED_EXPONENT_LENGTH, 1) / 20)
   EIP-2565 (Berlin): gas = max(200, floor(ceil(max(Lb, Lm)/8)^2 * iteration_count / 3)).
   The adjusted exponent length / iteration count uses the FIRST 32 bytes of the exponent (EIP-198
   text; the pseudocode of EIP-2565 writes `exponent & (2**256 - 1)`, which every client and the
   consensus tests read as the leading 32 bytes). *)
MultComplexity198(x) ==
    IF x <= 64 THEN x * x
    ELSE IF x <= 1024 THEN (x * x) \div 4 + 96 * x - 3072
    ELSE (x * x) \div 16 + 480 * x - 199680
AdjExpLen(el, head) ==          \* head = the first min(el, 32) bytes of the exponent
    LET hi == IF AllZero(head) THEN 0 ELSE BitLen(head) - 1
    IN IF el <= 32 THEN hi ELSE 8 * (el - 32) + hi
Cost198(bl, el, ml, head)  == (MultComplexity198(Max(bl, ml)) * Max(AdjExpLen(el, head), 1)) \div 20
Cost2565(bl, el, ml, head) ==
    LET w == (Max(bl, ml) + 7) \div 8 IN Max(200, (w * w * Max(AdjExpLen(el, head), 1)) \div 3)

(* base^exponent mod m for m < 2^15, on byte strings of any length *)
RECURSIVE HornerMod(_, _, _, _)
HornerMod(w, i, acc, m) == IF i > Len(w) THEN acc ELSE HornerMod(w, i + 1, (acc * 256 + w[i]) % m, m)
RECURSIVE PowBits(_, _, _, _, _)            \* the 8 bits of one exponent byte, most significant first
PowBits(acc, b, byte, k, m) ==
    IF k < 0 THEN acc
    ELSE LET sq == (acc * acc) % m
             nx == IF (byte \div (2 ^ k)) % 2 = 1 THEN (sq * b) % m ELSE sq
         IN PowBits(nx, b, byte, k - 1, m)
RECURSIVE PowBytes(_, _, _, _, _)
PowBytes(e, i, acc, b, m) == IF i > Len(e) THEN acc ELSE PowBytes(e, i + 1, PowBits(acc, b, e[i], 7, m), b, m)
ModExpVal(bb, ee, m) == PowBytes(ee, 1, 1 % m, HornerMod(bb, 1, 0, m), m)

HugeLen(w) == \E i \in 1..27 : w[i] # 0          \* >= 2^40
Fits64(w)  == AllZero(SubSeq(w, 1, 24))

Modexp(f, d) ==
    LET new == AtLeast(f, "BERLIN")
        floor == IF new THEN 200 ELSE 0
        wb == Read(d, 0, 32)   we == Read(d, 32, 32)   wm == Read(d, 64, 32)
    IN
    IF AllZero(wb) /\ AllZero(wm)
    THEN  \* Lb = Lm = 0: the complexity factor is 0 whatever the exponent length; the output is empty
         POkOut(floor, <<>>)
    ELSE IF HugeLen(wb) \/ HugeLen(we) \/ HugeLen(wm)
    THEN (* A length >= 2^40 with max(Lb, Lm) >= 1: the cost is at least 8*2^40/20 > 2^31, more than
            any gas limit of the model: out of gas (EIP-198: "if the lengths are so large...").
            Lengths that do not even fit 64 bits: the implementation may report them as an error
            of its own instead (documented in modexp.rs); either way the call fails. *)
         IF Fits64(wb) /\ Fits64(we) /\ Fits64(wm) THEN PBeyond(FALSE) ELSE PUnfit
    ELSE IF ~(IsSmall(wb) /\ IsSmall(we) /\ IsSmall(wm)) THEN PUndef
    ELSE
      LET bl == ValSmall(wb)   el == ValSmall(we)   ml == ValSmall(wm)
          head == Read(d, 96 + bl, Min(el, 32))
          cost == IF new THEN Cost2565(bl, el, ml, head) ELSE Cost198(bl, el, ml, head)
          mb == Read(d, 96 + bl + el, ml)
      IN IF ml = 0 THEN POkOut(cost, <<>>)
         ELSE IF AllZero(mb) THEN POkOut(cost, Rep(0, ml))          \* modulus 0: zeros
         ELSE IF ~(IsSmall(mb) /\ ValSmall(mb) < 32768) THEN POk(cost, ml)   \* value not computed here
         ELSE LET m == ValSmall(mb)
                  v == ModExpVal(Read(d, 96, bl), Read(d, 96 + bl, el), m)
              IN POkOut(cost, Lit(Enc(v, ml)))

------------------------------------------------------------------------------
(* 0x06-0x08 alt_bn128 (EIP-196, EIP-197; prices lowered by EIP-1108 in Istanbul).
   A G1 point is two 32-byte coordinates; (0,0) is the point at infinity; a coordinate >= the
   field modulus or a point off the curve y^2 = x^3 + 3 is invalid.  For coordinates < 2^10 the
   curve equation is decided over the integers (both sides are far below the modulus). *)
BnG1(w) ==
    LET x == SubSeq(w, 1, 32)   y == SubSeq(w, 33, 64) IN
    IF ~Lt(x, BnP) \/ ~Lt(y, BnP) THEN "bad"
    ELSE IF AllZero(w) THEN "inf"
    ELSE IF IsSmall(x) /\ IsSmall(y) /\ ValSmall(x) < 1024 /\ ValSmall(y) < 1024
         THEN LET vx == ValSmall(x)  vy == ValSmall(y)
              IN IF vy * vy # vx * vx * vx + 3 THEN "bad" ELSE IF vx = 1 /\ vy = 2 THEN "gen" ELSE "unk"
    ELSE "unk"
BnGen == Enc(1, 32) \o Enc(2, 32)
(* a G2 point: four coordinates; all zero = infinity; nothing else is decided here but the range *)
BnG2(w) == IF \E i \in 0..3 : ~Lt(SubSeq(w, 32 * i + 1, 32 * i + 32), BnP) THEN "bad"
           ELSE IF AllZero(w) THEN "inf" ELSE "unk"

BnAdd(f, d) ==
    LET cost == IF AtLeast(f, "ISTANBUL") THEN 150 ELSE 500
        w == Read(d, 0, 128)                           \* zero-padded / truncated to 128 bytes
        a == BnG1(SubSeq(w, 1, 64))   b == BnG1(SubSeq(w, 65, 128))
    IN IF a = "bad" \/ b = "bad" THEN PInvalid(cost)
       ELSE IF a = "inf" /\ b = "inf" THEN POkOut(cost, Rep(0, 64))                         \* O + O = O
       ELSE IF (a = "inf" /\ b = "gen") \/ (a = "gen" /\ b = "inf") THEN POkOut(cost, Lit(BnGen))   \* P + O = P
       ELSE IF a = "gen" /\ b = "gen" THEN POk(cost, 64)
       ELSE PUndef

BnMul(f, d) ==
    LET cost == IF AtLeast(f, "ISTANBUL") THEN 6000 ELSE 40000
        w == Read(d, 0, 96)
        a == BnG1(SubSeq(w, 1, 64))    s == SubSeq(w, 65, 96)
    IN IF a = "bad" THEN PInvalid(cost)
       ELSE IF a = "inf" THEN POkOut(cost, Rep(0, 64))
       ELSE IF a # "gen" THEN PUndef
       ELSE IF AllZero(s) \/ s = BnN THEN POkOut(cost, Rep(0, 64))                          \* 0*P = n*P = O
       ELSE IF s = Enc(1, 32) \/ s = [BnN EXCEPT ![32] = 2] THEN POkOut(cost, Lit(BnGen))   \* 1*P = (n+1)*P = P
       ELSE POk(cost, 64)

One32 == Lit(Enc(1, 32))
BnPairing(f, d) ==
    LET len == DLen(d)    k == len \div 192
        cost == IF AtLeast(f, "ISTANBUL") THEN 45000 + 34000 * k ELSE 100000 + 80000 * k
        A(i) == BnG1(Read(d, 192 * i, 64))       B(i) == BnG2(Read(d, 192 * i + 64, 128))
    IN IF len % 192 # 0 THEN PInvalid(cost)
       ELSE IF AllZeroD(d) THEN POkOut(cost, One32)          \* k pairs (O, O); k = 0: the empty product
       ELSE IF k > 3 THEN PUndef
       ELSE IF \E i \in 0..(k - 1) : A(i) = "bad" \/ B(i) = "bad" THEN PInvalid(cost)
       ELSE IF \A i \in 0..(k - 1) : A(i) \in {"inf", "gen"} /\ B(i) = "inf" THEN POkOut(cost, One32)   \* e(P, O) = 1
       ELSE PUndef

------------------------------------------------------------------------------
(* 0x09 BLAKE2 F (EIP-152): exactly 213 bytes, rounds = the first 4 bytes big-endian, the last
   byte is the final-block flag and must be 0 or 1; gas = rounds; 64-byte answer. *)
Blake2f(d) ==
    LET len == DLen(d)     w == Read(d, 0, 4)     flag == ByteAt(d, 212) IN
    IF len # 213 THEN PInvalid(0)                                  \* no cost is defined for it
    ELSE IF w[1] >= 128 THEN PBeyond(flag \notin {0, 1})           \* rounds >= 2^31
    ELSE LET rounds == ((w[1] * 256 + w[2]) * 256 + w[3]) * 256 + w[4]
         IN IF flag \notin {0, 1} THEN PInvalid(rounds) ELSE POk(rounds, 64)

(* 0x0a KZG point evaluation (EIP-4844): 50000 gas; exactly 192 bytes; the versioned hash must be
   0x01 || sha256(commitment)[1..] (so in particular start with 0x01); the proof must verify; the
   answer is the constant KzgRet. *)
Kzg(d) ==
    IF DLen(d) # 192 \/ ByteAt(d, 0) # 1 THEN PInvalid(50000)
    ELSE IF Bytes(d) = KzgVec THEN POkOut(50000, Lit(KzgRet))
    ELSE PUndef

------------------------------------------------------------------------------
(* 0x0b-0x11 BLS12-381 (EIP-2537, final version).  A field element is 64 bytes: 16 zero bytes and
   a 48-byte big-endian number below the field modulus.  G1 point = 2 elements (128 bytes), G2
   point = 4 elements (256 bytes), all-zero = infinity.  Inputs must have exactly the stated
   length.  G1 curve: y^2 = x^3 + 4.
     G1ADD 375, G2ADD 600, MAP_FP_TO_G1 5500, MAP_FP2_TO_G2 23800,
     G1MSM / G2MSM: k * 12000 (22500) * discount(k) / 1000, PAIRING_CHECK: 32600*k + 37700. *)
BlsFpBad(w) == ~AllZero(SubSeq(w, 1, 16)) \/ ~Lt(SubSeq(w, 17, 64), BlsP)
BlsG1(w) ==
    LET x == SubSeq(w, 1, 64)    y == SubSeq(w, 65, 128) IN
    IF BlsFpBad(x) \/ BlsFpBad(y) THEN "bad"
    ELSE IF AllZero(w) THEN "inf"
    ELSE IF SubSeq(x, 17, 64) = BlsG1x /\ SubSeq(y, 17, 64) = BlsG1y THEN "gen"
    ELSE IF IsSmall(x) /\ IsSmall(y) /\ ValSmall(x) < 1024 /\ ValSmall(y) < 1024
         THEN LET vx == ValSmall(x)  vy == ValSmall(y)
              IN IF vy * vy # vx * vx * vx + 4 THEN "bad" ELSE "unk"     \* on the curve; subgroup unknown
    ELSE "unk"
BlsG1Gen == Zeros(16) \o BlsG1x \o Zeros(16) \o BlsG1y
BlsG2(w) == IF \E i \in 0..3 : BlsFpBad(SubSeq(w, 64 * i + 1, 64 * i + 64)) THEN "bad"
            ELSE IF AllZero(w) THEN "inf" ELSE "unk"

G1Add(d) ==
    LET a == BlsG1(Read(d, 0, 128))   b == BlsG1(Read(d, 128, 128)) IN
    IF DLen(d) # 256 THEN PInvalid(375)
    ELSE IF a = "bad" \/ b = "bad" THEN PInvalid(375)
    ELSE IF a = "inf" /\ b = "inf" THEN POkOut(375, Rep(0, 128))
    ELSE IF (a = "inf" /\ b = "gen") \/ (a = "gen" /\ b = "inf") THEN POkOut(375, Lit(BlsG1Gen))
    ELSE IF a = "gen" /\ b = "gen" THEN POk(375, 128)
    ELSE PUndef
G2Add(d) ==
    LET a == BlsG2(Read(d, 0, 256))   b == BlsG2(Read(d, 256, 256)) IN
    IF DLen(d) # 512 THEN PInvalid(600)
    ELSE IF a = "bad" \/ b = "bad" THEN PInvalid(600)
    ELSE IF a = "inf" /\ b = "inf" THEN POkOut(600, Rep(0, 256))
    ELSE PUndef

(* MSM: k >= 1 pairs (point, 32-byte scalar); the discount tables of the EIP, k capped at 128. *)
DiscountG1 == <<
  1000, 949, 848, 797, 764, 750, 738, 728, 719, 712, 705, 698, 692, 687, 682, 677, 673, 669, 665,
  661, 658, 654, 651, 648, 645, 642, 640, 637, 635, 632, 630, 627, 625, 623, 621, 619, 617, 615,
  613, 611, 609, 608, 606, 604, 603, 601, 599, 598, 596, 595, 593, 592, 591, 589, 588, 586, 585,
  584, 582, 581, 580, 579, 577, 576, 575, 574, 573, 572, 570, 569, 568, 567, 566, 565, 564, 563,
  562, 561, 560, 559, 558, 557, 556, 555, 554, 553, 552, 551, 550, 549, 548, 547, 547, 546, 545,
  544, 543, 542, 541, 540, 540, 539, 538, 537, 536, 536, 535, 534, 533, 532, 532, 531, 530, 529,
  528, 528, 527, 526, 525, 525, 524, 523, 522, 522, 521, 520, 520, 519 >>
DiscountG2 == <<
  1000, 1000, 923, 884, 855, 832, 812, 796, 782, 770, 759, 749, 740, 732, 724, 717, 711, 704,
  699, 693, 688, 683, 679, 674, 670, 666, 663, 659, 655, 652, 649, 646, 643, 640, 637, 634, 632,
  629, 627, 624, 622, 620, 618, 615, 613, 611, 609, 607, 606, 604, 602, 600, 598, 597, 595, 593,
  592, 590, 589, 587, 586, 584, 583, 582, 580, 579, 578, 576, 575, 574, 573, 571, 570, 569, 568,
  567, 566, 565, 563, 562, 561, 560, 559, 558, 557, 556, 555, 554, 553, 552, 552, 551, 550, 549,
  548, 547, 546, 545, 545, 544, 543, 542, 541, 541, 540, 539, 538, 537, 537, 536, 535, 535, 534,
  533, 532, 532, 531, 530, 530, 529, 528, 528, 527, 526, 526, 525, 524, 524 >>
MsmCost(k, mul, table) == IF k = 0 THEN 0 ELSE (k * mul * table[Min(k, 128)]) \div 1000

G1Msm(d) ==
    LET len == DLen(d)    k == len \div 160    cost == MsmCost(k, 12000, DiscountG1)
        P(i) == BlsG1(Read(d, 160 * i, 128))     S(i) == Read(d, 160 * i + 128, 32)
        live == {i \in 0..(k - 1) : P(i) # "inf" /\ ~AllZero(S(i))}       \* pairs that contribute
    IN IF len = 0 \/ len % 160 # 0 THEN PInvalid(cost)
       ELSE IF AllZeroD(d) THEN POkOut(cost, Rep(0, 128))                \* sum of 0*O
       ELSE IF k > 3 THEN PUndef
       ELSE IF \E i \in 0..(k - 1) : P(i) = "bad" THEN PInvalid(cost)
       ELSE IF \E i \in 0..(k - 1) : P(i) = "unk" THEN PUndef           \* subgroup membership not decided
       ELSE IF live = {} THEN POkOut(cost, Rep(0, 128))
       ELSE IF \E i \in live : live = {i} /\ S(i) = Enc(1, 32) THEN POkOut(cost, Lit(BlsG1Gen))
       ELSE POk(cost, 128)
G2Msm(d) ==
    LET len == DLen(d)    k == len \div 288    cost == MsmCost(k, 22500, DiscountG2)
        P(i) == BlsG2(Read(d, 288 * i, 256))
    IN IF len = 0 \/ len % 288 # 0 THEN PInvalid(cost)
       ELSE IF AllZeroD(d) THEN POkOut(cost, Rep(0, 256))
       ELSE IF k > 3 THEN PUndef
       ELSE IF \E i \in 0..(k - 1) : P(i) = "bad" THEN PInvalid(cost)
       ELSE IF \A i \in 0..(k - 1) : P(i) = "inf" THEN POkOut(cost, Rep(0, 256))
       ELSE PUndef

(* pairing check: k >= 1 pairs (G1, G2) of 384 bytes; answer 0/1 as 32 bytes *)
BlsPairing(d) ==
    LET len == DLen(d)    k == len \div 384    cost == 32600 * k + 37700
        A(i) == BlsG1(Read(d, 384 * i, 128))     B(i) == BlsG2(Read(d, 384 * i + 128, 256))
    IN IF len = 0 THEN PInvalid(0)
       ELSE IF len % 384 # 0 THEN PInvalid(cost)
       ELSE IF AllZeroD(d) THEN POkOut(cost, One32)
       ELSE IF k > 3 THEN PUndef
       ELSE IF \E i \in 0..(k - 1) : A(i) = "bad" \/ B(i) = "bad" THEN PInvalid(cost)
       ELSE IF \A i \in 0..(k - 1) : A(i) \in {"inf", "gen"} /\ B(i) = "inf" THEN POkOut(cost, One32)
       ELSE PUndef

MapFp(d) ==
    IF DLen(d) # 64 THEN PInvalid(5500)
    ELSE IF BlsFpBad(Read(d, 0, 64)) THEN PInvalid(5500) ELSE POk(5500, 128)
MapFp2(d) ==
    IF DLen(d) # 128 THEN PInvalid(23800)
    ELSE IF BlsFpBad(Read(d, 0, 64)) \/ BlsFpBad(Read(d, 64, 64)) THEN PInvalid(23800) ELSE POk(23800, 256)

------------------------------------------------------------------------------
(* The plan of address pc.addr in hardfork f, and the answer to a call with gas limit g. *)
PlanOf(pc, f, d) ==
    IF ~Exists(pc, f) THEN PAbsent
    ELSE CASE pc.name = "ecrecover"   -> Ecrecover(d)
           [] pc.name = "sha256"      -> Sha256(d)
           [] pc.name = "ripemd160"   -> Ripemd160(d)
           [] pc.name = "identity"    -> Identity(d)
           [] pc.name = "modexp"      -> Modexp(f, d)
           [] pc.name = "bn_add"      -> BnAdd(f, d)
           [] pc.name = "bn_mul"      -> BnMul(f, d)
           [] pc.name = "bn_pairing"  -> BnPairing(f, d)
           [] pc.name = "blake2f"     -> Blake2f(d)
           [] pc.name = "kzg"         -> Kzg(d)
           [] pc.name = "bls_g1add"   -> G1Add(d)
           [] pc.name = "bls_g1msm"   -> G1Msm(d)
           [] pc.name = "bls_g2add"   -> G2Add(d)
           [] pc.name = "bls_g2msm"   -> G2Msm(d)
           [] pc.name = "bls_pairing" -> BlsPairing(d)
           [] pc.name = "bls_map_fp"  -> MapFp(d)
           [] pc.name = "bls_map_fp2" -> MapFp2(d)
Run(pc, f, d, g) == Decide(PlanOf(pc, f, d), g)

(* CALL.  What a contract that executes CALL(gas, addr, value 0, input) observes (Yellow Paper
   section 8 and appendix H, CALL; EIP-211 for the return data buffer): success 1 and the output
   when the precompile answers, with only the used gas consumed; success 0, empty return data and
   ALL the forwarded gas consumed when it runs out of gas or rejects the input; an address that is
   not a precompile is an account without code: success, nothing consumed, no data.
   `reason` is how the implementation names the outcome of the sub-call. *)
CallView(r, g) ==
    CASE r.st = "ok"     -> [success |-> 1, consumed |-> r.gas, outlen |-> r.outlen, reason |-> "Return"]
      [] r.st = "absent" -> [success |-> 1, consumed |-> 0, outlen |-> 0, reason |-> "Stop"]
      [] r.st = "oog"    -> [success |-> 0, consumed |-> g, outlen |-> 0, reason |-> "PrecompileOOG"]
      [] r.st = "fail"   -> [success |-> 0, consumed |-> g, outlen |-> 0, reason |-> "PrecompileError"]
      [] r.st = "fails"  -> [success |-> 0, consumed |-> g, outlen |-> 0, reason |-> "PrecompileFailure"]

------------------------------------------------------------------------------
(* Input families *)
Cat(a, b) == a \o b
Fp(v48) == Zeros(16) \o v48                              \* a BLS field element
SmallFp(v) == Zeros(16) \o Enc(v, 48)
BnPt(x, y) == Enc(x, 32) \o Enc(y, 32)
FF(n) == [i \in 1..n |-> 255]
Lens == {0, 1, 31, 32, 33, 64, 65}

EcInputs ==
    { <<>>, Rep(0, 128), Rep(0, 127), Ramp(200),
      Lit(EcVec),                                                      \* valid
      Lit(EcVec) \o Rep(255, 3),                                       \* valid, extra bytes ignored
      Lit([EcVec EXCEPT ![64] = 29]),                                  \* v = 29
      Lit([EcVec EXCEPT ![64] = 26]),
      Lit([EcVec EXCEPT ![33] = 1]),                                   \* v = 2^248 + 28
      Lit(SubSeq(EcVec, 1, 64) \o Zeros(32) \o SubSeq(EcVec, 97, 128)),   \* r = 0
      Lit(SubSeq(EcVec, 1, 96)),                                       \* s missing: read as 0
      Lit(SubSeq(EcVec, 1, 64) \o SecpN \o SubSeq(EcVec, 97, 128)),    \* r = n
      Lit(SubSeq(EcVec, 1, 96) \o SecpN),                              \* s = n
      Lit(SubSeq(EcVec, 1, 96) \o FF(32)) }
HashInputs == { Ramp(n) : n \in Lens } \cup { Rep(0, 1000) }

ModexpLens == {0, 1, 2, 32, 33}
More(S) == IF RichVals THEN S ELSE {}
BVals(n) == IF n = 0 THEN {0} ELSE IF n = 1 THEN {3} \cup More({0, 255}) ELSE {1000} \cup More({0, 3})
EVals(n) == IF n = 0 THEN {0} ELSE IF n = 1 THEN {0, 1, 5} \cup More({255}) ELSE IF n = 2 THEN {1, 1000}
            ELSE IF n = 32 THEN {0, 2, 1000} \cup More({1}) ELSE {1, 5, 1000}     \* 33 bytes: leading 32 bytes 0, 0, 3
MVals(n) == IF n = 0 THEN {0} ELSE IF n = 1 THEN {0, 1, 7} \cup More({255}) ELSE {0, 7, 1000}
Header(bl, el, ml) == Enc(bl, 32) \o Enc(el, 32) \o Enc(ml, 32)
MxFull(bl, el, ml, B, E, M) == Header(bl, el, ml) \o Enc(B, bl) \o Enc(E, el) \o Enc(M, ml)
Shape(full, c) == IF c <= Len(full) THEN SubSeq(full, 1, c) ELSE full \o FF(c - Len(full))
MxCuts(bl, el, ml) ==            \* complete, last byte missing, two extra bytes, (exponent and modulus missing)
    LET t == 96 + bl + el + ml IN
    {t, t + 2} \cup (IF t > 96 THEN {t - 1} ELSE {})
               \cup (IF FullCuts /\ el + ml > 1 THEN {96 + bl} ELSE {})
               \cup (IF FullCuts /\ el > 1 /\ ml > 0 THEN {96 + bl + 1} ELSE {})
ModexpMain(bl) ==
    UNION { UNION { UNION { UNION { UNION {
        { Lit(Shape(MxFull(bl, el, ml, B, E, M), c)) : c \in MxCuts(bl, el, ml) }
        : M \in MVals(ml) } : E \in EVals(el) } : B \in BVals(bl) } : ml \in ModexpLens } : el \in ModexpLens }
(* the header itself cut short (lengths are read from the zero-padded input) *)
ModexpHeaderCuts ==
    { Lit(SubSeq(Header(bl, el, ml), 1, c)) : bl \in {1, 33}, el \in {1, 33}, ml \in {1, 32}, c \in {0, 1, 31, 32, 63, 64, 95} }
    \cup { Lit(SubSeq(Header(1, 1, 256), 1, 95)), Lit(SubSeq(Header(256, 1, 1), 1, 31)), Lit(SubSeq(Header(1, 512, 1), 1, 63)) }
(* the three branches of mult_complexity and the word rounding of EIP-2565, with long zero operands *)
ModexpLong ==
    { Lit(Header(bl, 1, ml)) \o Rep(0, bl) \o Lit(<<e>>) \o Lit(Enc(7, ml))
        : bl \in {7, 8, 9, 63, 64, 65, 1023, 1024, 1025}, ml \in {1, 2, 72}, e \in {1, 255} }
    \cup { Lit(Header(1, el, 1)) \o Lit(<<3>>) \o Lit(<<h>>) \o Rep(0, el - 2) \o Lit(<<1>>) \o Lit(<<7>>)
        : el \in {31, 32, 33, 34, 100}, h \in {0, 1, 128} }
(* a 32-byte length with one byte set: position p (1 = most significant) *)
LenWord(p, v) == [Zeros(32) EXCEPT ![p] = v]
ModexpHuge ==
    { Lit(LenWord(p, 1) \o Enc(1, 32) \o Enc(1, 32) \o <<3, 1, 7>>) : p \in {1, 24, 25, 27} } \cup
    { Lit(Enc(1, 32) \o LenWord(p, 1) \o Enc(1, 32) \o <<3, 1, 7>>) : p \in {1, 24, 25, 27} } \cup
    { Lit(Enc(1, 32) \o Enc(1, 32) \o LenWord(p, 128) \o <<3, 1, 7>>) : p \in {1, 24, 25, 27} } \cup
    { Lit(Enc(0, 32) \o LenWord(p, 255) \o Enc(0, 32)) : p \in {1, 24, 25, 27} } \cup     \* only the exponent is long: cost 0 / 200
    { Lit(Enc(0, 32) \o FF(32) \o Enc(0, 32)), Lit(FF(32) \o FF(32) \o FF(32)),
      Lit(Zeros(24) \o FF(8) \o Enc(1, 32) \o Enc(1, 32)), Lit(Enc(1, 32) \o Enc(1, 32) \o Zeros(24) \o FF(8)) }
ModexpReduced ==
    { <<>>, Lit(MxFull(1, 1, 1, 3, 5, 7)), Lit(MxFull(2, 33, 2, 1000, 1000, 1000)), Lit(MxFull(33, 32, 33, 3, 2, 7)),
      Lit(MxFull(32, 1, 32, 3, 5, 0)), Lit(SubSeq(MxFull(1, 2, 2, 3, 1000, 1000), 1, 100)),
      Lit(MxFull(1, 1, 0, 3, 5, 0)), Lit(MxFull(0, 0, 1, 0, 0, 7)) }
ModexpInputs(f, part) ==
    IF part = 100 THEN ModexpHeaderCuts \cup ModexpLong \cup ModexpHuge \cup ModexpReduced
    ELSE ModexpMain(part)
ModexpParts(f) == IF f \in ModexpFullForks THEN ModexpLens \cup {100} ELSE {100}

BnAddInputs ==
    { <<>>, Rep(0, 128), Rep(0, 64), Rep(0, 130),
      Lit(BnPt(1, 2)),                                       \* G + O by zero padding
      Lit(BnPt(1, 2) \o Zeros(64)), Lit(Zeros(64) \o BnPt(1, 2)),
      Lit(BnPt(1, 2) \o Zeros(64) \o FF(2)),                \* extra bytes ignored
      Lit(BnPt(1, 2) \o BnPt(1, 2)),
      Lit(BnPt(1, 1)), Lit(Zeros(64) \o BnPt(1, 1)), Lit(BnPt(1, 2) \o BnPt(2, 1)), Lit(BnPt(0, 1)),
      Lit(BnP \o Zeros(32)),                                 \* (p, 0): non-canonical zero
      Lit([BnP EXCEPT ![32] = 72] \o Enc(2, 32)),           \* (p + 1, 2): non-canonical generator
      Lit(Enc(1, 32) \o [BnP EXCEPT ![32] = 73]),           \* (1, p + 2)
      Lit(FF(32) \o Enc(2, 32)), Lit(Zeros(64) \o Enc(1, 32) \o FF(32)),
      Lit(SubSeq(BnPt(1, 2), 1, 63)) }                       \* y cut to 0: (1, 0) is off the curve
BnMulInputs ==
    { <<>>, Rep(0, 96), Rep(0, 97), Lit(Zeros(64) \o Enc(5, 32)), Lit(Zeros(64) \o FF(32)),
      Lit(BnPt(1, 2)),                                       \* scalar missing: 0
      Lit(BnPt(1, 2) \o Enc(0, 32)), Lit(BnPt(1, 2) \o Enc(1, 32)), Lit(BnPt(1, 2) \o Enc(1, 32) \o FF(3)),
      Lit(BnPt(1, 2) \o Enc(2, 32)), Lit(BnPt(1, 2) \o FF(32)),
      Lit(BnPt(1, 2) \o BnN), Lit(BnPt(1, 2) \o [BnN EXCEPT ![32] = 2]),
      Lit(BnPt(1, 2) \o SubSeq(Enc(1, 32), 1, 31)),          \* scalar 1 cut to 0
      Lit(BnPt(1, 1) \o Enc(1, 32)), Lit(BnPt(1, 1) \o Enc(0, 32)), Lit(BnP \o Zeros(32) \o Enc(1, 32)),
      Lit([BnP EXCEPT ![32] = 72] \o Enc(2, 32) \o Enc(1, 32)) }
BnPairInputs ==
    { <<>>, Rep(0, 192), Rep(0, 384), Rep(0, 576), Rep(0, 1), Rep(0, 191), Rep(0, 193), Rep(0, 383), Rep(0, 64),
      Lit(BnPt(1, 2)) \o Rep(0, 128),                                   \* e(G, O) = 1
      Lit(BnPt(1, 2)) \o Rep(0, 128) \o Rep(0, 192),
      Lit(BnPt(1, 2)) \o Rep(0, 127),                                   \* 191 bytes
      Lit(BnPt(1, 1)) \o Rep(0, 128), Rep(0, 192) \o Lit(BnPt(1, 1)) \o Rep(0, 128),
      Lit(BnP \o Zeros(32)) \o Rep(0, 128),
      Rep(0, 64) \o Lit(BnP) \o Rep(0, 96), Rep(0, 160) \o Lit(FF(32)) }

BlakeIn(rounds4, flag) == Lit(rounds4) \o Rep(0, 208) \o Lit(<<flag>>)
BlakeInputs ==
    { BlakeIn(Enc(r, 4), fl) : r \in {0, 1, 12, 256, 65536}, fl \in {0, 1, 2, 255} } \cup
    { BlakeIn(<<255, 255, 255, 255>>, 1), BlakeIn(<<128, 0, 0, 0>>, 0), BlakeIn(<<128, 0, 0, 0>>, 2),
      <<>>, Rep(0, 212), Rep(0, 214), Lit(Enc(12, 4)) \o Ramp(208) \o Lit(<<1>>), Lit(Enc(1, 4)) \o Rep(0, 208),
      Lit(Enc(12, 4)) \o Ramp(64) \o Rep(97, 3) \o Rep(0, 141) \o Lit(<<1>>) }

KzgInputs ==
    { <<>>, Rep(0, 192), Rep(0, 191), Rep(0, 193), Lit(KzgVec), Lit([KzgVec EXCEPT ![1] = 2]), Lit([KzgVec EXCEPT ![1] = 0]),
      Lit(SubSeq(KzgVec, 1, 191)), Lit(KzgVec) \o Rep(0, 1) }

BlsFpMinus1 == [BlsP EXCEPT ![48] = 170]
G1AddInputs ==
    { <<>>, Rep(0, 256), Rep(0, 255), Rep(0, 257), Rep(0, 128),
      Lit(BlsG1Gen) \o Rep(0, 128), Rep(0, 128) \o Lit(BlsG1Gen), Lit(BlsG1Gen \o BlsG1Gen),
      Lit(BlsG1Gen),                                                   \* 128 bytes: no padding for BLS
      Lit(SmallFp(1) \o SmallFp(1)) \o Rep(0, 128),                    \* (1,1) off the curve
      Lit([BlsG1Gen EXCEPT ![1] = 1]) \o Rep(0, 128),                  \* padding not zero
      Lit([BlsG1Gen EXCEPT ![16] = 1]) \o Rep(0, 128),
      Rep(0, 128) \o Lit(Fp(BlsP) \o SmallFp(0)),                      \* x = p
      Rep(0, 128) \o Lit(SmallFp(0) \o Fp(FF(48))) }
MsmZeros(item) == { Rep(0, item * k) : k \in MsmKs }
G1MsmInputs ==
    MsmZeros(160) \cup
    { <<>>, Rep(0, 159), Rep(0, 161), Rep(0, 128), Rep(0, 319),
      Lit(BlsG1Gen \o Enc(1, 32)), Lit(BlsG1Gen \o Enc(0, 32)), Lit(BlsG1Gen \o Enc(2, 32)),
      Lit(BlsG1Gen \o Enc(1, 32)) \o Rep(0, 160), Rep(0, 160) \o Lit(BlsG1Gen \o Enc(1, 32)),
      Lit(BlsG1Gen \o Enc(1, 32) \o BlsG1Gen \o Enc(1, 32)),
      Rep(0, 128) \o Lit(FF(32)),                                      \* scalar * O
      Lit(SmallFp(1) \o SmallFp(1) \o Enc(1, 32)), Lit([BlsG1Gen EXCEPT ![1] = 1] \o Enc(1, 32)),
      Lit(Fp(BlsP) \o SmallFp(0) \o Enc(1, 32)), Rep(0, 160) \o Lit(SmallFp(1) \o SmallFp(1) \o Enc(0, 32)) }
G2AddInputs ==
    { <<>>, Rep(0, 512), Rep(0, 511), Rep(0, 513), Rep(0, 256),
      Lit(<<1>>) \o Rep(0, 511), Rep(0, 256) \o Lit(Fp(BlsP)) \o Rep(0, 192), Rep(0, 448) \o Lit(Fp(FF(48))) }
G2MsmInputs ==
    MsmZeros(288) \cup
    { <<>>, Rep(0, 287), Rep(0, 289), Rep(0, 256), Rep(0, 256) \o Lit(FF(32)),
      Lit(<<1>>) \o Rep(0, 287), Rep(0, 64) \o Lit(Fp(BlsP)) \o Rep(0, 160), Rep(0, 288) \o Rep(0, 192) \o Lit(Fp(FF(48))) \o Rep(0, 32) }
BlsPairInputs ==
    { Rep(0, 384 * k) : k \in {1, 2, 3, 10} } \cup
    { <<>>, Rep(0, 383), Rep(0, 385), Rep(0, 128), Rep(0, 256),
      Lit(BlsG1Gen) \o Rep(0, 256), Lit(BlsG1Gen) \o Rep(0, 256) \o Rep(0, 384),
      Lit(SmallFp(1) \o SmallFp(1)) \o Rep(0, 256), Lit([BlsG1Gen EXCEPT ![1] = 1]) \o Rep(0, 256),
      Rep(0, 128) \o Lit(Fp(BlsP)) \o Rep(0, 192), Rep(0, 384) \o Rep(0, 320) \o Lit(Fp(FF(48))) }
MapFpInputs ==
    { <<>>, Rep(0, 64), Rep(0, 63), Rep(0, 65), Rep(0, 48), Lit(SmallFp(1)), Lit(Fp(BlsFpMinus1)), Lit(Fp(BlsP)),
      Lit(Fp(FF(48))), Lit([SmallFp(1) EXCEPT ![1] = 1]), Lit([SmallFp(1) EXCEPT ![16] = 255]) }
MapFp2Inputs ==
    { <<>>, Rep(0, 128), Rep(0, 127), Rep(0, 129), Rep(0, 64), Lit(SmallFp(1) \o SmallFp(2)), Lit(Fp(BlsFpMinus1) \o Fp(BlsFpMinus1)),
      Lit(Fp(BlsP) \o SmallFp(0)), Lit(SmallFp(0) \o Fp(BlsP)), Lit(SmallFp(0) \o [SmallFp(1) EXCEPT ![2] = 1]) }

InputsOf(pc, f, part) ==
    IF ~Exists(pc, f) THEN { <<>>, Rep(0, 32), Ramp(213) }            \* a call to what is not (yet) a precompile
    ELSE CASE pc.name = "ecrecover"   -> EcInputs
           [] pc.name \in {"sha256", "ripemd160", "identity"} -> HashInputs
           [] pc.name = "modexp"      -> ModexpInputs(f, part)
           [] pc.name = "bn_add"      -> BnAddInputs
           [] pc.name = "bn_mul"      -> BnMulInputs
           [] pc.name = "bn_pairing"  -> BnPairInputs
           [] pc.name = "blake2f"     -> BlakeInputs
           [] pc.name = "kzg"         -> KzgInputs
           [] pc.name = "bls_g1add"   -> G1AddInputs
           [] pc.name = "bls_g1msm"   -> G1MsmInputs
           [] pc.name = "bls_g2add"   -> G2AddInputs
           [] pc.name = "bls_g2msm"   -> G2MsmInputs
           [] pc.name = "bls_pairing" -> BlsPairInputs
           [] pc.name = "bls_map_fp"  -> MapFpInputs
           [] pc.name = "bls_map_fp2" -> MapFp2Inputs

(* Gas limits tried for an input: around the defined cost, none, and ample. *)
GasLimits(pc, part, p) ==
    LET c == p.cost
        around == {x \in {c - 1, c, c + 1} : x >= 0}
    IN IF p.kind = "absent" THEN {0, 100000}
       ELSE IF pc.name = "modexp" /\ part # 100 /\ ~WideGas THEN {x \in {c - 1, c} : x >= 0}
       ELSE around \cup {0, Big}

------------------------------------------------------------------------------
(* The state machine *)
NoCall == [op |-> "none"]
Parts(pc, f) == IF pc.name = "modexp" /\ Exists(pc, f) THEN ModexpParts(f) ELSE {0}
Selectors == { <<i, f, p>> \in (1..Len(Table)) \X Forks \X (ModexpLens \cup {0, 100}) : p \in Parts(Table[i], f) }

Init == /\ sel \in Selectors /\ last = NoCall /\ hist = <<>>

(* what is compared with the implementation *)
DirectView(r) ==
    IF r.dec THEN [status |-> r.st, gas_used |-> r.gas, outlen |-> r.outlen, out |-> r.out]
    ELSE [status |-> r.st, gas_used |-> r.gas, outlen |-> r.outlen]
EvmView(r, g, rd) ==
    LET c == CallView(r, g)
        withrd == IF rd THEN c @@ [rdsize |-> c.outlen] ELSE c
    IN IF r.dec THEN withrd @@ [out |-> r.out] ELSE withrd
Expect(op, r) ==
    (IF op.direct THEN [direct |-> DirectView(r)] ELSE <<>>) @@
    (IF op.evm THEN [evm |-> EvmView(r, op.gas, op.rd)] ELSE <<>>)

Call ==
    /\ last = NoCall
    /\ LET pc == Table[sel[1]]   f == sel[2] IN
       \E d \in InputsOf(pc, f, sel[3]) :
       \E p \in {PlanOf(pc, f, d)} :             \* (a singleton: TLC evaluates the plan once per input)
       \E g \in GasLimits(pc, sel[3], p) :
       \E r \in {Decide(p, g)} :
          LET op == [op |-> pc.name, addr |-> pc.addr, fork |-> f, input |-> d, gas |-> g,
                     direct |-> f \in DirectForks, evm |-> f \in EvmForks,
                     rd |-> AtLeast(f, "BYZANTIUM"),     \* EIP-211: RETURNDATASIZE exists
                     bytes |-> r.dec,                    \* the output bytes are part of the comparison
                     lenient |-> r.st = "fails"]         \* do not distinguish the two kinds of failure
          IN /\ last' = [op |-> op, plan |-> p, res |-> r]
             /\ hist' = <<op>>
             /\ sel' = sel
             /\ PrintT("EDGE " \o ToJson([hist |-> <<>>, pre |-> "none", op |-> op, post |-> Expect(op, r)]))

Next == Call
Spec == Init /\ [][Next]_vars
View == <<sel, last>>

------------------------------------------------------------------------------
(* The property, as invariants over every call of the table *)
Called == last # NoCall
L == last.op
R == last.res
P == last.plan
Again(g) == Decide(P, g)                     \* the same call with another gas limit

(* every generated case lies in the domain this module decides *)
AllDecided == Called => R.st # "undecided"
(* a precompile charges the defined cost and never more than it was given *)
GasWithinLimit == Called /\ R.st = "ok" => R.gas <= L.gas /\ R.gas = P.cost
(* out of gas exactly when the defined cost exceeds the limit: an out-of-gas call would succeed
   with ample gas using more than the limit (or its cost is beyond every limit of the model); a
   successful call gives the same answer for every limit that covers its cost and runs out of gas
   one unit below it *)
OogExactly ==
    Called =>
      /\ R.st = "oog" => LET a == Again(Big) IN (a.st = "ok" /\ a.gas > L.gas) \/ (a.st = "oog" /\ P.kind = "beyond")
      /\ R.st = "ok" => \A g2 \in {R.gas, L.gas + 1, Big} : Again(g2) = R
      /\ R.st = "ok" /\ R.gas > 0 => Again(R.gas - 1).st = "oog"
(* whether the input is rejected does not depend on the gas *)
FailureIsAboutTheInput ==
    Called => ((R.st \in {"fail", "fails"}) <=> P.invalid) /\ (P.invalid => \A g2 \in {0, L.gas, Big} : Again(g2).st \in {"fail", "fails"})
(* the plan is the plan of this call: nothing but (fork, address, input) determines it *)
PlanIsFunctionOfInput ==
    Called => P = PlanOf(Table[CHOOSE i \in 1..Len(Table) : Table[i].name = L.op /\ Table[i].addr = L.addr], L.fork, L.input)
(* an address is a precompile exactly from the fork that introduced it *)
ForkGating ==
    Called => LET pc == Table[CHOOSE i \in 1..Len(Table) : Table[i].name = L.op /\ Table[i].addr = L.addr]
              IN R.st = "absent" <=> ~Exists(pc, L.fork)
(* identity copies *)
IdentityCopies == Called /\ L.op = "identity" /\ R.st = "ok" => R.dec /\ R.out = L.input /\ R.outlen = DLen(L.input)
(* fixed output lengths *)
OutLen(name) ==
    CASE name \in {"sha256", "ripemd160", "bn_pairing", "bls_pairing"} -> {32}
      [] name = "ecrecover" -> {0, 32}
      [] name \in {"bn_add", "bn_mul", "blake2f", "kzg"} -> {64}
      [] name \in {"bls_g1add", "bls_g1msm", "bls_map_fp"} -> {128}
      [] name \in {"bls_g2add", "bls_g2msm", "bls_map_fp2"} -> {256}
      [] OTHER -> Nat
OutputLengths == Called /\ R.st = "ok" => R.outlen \in OutLen(L.op) /\ (R.dec => DLen(R.out) = R.outlen)
(* modexp: the answer has the declared modulus length and, where decided, is the residue of the
   power computed the slow way (e multiplications) *)
RECURSIVE NaivePow(_, _, _)
NaivePow(b, e, m) == IF e = 0 THEN 1 % m ELSE (NaivePow(b, e - 1, m) * b) % m
RECURSIVE BeVal(_, _, _)                                   \* value of a byte string if below the cap, else >= the cap
BeVal(w, i, acc) == IF i > Len(w) THEN acc ELSE IF acc >= 4096 THEN 4096 ELSE BeVal(w, i + 1, acc * 256 + w[i])
ModexpCorrect ==
    Called /\ L.op = "modexp" /\ R.st = "ok" /\ IsSmall(Read(L.input, 0, 32)) /\ IsSmall(Read(L.input, 32, 32))
           /\ IsSmall(Read(L.input, 64, 32)) =>
      LET bl == ValSmall(Read(L.input, 0, 32))   el == ValSmall(Read(L.input, 32, 32))   ml == ValSmall(Read(L.input, 64, 32))
          b == BeVal(Read(L.input, 96, bl), 1, 0)     e == BeVal(Read(L.input, 96 + bl, el), 1, 0)
          m == BeVal(Read(L.input, 96 + bl + el, ml), 1, 0)
          o == BeVal(Bytes(R.out), 1, 0)
      IN /\ R.outlen = ml
         /\ (R.dec /\ b < 4096 /\ e < 4096 /\ m < 4096) =>
               IF m = 0 THEN o = 0 ELSE o < m /\ o = NaivePow(b % m, e, m)
(* the prices of EIP-1108 and the floor of EIP-2565 *)
Repricing ==
    Called /\ R.st = "ok" =>
      /\ L.op = "bn_add" => R.gas = (IF AtLeast(L.fork, "ISTANBUL") THEN 150 ELSE 500)
      /\ L.op = "bn_mul" => R.gas = (IF AtLeast(L.fork, "ISTANBUL") THEN 6000 ELSE 40000)
      /\ L.op = "modexp" /\ AtLeast(L.fork, "BERLIN") => R.gas >= 200
(* CALL: a failed call consumes everything that was forwarded and returns no data; a successful one
   consumes at most what was forwarded *)
CallAccounting ==
    Called => LET c == CallView(R, L.gas) IN
              /\ c.consumed <= L.gas
              /\ c.success = 0 => c.consumed = L.gas /\ c.outlen = 0
              /\ c.success = 1 <=> R.st \in {"ok", "absent"}

(* schedule-wide facts that need no state *)
ASSUME Len(DiscountG1) = 128 /\ Len(DiscountG2) = 128
ASSUME \A k \in 1..127 : DiscountG1[k] >= DiscountG1[k + 1] /\ DiscountG2[k] >= DiscountG2[k + 1]
ASSUME MsmCost(1, 12000, DiscountG1) = 12000 /\ MsmCost(1, 22500, DiscountG2) = 22500
ASSUME MultComplexity198(64) = 4096 /\ MultComplexity198(1024) = 357376 /\ MultComplexity198(1025) = 357984
==========================================================================
