--------------------------------- MODULE Evm ---------------------------------
(* A byte-level Ethereum Virtual Machine with its transaction layer, for every mainnet
   hardfork Frontier .. Prague (properties C01 C07 C08 C09 C10 C21 C28 C29 C31 C34).

   Written from the Yellow Paper and the EIPs (2, 7, 140, 150, 158/161, 170, 211, 214, 684,
   1014, 1153, 1559, 1884, 2200, 2565-n/a, 2929, 2930, 3198-n/a, 3529, 3541, 3651, 3855, 3860,
   5656, 6780, 7623) -- not from revm.  The machine interprets BYTES: a behaviour first builds
   contract code by concatenating snippets (setup phase), then chooses transactions, then the
   deterministic interpreter runs them.  The specification does not know the snippets when it
   interprets: any byte string is executed according to the opcode table below; opcodes that
   are defined in the fork but not modelled make the behaviour leave the modelled domain
   ("cut": not judged), undefined opcodes halt.

   Values.  Stack words are naturals below 2^31 (TLC integers) or *tokens* (>= TOK) standing
   for values the model cannot compute: created addresses (keccak) and code hashes.  The
   harness resolves tokens from the `created` table.  Arithmetic leaving the domain, tokens
   used as numbers, memory reads of non-canonical words cut the behaviour.

   State is one record `m` (the machine); `Step(m)` is a function.  The only nondeterminism
   is in the setup and in the choice of transactions, so TLC can enumerate all programs of a
   small alphabet exhaustively or sample a large one by simulation. *)
EXTENDS Integers, Sequences, FiniteSets, TLC, Json

CONSTANTS Fork,        \* index of the hardfork, numbered like revm's SpecId (FRONTIER = 0 .. PRAGUE = 18)
          Contracts,   \* addresses whose code is built in the setup phase
          World0,      \* initial accounts: [BaseAddr -> [ex, bal, nonce, code, stor]]
          Sender, Coinbase,
          Coinbases,   \* block beneficiaries a transaction's block may name (Coinbase is the default one)
          MaxSnips, MaxTx, MaxCreates,
          SnipKinds,   \* which snippet families the setup may use
          TxGas,       \* gas limits a transaction may use
          TxTargets,   \* call targets of transactions (0 = create transaction)
          BaseFee, GasPrices,
          SetupPlan,   \* <<>> = free setup; else a sequence of [c |-> contract, kinds |-> families]: step i
                       \* appends one snippet of those families to that contract (exhaustive product)
          PreCreated,  \* creation keys whose address tokens exist from the start (so that transactions can
                       \* touch the address a later CREATE will produce), e.g. << <<"create", 193, 1>> >>
          Rejections,  \* TRUE: rejected transactions may be interleaved
          TxValues,    \* values a transaction may carry when TxVariety is FALSE
          TxVariety,   \* FALSE: transactions carry no data, no access list, ... and a value from TxValues
          StepBound    \* safety bound on interpreter steps per transaction

FRONTIER == 0  HOMESTEAD == 2  TANGERINE == 4  SPURIOUS == 5  BYZANTIUM == 6  CONSTANTINOPLE == 7
PETERSBURG == 8  ISTANBUL == 9  BERLIN == 11  LONDON == 12  MERGE == 15  SHANGHAI == 16  CANCUN == 17  PRAGUE == 18
Has(f) == Fork >= f

TOK == 1000000000               \* tokens are TOK + index into the `created` table
Slots == 0..3
Byte == 0..255
BaseAddr == {a \in DOMAIN World0 : a < TOK}
TokAddr == {TOK + i : i \in 1..MaxCreates}
AddrU == BaseAddr \cup TokAddr
IDENTITY == 4
Precompiles == IF Has(PRAGUE) THEN 1..17 ELSE IF Has(CANCUN) THEN 1..10 ELSE IF Has(ISTANBUL) THEN 1..9
               ELSE IF Has(BYZANTIUM) THEN 1..8 ELSE 1..4

VARIABLE m
vars == <<m>>

-----------------------------------------------------------------------------
(* ---------------------------------------------------------------- bytes, words, memory *)
Max(a, b) == IF a > b THEN a ELSE b
Min(a, b) == IF a < b THEN a ELSE b
Words(n) == (n + 31) \div 32
Cmem(w) == 3 * w + (w * w) \div 512
Zeros(n) == [i \in 1..n |-> 0]
IsTok(v) == v >= TOK
InDom(v) == v >= 0 /\ v < TOK

\* 32-byte big-endian image of a small natural
WordBytes(v) == [i \in 1..32 |-> IF i <= 28 THEN 0
                                 ELSE (v \div (IF i = 29 THEN 16777216 ELSE IF i = 30 THEN 65536 ELSE IF i = 31 THEN 256 ELSE 1)) % 256]
\* inverse; -1 when the 32 bytes are not the image of a natural below 2^31
BytesWord(bs) == IF \E i \in 1..28 : bs[i] # 0 THEN -1
                 ELSE IF bs[29] >= 128 THEN -1
                 ELSE bs[29] * 16777216 + bs[30] * 65536 + bs[31] * 256 + bs[32]

\* memory is a byte sequence whose length is a multiple of 32
MemGrow(mem, off, len) == IF len = 0 THEN mem
                          ELSE LET w == Max(Len(mem) \div 32, Words(off + len)) IN mem \o Zeros(32 * w - Len(mem))
MemCost(mem, off, len) == IF len = 0 THEN 0
                          ELSE LET w == Max(Len(mem) \div 32, Words(off + len)) IN Cmem(w) - Cmem(Len(mem) \div 32)
MemRead(mem, off, len) == [i \in 1..len |-> mem[off + i]]                  \* after MemGrow
MemWrite(mem, off, bs) == [i \in 1..Len(mem) |-> IF i > off /\ i <= off + Len(bs) THEN bs[i - off] ELSE mem[i]]
\* bytes of `src` from offset `off`, `len` of them, zero beyond the end (calldata / code copies)
Slice0(src, off, len) == [i \in 1..len |-> IF off + i <= Len(src) THEN src[off + i] ELSE 0]

-----------------------------------------------------------------------------
(* ---------------------------------------------------------------- small-number helpers *)
RECURSIVE Pow2(_)
Pow2(k) == IF k = 0 THEN 1 ELSE 2 * Pow2(k - 1)
RECURSIVE Bitwise(_, _, _)
Bitwise(op, a, b) ==                    \* 22 AND, 23 OR, 24 XOR on naturals
    IF a = 0 /\ b = 0 THEN 0
    ELSE LET x == a % 2  y == b % 2
             bit == IF op = 22 THEN x * y ELSE IF op = 23 THEN (IF x + y > 0 THEN 1 ELSE 0) ELSE (x + y) % 2
         IN bit + 2 * Bitwise(op, a \div 2, b \div 2)
\* block environment the harness sets
BlockTime == 1700000000 - TOK           \* 700000000: kept below the token range
BlockNumber == 100
BlockGasLimit == 30000000
ChainId == 1

-----------------------------------------------------------------------------
(* ---------------------------------------------------------------- jump destinations *)
RECURSIVE Dests(_, _)
Dests(code, pc) ==          \* pc is 0-based
    IF pc >= Len(code) THEN {}
    ELSE LET op == code[pc + 1] IN
         IF op >= 96 /\ op <= 127 THEN Dests(code, pc + op - 94)
         ELSE (IF op = 91 THEN {pc} ELSE {}) \cup Dests(code, pc + 1)

-----------------------------------------------------------------------------
(* ---------------------------------------------------------------- gas schedule *)
G_sload == IF Has(BERLIN) THEN 100 ELSE IF Has(ISTANBUL) THEN 800 ELSE IF Has(TANGERINE) THEN 200 ELSE 50
G_balance == IF Has(ISTANBUL) THEN 700 ELSE IF Has(TANGERINE) THEN 400 ELSE 20
G_extcode == IF Has(TANGERINE) THEN 700 ELSE 20
G_exthash == IF Has(ISTANBUL) THEN 700 ELSE 400
G_call == IF Has(TANGERINE) THEN 700 ELSE 40
\* EIP-2929: cost of touching an address with BALANCE / EXT* / CALL*, given whether it is warm
Access(warm, legacy) == IF Has(BERLIN) THEN (IF warm THEN 100 ELSE 2600) ELSE legacy

\* SSTORE: <<gas, refund delta>> (orig, cur, new), `cold` only matters from Berlin
SStoreGas(orig, cur, new, cold) ==
    IF ~Has(ISTANBUL)
    THEN <<IF cur = 0 /\ new # 0 THEN 20000 ELSE 5000, IF cur # 0 /\ new = 0 THEN 15000 ELSE 0>>
    ELSE LET sl == IF Has(BERLIN) THEN 100 ELSE 800
             reset == IF Has(BERLIN) THEN 2900 ELSE 5000
             clr == IF Has(LONDON) THEN 4800 ELSE 15000
             base == IF cur = new THEN sl
                     ELSE IF orig = cur THEN (IF orig = 0 THEN 20000 ELSE reset)
                     ELSE sl
             ref == IF cur = new THEN 0
                    ELSE IF orig = cur THEN (IF orig # 0 /\ new = 0 THEN clr ELSE 0)
                    ELSE (IF orig # 0 THEN (IF cur = 0 THEN -clr ELSE IF new = 0 THEN clr ELSE 0) ELSE 0)
                         + (IF new = orig THEN (IF orig = 0 THEN 20000 - sl ELSE reset - sl) ELSE 0)
         IN <<base + (IF Has(BERLIN) /\ cold THEN 2100 ELSE 0), ref>>

\* tx.price is the price cap (gas price of a legacy transaction, max fee of a type-2 one);
\* tx.prio < 0 marks a legacy transaction
EffPrice(tx) == IF tx.prio < 0 THEN tx.price ELSE Min(tx.price, BaseFee + tx.prio)
ZeroBytes(bs) == Cardinality({i \in 1..Len(bs) : bs[i] = 0})
Intrinsic(tx) ==
    21000 + 4 * ZeroBytes(tx.data) + (IF Has(ISTANBUL) THEN 16 ELSE 68) * (Len(tx.data) - ZeroBytes(tx.data))
    + (IF tx.to = 0 /\ Has(HOMESTEAD) THEN 32000 ELSE 0)
    + (IF tx.to = 0 /\ Has(SHANGHAI) THEN 2 * Words(Len(tx.data)) ELSE 0)
    + 25000 * Len(tx.auths)
    + 2400 * Len(tx.al) + 1900 * (LET RECURSIVE S(_) S(i) == IF i = 0 THEN 0 ELSE Len(tx.al[i].keys) + S(i - 1) IN S(Len(tx.al)))
FloorGas(tx) == IF Has(PRAGUE) THEN 21000 + 10 * (ZeroBytes(tx.data) + 4 * (Len(tx.data) - ZeroBytes(tx.data))) ELSE 0

-----------------------------------------------------------------------------
(* ---------------------------------------------------------------- accounts *)
\* EIP-7702 delegation designator: 0xef0100 || 20-byte address (addresses here fit in the last byte)
DelegCode(a) == <<239, 1, 0>> \o Zeros(19) \o <<a>>
DelegOf(code) == IF Len(code) = 23 /\ code[1] = 239 /\ code[2] = 1 /\ code[3] = 0 /\ (\A i \in 4..22 : code[i] = 0)
                 THEN code[23] ELSE 0
BLOBGAS == 131072                \* gas per blob; the blob gas price is 1 (no excess blob gas in the block)
EmptyAcct(a) == a.bal = 0 /\ a.nonce = 0 /\ a.code = <<>>
\* "dead": does not exist, or (from Spurious Dragon) is empty
Dead(w, a) == IF Has(SPURIOUS) THEN ~w[a].ex \/ EmptyAcct(w[a]) ELSE ~w[a].ex
NoStor(a) == \A k \in Slots : a.stor[k] = 0
Blank == [ex |-> FALSE, bal |-> 0, nonce |-> 0, code |-> <<>>, stor |-> [k \in Slots |-> 0]]
\* Touching (a CALL's target, a SELFDESTRUCT's beneficiary, the coinbase): the address exists from
\* then on (ex = TRUE).  Before Spurious Dragon that is the end of it (empty accounts persist);
\* from Spurious Dragon the touch is remembered in `touched` and touched accounts that are empty
\* at the end of the transaction are deleted (EIP-161).

-----------------------------------------------------------------------------
(* ---------------------------------------------------------------- opcode activation (legacy code) *)
OpsFrontier == (0..11) \cup (16..26) \cup {32} \cup (48..60) \cup (64..69) \cup (80..91) \cup (96..164) \cup {240, 241, 242, 243, 254, 255}
Defined(op) ==
    \/ op \in OpsFrontier
    \/ op = 244 /\ Has(HOMESTEAD)
    \/ op \in {61, 62, 250, 253} /\ Has(BYZANTIUM)
    \/ op \in {27, 28, 29, 63, 245} /\ Has(CONSTANTINOPLE)
    \/ op \in {70, 71} /\ Has(ISTANBUL)
    \/ op = 72 /\ Has(LONDON)
    \/ op = 95 /\ Has(SHANGHAI)
    \/ op \in {73, 74, 92, 93, 94} /\ Has(CANCUN)

\* memory beyond 4096 bytes is outside the modelled domain; an access there costs at least this
MEMLIM == 4096
Far(off, len) == len > 0 /\ (off > MEMLIM \/ len > MEMLIM \/ off + len > MEMLIM)
FarCost(mem) == Cmem(Words(MEMLIM) + 1) - Cmem(Len(mem) \div 32)

-----------------------------------------------------------------------------
(* ---------------------------------------------------------------- the machine *)
Top(st, i) == st[Len(st) - i]                     \* i = 0 is the top
Drop(st, n) == SubSeq(st, 1, Len(st) - n)
Depth(mm) == Len(mm.frames)
TopF(mm) == mm.frames[Len(mm.frames)]
SetTop(mm, f) == [mm EXCEPT !.frames[Len(mm.frames)] = f]
Cut(mm) == [mm EXCEPT !.cut = TRUE, !.ph = "done"]
Ev(mm, e) == [mm EXCEPT !.events = Append(@, e)]

Snap(mm) == [world |-> mm.world, accA |-> mm.accA, accS |-> mm.accS, tst |-> mm.tst, nlogs |-> Len(mm.logs),
             dest |-> mm.dest, touched |-> mm.touched, ctx |-> mm.ctx]
Restore(mm, s) == [mm EXCEPT !.world = s.world, !.accA = s.accA, !.accS = s.accS, !.tst = s.tst,
                             !.logs = SubSeq(mm.logs, 1, s.nlogs), !.dest = s.dest, !.touched = s.touched, !.ctx = s.ctx]

NewFrame(kind, code, gas, static, self, caller, value, codeaddr, input, retOff, retLen, snap, created) ==
    [kind |-> kind, code |-> code, pc |-> 0, stack |-> <<>>, mem |-> <<>>, gas |-> gas, static |-> static,
     self |-> self, caller |-> caller, value |-> value, codeaddr |-> codeaddr, input |-> input,
     retOff |-> retOff, retLen |-> retLen, rdata |-> <<>>, snap |-> snap, refund |-> 0, created |-> created,
     dests |-> Dests(code, 0)]

RECURSIVE SumBal(_, _)
SumBal(w, S) == IF S = {} THEN 0 ELSE LET a == CHOOSE a \in S : TRUE IN w[a].bal + SumBal(w, S \ {a})

(* ---- end of a frame: `status` in {"ok","revert","halt"}; out = return data; gasLeft returned to the parent *)
FinishTx(mm, status, out, gasLeft, refund) ==
    LET tx == mm.tx
        spent == tx.gas - gasLeft
        q == IF Has(LONDON) THEN 5 ELSE 2
        \* refunds earned by execution count only on success; the EIP-7702 refund for existing
        \* authorities is granted whatever the outcome
        ref == Min(Max((IF status = "ok" THEN refund ELSE 0) + mm.authref, 0), spent \div q)
        used0 == spent - ref
        used == Max(used0, FloorGas(tx))
        price == EffPrice(tx)
        tip == IF Has(LONDON) THEN price - BaseFee ELSE price
        w1 == [mm.world EXCEPT ![Sender].bal = @ + (tx.gas - used) * price]
        w2 == [w1 EXCEPT ![tx.cb].bal = @ + used * tip, ![tx.cb].ex = TRUE]
        touched == mm.touched \cup {tx.cb}
        \* self-destructed accounts disappear; from Spurious Dragon touched empty accounts too
        w3 == [a \in AddrU |-> IF a \in mm.dest THEN Blank
                               ELSE IF Has(SPURIOUS) /\ a \in touched /\ EmptyAcct(w2[a]) THEN Blank
                               ELSE w2[a]]
        result == [status |-> status, gas_used |-> used, refunded |-> IF used0 >= FloorGas(tx) THEN ref ELSE 0,
                   out |-> out, logs |-> IF status = "ok" THEN mm.logs ELSE <<>>,
                   created |-> IF tx.to = 0 /\ status = "ok" THEN mm.txcreated ELSE 0, events |-> mm.events]
    IN [mm EXCEPT !.world = w3, !.frames = <<>>, !.res = Append(@, result), !.ph = "tx", !.events = <<>>,
                  \* burnt: the base fee, the blob fee, and whatever balance a self-destructed account still
                  \* holds when it is deleted (ether sent to it after its SELFDESTRUCT in the same
                  \* transaction is lost: consensus behaviour, the same mechanism as self-destruct to self)
                  !.burnt = @ + (IF Has(LONDON) THEN used * BaseFee ELSE 0) + tx.blobs * BLOBGAS
                              + SumBal(w2, mm.dest)]

\* what the parent sees when a child call frame ends
AfterCall(mm, child, status, out, gasLeft, refund) ==
    LET p == TopF(mm)                                   \* parent (already on top: child popped)
        n == Min(child.retLen, Len(out))
        mem1 == IF status # "halt" /\ n > 0 THEN MemWrite(p.mem, child.retOff, SubSeq(out, 1, n)) ELSE p.mem
        p1 == [p EXCEPT !.stack = Append(@, IF status = "ok" THEN 1 ELSE 0),
                        !.gas = @ + (IF status = "halt" THEN 0 ELSE gasLeft),
                        !.refund = @ + (IF status = "ok" THEN refund ELSE 0),
                        !.rdata = IF status = "halt" THEN <<>> ELSE out, !.mem = mem1]
    IN SetTop(Ev(mm, <<"call_end", Depth(mm)>>), p1)

\* what the parent sees when a child create frame ends (after the code-deposit rules were applied)
AfterCreate(mm, status, addr, out, gasLeft, refund) ==
    LET p == TopF(mm)
        p1 == [p EXCEPT !.stack = Append(@, IF status = "ok" THEN addr ELSE 0),
                        !.gas = @ + (IF status = "halt" THEN 0 ELSE gasLeft),
                        !.refund = @ + (IF status = "ok" THEN refund ELSE 0),
                        !.rdata = IF status = "revert" THEN out ELSE <<>>]
    IN SetTop(Ev(mm, <<"create_end", Depth(mm)>>), p1)

\* Return from the top frame with (status, out, gasLeft).
FrameEnd(mm, status, out, gasLeft) ==
    LET f == TopF(mm)
        isCreate == f.kind \in {"create", "create2", "txcreate"}
        m0 == [mm EXCEPT !.frames = Drop(mm.frames, 1)]
        mrev == Restore(m0, f.snap)
        \* code-deposit rules for a successful creation
        len == Len(out)
        dep == 200 * len
        tooBig == Has(SPURIOUS) /\ len > 24576
        ef == Has(LONDON) /\ len > 0 /\ out[1] = 239
        poor == gasLeft < dep
        cstat == IF status # "ok" THEN status
                 ELSE IF ef \/ tooBig THEN "halt"
                 ELSE IF poor THEN (IF Has(HOMESTEAD) THEN "halt" ELSE "ok")
                 ELSE "ok"
        cgas == IF cstat = "halt" THEN 0 ELSE IF status = "ok" /\ ~poor THEN gasLeft - dep ELSE gasLeft
        ccode == IF status = "ok" /\ poor THEN <<>> ELSE out
        mok == [m0 EXCEPT !.world[f.self].code = ccode]
        isTop == Len(mm.frames) = 1
    IN IF ~isCreate
       THEN LET mm1 == IF status = "ok" THEN m0 ELSE mrev IN
            IF isTop THEN FinishTx(Ev(mm1, <<"call_end", 0>>), status, IF status = "halt" THEN <<>> ELSE out,
                                   IF status = "halt" THEN 0 ELSE gasLeft, f.refund)
            ELSE AfterCall(mm1, f, status, out, gasLeft, f.refund)
       ELSE LET mm1 == IF cstat = "ok" THEN mok ELSE mrev IN
            IF isTop THEN FinishTx(Ev([mm1 EXCEPT !.txcreated = f.self], <<"create_end", 0>>), cstat,
                                   IF cstat = "revert" THEN out ELSE <<>>, cgas, f.refund)
            ELSE AfterCreate(mm1, cstat, f.self, out, cgas, f.refund)

Halt(mm) == FrameEnd(mm, "halt", <<>>, 0)

-----------------------------------------------------------------------------
(* ---------------------------------------------------------------- calls *)
\* The identity precompile: 15 + 3 per word; copies its input.
IdentityCost(len) == 15 + 3 * Words(len)

\* Start a message call from the top frame (or from the transaction when the frame stack is
\* empty).  `gas` is what the callee gets (stipend included), already charged to the caller.
\* kind: "call" | "callcode" | "delegate" | "static" | "txcall"
DoCall(mm, kind, gas, target, codeaddr, caller, value, apparent, input, retOff, retLen, static) ==
    LET me == Ev(mm, <<"call", Depth(mm)>>)
        isTx == kind = "txcall"
        ret0(m2, ok) ==                                     \* immediate outcome without a frame
            IF isTx THEN FinishTx(Ev(m2, <<"call_end", 0>>), IF ok THEN "ok" ELSE "halt", <<>>, IF ok THEN gas ELSE 0, 0)
            ELSE LET p == TopF(m2) IN
                 SetTop(Ev(m2, <<"call_end", Depth(m2)>>),
                        [p EXCEPT !.stack = Append(@, IF ok THEN 1 ELSE 0), !.gas = @ + gas, !.rdata = <<>>])
        transfers == kind \in {"call", "callcode", "txcall"}
        snap == Snap(me)
        w == me.world
    IN IF Depth(mm) > 1024 THEN ret0(me, FALSE)
       ELSE IF transfers /\ value > 0 /\ w[caller].bal < value THEN ret0(me, FALSE)
       ELSE IF transfers /\ value > 0 /\ caller # target /\ w[target].bal + value >= TOK THEN Cut(mm)
       ELSE
       LET w1 == IF transfers /\ caller # target
                 THEN [w EXCEPT ![caller].bal = @ - value, ![target].bal = @ + value, ![target].ex = TRUE]
                 ELSE IF transfers THEN [w EXCEPT ![target].ex = TRUE] ELSE w
           \* a CALL (also with zero value) touches its target; the other kinds run in the caller's own account
           tch == IF kind \in {"call", "txcall", "static"} THEN me.touched \cup {target} ELSE me.touched
           m1 == [me EXCEPT !.world = w1, !.touched = tch,
                            !.accA = IF Has(PRAGUE) /\ DelegOf(w[codeaddr].code) # 0 THEN @ \cup {DelegOf(w[codeaddr].code)} ELSE @]
           dlg == IF Has(PRAGUE) THEN DelegOf(w[codeaddr].code) ELSE 0
           code == IF dlg # 0 THEN (IF dlg \in AddrU THEN w[dlg].code ELSE <<>>) ELSE w[codeaddr].code
       IN IF codeaddr \in Precompiles
          THEN IF codeaddr # IDENTITY THEN Cut(mm)
               ELSE LET c == IdentityCost(Len(input)) IN
                    IF gas < c
                    THEN \* precompile failure: everything forwarded is consumed, state reverted
                         (IF isTx THEN FinishTx(Ev(Restore(m1, snap), <<"call_end", 0>>), "halt", <<>>, 0, 0)
                          ELSE LET p == TopF(me) IN
                               SetTop(Ev(Restore(m1, snap), <<"call_end", Depth(me)>>),
                                      [p EXCEPT !.stack = Append(@, 0), !.rdata = <<>>]))
                    ELSE (IF isTx THEN FinishTx(Ev(m1, <<"call_end", 0>>), "ok", input, gas - c, 0)
                          ELSE LET p == TopF(m1)
                                   n == Min(retLen, Len(input))
                                   mem1 == IF n > 0 THEN MemWrite(p.mem, retOff, SubSeq(input, 1, n)) ELSE p.mem IN
                               SetTop(Ev(m1, <<"call_end", Depth(m1)>>),
                                      [p EXCEPT !.stack = Append(@, 1), !.gas = @ + (gas - c), !.rdata = input, !.mem = mem1]))
          ELSE IF code = <<>> THEN ret0(m1, TRUE)
          ELSE [m1 EXCEPT !.frames = Append(@, NewFrame(kind, code, gas, static, target, caller, apparent, codeaddr,
                                                         input, retOff, retLen, snap, 0))]

-----------------------------------------------------------------------------
(* ---------------------------------------------------------------- creation *)
\* token of a creation key; the same key always gives the same token (that is how repeated
\* CREATE2 collides).  Returns <<token, new table>>; token 0 when the table is full.
TokenOf(tab, key) ==
    IF \E i \in 1..Len(tab) : tab[i] = key THEN <<TOK + (CHOOSE i \in 1..Len(tab) : tab[i] = key), tab>>
    ELSE IF Len(tab) >= MaxCreates THEN <<0, tab>>
    ELSE <<TOK + Len(tab) + 1, Append(tab, key)>>

\* kind: "create" | "create2" | "txcreate"; gas already charged to the creator
DoCreate(mm, kind, gas, creator, value, init, salt) ==
    LET me == Ev(mm, <<"create", Depth(mm)>>)
        isTx == kind = "txcreate"
        fail(m2, status, g) ==                                \* no frame: push 0 / finish tx
            IF isTx THEN FinishTx(Ev(m2, <<"create_end", 0>>), status, <<>>, g, 0)
            ELSE LET p == TopF(m2) IN
                 SetTop(Ev(m2, <<"create_end", Depth(m2)>>),
                        [p EXCEPT !.stack = Append(@, 0), !.gas = @ + g, !.rdata = <<>>])
        w == me.world
        nonce == w[creator].nonce
        key == IF kind = "create2" THEN <<"create2", creator, salt, init>> ELSE <<"create", creator, nonce>>
        tk == TokenOf(me.created, key)
        addr == tk[1]
    IN IF Depth(mm) > 1024 THEN fail(me, "revert", gas)
       ELSE IF w[creator].bal < value THEN fail(me, "revert", gas)
       ELSE IF addr = 0 THEN Cut(mm)
       ELSE
       LET w1 == [w EXCEPT ![creator].nonce = @ + 1]
           m1 == [me EXCEPT !.world = w1, !.created = tk[2], !.accA = @ \cup {addr}]
           t == w1[addr]
           collide == t.code # <<>> \/ t.nonce # 0 \/ ~NoStor(t)
           snap == Snap(m1)
           w2 == [w1 EXCEPT ![addr] = [ex |-> TRUE, bal |-> t.bal + value, nonce |-> IF Has(SPURIOUS) THEN 1 ELSE 0,
                                       code |-> <<>>, stor |-> [k \in Slots |-> 0]],
                            ![creator].bal = @ - value]
           m2 == [m1 EXCEPT !.world = w2, !.touched = @ \cup {addr}, !.ctx = @ \cup {addr}]
       IN IF collide THEN fail(m1, "halt", 0)
          ELSE IF t.bal + value >= TOK THEN Cut(mm)
          ELSE [m2 EXCEPT !.frames = Append(@, NewFrame(kind, init, gas, FALSE, addr, creator, value, addr,
                                                         <<>>, 0, 0, snap, 1))]

-----------------------------------------------------------------------------
(* ---------------------------------------------------------------- one instruction *)
Warm(mm, a) == a \in mm.accA
Step(mm) ==
    LET f == TopF(mm)
        code == f.code
        pc == f.pc
        op == IF pc < Len(code) THEN code[pc + 1] ELSE 0
        st == f.stack
        n == Len(st)
        s0 == Top(st, 0)  s1 == Top(st, 1)  s2 == Top(st, 2)  s3 == Top(st, 3)  s4 == Top(st, 4)  s5 == Top(st, 5)  s6 == Top(st, 6)
        \* continue with the frame updated: pops `k`, pushes the sequence `push`, charges `c`
        Go(mm2, k, push, c, f2) ==
            SetTop(mm2, [f2 EXCEPT !.stack = Drop(f2.stack, k) \o push, !.gas = @ - c, !.pc = pc + 1])
        \* generic guards: stack underflow / overflow / out of gas / domain
        Simple(k, push, c) ==
            IF n < k \/ n - k + Len(push) > 1024 \/ f.gas < c THEN Halt(mm)
            ELSE IF \E i \in 1..Len(push) : push[i] < 0 THEN Cut(mm)
            ELSE Go(mm, k, push, c, f)
        NumOk(k) == \A i \in 0..(k - 1) : InDom(Top(st, i))
        \* memory-touching instruction: expands [off, off+len), charges c + expansion, then `body(mem)`
        self == f.self
        w == mm.world
    IN
    CASE op = 0 -> FrameEnd(mm, "ok", <<>>, f.gas)                                              \* STOP
      [] op = 1 -> IF n >= 2 /\ ~NumOk(2) THEN Cut(mm)                                          \* ADD
                   ELSE IF n >= 2 /\ s0 + s1 >= TOK THEN Cut(mm) ELSE Simple(2, <<IF n >= 2 THEN s0 + s1 ELSE 0>>, 3)
      [] op = 3 -> IF n >= 2 /\ ~NumOk(2) THEN Cut(mm)                                          \* SUB
                   ELSE IF n >= 2 /\ s0 < s1 THEN Cut(mm) ELSE Simple(2, <<IF n >= 2 THEN s0 - s1 ELSE 0>>, 3)
      [] op = 2 -> IF n >= 2 /\ ~NumOk(2) THEN Cut(mm)                                          \* MUL
                   ELSE IF n >= 2 /\ s0 # 0 /\ s1 >= TOK \div s0 THEN Cut(mm) ELSE Simple(2, <<IF n >= 2 THEN s0 * s1 ELSE 0>>, 5)
      [] op = 4 -> IF n >= 2 /\ ~NumOk(2) THEN Cut(mm)                                          \* DIV (x / 0 = 0)
                   ELSE Simple(2, <<IF n >= 2 /\ s1 # 0 THEN s0 \div s1 ELSE 0>>, 5)
      [] op = 6 -> IF n >= 2 /\ ~NumOk(2) THEN Cut(mm)                                          \* MOD (x % 0 = 0)
                   ELSE Simple(2, <<IF n >= 2 /\ s1 # 0 THEN s0 % s1 ELSE 0>>, 5)
      [] op \in {22, 23, 24} -> IF n >= 2 /\ ~NumOk(2) THEN Cut(mm)                             \* AND OR XOR
                   ELSE Simple(2, <<IF n >= 2 THEN Bitwise(op, s0, s1) ELSE 0>>, 3)
      [] op \in {27, 28} ->                                                                     \* SHL SHR (shift on top)
                   IF ~Has(CONSTANTINOPLE) THEN Halt(mm)
                   ELSE IF n >= 2 /\ ~NumOk(2) THEN Cut(mm)
                   ELSE IF n >= 2 /\ op = 27 /\ (s0 > 30 \/ s1 * Pow2(s0) >= TOK) THEN Cut(mm)
                   ELSE Simple(2, <<IF n < 2 THEN 0 ELSE IF op = 27 THEN s1 * Pow2(s0) ELSE IF s0 > 30 THEN 0 ELSE s1 \div Pow2(s0)>>, 3)
      [] op = 16 -> IF n >= 2 /\ ~NumOk(2) THEN Cut(mm) ELSE Simple(2, <<IF n >= 2 /\ s0 < s1 THEN 1 ELSE 0>>, 3)   \* LT
      [] op = 17 -> IF n >= 2 /\ ~NumOk(2) THEN Cut(mm) ELSE Simple(2, <<IF n >= 2 /\ s0 > s1 THEN 1 ELSE 0>>, 3)   \* GT
      [] op = 20 -> Simple(2, <<IF n >= 2 /\ s0 = s1 THEN 1 ELSE 0>>, 3)                         \* EQ
      [] op = 21 -> Simple(1, <<IF n >= 1 /\ s0 = 0 THEN 1 ELSE 0>>, 3)                          \* ISZERO
      [] op = 48 -> Simple(0, <<self>>, 2)                                                       \* ADDRESS
      [] op = 49 ->                                                                              \* BALANCE
            IF n < 1 THEN Halt(mm) ELSE IF s0 \notin AddrU THEN Cut(mm)
            ELSE LET c == Access(Warm(mm, s0), G_balance) IN
                 IF f.gas < c THEN Halt(mm) ELSE Go([mm EXCEPT !.accA = @ \cup {s0}], 1, <<w[s0].bal>>, c, f)
      [] op = 50 -> Simple(0, <<Sender>>, 2)                                                     \* ORIGIN
      [] op = 51 -> Simple(0, <<f.caller>>, 2)                                                   \* CALLER
      [] op = 52 -> Simple(0, <<f.value>>, 2)                                                    \* CALLVALUE
      [] op = 53 ->                                                                              \* CALLDATALOAD
            IF n < 1 THEN Halt(mm) ELSE IF ~InDom(s0) THEN Cut(mm)
            ELSE Simple(1, <<BytesWord(Slice0(f.input, s0, 32))>>, 3)
      [] op = 54 -> Simple(0, <<Len(f.input)>>, 2)                                               \* CALLDATASIZE
      [] op = 56 -> Simple(0, <<Len(code)>>, 2)                                                  \* CODESIZE
      [] op \in {55, 57, 62} ->                                    \* CALLDATACOPY CODECOPY RETURNDATACOPY (dst, src, len)
            IF op = 62 /\ ~Has(BYZANTIUM) THEN Halt(mm)
            ELSE IF n < 3 THEN Halt(mm) ELSE IF ~NumOk(3) THEN Cut(mm)
            ELSE LET src == IF op = 55 THEN f.input ELSE IF op = 57 THEN code ELSE f.rdata
                     c == IF Far(s0, s2) THEN 0 ELSE 3 + 3 * Words(s2) + MemCost(f.mem, s0, s2) IN
                 IF op = 62 /\ s1 + s2 > Len(f.rdata) THEN Halt(mm)
                 ELSE IF Far(s0, s2) \/ s1 > MEMLIM THEN (IF f.gas < FarCost(f.mem) THEN Halt(mm) ELSE Cut(mm))
                 ELSE IF f.gas < c THEN Halt(mm)
                 ELSE Go(mm, 3, <<>>, c, [f EXCEPT !.mem = MemWrite(MemGrow(f.mem, s0, s2), s0, Slice0(src, s1, s2))])
      [] op = 58 -> Simple(0, <<EffPrice(mm.tx)>>, 2)                                            \* GASPRICE
      [] op = 59 ->                                                                              \* EXTCODESIZE
            IF n < 1 THEN Halt(mm) ELSE IF s0 \notin AddrU THEN Cut(mm)
            ELSE LET c == Access(Warm(mm, s0), G_extcode) IN
                 IF f.gas < c THEN Halt(mm) ELSE Go([mm EXCEPT !.accA = @ \cup {s0}], 1, <<Len(w[s0].code)>>, c, f)
      [] op = 60 ->                                                  \* EXTCODECOPY (addr, dst, src, len)
            IF n < 4 THEN Halt(mm) ELSE IF s0 \notin AddrU \/ ~InDom(s1) \/ ~InDom(s2) \/ ~InDom(s3) THEN Cut(mm)
            ELSE LET c == IF Far(s1, s3) THEN 0 ELSE Access(Warm(mm, s0), G_extcode) + 3 * Words(s3) + MemCost(f.mem, s1, s3) IN
                 IF Far(s1, s3) \/ s2 > MEMLIM THEN (IF f.gas < FarCost(f.mem) THEN Halt(mm) ELSE Cut(mm))
                 ELSE IF f.gas < c THEN Halt(mm)
                 ELSE Go([mm EXCEPT !.accA = @ \cup {s0}], 4, <<>>, c,
                         [f EXCEPT !.mem = MemWrite(MemGrow(f.mem, s1, s3), s1, Slice0(w[s0].code, s2, s3))])
      [] op = 61 -> IF ~Has(BYZANTIUM) THEN Halt(mm) ELSE Simple(0, <<Len(f.rdata)>>, 2)         \* RETURNDATASIZE
      [] op = 63 ->                                             \* EXTCODEHASH: zero for a dead account, else a hash (not modelled)
            IF ~Has(CONSTANTINOPLE) THEN Halt(mm)
            ELSE IF n < 1 THEN Halt(mm) ELSE IF s0 \notin AddrU THEN Cut(mm)
            ELSE LET c == Access(Warm(mm, s0), G_exthash) IN
                 IF f.gas < c THEN Halt(mm)
                 ELSE IF ~(~w[s0].ex \/ EmptyAcct(w[s0])) THEN Cut(mm)
                 ELSE Go([mm EXCEPT !.accA = @ \cup {s0}], 1, <<0>>, c, f)
      [] op = 65 -> Simple(0, <<mm.tx.cb>>, 2)                                                   \* COINBASE
      [] op = 66 -> Simple(0, <<BlockTime>>, 2)                                                  \* TIMESTAMP
      [] op = 67 -> Simple(0, <<BlockNumber>>, 2)                                                \* NUMBER
      [] op = 69 -> Simple(0, <<BlockGasLimit>>, 2)                                              \* GASLIMIT
      [] op = 70 -> IF ~Has(ISTANBUL) THEN Halt(mm) ELSE Simple(0, <<ChainId>>, 2)               \* CHAINID
      [] op = 72 -> IF ~Has(LONDON) THEN Halt(mm) ELSE Simple(0, <<BaseFee>>, 2)                 \* BASEFEE
      [] op = 71 -> IF ~Has(ISTANBUL) THEN Halt(mm) ELSE Simple(0, <<w[self].bal>>, 5)           \* SELFBALANCE
      [] op = 73 -> IF ~Has(CANCUN) THEN Halt(mm)                                                \* BLOBHASH: zero beyond the list
                    ELSE IF n < 1 THEN Halt(mm) ELSE IF ~InDom(s0) \/ s0 < mm.tx.blobs THEN Cut(mm) ELSE Simple(1, <<0>>, 3)
      [] op = 74 -> IF ~Has(CANCUN) THEN Halt(mm) ELSE Simple(0, <<1>>, 2)                       \* BLOBBASEFEE
      [] op = 80 -> Simple(1, <<>>, 2)                                                           \* POP
      [] op = 81 ->                                                                              \* MLOAD
            IF n < 1 THEN Halt(mm) ELSE IF ~InDom(s0) THEN Cut(mm)
            ELSE LET c == IF Far(s0, 32) THEN 0 ELSE 3 + MemCost(f.mem, s0, 32) IN
                 IF Far(s0, 32) THEN (IF f.gas < FarCost(f.mem) THEN Halt(mm) ELSE Cut(mm))
                 ELSE IF f.gas < c THEN Halt(mm)
                 ELSE LET mem1 == MemGrow(f.mem, s0, 32)
                          v == BytesWord(MemRead(mem1, s0, 32)) IN
                      IF v < 0 THEN Cut(mm) ELSE Go(mm, 1, <<v>>, c, [f EXCEPT !.mem = mem1])
      [] op \in {82, 83} ->                                                                      \* MSTORE MSTORE8
            IF n < 2 THEN Halt(mm) ELSE IF ~NumOk(2) THEN Cut(mm)
            ELSE LET len == IF op = 82 THEN 32 ELSE 1
                     c == IF Far(s0, len) THEN 0 ELSE 3 + MemCost(f.mem, s0, len) IN
                 IF Far(s0, len) THEN (IF f.gas < FarCost(f.mem) THEN Halt(mm) ELSE Cut(mm))
                 ELSE IF f.gas < c THEN Halt(mm)
                 ELSE Go(mm, 2, <<>>, c, [f EXCEPT !.mem = MemWrite(MemGrow(f.mem, s0, len), s0,
                                                      IF op = 82 THEN WordBytes(s1) ELSE <<s1 % 256>>)])
      [] op = 84 ->                                                                              \* SLOAD
            IF n < 1 THEN Halt(mm) ELSE IF s0 \notin Slots THEN Cut(mm)
            ELSE LET cold == <<self, s0>> \notin mm.accS
                     c == IF Has(BERLIN) THEN (IF cold THEN 2100 ELSE 100) ELSE G_sload IN
                 IF f.gas < c THEN Halt(mm)
                 ELSE Go([mm EXCEPT !.accS = @ \cup {<<self, s0>>}], 1, <<w[self].stor[s0]>>, c, f)
      [] op = 85 ->                                                                              \* SSTORE
            IF f.static THEN Halt(mm)
            ELSE IF n < 2 THEN Halt(mm) ELSE IF s0 \notin Slots THEN Cut(mm)
            ELSE IF Has(ISTANBUL) /\ f.gas <= 2300 THEN Halt(mm)
            ELSE LET cold == <<self, s0>> \notin mm.accS
                     g == SStoreGas(mm.orig[self].stor[s0], w[self].stor[s0], s1, cold) IN
                 IF f.gas < g[1] THEN Halt(mm)
                 ELSE Go([mm EXCEPT !.accS = @ \cup {<<self, s0>>}, !.world[self].stor[s0] = s1],
                         2, <<>>, g[1], [f EXCEPT !.refund = @ + g[2]])
      [] op \in {86, 87} ->                                                                      \* JUMP JUMPI
            LET k == IF op = 86 THEN 1 ELSE 2
                c == IF op = 86 THEN 8 ELSE 10
                taken == op = 86 \/ s1 # 0 IN
            IF n < k \/ f.gas < c THEN Halt(mm)
            ELSE IF ~taken THEN Go(mm, k, <<>>, c, f)
            ELSE IF s0 \notin f.dests THEN Halt(mm)
            ELSE SetTop(mm, [f EXCEPT !.stack = Drop(st, k), !.gas = @ - c, !.pc = s0])
      [] op = 88 -> Simple(0, <<pc>>, 2)                                                         \* PC
      [] op = 89 -> Simple(0, <<Len(f.mem)>>, 2)                                                 \* MSIZE
      [] op = 90 -> IF f.gas < 2 THEN Halt(mm) ELSE Simple(0, <<f.gas - 2>>, 2)                  \* GAS
      [] op = 91 -> Simple(0, <<>>, 1)                                                           \* JUMPDEST
      [] op = 92 -> IF ~Has(CANCUN) THEN Halt(mm)                                                \* TLOAD
                    ELSE IF n < 1 THEN Halt(mm) ELSE IF s0 \notin Slots THEN Cut(mm)
                    ELSE Simple(1, <<mm.tst[self][s0]>>, 100)
      [] op = 93 -> IF ~Has(CANCUN) \/ f.static THEN Halt(mm)                                    \* TSTORE
                    ELSE IF n < 2 THEN Halt(mm) ELSE IF s0 \notin Slots THEN Cut(mm)
                    ELSE IF f.gas < 100 THEN Halt(mm)
                    ELSE Go([mm EXCEPT !.tst[self][s0] = s1], 2, <<>>, 100, f)
      [] op = 94 ->                                                                              \* MCOPY (dst, src, len)
            IF ~Has(CANCUN) THEN Halt(mm)
            ELSE IF n < 3 THEN Halt(mm) ELSE IF ~NumOk(3) THEN Cut(mm)
            ELSE LET far == Far(Max(s0, s1), s2)
                     c == IF far THEN 0 ELSE 3 + 3 * Words(s2) + (IF s2 = 0 THEN 0 ELSE MemCost(f.mem, Max(s0, s1), s2)) IN
                 IF far THEN (IF f.gas < FarCost(f.mem) THEN Halt(mm) ELSE Cut(mm))
                 ELSE IF f.gas < c THEN Halt(mm)
                 ELSE LET mem1 == MemGrow(f.mem, Max(s0, s1), s2) IN
                      Go(mm, 3, <<>>, c, [f EXCEPT !.mem = MemWrite(mem1, s0, MemRead(mem1, s1, s2))])
      [] op = 95 -> IF ~Has(SHANGHAI) THEN Halt(mm) ELSE Simple(0, <<0>>, 2)                     \* PUSH0
      [] op >= 96 /\ op <= 127 ->                                                                \* PUSH1..PUSH32
            LET k == op - 95
                bs == Slice0(code, pc + 1, k)
                v == IF k <= 32 THEN BytesWord(Zeros(32 - k) \o bs) ELSE -1 IN
            IF n + 1 > 1024 \/ f.gas < 3 THEN Halt(mm)
            ELSE IF v < 0 THEN Cut(mm)
            ELSE SetTop(mm, [f EXCEPT !.stack = Append(st, v), !.gas = @ - 3, !.pc = pc + 1 + k])
      [] op >= 128 /\ op <= 143 ->                                                               \* DUP1..DUP16
            LET k == op - 127 IN
            IF n < k THEN Halt(mm) ELSE Simple(0, <<Top(st, k - 1)>>, 3)
      [] op >= 144 /\ op <= 159 ->                                                               \* SWAP1..SWAP16
            LET k == op - 143 IN
            IF n < k + 1 \/ f.gas < 3 THEN Halt(mm)
            ELSE SetTop(mm, [f EXCEPT !.stack = [i \in 1..n |-> IF i = n THEN st[n - k] ELSE IF i = n - k THEN st[n] ELSE st[i]],
                                      !.gas = @ - 3, !.pc = pc + 1])
      [] op >= 160 /\ op <= 164 ->                                                               \* LOG0..LOG4
            LET k == op - 160 IN
            IF f.static THEN Halt(mm)
            ELSE IF n < k + 2 THEN Halt(mm) ELSE IF ~NumOk(2) THEN Cut(mm)
            ELSE LET c == IF Far(s0, s1) THEN 0 ELSE 375 + 375 * k + 8 * s1 + MemCost(f.mem, s0, s1) IN
                 IF Far(s0, s1) THEN (IF f.gas < FarCost(f.mem) THEN Halt(mm) ELSE Cut(mm))
                 ELSE IF f.gas < c THEN Halt(mm)
                 ELSE LET mem1 == MemGrow(f.mem, s0, s1)
                          lg == [addr |-> self, topics |-> [i \in 1..k |-> Top(st, i + 1)], data |-> MemRead(mem1, s0, s1)] IN
                      Go(Ev([mm EXCEPT !.logs = Append(@, lg)], <<"log", Depth(mm)>>), k + 2, <<>>, c, [f EXCEPT !.mem = mem1])
      [] op \in {240, 245} ->                                                                    \* CREATE CREATE2
            LET k == IF op = 240 THEN 3 ELSE 4 IN
            IF op = 245 /\ ~Has(CONSTANTINOPLE) THEN Halt(mm)
            ELSE IF f.static THEN Halt(mm)
            ELSE IF n < k THEN Halt(mm) ELSE IF ~NumOk(k) THEN Cut(mm)
            ELSE LET val == s0  off == s1  len == s2  salt == IF op = 245 THEN s3 ELSE 0
                     c == IF Far(off, len) THEN 0
                          ELSE 32000 + MemCost(f.mem, off, len) + (IF Has(SHANGHAI) THEN 2 * Words(len) ELSE 0)
                               + (IF op = 245 THEN 6 * Words(len) ELSE 0) IN
                 IF Has(SHANGHAI) /\ len > 49152 THEN Halt(mm)
                 ELSE IF Far(off, len) THEN (IF f.gas < FarCost(f.mem) THEN Halt(mm) ELSE Cut(mm))
                 ELSE IF f.gas < c THEN Halt(mm)
                 ELSE LET mem1 == MemGrow(f.mem, off, len)
                          rest == f.gas - c
                          fwd == IF Has(TANGERINE) THEN rest - rest \div 64 ELSE rest
                          f1 == [f EXCEPT !.stack = Drop(st, k), !.gas = rest - fwd, !.pc = pc + 1, !.mem = mem1, !.rdata = <<>>] IN
                      DoCreate(SetTop(mm, f1), IF op = 240 THEN "create" ELSE "create2", fwd, self, val, MemRead(mem1, off, len), salt)
      [] op \in {241, 242, 244, 250} ->                                     \* CALL CALLCODE DELEGATECALL STATICCALL
            LET hasVal == op \in {241, 242}
                k == IF hasVal THEN 7 ELSE 6
                g == s0  to == s1
                val == IF hasVal THEN s2 ELSE 0
                inOff == Top(st, k - 4)  inLen == Top(st, k - 3)  outOff == Top(st, k - 2)  outLen == Top(st, k - 1) IN
            IF (op = 244 /\ ~Has(HOMESTEAD)) \/ (op = 250 /\ ~Has(BYZANTIUM)) THEN Halt(mm)
            ELSE IF n < k THEN Halt(mm)
            ELSE IF \E i \in 0..(k - 1) : i # 1 /\ ~InDom(Top(st, i)) THEN Cut(mm)
            ELSE IF to \notin AddrU THEN Cut(mm)
            ELSE IF op = 241 /\ f.static /\ val > 0 THEN Halt(mm)
            ELSE LET big == Far(inOff, inLen) \/ Far(outOff, outLen)
                     cm1 == IF big THEN 0 ELSE MemCost(f.mem, inOff, inLen)
                     mem1 == IF big THEN f.mem ELSE MemGrow(f.mem, inOff, inLen)
                     cm2 == IF big THEN 0 ELSE MemCost(mem1, outOff, outLen)
                     mem2 == IF big THEN f.mem ELSE MemGrow(mem1, outOff, outLen)
                     cacc == Access(Warm(mm, to), G_call)
                     cval == IF val > 0 THEN 9000 ELSE 0
                     cnew == IF op # 241 THEN 0
                             ELSE IF Has(SPURIOUS) THEN (IF val > 0 /\ Dead(w, to) THEN 25000 ELSE 0)
                             ELSE (IF ~w[to].ex THEN 25000 ELSE 0)
                     dlg == IF Has(PRAGUE) THEN DelegOf(w[to].code) ELSE 0
                     \* (the call target itself has just been accessed: a self-delegation finds it warm)
                     cdel == IF dlg # 0 THEN (IF Warm(mm, dlg) \/ dlg = to THEN 100 ELSE 2600) ELSE 0
                     c == cm1 + cm2 + cacc + cval + cnew + cdel IN
                 IF big THEN (IF f.gas < FarCost(f.mem) THEN Halt(mm) ELSE Cut(mm))
                 ELSE IF f.gas < c THEN Halt(mm)
                 ELSE LET rest == f.gas - c
                          fwd == IF Has(TANGERINE) THEN Min(g, rest - rest \div 64) ELSE g IN
                      IF fwd > rest THEN Halt(mm)
                      ELSE LET cg == fwd + (IF val > 0 THEN 2300 ELSE 0)
                               f1 == [f EXCEPT !.stack = Drop(st, k), !.gas = rest - fwd, !.pc = pc + 1, !.mem = mem2, !.rdata = <<>>]
                               \* (the target and, for a delegated account, the delegation target are accessed -- and
                               \* stay warm -- when the instruction is priced, also if the call then fails for lack of
                               \* funds or depth and no frame is made)
                               m1 == SetTop([mm EXCEPT !.accA = @ \cup {to} \cup (IF dlg # 0 THEN {dlg} ELSE {})], f1)
                               input == MemRead(mem2, inOff, inLen) IN
                           IF op = 241 THEN DoCall(m1, "call", cg, to, to, self, val, val, input, outOff, outLen, f.static)
                           ELSE IF op = 242 THEN DoCall(m1, "callcode", cg, self, to, self, val, val, input, outOff, outLen, f.static)
                           ELSE IF op = 244 THEN DoCall(m1, "delegate", cg, self, to, f.caller, 0, f.value, input, outOff, outLen, f.static)
                           ELSE DoCall(m1, "static", cg, to, to, self, 0, 0, input, outOff, outLen, TRUE)
      [] op \in {243, 253} ->                                                                    \* RETURN REVERT
            IF op = 253 /\ ~Has(BYZANTIUM) THEN Halt(mm)
            ELSE IF n < 2 THEN Halt(mm) ELSE IF ~NumOk(2) THEN Cut(mm)
            ELSE LET c == IF Far(s0, s1) THEN 0 ELSE MemCost(f.mem, s0, s1) IN
                 IF Far(s0, s1) THEN (IF f.gas < FarCost(f.mem) THEN Halt(mm) ELSE Cut(mm))
                 ELSE IF f.gas < c THEN Halt(mm)
                 ELSE FrameEnd(mm, IF op = 243 THEN "ok" ELSE "revert", MemRead(MemGrow(f.mem, s0, s1), s0, s1), f.gas - c)
      [] op = 255 ->                                                                             \* SELFDESTRUCT
            IF f.static THEN Halt(mm)
            ELSE IF n < 1 THEN Halt(mm) ELSE IF s0 \notin AddrU THEN Cut(mm)
            ELSE LET t == s0
                     bal == w[self].bal
                     cold == Has(BERLIN) /\ ~Warm(mm, t)
                     cnew == IF Has(SPURIOUS) THEN (IF bal > 0 /\ Dead(w, t) THEN 25000 ELSE 0)
                             ELSE IF Has(TANGERINE) THEN (IF ~w[t].ex THEN 25000 ELSE 0) ELSE 0
                     c == (IF Has(TANGERINE) THEN 5000 ELSE 0) + cnew + (IF cold THEN 2600 ELSE 0)
                     destroy == ~Has(CANCUN) \/ self \in mm.ctx
                     ref == IF ~Has(LONDON) /\ self \notin mm.dest THEN 24000 ELSE 0
                     w1 == IF t # self THEN [w EXCEPT ![t].bal = @ + bal, ![t].ex = TRUE, ![self].bal = 0]
                           ELSE IF destroy THEN [w EXCEPT ![self].bal = 0] ELSE w
                     m1 == [mm EXCEPT !.world = w1, !.accA = @ \cup {t},
                                      !.touched = IF t # self THEN @ \cup {t} ELSE @,
                                      !.dest = IF destroy THEN @ \cup {self} ELSE @,
                                      !.burnt = @ + (IF t = self /\ destroy THEN bal ELSE 0)] IN
                 IF f.gas < c THEN Halt(mm)
                 ELSE IF t # self /\ w[t].bal + bal >= TOK THEN Cut(mm)
                 ELSE FrameEnd(SetTop(Ev(m1, <<"selfdestruct", Depth(mm)>>), [f EXCEPT !.refund = @ + ref]), "ok", <<>>, f.gas - c)
      [] op = 254 -> Halt(mm)                                                                    \* INVALID
      [] OTHER -> IF Defined(op) THEN Cut(mm) ELSE Halt(mm)

-----------------------------------------------------------------------------
(* ---------------------------------------------------------------- transactions *)
AlAddrs(tx) == {tx.al[i].addr : i \in 1..Len(tx.al)}
AlSlots(tx) == UNION {{<<tx.al[i].addr, tx.al[i].keys[j]>> : j \in 1..Len(tx.al[i].keys)} : i \in 1..Len(tx.al)}

ValidTx(mm, tx) ==
    /\ tx.gas >= Max(Intrinsic(tx), FloorGas(tx))
    /\ mm.world[Sender].bal >= tx.gas * tx.price + tx.value
    /\ Has(LONDON) => tx.price >= BaseFee
    /\ tx.prio >= 0 => (Has(LONDON) /\ tx.prio <= tx.price)
    /\ tx.blobs > 0 => (Has(CANCUN) /\ tx.to # 0 /\ tx.prio >= 0 /\ tx.auths = <<>>
                        /\ mm.world[Sender].bal >= tx.gas * tx.price + tx.value + tx.blobs * BLOBGAS * 2)
    /\ tx.auths # <<>> => (Has(PRAGUE) /\ tx.to # 0 /\ tx.prio >= 0)
    /\ Has(SHANGHAI) /\ tx.to = 0 => Len(tx.data) <= 49152
    /\ Len(tx.al) > 0 => Has(BERLIN)

\* EIP-7702: process the authorization list (after the sender was charged and its nonce bumped).
\* Each entry: the authority becomes warm; it is skipped if the authority has real code or its
\* nonce differs; otherwise its code becomes the designator (or is cleared for address 0), its
\* nonce is bumped, and 12500 is refunded if the account already existed.  <<world, warm set, refund>>
RECURSIVE ApplyAuths(_, _, _, _)
ApplyAuths(w, acc, ref, auths) ==
    IF auths = <<>> THEN <<w, acc, ref>>
    ELSE LET a == Head(auths)
             au == a.authority
             acc1 == acc \cup {au}
             skip == (w[au].code # <<>> /\ DelegOf(w[au].code) = 0) \/ a.nonce # w[au].nonce
             existed == w[au].ex /\ ~EmptyAcct(w[au])
             w1 == [w EXCEPT ![au].code = IF a.to = 0 THEN <<>> ELSE DelegCode(a.to), ![au].nonce = @ + 1, ![au].ex = TRUE]
         IN IF skip THEN ApplyAuths(w, acc1, ref, Tail(auths))
            ELSE ApplyAuths(w1, acc1, ref + (IF existed THEN 12500 ELSE 0), Tail(auths))

StartTx(mm, tx) ==
    LET w0 == [mm.world EXCEPT ![Sender].bal = @ - tx.gas * EffPrice(tx) - tx.blobs * BLOBGAS,
                               ![Sender].nonce = IF tx.to # 0 THEN @ + 1 ELSE @]
        acc0 == {Sender} \cup (IF tx.to # 0 THEN {tx.to} ELSE {}) \cup Precompiles
                \cup (IF Has(SHANGHAI) THEN {tx.cb} ELSE {}) \cup AlAddrs(tx)
        au == ApplyAuths(w0, acc0, 0, tx.auths)
        w1 == au[1]
        gas == tx.gas - Intrinsic(tx)
        m1 == [mm EXCEPT !.world = w1, !.orig = w1, !.tx = tx, !.ph = "run", !.steps = 0,
                         !.accA = au[2], !.authref = au[3],
                         !.touched = {Sender} \cup {tx.auths[i].authority : i \in 1..Len(tx.auths)},
                         !.accS = AlSlots(tx), !.tst = [a \in AddrU |-> [k \in Slots |-> 0]], !.logs = <<>>,
                         !.dest = {}, !.ctx = {}, !.events = <<>>, !.txcreated = 0,
                         !.txs = Append(@, tx)]
    IN IF tx.to # 0
       THEN DoCall(m1, "txcall", gas, tx.to, tx.to, Sender, tx.value, tx.value, tx.data, 0, 0, FALSE)
       ELSE DoCreate(m1, "txcreate", gas, Sender, tx.value, tx.data, 0)

-----------------------------------------------------------------------------
(* ---------------------------------------------------------------- program snippets (setup phase) *)
P(v) == IF v < 256 THEN <<96, v>> ELSE IF v < 65536 THEN <<97, v \div 256, v % 256>>
        ELSE <<99, (v \div 16777216) % 256, (v \div 65536) % 256, (v \div 256) % 256, v % 256>>
\* write the bytes bs into memory at 0.. with MSTORE8s
RECURSIVE Poke(_, _)
Poke(bs, i) == IF i > Len(bs) THEN <<>> ELSE P(bs[i]) \o P(i - 1) \o <<83>> \o Poke(bs, i + 1)

Targets == Contracts \cup (BaseAddr \ {Sender, Coinbase})
Ret1 == <<96, 1, 96, 0, 243>>                              \* RETURN(0, 1): code = 0x00
InitCodes == {<<>>, <<0>>, <<254>>, Ret1,
              P(2) \o P(1) \o <<85>> \o Ret1,              \* SSTORE(1, 2) then return
              P(Sender) \o <<255>>,                        \* SELFDESTRUCT(sender)
              <<96, 0, 96, 0, 253>>,                       \* REVERT(0, 0)
              P(239) \o P(0) \o <<83>> \o Ret1,            \* code starting with 0xEF
              P(91) \o P(0) \o <<83>> \o P(2) \o P(0) \o <<83>> \o <<96, 2, 96, 0, 243>>,  \* code = JUMPDEST(0x5b) 0x02...
              <<96, 64, 96, 0, 243>>}                      \* RETURN(0, 64): 64 zero bytes, code deposit 12800 gas (often unaffordable)

After == {<<80>>, P(3) \o <<85>>}                          \* POP the result, or SSTORE it to slot 3

SnipsOf(K) ==
    (IF "store" \in K
     THEN {P(v) \o P(k) \o <<85>> : v \in {0, 1, 2}, k \in {0, 1}} \cup {P(k) \o <<84, 80>> : k \in {0, 1}} ELSE {})
    \cup (IF "tstore" \in K
          THEN {P(v) \o P(k) \o <<93>> : v \in {0, 1}, k \in {0}} \cup {P(0) \o <<92>> \o P(2) \o <<85>>} ELSE {})
    \cup (IF "mem" \in K
          THEN {P(v) \o P(o) \o <<82>> : v \in {1, 300}, o \in {0, 33}} \cup {P(o) \o <<81, 80>> : o \in {0, 64}}
               \cup {P(7) \o P(40) \o <<83>>, <<89, 80>>, P(8) \o P(0) \o P(40) \o <<94>>,
                      P(4) \o P(0) \o P(0) \o <<57>>, P(4) \o P(0) \o P(32) \o <<55>>} ELSE {})
    \cup (IF "log" \in K
          THEN {P(0) \o P(0) \o <<160>>, P(7) \o P(2) \o P(0) \o <<161>>, P(8) \o P(7) \o P(33) \o P(0) \o <<162>>} ELSE {})
    \cup (IF "env" \in K
          THEN {<<x, 80>> : x \in {48, 50, 51, 52, 54, 56, 58, 61, 71, 88, 90, 95}}
               \cup {P(a) \o <<x, 80>> : a \in Targets, x \in {49, 59}}
               \cup {P(0) \o <<53, 80>>, <<52>> \o P(2) \o <<85>>, <<51>> \o P(2) \o <<85>>} ELSE {})
    \cup (IF "arith" \in K
          THEN {P(a) \o P(b) \o <<x>> \o P(2) \o <<85>> : a \in {0, 3, 300}, b \in {0, 2, 7}, x \in {1, 2, 3, 4, 6, 16, 17, 20, 22, 23, 24, 27, 28}}
               \cup {P(a) \o <<21>> \o P(2) \o <<85>> : a \in {0, 5}}
          ELSE {})
    \cup (IF "env2" \in K
          THEN {<<x>> \o P(2) \o <<85>> : x \in {58, 65, 66, 67, 69, 70, 72, 74}}
               \cup {P(2) \o <<73>> \o P(2) \o <<85>>}
               \cup {P(a) \o <<63>> \o P(2) \o <<85>> : a \in {172, 173}}
               \cup {P(3) \o P(0) \o P(1) \o P(a) \o <<60>> : a \in Contracts}
          ELSE {})
    \cup (IF "jump" \in K
          THEN {<<88, 96, 5, 1, 86, 91>>, <<96, 1, 88, 96, 5, 1, 87, 91>>, <<96, 0, 88, 96, 5, 1, 87, 91>>, P(1) \o <<86>>} ELSE {})
    \cup (IF "call" \in K
          THEN {P(ol) \o P(0) \o P(il) \o P(0) \o (IF op \in {241, 242} THEN P(v) ELSE <<>>) \o P(t) \o P(g) \o <<op>> \o a :
                  op \in {241, 242, 244, 250}, t \in Targets, v \in {0, 1}, g \in {0, 700, 40000}, il \in {0, 4}, ol \in {0, 32}, a \in After}
          ELSE {})
    \cup (IF "callS" \in K
          THEN {P(32) \o P(0) \o P(0) \o P(0) \o (IF op \in {241, 242} THEN P(v) ELSE <<>>) \o P(t) \o P(g) \o <<op>> \o P(3) \o <<85>> :
                  op \in {241, 242, 244, 250}, t \in {194, 195, 171, 172, 4} \cap (AddrU \cup {4}), v \in {0, 1}, g \in {700, 40000}}
          ELSE {})
    \cup (IF "createS" \in K
          THEN {Poke(ic, 1) \o (IF op = 245 THEN P(0) ELSE <<>>) \o P(Len(ic)) \o P(0) \o P(v) \o <<op>> \o P(3) \o <<85>> :
                  ic \in InitCodes, op \in {240, 245}, v \in {0, 1}}
          ELSE {})
    \* bodies of a callee: write something and return / revert / halt / self-destruct
    \cup (IF "body" \in K
          THEN {P(1) \o P(0) \o <<85>> \o P(32) \o P(0) \o <<243>>, P(1) \o P(0) \o <<85>> \o P(0) \o P(0) \o <<253>>,
                P(1) \o P(0) \o <<85, 254>>, P(171) \o <<255>>, <<>>}
          ELSE {})
    \* every state-changing instruction once (used below STATICCALL chains)
    \cup (IF "write" \in K
          THEN {P(1) \o P(0) \o <<85>>, P(1) \o P(0) \o <<93>>, P(0) \o P(0) \o <<160>>, P(7) \o P(0) \o P(0) \o <<161>>,
                P(8) \o P(7) \o P(0) \o P(0) \o <<162>>, P(0) \o P(0) \o P(0) \o <<240, 80>>, P(0) \o P(0) \o P(0) \o P(0) \o <<245, 80>>,
                P(171) \o <<255>>, P(0) \o P(0) \o P(0) \o P(0) \o P(1) \o P(171) \o P(0) \o <<241, 80>>,
                P(0) \o P(0) \o P(0) \o P(0) \o P(0) \o P(171) \o P(0) \o <<241, 80>>,
                P(0) \o <<84, 80>>, P(0) \o <<92, 80>>}
          ELSE {})
    \* forward to the next contract with each call kind, then store the result
    \cup (IF "fwd" \in K
          THEN {P(0) \o P(0) \o P(0) \o P(0) \o (IF op \in {241, 242} THEN P(0) ELSE <<>>) \o P(t) \o P(60000) \o <<op>> \o a :
                  op \in {241, 242, 244, 250}, t \in {194, 195} \cap AddrU, a \in {<<80>>, <<80>> \o P(0) \o P(0) \o <<253>>}}
          ELSE {})
    \cup (IF "fwd1" \in K
          THEN {P(0) \o P(0) \o P(0) \o P(0) \o (IF op \in {241, 242} THEN P(0) ELSE <<>>) \o P(194) \o P(60000) \o <<op, 80>> : op \in {241, 242, 244}}
          ELSE {})
    \cup (IF "rev" \in K THEN {<<0>>, P(0) \o P(0) \o <<253>>, <<254>>} ELSE {})
    \* cold/warm probes: one access instruction on one address or slot, result stored
    \cup (IF "probe" \in K
          THEN {P(a) \o <<x, 80>> : a \in {171, 172, 173} \cup Coinbases, x \in {49, 59}}
               \cup {P(k) \o <<84, 80>> : k \in {0, 1}} \cup {P(2) \o P(k) \o <<85>> : k \in {0, 1}}
               \cup {P(0) \o P(0) \o P(0) \o P(0) \o P(0) \o P(a) \o P(0) \o <<241, 80>> : a \in {171, 172} \cup Coinbases}
          ELSE {})
    \cup (IF "sfwd" \in K THEN {P(0) \o P(0) \o P(0) \o P(0) \o P(194) \o P(200000) \o <<250, 80>>} ELSE {})
    \cup (IF "fwd2" \in K
          THEN {P(0) \o P(0) \o P(0) \o P(0) \o (IF op \in {241, 242} THEN P(0) ELSE <<>>) \o P(195) \o P(100000) \o <<op, 80>> :
                  op \in {241, 242, 244, 250}}
          ELSE {})
    \* a callee that self-destructs to the EOA when called without calldata and just accepts value otherwise
    \cup (IF "sdcond" \in K THEN {<<54, 96, 7, 87, 96, 171, 255, 91, 0>>} ELSE {})
    \cup (IF "call194v" \in K THEN {P(0) \o P(0) \o P(4) \o P(0) \o P(1) \o P(194) \o P(60000) \o <<241, 80>>} ELSE {})
    \cup (IF "call195" \in K THEN {P(0) \o P(0) \o P(0) \o P(0) \o P(0) \o P(195) \o P(200000) \o <<241, 80>>} ELSE {})
    \cup (IF "call194" \in K THEN {P(0) \o P(0) \o P(0) \o P(0) \o P(0) \o P(194) \o P(60000) \o <<241, 80>>} ELSE {})
    \cup (IF "rdata" \in K
          THEN {<<61>> \o P(2) \o <<85>>, P(1) \o P(0) \o P(0) \o <<62>>, P(33) \o P(0) \o P(0) \o <<62>>,
                P(32) \o <<81>> \o P(2) \o <<85>>}                        \* observe memory word 32..63 (a call's output area)
          ELSE {})
    \* callees that return / revert with NON-ZERO data (what the caller finds in its output area and in
    \* its return data buffer is then observable)
    \cup (IF "bodyD" \in K
          THEN {P(7) \o P(0) \o <<82>> \o P(32) \o P(0) \o <<243>>, P(7) \o P(0) \o <<82>> \o P(64) \o P(0) \o <<243>>,
                P(7) \o P(0) \o <<82>> \o P(32) \o P(0) \o <<253>>}
          ELSE {})
    \* calls with input mem[0..32) = 7 and output area mem[32..64): every call kind to the next contract
    \* and to the identity precompile; result stored
    \cup (IF "callD" \in K
          THEN {P(7) \o P(0) \o <<82>> \o P(32) \o P(32) \o P(32) \o P(0) \o (IF op \in {241, 242} THEN P(0) ELSE <<>>) \o P(t)
                  \o P(40000) \o <<op>> \o P(3) \o <<85>> : op \in {241, 242, 244, 250}, t \in {194, 4}}
          ELSE {})
    \* a further CALL with output area mem[32..64) and no input: to the next contract, an EOA, the identity precompile
    \cup (IF "callO" \in K
          THEN {P(32) \o P(32) \o P(0) \o P(0) \o P(0) \o P(t) \o P(40000) \o <<241>> \o P(3) \o <<85>> : t \in {194, 171, 4}}
          ELSE {})
    \cup (IF "create" \in K
          THEN {Poke(ic, 1) \o (IF op = 245 THEN P(sl) ELSE <<>>) \o P(Len(ic)) \o P(0) \o P(v) \o <<op>> \o a :
                  ic \in InitCodes, op \in {240, 245}, sl \in {0, 1}, v \in {0, 1}, a \in After}
          ELSE {})
    \* unbounded self-recursion forwarding all gas (depth-limit probe), optionally after failing siblings
    \cup (IF "recurse0" \in K THEN {P(0) \o P(0) \o P(0) \o P(0) \o P(0) \o <<48, 90>> \o P(60) \o <<144, 3, 241, 80>>} ELSE {})
    \cup (IF "recurse" \in K
          THEN {pre \o P(0) \o P(0) \o P(0) \o P(0) \o P(0) \o <<48, 90>> \o P(60) \o <<144, 3, 241, 80>> :   \* CALL(gas - 60, self, 0, ..)
                  pre \in {<<>>,
                           P(0) \o P(0) \o P(0) \o P(0) \o P(9) \o P(171) \o P(0) \o <<241, 80>>,      \* value > balance: fails
                           P(0) \o P(0) \o P(0) \o P(0) \o P(0) \o P(4) \o P(3) \o <<241, 80>>,        \* precompile out of gas
                           P(0) \o P(0) \o P(9) \o <<240, 80>>}}                                         \* CREATE with value > balance
          ELSE {})
    \cup (IF "term" \in K
          THEN {<<0>>, <<254>>, <<12>>, P(0) \o P(0) \o <<243>>, P(32) \o P(0) \o <<243>>, P(0) \o P(0) \o <<253>>,
                P(32) \o P(0) \o <<253>>} \cup {P(t) \o <<255>> : t \in Targets \cup {Sender}} ELSE {})

-----------------------------------------------------------------------------
(* ---------------------------------------------------------------- behaviours *)
W0 == [a \in AddrU |-> IF a \in DOMAIN World0 THEN World0[a] ELSE Blank]
Init ==
    m = [ph |-> "setup", nsnip |-> 0, world |-> W0, world0 |-> W0, orig |-> W0, created |-> PreCreated,
         txs |-> <<>>, res |-> <<>>, tx |-> [to |-> 0, value |-> 0, gas |-> 0, price |-> 0, data |-> <<>>, al |-> <<>>, prio |-> -1, blobs |-> 0, auths |-> <<>>, cb |-> Coinbase, from |-> Sender],
         authref |-> 0,
         accA |-> {}, accS |-> {}, tst |-> [a \in AddrU |-> [k \in Slots |-> 0]], logs |-> <<>>, dest |-> {},
         touched |-> {}, ctx |-> {}, frames |-> <<>>, events |-> <<>>, txcreated |-> 0, cut |-> FALSE, steps |-> 0,
         burnt |-> 0]

\* free setup: two steps, so that a random walk picks the snippet family uniformly and then a member
PickKind == SetupPlan = <<>> /\ m.ph = "setup" /\ m.nsnip < MaxSnips /\ \E k \in SnipKinds : m' = [m EXCEPT !.ph = k]
AddSnippet == m.ph \in SnipKinds /\ \E c \in Contracts, s \in SnipsOf({m.ph}) :
    m' = [m EXCEPT !.world[c].code = @ \o s, !.world0[c].code = @ \o s, !.nsnip = @ + 1, !.ph = "setup"]
\* planned setup: the product of the plan's choices
PlanStep == SetupPlan # <<>> /\ m.ph = "setup" /\ m.nsnip < Len(SetupPlan) /\
    LET st == SetupPlan[m.nsnip + 1] IN
    \E s \in SnipsOf(st.kinds) :
        m' = [m EXCEPT !.world[st.c].code = @ \o s, !.world0[st.c].code = @ \o s, !.nsnip = @ + 1]

EndSetup == m.ph = "setup" /\ (SetupPlan = <<>> \/ m.nsnip = Len(SetupPlan)) /\ m' = [m EXCEPT !.ph = "tx"]

TxData == {<<>>, <<0, 0, 0, 7>>, <<1>>, [i \in 1..40 |-> 1]}
\* authorization lists: an EOA, an absent and an empty account as authorities, contracts as delegates,
\* right and wrong nonces, clearing, a contract as (ineligible) authority
Auth(au, to, nonce) == [authority |-> au, to |-> to, nonce |-> nonce]
AuthLists == {<<>>, <<>>, <<>>} \cup
    {<<Auth(171, c, n)>> : c \in Contracts \cup {0}, n \in {1, 2}} \cup
    {<<Auth(172, c, 0)>> : c \in Contracts} \cup {<<Auth(173, c, 0)>> : c \in Contracts} \cup
    {<<Auth(171, c, 1), Auth(172, d, 0)>> : c \in Contracts, d \in Contracts} \cup
    {<<Auth(171, c, 1), Auth(171, 0, 2)>> : c \in Contracts} \cup
    {<<Auth(c, d, 1)>> : c \in Contracts, d \in Contracts}
TxInit == {Ret1, P(2) \o P(1) \o <<85>> \o Ret1, <<254>>, <<96, 64, 96, 0, 243>>}
\* (EIP-2930 allows an address to be listed more than once; every listed key counts, whichever entry lists it)
AccessLists == {<<>>} \cup (IF Has(BERLIN)
                            THEN LET c1 == CHOOSE c \in Contracts : \A d \in Contracts : c <= d
                                     c2 == CHOOSE c \in Contracts : \A d \in Contracts : c >= d IN
                                 {<<[addr |-> c, keys |-> <<0>>]>> : c \in Contracts}
                                 \cup {<<[addr |-> c1, keys |-> <<0>>], [addr |-> c1, keys |-> <<1>>]>>,
                                        <<[addr |-> c2, keys |-> <<>>], [addr |-> c1, keys |-> <<1>>], [addr |-> c2, keys |-> <<0, 1>>]>>}
                            ELSE {})
\* The transaction is chosen in two steps when TxVariety is on -- first its *shape* (access list, 1559 tip, blobs,
\* authorization list), then addressee, value, gas, price, coinbase and data -- so that TLC's simulator, which
\* enumerates every successor before it picks one, faces the sum and not the product of the two choice spaces.
\* The set of transactions is the same as with one step.
Shapes == IF TxVariety
          THEN {sh \in [al : AccessLists, prio : (IF Has(LONDON) THEN {-1, 0, 2} ELSE {-1}),
                        blobs : (IF Has(CANCUN) THEN {0, 2} ELSE {0}), auths : (IF Has(PRAGUE) THEN AuthLists ELSE {<<>>})] :
                   /\ sh.blobs > 0 => (sh.prio >= 0 /\ sh.auths = <<>>)        \* (the shape-level part of ValidTx)
                   /\ sh.auths # <<>> => sh.prio >= 0}
          ELSE {[al |-> <<>>, prio |-> -1, blobs |-> 0, auths |-> <<>>]}
ChooseShape == m.ph = "tx" /\ TxVariety /\ Len(m.res) < MaxTx /\
    \E sh \in Shapes : m' = [m EXCEPT !.ph = "tx2", !.tx = [@ EXCEPT !.al = sh.al, !.prio = sh.prio, !.blobs = sh.blobs, !.auths = sh.auths]]
TxWith(sh, to, value, gas, price, cb, data) ==
    [to |-> to, value |-> value, gas |-> gas, price |-> price, data |-> data, al |-> sh.al, prio |-> sh.prio,
     blobs |-> sh.blobs, auths |-> sh.auths, cb |-> cb, from |-> Sender]
ChooseRest(sh) ==
    \E to \in TxTargets, value \in (IF TxVariety THEN {0, 1} ELSE TxValues), gas \in TxGas, price \in GasPrices, cb \in Coinbases :
      \E data \in (IF to = 0 THEN TxInit ELSE IF TxVariety THEN TxData ELSE {<<>>}) :
        LET tx == TxWith(sh, to, value, gas, price, cb, data) IN
        ValidTx(m, tx) /\ m' = StartTx(m, tx)
NoRest(sh) ==
    \A to \in TxTargets, value \in (IF TxVariety THEN {0, 1} ELSE TxValues), gas \in TxGas, price \in GasPrices, cb \in Coinbases :
      \A data \in (IF to = 0 THEN TxInit ELSE IF TxVariety THEN TxData ELSE {<<>>}) :
        ~ValidTx(m, TxWith(sh, to, value, gas, price, cb, data))
ChooseTx == Len(m.res) < MaxTx /\
    IF m.ph = "tx2" THEN ChooseRest(m.tx)
    ELSE m.ph = "tx" /\ ~TxVariety /\ ChooseRest([al |-> <<>>, prio |-> -1, blobs |-> 0, auths |-> <<>>])
\* a shape for which no valid transaction exists in this state is given back
Abandon == m.ph = "tx2" /\ NoRest(m.tx) /\ m' = [m EXCEPT !.ph = "tx"]

\* A transaction that validation rejects (its sender cannot pay gas limit * price): no effect at all,
\* whatever the sender and however often it is submitted (C02, C31).  Senders: a poor EOA, an empty account.
RejectedTx == m.ph = "tx" /\ Len(m.res) < MaxTx /\ Rejections /\ \E from \in {171, 173} \cap BaseAddr, to \in TxTargets \ {0} :
    LET tx == [to |-> to, value |-> 0, gas |-> 100000, price |-> 10, data |-> <<>>, al |-> <<>>, prio |-> -1,
               blobs |-> 0, auths |-> <<>>, cb |-> Coinbase, from |-> from] IN
    /\ m.world[from].bal < 100000 * 10 /\ m.world[from].code = <<>>
    /\ m' = [m EXCEPT !.txs = Append(@, tx),
                      !.res = Append(@, [status |-> "invalid", gas_used |-> 0, refunded |-> 0, out |-> <<>>, logs |-> <<>>,
                                         created |-> 0, events |-> <<>>])]

Run == m.ph = "run" /\ m' = (IF m.steps >= StepBound THEN Cut(m) ELSE Step([m EXCEPT !.steps = @ + 1]))

Emit == PrintT("REPLAY " \o ToJson([fork |-> Fork, world0 |-> m.world0, txs |-> m.txs, res |-> m.res,
                                      created |-> m.created, world |-> m.world, basefee |-> BaseFee,
                                      sender |-> Sender, coinbase |-> Coinbase]))
Finish == m.ph = "tx" /\ Len(m.res) >= 1 /\ ~m.cut /\ m' = [m EXCEPT !.ph = "done"] /\ Emit

Next == PickKind \/ AddSnippet \/ PlanStep \/ EndSetup \/ ChooseShape \/ ChooseTx \/ Abandon \/ RejectedTx \/ Run \/ Finish
Spec == Init /\ [][Next]_vars
View == m

-----------------------------------------------------------------------------
(* ---------------------------------------------------------------- properties of the specification *)

\* C08: between transactions, ether is conserved up to what was burnt (base fee, self-destruct to self)
Conservation == (m.ph \in {"tx", "done"} /\ ~m.cut) => SumBal(m.world, AddrU) + m.burnt = SumBal(W0, AddrU)
\* C07: the frame stack never exceeds the limit, and callbacks are balanced at transaction end
DepthBounded == Len(m.frames) <= 1025
\* C09: gas accounting of finished transactions
GasRules == \A i \in 1..Len(m.res) :
    LET r == m.res[i]  t == m.txs[i] IN
    IF r.status = "invalid" THEN r.gas_used = 0
    ELSE
    \* intrinsic gas is a lower bound of what is spent before the refund (the refund itself may
    \* take the reported figure below it, as on mainnet); the EIP-7623 floor binds the final figure
    /\ r.gas_used <= t.gas /\ r.gas_used + r.refunded >= Intrinsic(t) /\ r.gas_used >= FloorGas(t)
    /\ r.status = "halt" => r.gas_used + r.refunded = t.gas          \* (refunded > 0 only through EIP-7702)
    /\ r.status # "ok" => r.refunded <= 12500 * Len(t.auths)
    /\ r.refunded * (IF Has(LONDON) THEN 5 ELSE 2) <= r.gas_used + r.refunded
\* C10: a static frame never changes the world (checked at every step)
StaticFrozen == \A i \in 1..Len(m.frames) : m.frames[i].static =>
    (\A j \in (i + 1)..Len(m.frames) : m.frames[j].static)
=============================================================================
