------------------------------- MODULE Bignum -------------------------------
(* Natural numbers of arbitrary size for a model checker whose integers have 32 bits.

   A NUMBER is a finite sequence of LIMBS, least significant limb first; every limb is an integer in
   0 .. B-1 where B = 2^W and W (bits per limb) is the only constant of the module.  The sequence
   a = <<a[1], ..., a[n]>> stands for the natural number

        Value(a) = a[1] + a[2]*B + ... + a[n]*B^(n-1)          (0 <= Value(a) < B^n).

   The LENGTH n is part of the number: operators work modulo B^n ("n-limb words") unless they say
   otherwise, and numbers of different lengths can be mixed where stated (DivMod, MulFull, Resize).
   All operators are uniform in W and in the lengths: nothing below mentions a particular W or n.

   What makes these definitions trustworthy.  Every operator has, next to it, its MEANING written
   with TLC's own integers (section "Meaning").  For small parameters (W = 1, 2, 3, 4, 8 and a few
   limbs, so that every value fits a TLC integer) TLC checks EXHAUSTIVELY, for all operands, that
   the limb algorithm and the integer meaning agree (module BignumCheck; run by checks/alu.py and
   checks/blobfee.py).  Because the algorithms are uniform in W and the lengths, they are then
   instantiated at W = 8 with 32 limbs (256-bit EVM words), 33 and 64 limbs (ADDMOD / MULMOD
   intermediates) and 64 limbs (blob fee arithmetic), where they serve as the oracle.

   TLC notes.  [i \in 1..n |-> e] is evaluated lazily by TLC (e is re-evaluated at every
   application), so every operator returns a FORCED sequence (Force).  Loops are folds over index
   sequences (FoldLeft / FoldRight of the community module SequencesExt, which TLC evaluates
   iteratively), so no deep recursion is needed.  The largest intermediate integer is a column of a
   schoolbook product: min(n, m) * (B-1)^2 + carry, about 4.2 million for W = 8 and 64 limbs. *)
EXTENDS Integers, Sequences, SequencesExt, TLC

CONSTANT W                      \* bits per limb, W >= 1
B == 2^W

Force(s) == s \o <<>>                              \* a strict sequence value equal to s
Tab(n, F(_)) == Force([i \in 1..n |-> F(i)])        \* <<F(1), ..., F(n)>>
Iota(n) == Tab(n, LAMBDA i : i)                     \* <<1, ..., n>>
Down(n) == Tab(n, LAMBDA i : n + 1 - i)             \* <<n, ..., 1>>
BitIdx == Tab(W, LAMBDA i : i - 1)                  \* <<0, ..., W-1>>: bit positions inside a limb
BitIdxDown == Tab(W, LAMBDA i : W - i)              \* <<W-1, ..., 0>>

IsNumber(a) == \A i \in DOMAIN a : a[i] \in 0 .. B - 1

---------------------------------------------------------------------------------------------------
(* Conversions between small integers and numbers. *)

\* The integer a number stands for.  Only meaningful (no 32-bit overflow) when it is < 2^31; the
\* evaluation proceeds from the most significant limb, so leading zero limbs cost nothing.
Value(a) == FoldRight(LAMBDA x, acc : acc * B + x, a, 0)

\* The n-limb number of the integer x >= 0 (reduced modulo B^n).
FromNat(x, n) ==
    FoldLeft(LAMBDA acc, i : <<Append(acc[1], acc[2] % B), acc[2] \div B>>, <<<<>>, x>>, Iota(n))[1]

Zero(n) == Tab(n, LAMBDA i : 0)
One(n) == FromNat(1, n)
AllOnes(n) == Tab(n, LAMBDA i : B - 1)              \* B^n - 1

\* The same natural number with n limbs: zero-extended, or reduced modulo B^n.
Resize(a, n) == Tab(n, LAMBDA i : IF i <= Len(a) THEN a[i] ELSE 0)

IsZero(a) == \A i \in DOMAIN a : a[i] = 0

\* The same natural number without its leading zero limbs (at least one limb is kept).
Trim(a) ==
    LET top == FoldLeft(LAMBDA acc, i : IF a[i] # 0 THEN i ELSE acc, 1, Iota(Len(a)))
    IN SubSeq(a, 1, top)

---------------------------------------------------------------------------------------------------
(* Comparison.  Operands have the same length. *)

\* a < b: going from the least to the most significant limb, the last differing limb decides.
Lt(a, b) == FoldLeft(LAMBDA acc, i : IF a[i] = b[i] THEN acc ELSE a[i] < b[i], FALSE, Iota(Len(a)))
Eq(a, b) == \A i \in DOMAIN a : a[i] = b[i]
Leq(a, b) == ~Lt(b, a)

\* min(Value(a), cap) as an integer, for a small integer cap < B^n: how shift amounts, byte indices
\* and the like are brought down to model integers.
SatInt(a, cap) == IF Lt(a, FromNat(cap, Len(a))) THEN Value(a) ELSE cap

---------------------------------------------------------------------------------------------------
(* Addition and subtraction of n-limb numbers: one pass with a carry / borrow. *)

\* a + b + cin: [limbs |-> the sum modulo B^n, carry |-> 1 iff it did not fit].
AddC(a, b, cin) ==
    LET r == FoldLeft(LAMBDA acc, i : LET s == a[i] + b[i] + acc[2]
                                      IN <<Append(acc[1], s % B), s \div B>>,
                      <<<<>>, cin>>, Iota(Len(a)))
    IN [limbs |-> r[1], carry |-> r[2]]

\* a - b - bin: [limbs |-> the difference modulo B^n, borrow |-> 1 iff a < b + bin].
SubB(a, b, bin) ==
    LET r == FoldLeft(LAMBDA acc, i : LET d == a[i] - b[i] - acc[2]
                                      IN <<Append(acc[1], IF d < 0 THEN d + B ELSE d), IF d < 0 THEN 1 ELSE 0>>,
                      <<<<>>, bin>>, Iota(Len(a)))
    IN [limbs |-> r[1], borrow |-> r[2]]

Add(a, b) == AddC(a, b, 0).limbs                    \* (a + b) mod B^n
Sub(a, b) == SubB(a, b, 0).limbs                    \* (a - b) mod B^n
Neg(a) == Sub(Zero(Len(a)), a)                      \* (-a) mod B^n: two's complement negation

---------------------------------------------------------------------------------------------------
(* Multiplication: schoolbook, column by column. *)

\* Columns 1..cols of the product of a (n limbs) and b (m limbs): the product modulo B^cols.
\* Column k collects a[i] * b[j] for i + j = k + 1, plus the carry of column k - 1.
MulCols(a, b, cols) ==
    LET n == Len(a)
        m == Len(b)
        idx == Iota(n)
        Col(k) == LET lo == IF k + 1 - m > 1 THEN k + 1 - m ELSE 1
                      hi == IF k < n THEN k ELSE n
                  IN FoldLeft(LAMBDA s, i : s + a[i] * b[k + 1 - i], 0, SubSeq(idx, lo, hi))
    IN FoldLeft(LAMBDA acc, k : LET s == Col(k) + acc[2]
                                IN <<Append(acc[1], s % B), s \div B>>,
                <<<<>>, 0>>, Iota(cols))[1]

MulFull(a, b) == MulCols(a, b, Len(a) + Len(b))     \* the exact product, Len(a) + Len(b) limbs
Mul(a, b) == MulCols(a, b, Len(a))                  \* (a * b) mod B^n, n = Len(a)

---------------------------------------------------------------------------------------------------
(* Shifts by a model integer s >= 0, on n-limb words: q whole limbs and r further bits. *)

Limb(a, i) == IF i >= 1 /\ i <= Len(a) THEN a[i] ELSE 0

\* (a * 2^s) mod B^n.
ShlI(a, s) ==
    LET q == s \div W
        r == s % W
    IN Tab(Len(a), LAMBDA i : ((Limb(a, i - q) * 2^r) % B) + (Limb(a, i - q - 1) \div 2^(W - r)))

\* a \div 2^s.
ShrI(a, s) ==
    LET q == s \div W
        r == s % W
    IN Tab(Len(a), LAMBDA i : (Limb(a, i + q) \div 2^r) + ((Limb(a, i + q + 1) * 2^(W - r)) % B))

---------------------------------------------------------------------------------------------------
(* Bits. *)

Bit(a, k) == (a[k \div W + 1] \div 2^(k % W)) % 2    \* bit k (0 = least significant), k < n*W
TopBit(a) == Bit(a, Len(a) * W - 1)                  \* the sign bit of a two's complement word

\* Number of significant bits: 0 for zero, otherwise 1 + the position of the highest set bit.
BitLen(a) ==
    LET top == FoldLeft(LAMBDA acc, i : IF a[i] # 0 THEN i ELSE acc, 0, Iota(Len(a)))
        LimbLen(x) == FoldLeft(LAMBDA acc, k : IF (x \div 2^k) % 2 = 1 THEN k + 1 ELSE acc, 0, BitIdx)
    IN IF top = 0 THEN 0 ELSE (top - 1) * W + LimbLen(a[top])

\* A limb combined bit by bit: f gives the result bit (0 or 1) from the two operand bits.
LimbBits(f(_, _), x, y) ==
    FoldLeft(LAMBDA s, k : s + 2^k * f((x \div 2^k) % 2, (y \div 2^k) % 2), 0, BitIdx)

And(a, b) == Tab(Len(a), LAMBDA i : LimbBits(LAMBDA p, q : p * q, a[i], b[i]))
Or(a, b)  == Tab(Len(a), LAMBDA i : LimbBits(LAMBDA p, q : p + q - p * q, a[i], b[i]))
Xor(a, b) == Tab(Len(a), LAMBDA i : LimbBits(LAMBDA p, q : (p + q) % 2, a[i], b[i]))
Not(a)    == Tab(Len(a), LAMBDA i : B - 1 - a[i])

---------------------------------------------------------------------------------------------------
(* Division with remainder: long division, one limb of the dividend at a time, each quotient limb
   found bit by bit (restoring division).

   a has n limbs, d has m limbs, d # 0.  Result [q |-> n limbs, r |-> m limbs] with
   Value(a) = Value(q) * Value(d) + Value(r) and Value(r) < Value(d).

   The running remainder rem (< d) becomes rem * B + (next limb of a), which is < d * B and so fits
   m + 1 limbs; then for k = W-1 .. 0, if d * 2^k still fits into it, it is taken out and bit k of
   the quotient limb is set.  d * 2^k < B^(m+1), so the shifted divisors fit m + 1 limbs too.
   Leading zero limbs of a are skipped: they leave the remainder 0 and give quotient limbs 0. *)
DivMod(a, d) ==
    LET n == Len(a)
        m == Len(d)
        dx == Resize(d, m + 1)
        ds == Tab(W, LAMBDA k : ShlI(dx, k - 1))                   \* ds[k+1] = d * 2^k
        Digit(rem) ==                                              \* rem has m + 1 limbs
            FoldLeft(LAMBDA acc, k : LET t == SubB(acc[1], ds[k + 1], 0)
                                     IN IF t.borrow = 1 THEN acc ELSE <<t.limbs, acc[2] + 2^k>>,
                     <<rem, 0>>, BitIdxDown)
        Step(acc, i) ==                                            \* acc = <<rem (m limbs), quotient so far>>
            LET dg == Digit(<<a[i]>> \o acc[1])
            IN <<SubSeq(dg[1], 1, m), <<dg[2]>> \o acc[2]>>
        top == FoldLeft(LAMBDA acc, i : IF a[i] # 0 THEN i ELSE acc, 0, Iota(n))   \* a[i] = 0 for i > top
        res == FoldLeft(Step, <<Zero(m), <<>>>>, Down(top))                       \* those limbs give quotient limbs 0
    IN [q |-> res[2] \o Zero(n - top), r |-> res[1]]

---------------------------------------------------------------------------------------------------
(* Meaning: what each operator computes, said with integers.  `a`, `b`, `d` are numbers whose
   values (and the stated results) fit a TLC integer; M(a) is the modulus of a's length. *)

M(a) == B ^ Len(a)

RECURSIVE BitwiseNat(_, _, _, _)
\* The number whose bit i is f(bit i of x, bit i of y), for bits 0 .. k-1.
BitwiseNat(f(_, _), x, y, k) ==
    IF k = 0 THEN 0 ELSE f(x % 2, y % 2) + 2 * BitwiseNat(f, x \div 2, y \div 2, k - 1)

RECURSIVE BitLenNat(_)
BitLenNat(x) == IF x = 0 THEN 0 ELSE 1 + BitLenNat(x \div 2)

MeansUnary(a) ==
    LET x == Value(a) n == Len(a) IN
    /\ IsNumber(a)
    /\ FromNat(x, n) = a
    /\ Value(Resize(a, n + 1)) = x /\ Len(Resize(a, n + 1)) = n + 1
    /\ n > 1 => Value(Resize(a, n - 1)) = x % B^(n - 1)
    /\ IsZero(a) <=> x = 0
    /\ Value(Trim(a)) = x /\ Len(Trim(a)) >= 1 /\ (Len(Trim(a)) = 1 \/ Trim(a)[Len(Trim(a))] # 0)
    /\ Value(Neg(a)) = (-x) % M(a)
    /\ Value(Not(a)) = M(a) - 1 - x
    /\ BitLen(a) = BitLenNat(x)
    /\ TopBit(a) = x \div (M(a) \div 2)
    /\ \A k \in 0 .. n * W - 1 : Bit(a, k) = (x \div 2^k) % 2
    /\ \A s \in 0 .. n * W + W + 1 :
          /\ Value(ShlI(a, s)) = IF s >= n * W THEN 0 ELSE (x * 2^s) % M(a)
          /\ Value(ShrI(a, s)) = IF s >= n * W THEN 0 ELSE x \div 2^s
    /\ \A cap \in {0, 1, 2, x, (x + 1) % M(a), M(a) - 1} : SatInt(a, cap) = IF x < cap THEN x ELSE cap
    /\ Value(Zero(n)) = 0 /\ Value(One(n)) = 1 /\ Value(AllOnes(n)) = M(a) - 1

MeansBinary(a, b) ==
    LET x == Value(a) y == Value(b) IN
    /\ Value(Add(a, b)) = (x + y) % M(a)
    /\ AddC(a, b, 1).carry = (x + y + 1) \div M(a) /\ Value(AddC(a, b, 1).limbs) = (x + y + 1) % M(a)
    /\ Value(Sub(a, b)) = (x - y) % M(a)
    /\ SubB(a, b, 0).borrow = (IF x < y THEN 1 ELSE 0)
    /\ SubB(a, b, 1).borrow = (IF x < y + 1 THEN 1 ELSE 0) /\ Value(SubB(a, b, 1).limbs) = (x - y - 1) % M(a)
    /\ Value(Mul(a, b)) = (x * y) % M(a)
    /\ Lt(a, b) = (x < y) /\ Eq(a, b) = (x = y) /\ Leq(a, b) = (x <= y)
    /\ Value(And(a, b)) = BitwiseNat(LAMBDA p, q : IF p = 1 /\ q = 1 THEN 1 ELSE 0, x, y, Len(a) * W)
    /\ Value(Or(a, b))  = BitwiseNat(LAMBDA p, q : IF p = 1 \/ q = 1 THEN 1 ELSE 0, x, y, Len(a) * W)
    /\ Value(Xor(a, b)) = BitwiseNat(LAMBDA p, q : IF p # q THEN 1 ELSE 0, x, y, Len(a) * W)

\* a and d may have different lengths here.
MeansMixed(a, d) ==
    LET x == Value(a) y == Value(d) IN
    /\ Value(MulFull(a, d)) = x * y /\ Len(MulFull(a, d)) = Len(a) + Len(d)
    /\ y # 0 => LET dm == DivMod(a, d) IN
                /\ Len(dm.q) = Len(a) /\ Len(dm.r) = Len(d) /\ IsNumber(dm.q) /\ IsNumber(dm.r)
                /\ Value(dm.q) = x \div y /\ Value(dm.r) = x % y

=============================================================================
